(* C08 - Every storage is a uid-keyed map; failed mutations change nothing.
   One model serves every backend, parameterised by the listing order (insertion order for Memory and
   Redis, sorted by uid for SQL and Mongo).  K = uids with a decidable equality, V = policies.  `bad` marks a
   policy the backend rejects.  wf = the uids stored are pairwise distinct. *)
From Coq Require Import ZArith List Bool.
From Vakt Require Import Base.PyMonad Model.Store Proofs.StoreP.
Import ListNotations.

Section C08.
  Variables K V : Type.
  Variable keq klt : K -> K -> bool.
  Hypothesis keq_eq : forall a b, keq a b = true <-> a = b.

  (* refinement: in every state reachable by any operation sequence, for either listing order, the storage
     answers lookups like the abstract map obtained by folding the operations (spec_step): add of an absent
     uid binds it, add of a present uid / update or delete of an absent uid / any rejected mutation change
     nothing, update of a present uid rebinds it, delete unbinds it *)
  Theorem C08_refines_map : forall o ops s, wf K V s ->
    wf K V (fst (run K V keq klt o s ops)) /\
    forall k, abs K V keq (fst (run K V keq klt o s ops)) k = fold_left (spec_step K V keq) ops (abs K V keq s) k.
  Proof. intros o ops s Hw. split; [apply run_wf|apply run_refines]; assumption. Qed.

  Theorem C08_outputs : forall o s p,
    match p with
    | Add u x bad =>
        snd (step K V keq klt o s p) =
        (if bad then ORejected else match abs K V keq s u with Some _ => OExists | None => ODone end)
    | Update u x bad =>
        snd (step K V keq klt o s p) =
        (match abs K V keq s u with Some _ => if bad then ORejected else ODone | None => ODone end)
    | Delete u => snd (step K V keq klt o s p) = ODone
    | Get u => snd (step K V keq klt o s p) = OGet (abs K V keq s u)
    | _ => True
    end.
  Proof. apply step_outputs. Qed.

  (* a mutation that raises leaves the stored set exactly as it was; so do reads *)
  Theorem C08_failed_mutation_unchanged : forall o s p,
    raised K V (snd (step K V keq klt o s p)) = true -> fst (step K V keq klt o s p) = s.
  Proof. apply raised_unchanged. Qed.

  Theorem C08_absent_unchanged : forall o s u x bad, s_get K V keq u s = None ->
    fst (step K V keq klt o s (Update u x bad)) = s /\ fst (step K V keq klt o s (Delete u)) = s.
  Proof. apply absent_unchanged. Qed.

  Theorem C08_reads_unchanged : forall o s p, is_mutation K V p = false -> fst (step K V keq klt o s p) = s.
  Proof. apply reads_unchanged. Qed.

  (* paging *)
  Theorem C08_paging : forall (s : smap K V),
    (forall off, (0 <= off)%Z -> get_all K V s 0 off = Ok []) /\
    (forall l off, (l < 0 \/ off < 0)%Z -> get_all K V s l off = Raise EValueError) /\
    (forall b n, (0 < b)%Z -> (length s <= n * Z.to_nat b)%nat ->
       concat (map (fun k => page K V s b (Z.of_nat k * b)) (seq 0 n)) = s).
  Proof.
    intros s. split; [apply get_all_limit_zero|]. split; [apply get_all_negative|apply pages_tile].
  Qed.

  (* full retrieval: every stored policy exactly once, for every positive batch size; the paging loop
     never runs out of fuel *)
  Theorem C08_retrieve_all : forall (s : smap K V) b, (0 < b)%Z -> retrieve_all K V s b = Ok (Some s).
  Proof. apply retrieve_all_complete. Qed.

  (* observable wrapper: same results and state as the wrapped storage; reads notify nobody; a mutation that
     returns notifies exactly once, after it has been applied; a mutation that raises notifies nobody *)
  Theorem C08_observable : forall o s p,
    let '(s', x, evs) := observable_step K V keq klt o s p in
    (s', x) = step K V keq klt o s p /\
    (is_mutation K V p = false -> evs = [] /\ s' = s) /\
    (is_mutation K V p = true -> raised K V x = false -> evs = [Applied K V p; Notified K V]) /\
    (is_mutation K V p = true -> raised K V x = true -> evs = [RaisedEv K V p] /\ s' = s).
  Proof. apply observable_events. Qed.
End C08.

Print Assumptions C08_refines_map.
Print Assumptions C08_outputs.
Print Assumptions C08_failed_mutation_unchanged.
Print Assumptions C08_absent_unchanged.
Print Assumptions C08_reads_unchanged.
Print Assumptions C08_paging.
Print Assumptions C08_retrieve_all.
Print Assumptions C08_observable.

(* non-vacuity, at K = V = nat *)
Example C08_nonvacuous :
  let ops := [Add 1 10 false; Add 1 11 false; Add 2 20 true; Update 3 30 false; Delete 2; Add 2 21 false;
              Delete 1; Add 1 12 false] in
  run nat nat Nat.eqb Nat.ltb Insertion [] ops =
    ([(2, 21); (1, 12)], [ODone; OExists; ORejected; ODone; ODone; ODone; ODone; ODone]) /\
  fst (run nat nat Nat.eqb Nat.ltb SortedByUid [] ops) = [(1, 12); (2, 21)] /\
  retrieve_all nat nat [(1, 12); (2, 21); (3, 5)] 2 = Ok (Some [(1, 12); (2, 21); (3, 5)]).
Proof. repeat split; vm_compute; reflexivity. Qed.
