(* C04 - Rules checker: OR over elements, AND over attributes, errors never match. *)
From Coq Require Import ZArith NArith List Bool Permutation.
From Vakt Require Import Base.PyMonad Base.PyVal Model.Regex Model.Rules Model.Policy Model.Checkers
     Proofs.RulesP Proofs.CheckersP.
Import ListNotations.

(* whenever the rules involved raise nothing but Exceptions, the checker never errors and answers the
   disjunction of the element verdicts *)
Theorem C04_iff : forall p f w i,
  Forall (fun e => Forall (rule_benign i) (elem_rules e)) (field_elems p f) ->
  fits_rules p f w i = Ok (existsb (fun e => elem_matches_b e w i) (field_elems p f)).
Proof. exact fits_rules_spec. Qed.
Print Assumptions C04_iff.

(* a rule element matches iff the rule is satisfied by the whole value *)
Theorem C04_rule_element : forall r w i,
  elem_matches_b (ERule r) w i = true <-> exists v, sat r w i = Ok v /\ truthy v = true.
Proof. exact elem_matches_rule. Qed.
Print Assumptions C04_rule_element.

(* an attribute dictionary matches iff it is non-empty, the value is a dictionary containing every listed
   attribute, and each attribute's rule is satisfied by the corresponding value *)
Theorem C04_dict_element : forall kvs w i,
  elem_matches_b (EDict kvs) w i = true <->
  kvs <> [] /\ exists d, w = VDict d /\
    forall k r, In (k, r) kvs -> exists x v, lookup k d = Some x /\ sat r x i = Ok v /\ truthy v = true.
Proof. exact elem_matches_dict. Qed.
Print Assumptions C04_dict_element.

(* never as a match: string entries, empty field, raising rules, non-rules *)
Theorem C04_never_match : forall w i,
  (forall s, elem_matches_b (EStr s) w i = false) /\
  elem_matches_b (EDict []) w i = false /\
  (forall r e, sat r w i = Raise e -> elem_matches_b (ERule r) w i = false) /\
  elem_matches_b (ERule RJunk) w i = false /\
  (forall p f, field_elems p f = [] -> fits_rules p f w i = Ok false).
Proof.
  intros w i. split; [reflexivity|]. split; [reflexivity|]. split.
  - intros r e H. cbn. unfold satisfied_b, sat_b. rewrite H. reflexivity.
  - split; [reflexivity|]. intros p f H. unfold fits_rules. rewrite H. reflexivity.
Qed.
Print Assumptions C04_never_match.

(* a raising rule is swallowed by the checker (Exception subclasses) *)
Theorem C04_raise_is_no_match : forall r w i e, sat r w i = Raise e -> is_exception e = true ->
  check_satisfied r w i = Ok false.
Proof. exact check_satisfied_swallows. Qed.
Print Assumptions C04_raise_is_no_match.

(* the position of the matching element in the field is irrelevant *)
Theorem C04_position_independent : forall es es' w i, Permutation es es' ->
  existsb (fun e => elem_matches_b e w i) es = existsb (fun e => elem_matches_b e w i) es'.
Proof. exact elem_matches_perm. Qed.
Print Assumptions C04_position_independent.

(* non-vacuity *)
Definition pol4 : policy :=
  {| p_uid := VInt 1; p_effect := VStr s_allow;
     p_subjects := [EDict [([97%N], REq (VInt 1)); ([98%N], RBroken EValueError)];
                    EDict [([97%N], RGreater (VInt 0))]; ERule RNeither];
     p_resources := []; p_actions := []; p_context := []; p_description := VNone; p_type := RuleBased;
     p_start := [60%N]; p_end := [62%N] |}.
Example C04_nonvacuous :
  fits_rules pol4 Subjects (VDict [([97%N], VInt 1); ([98%N], VInt 2)]) None = Ok true /\
  fits_rules pol4 Subjects (VDict [([98%N], VInt 2)]) None = Ok false /\
  fits_rules pol4 Subjects (VInt 1) None = Ok false /\
  Forall (fun e => Forall (rule_benign None) (elem_rules e)) (field_elems pol4 Subjects).
Proof.
  split; [vm_compute; reflexivity|]. split; [vm_compute; reflexivity|]. split; [vm_compute; reflexivity|].
  repeat constructor; intros x; cbn; try exact I.
  destruct (num_of x); cbn; [exact I|reflexivity].
Qed.
