(* C06 - String checkers are exact/substring; checker and policy types never cross. *)
From Coq Require Import ZArith NArith List Bool.
From Vakt Require Import Base.PyMonad Base.PyVal Model.Regex Model.Rules Model.Policy Model.Checkers
     Proofs.RulesP Proofs.CheckersP.
Import ListNotations.

(* strip_tags st en e = the inner text when e is wholly enclosed in the delimiters, e otherwise *)
Theorem C06_strip_def : forall st en e,
  strip_tags st en e =
  match e with
  | [] => []
  | c :: _ => if pstr_eqb st [c] && pstr_eqb en [last e c] then removelast (tl e) else e
  end.
Proof. reflexivity. Qed.
Print Assumptions C06_strip_def.

Theorem C06_exact : forall p f v,
  fits_exact p f (VStr v) = Ok true <->
  exists e, In (EStr e) (field_elems p f) /\ strip_tags (p_start p) (p_end p) e = v.
Proof. intros. apply fits_string_exact_iff. Qed.
Print Assumptions C06_exact.

Theorem C06_fuzzy : forall p f v,
  fits_fuzzy p f (VStr v) = Ok true <->
  exists e, In (EStr e) (field_elems p f) /\
            exists a b, strip_tags (p_start p) (p_end p) e = a ++ v ++ b.
Proof.
  intros. unfold fits_fuzzy. rewrite fits_string_fuzzy_iff. split; intros [e [H1 H2]]; exists e; (split; [exact H1|]).
  - apply is_substr_spec, H2.
  - apply is_substr_spec, H2.
Qed.
Print Assumptions C06_fuzzy.

(* a boolean, never an exception, for every string element ('' included) and string value *)
Theorem C06_no_raise : forall p f v,
  (exists b, fits_exact p f (VStr v) = Ok b) /\ (exists b, fits_fuzzy p f (VStr v) = Ok b).
Proof. exact string_checkers_total. Qed.
Print Assumptions C06_no_raise.

(* policies defined with rules never match under a string or regex checker;
   policies defined with strings never match under the rules checker *)
Theorem C06_types_never_cross : forall uid eff su re ac ctx d st en p,
  mk_policy uid eff su re ac ctx d st en = Some p ->
  (p_type p = RuleBased -> forall rxof f w,
     fits_exact p f w = Ok false /\ fits_fuzzy p f w = Ok false /\ fits_regex rxof p f w = Ok false) /\
  (p_type p = StringBased -> forall f w i, fits_rules p f w i = Ok false).
Proof.
  intros uid eff su re ac ctx d st en p H. split.
  - intros Ht rxof f w. destruct (mk_policy_typed _ _ _ _ _ _ _ _ _ _ H f) as [_ Hr].
    specialize (Hr Ht). split; [|split].
    + apply fits_string_no_str, Hr.
    + apply fits_string_no_str, Hr.
    + apply fits_regex_no_str, Hr.
  - intros Ht f w i. destruct (mk_policy_typed _ _ _ _ _ _ _ _ _ _ H f) as [Hs _].
    apply fits_rules_only_str, Hs, Ht.
Qed.
Print Assumptions C06_types_never_cross.

(* non-vacuity *)
Example C06_nonvacuous :
  exists p, mk_policy (VInt 1) (VStr s_allow) [EStr []; EStr [60; 103; 62]%N] [] [] [] VNone [60%N] [62%N] = Some p /\
    fits_exact p Subjects (VStr []) = Ok true /\ fits_exact p Subjects (VStr [103%N]) = Ok true /\
    fits_exact p Subjects (VStr [60; 103; 62]%N) = Ok false /\ fits_fuzzy p Subjects (VStr [71%N]) = Ok false /\
    p_type p = StringBased.
Proof. eexists. split; [reflexivity|]. repeat split; vm_compute; reflexivity. Qed.
