(* C11 - The cached guard answers exactly like an uncached one.
   S = stores, M = mutations issued through the storage returned by create_cached_guard (mstep gives the new
   store and whether the call raised), Q = inquiry contents (content-equal inquiries are one key: C13),
   dec = the uncached Guard.is_allowed_check.  The one assumption on the storage is the C08 theorem
   "a mutation that raises leaves the stored set as it was". *)
From Coq Require Import List Bool Arith.
From Vakt Require Import Base.PyMonad Model.Lru Model.AllowCache Proofs.LruP Proofs.AllowCacheP.
Import ListNotations.

Section C11.
  Variables S M Q : Type.
  Variable qeq : Q -> Q -> bool.
  Hypothesis qeq_eq : forall a b, qeq a b = true <-> a = b.
  Variable mstep : S -> M -> S * bool.
  Hypothesis raised_unchanged : forall s m, snd (mstep s m) = true -> fst (mstep s m) = s.
  Variable dec : S -> Q -> bool.

  (* every cached entry is the decision for the policy set as it is now, in every reachable state *)
  Theorem C11_inv : forall cap st o, cache_inv S Q dec st -> cache_inv S Q dec (fst (cstep S M Q qeq mstep dec cap st o)).
  Proof. intros. apply cstep_inv; assumption. Qed.

  (* default LRU back-end: for every capacity (None = unbounded, 0, 1, 2, ...) and every history of mutations
     and asks, the cached guard gives exactly the answers of an uncached guard at that moment *)
  Theorem C11_transparent : forall cap ops s,
    map answer_of (crun S M Q qeq mstep dec cap {| c_store := s; c_cache := [] |} ops) = urun S M Q mstep dec s ops.
  Proof.
    intros cap ops s.
    apply (cached_transparent S M Q qeq qeq_eq mstep raised_unchanged dec cap ops {| c_store := s; c_cache := [] |}).
    apply init_inv.
  Qed.

  (* every mutation call that returns notifies (invalidates) exactly once, after it has been applied;
     a raising mutation and asks never notify *)
  Theorem C11_notify_once : forall cap st m,
    snd (cstep S M Q qeq mstep dec cap st (Mut m)) =
      (if snd (mstep (c_store S Q st) m) then OMut true 0 else OMut false 1) /\
    (snd (mstep (c_store S Q st) m) = false -> c_cache S Q (fst (cstep S M Q qeq mstep dec cap st (Mut m))) = []).
  Proof. intros. apply mutation_notifies. Qed.

  (* between mutations a repeated inquiry still within capacity is a cache hit: the storage is not consulted *)
  Theorem C11_repeat_hit : forall cap st q ks,
    Forall (fun k => qeq k q = false) ks -> within Q cap (seen_of Q qeq ks) ->
    exists a n, snd (cstep S M Q qeq mstep dec cap
                       (ask_all S M Q qeq mstep dec cap (fst (cstep S M Q qeq mstep dec cap st (Ask q))) ks) (Ask q))
                = OAsk a true n.
  Proof. intros. apply repeat_hit; assumption. Qed.

  (* user-supplied back-ends: any back-end honouring the contract (invalidate() makes it good for whatever
     function is wrapped; a call on a good back-end returns the function's value and stays good) *)
  Theorem C11_custom_backend :
    forall (B : Type) (bcall : B -> Q -> (Q -> bool) -> B * bool) (binv : B -> B) (good : (Q -> bool) -> B -> Prop),
    (forall f b, good f (binv b)) ->
    (forall f b q, good f b -> snd (bcall b q f) = f q /\ good f (fst (bcall b q f))) ->
    forall ops s b, good (dec s) b ->
    grun S M Q B mstep dec bcall binv (s, b) ops = urun S M Q mstep dec s ops.
  Proof.
    intros B bcall binv good H1 H2 ops s b G.
    apply (generic_transparent S M Q B mstep raised_unchanged dec bcall binv good H1 H2 ops (s, b)). exact G.
  Qed.
End C11.

Print Assumptions C11_inv.
Print Assumptions C11_transparent.
Print Assumptions C11_notify_once.
Print Assumptions C11_repeat_hit.
Print Assumptions C11_custom_backend.

(* non-vacuity: store = list of allowed numbers, mutation = add n (raises on a duplicate) *)
Definition ex_mstep (s : list nat) (m : nat) : list nat * bool :=
  if existsb (Nat.eqb m) s then (s, true) else (m :: s, false).
Definition ex_dec (s : list nat) (q : nat) : bool := existsb (Nat.eqb q) s.
Example C11_nonvacuous :
  crun (list nat) nat nat Nat.eqb ex_mstep ex_dec (Some 1) {| c_store := []; c_cache := [] |}
       [Ask 1; Mut 1; Ask 1; Ask 1; Ask 2; Ask 1; Mut 1; Ask 1] =
  [OAsk false false 1; OMut false 1; OAsk true false 1; OAsk true true 1; OAsk false false 1;
   OAsk true false 1; OMut true 0; OAsk true true 1] /\
  (forall s m, snd (ex_mstep s m) = true -> fst (ex_mstep s m) = s).
Proof.
  split; [vm_compute; reflexivity|]. intros s m. unfold ex_mstep. destruct (existsb (Nat.eqb m) s); [reflexivity|discriminate].
Qed.
