(* C01 - Deny-overrides decision with default deny.
   fits_ is any checker (instantiated below for the four checker models); matchb says that a policy
   matches the inquiry on action, subject, resource and every context restriction; `clean ps` says that no
   evaluation the guard makes raises (C02 covers the raising side). *)
From Coq Require Import ZArith NArith List Bool Permutation.
From Vakt Require Import Base.PyMonad Base.PyVal Model.Regex Model.Rules Model.Policy Model.Checkers
     Model.Guard Proofs.CheckersP Proofs.GuardP.
Import ListNotations.

Theorem C01_iff : forall fits_ q ps, clean fits_ q ps ->
  (decide fits_ ps q = Ok true <->
     (exists p, In p ps /\ matchb fits_ q p = true) /\
     (forall p, In p ps -> matchb fits_ q p = true -> allow_access p = true)).
Proof. exact decide_iff. Qed.
Print Assumptions C01_iff.

(* what "matches" means: all four conjuncts, context included *)
Theorem C01_matches_def : forall fits_ q p,
  matches fits_ q p =
  andM (fits_ p Actions (i_action q) (Some q)) (fun _ =>
  andM (fits_ p Subjects (i_subject q) (Some q)) (fun _ =>
  andM (fits_ p Resources (i_resource q) (Some q)) (fun _ =>
  context_ok (p_context p) q))).
Proof. reflexivity. Qed.
Print Assumptions C01_matches_def.

Theorem C01_default_deny : forall fits_ q ps, clean fits_ q ps ->
  (forall p, In p ps -> matchb fits_ q p = false) -> decide fits_ ps q = Ok false.
Proof. exact default_deny. Qed.
Print Assumptions C01_default_deny.

(* a matching policy whose effect is anything but the exact 'allow' constant vetoes *)
Theorem C01_veto : forall fits_ q ps p, clean fits_ q ps -> In p ps -> matchb fits_ q p = true ->
  py_eq (p_effect p) (VStr s_allow) = false -> decide fits_ ps q = Ok false.
Proof. exact veto. Qed.
Print Assumptions C01_veto.

(* insertion order is irrelevant (also when evaluations raise Exceptions: the answer is deny either way) *)
Theorem C01_perm : forall fits_ q ps ps', benign_all fits_ q ps -> Permutation ps ps' ->
  decide fits_ ps q = decide fits_ ps' q.
Proof. exact decide_perm. Qed.
Print Assumptions C01_perm.

(* uids are irrelevant, for each of the four checkers *)
Theorem C01_uid_irrelevant : forall rxof ck q (us : policy -> val) ps,
  decide (fits rxof ck) (map (fun p => set_uid (us p) p) ps) q = decide (fits rxof ck) ps q.
Proof. exact decide_uid_irrelevant. Qed.
Print Assumptions C01_uid_irrelevant.

(* the constructor stores a falsy effect as 'deny' and any other effect as given *)
Theorem C01_ctor_effect : forall uid eff su re ac ctx d st en p,
  mk_policy uid eff su re ac ctx d st en = Some p ->
  p_effect p = (if truthy eff then eff else VStr s_deny).
Proof. exact mk_policy_effect. Qed.
Print Assumptions C01_ctor_effect.

(* non-vacuity: two allow policies matching, an 'ALLOW' policy vetoing, permuted store *)
Definition exA : policy :=
  {| p_uid := VInt 1; p_effect := VStr s_allow; p_subjects := [EStr [77%N]]; p_resources := [EStr [114%N]];
     p_actions := [EStr [103%N]]; p_context := []; p_description := VNone; p_type := StringBased;
     p_start := [60%N]; p_end := [62%N] |}.
Definition exB : policy := set_uid (VInt 2) exA.
Definition exV : policy :=
  {| p_uid := VInt 3; p_effect := VStr [65; 76; 76; 79; 87]%N; p_subjects := [EStr [77%N]];
     p_resources := [EStr [114%N]]; p_actions := [EStr [103%N]]; p_context := []; p_description := VNone;
     p_type := StringBased; p_start := [60%N]; p_end := [62%N] |}.
Definition exQ : inquiry := mk_inquiry (VStr [114%N]) (VStr [103%N]) (VStr [77%N]) VNone.

Example C01_nonvacuous :
  decide (fits (fun _ => None) CExact) [exA; exB] exQ = Ok true /\
  decide (fits (fun _ => None) CExact) [exA; exV; exB] exQ = Ok false /\
  decide (fits (fun _ => None) CExact) [exV; exB; exA] exQ = Ok false /\
  decide (fits (fun _ => None) CExact) [] exQ = Ok false /\
  clean (fits (fun _ => None) CExact) exQ [exA; exV; exB].
Proof.
  repeat split; try (vm_compute; reflexivity).
  intros p [<-|[<-|[<-|[]]]]; eexists; vm_compute; reflexivity.
Qed.
