(* C18 - Migrations run in order, gated by the recorded version, and resume after failure.
   ms = the `order` numbers of the migration set in declaration order (any order, gaps and duplicates
   allowed); a request is up()/down() whole-set (None) or by number; the fault plan of a request says which
   of its step invocations raises.  Events carry the version that was recorded when the step was invoked. *)
From Coq Require Import ZArith List Bool Sorted.
From Vakt Require Import Base.PyMonad Model.Migration Proofs.MigrationP.
Import ListNotations.
Local Open Scope Z_scope.

(* for every history of requests and faults: an up step runs only if its number is above the recorded
   version, a down step only if it is at or below it; every step saw the version recorded at that moment;
   the version recorded after a completed up n is n, after a completed down n is n-1, and a failing step
   leaves it unchanged *)
Theorem C18_gate_and_bookkeeping : forall ms h ver v' es, run_history ms ver h = (v', es) ->
  Forall ev_gated es /\ consistent ver es /\ v' = replay ver es.
Proof. exact history_gated. Qed.
Print Assumptions C18_gate_and_bookkeeping.

(* steps of one request are strictly ascending (up) / descending (down) *)
Theorem C18_order : forall ms ver n fault v' es f,
  (run_request ms ver (RUp n) fault = (v', es, f) -> StronglySorted Z.lt (map ev_order es)) /\
  (run_request ms ver (RDown n) fault = (v', es, f) -> StronglySorted Z.gt (map ev_order es)).
Proof.
  intros. split; cbn; intros H.
  - apply up_loop_ascending in H. tauto.
  - apply down_loop_descending in H. tauto.
Qed.
Print Assumptions C18_order.

(* whole-set requests skip nothing, whatever the declaration order: after up(), a migration is at or below the
   recorded version iff it already was or its up step completed in this request (so the version never points
   past a step that did not complete); dually for down() *)
Theorem C18_no_skip : forall ms ver fault v' es f,
  (run_request ms ver (RUp None) fault = (v', es, f) ->
     forall x, In x ms -> (x <= v' <-> x <= ver \/ up_in x es)) /\
  (run_request ms ver (RDown None) fault = (v', es, f) ->
     forall x, In x ms -> (v' < x <-> ver < x \/ down_in x es)).
Proof. intros. split; [apply whole_up_no_skip|apply whole_down_no_skip]. Qed.
Print Assumptions C18_no_skip.

(* a failed run is resumed by repeating the request: from wherever the failed request stopped, the request
   without fault reaches the version the un-faulted request would have reached *)
Theorem C18_resume : forall ms ver rq fault v1 es1 f1,
  run_request ms ver rq fault = (v1, es1, f1) -> req_final ms v1 rq = req_final ms ver rq.
Proof. exact resume. Qed.
Print Assumptions C18_resume.

(* repeating a completed request (whole-set or by number) does nothing *)
Theorem C18_idempotent : forall ms ver rq v' es,
  run_request ms ver rq None = (v', es, false) -> run_request ms v' rq None = (v', [], false).
Proof. exact idempotent. Qed.
Print Assumptions C18_idempotent.

(* a request without fault never reports failure *)
Theorem C18_unfaulted_completes : forall ms ver rq, snd (run_request ms ver rq None) = false.
Proof. exact unfaulted_flag. Qed.
Print Assumptions C18_unfaulted_completes.

(* a full up followed by a full down takes every migration down again *)
Theorem C18_up_down : forall ms ver v1 es1 v2 es2,
  run_request ms ver (RUp None) None = (v1, es1, false) ->
  run_request ms v1 (RDown None) None = (v2, es2, false) ->
  (forall m, In m ms -> m <= v1) /\ (forall m, In m ms -> v2 < m) /\ (forall m, In m ms -> down_in m es2).
Proof. exact up_then_down. Qed.
Print Assumptions C18_up_down.

(* non-vacuity: three migrations declared out of order, a failure in the second step, resume, full down *)
Example C18_nonvacuous :
  run_request [2; 1; 3] 0 (RUp None) (Some 1%nat) = (1, [EvUp 1 0; EvFailUp 2 1], true) /\
  run_request [2; 1; 3] 1 (RUp None) None = (3, [EvUp 2 1; EvUp 3 2], false) /\
  run_request [2; 1; 3] 3 (RDown None) None = (0, [EvDown 3 3; EvDown 2 2; EvDown 1 1], false) /\
  run_request [2; 1; 3] 3 (RDown (Some 2)) None = (1, [EvDown 2 3], false).
Proof. repeat split; vm_compute; reflexivity. Qed.
