(* C14 - Concurrent decisions and in-memory mutations are linearizable.
   The model (Model/Conc.v) runs any number of threads under any schedule, with no preemption bound.  Storage
   operations hold the storage lock, so each is one atomic action; a plain decision reads the store once (its
   snapshot) and computes on that.  PARTIAL: preemption inside C code (dict internals, lru_cache's C wrapper),
   the GIL switch interval and free-threaded builds are taken as atomic per CPython's documented semantics; the
   correspondence run exercises real threads at source-line granularity (bytecode granularity inside the
   in-memory storage) only. *)
From Coq Require Import List Bool Arith.
From Vakt Require Import Base.PyMonad Model.Store Model.Lru Model.Conc Proofs.StoreP Proofs.ConcP.
Import ListNotations.

(* every decision equals the decision for the policy set as it stood at one instant of the call (the instant it
   took its snapshot), and leaves the shared state alone *)
Theorem C14_decision_atomic : forall (S M Q : Type) qeq mstep dec cap sh lo q,
  astep S M Q qeq mstep dec cap sh lo (ADecide M Q q) = (sh, lo, Some (OAnswer (dec (sh_store S Q sh) q))).
Proof. intros. apply decide_atomic. Qed.
Print Assumptions C14_decision_atomic.

(* every storage mutation takes effect at one instant, with the sequential storage's result at that instant *)
Theorem C14_mutation_atomic : forall (S M Q : Type) qeq mstep dec cap sh lo m,
  astep S M Q qeq mstep dec cap sh lo (AMut M Q m) =
  ({| sh_store := fst (mstep (sh_store S Q sh) m); sh_cache := sh_cache S Q sh |}, lo,
   Some (OMutated (snd (mstep (sh_store S Q sh) m)))).
Proof. intros. apply mutate_atomic. Qed.
Print Assumptions C14_mutation_atomic.

(* concurrent adds of one uid, in whatever order they get the lock: exactly one succeeds *)
Theorem C14_add_once : forall (K V : Type) keq klt, (forall a b, keq a b = true <-> a = b) ->
  forall o u x (xs : list V) s, s_get K V keq u s = None ->
  snd (run K V keq klt o s (map (fun y => Add u y false) (x :: xs))) = ODone :: repeat OExists (length xs) /\
  s_get K V keq u (fst (run K V keq klt o s (map (fun y => Add u y false) (x :: xs)))) = Some x.
Proof. intros K V keq klt Hk o u x xs s H. apply adds_once; assumption. Qed.
Print Assumptions C14_add_once.

(* REFUTED clause (known finding lru-stale-insert): "once a mutation made through a cached guard's storage has
   returned, later inquiries are not answered from a decision computed against the older policy set" fails:
   functools.lru_cache stores the result of a call that started before invalidate() ran.  The schedule below is
   replayed on the real objects by the check.  For histories in which asks do not overlap mutations the clause is
   C11_transparent. *)
Theorem C14_no_stale_after_return_refuted :
  let '(sh, ts) := exec (list nat) nat nat Nat.eqb r_mstep r_dec (Some 8) r_sched
                        {| sh_store := []; sh_cache := [] |} (init_threads nat nat r_progs) in
  map (fun t => rev (snd t)) ts = [[OAnswer true; OAnswer true]; [OMutated false]] /\
  r_dec (sh_store (list nat) nat sh) 1 = false.
Proof. exact stale_after_return_refuted. Qed.
Print Assumptions C14_no_stale_after_return_refuted.

(* The staleness is lru_cache's, not the protocol's: with a cache back-end whose ask is atomic (look-up, computation and
   insertion under one lock - a user-supplied back-end may do that), and mutations that apply first and notify second
   (ObservableMutationStorage), every cache entry is the decision for the store as it is whenever no mutation is between
   its two steps - under every schedule, any number of threads.  An ask answered then is answered for the current store:
   nothing stale survives the return of add / update / delete. *)
Theorem C14_atomic_backend_fresh : forall (S M Q : Type) qeq, (forall a b : Q, qeq a b = true <-> a = b) ->
  forall mstep dec cap (progs : list (list (act M Q))) sched (s0 : S),
  forallb (wf_prog M Q) progs = true ->
  let '(sh, ts) := exec S M Q qeq mstep dec cap sched {| sh_store := s0; sh_cache := [] |} (init_threads M Q progs) in
  existsb (in_flight M Q) ts = false ->
  forall q lo, snd (astep S M Q qeq mstep dec cap sh lo (AAsk M Q q)) = Some (OAnswer (dec (sh_store S Q sh) q)).
Proof. intros S M Q qeq Hq mstep dec cap progs sched s0 H. apply atomic_backend_fresh; assumption. Qed.
Print Assumptions C14_atomic_backend_fresh.

(* ... and the order of the two steps matters: invalidate-then-apply serves a stale answer even through an atomic
   back-end (the ask computed between the two steps is stored after the invalidation and never dropped) *)
Theorem C14_swapped_protocol_stale :
  let '(sh, ts) := exec (list nat) nat nat Nat.eqb r_mstep r_dec None sw_sched
                        {| sh_store := []; sh_cache := [] |} (init_threads nat nat sw_progs) in
  map (fun t => rev (snd t)) ts = [[OAnswer true; OAnswer true]; [OMutated false]] /\
  r_dec (sh_store (list nat) nat sh) 1 = false.
Proof. exact swapped_protocol_stale. Qed.
Print Assumptions C14_swapped_protocol_stale.

Example C14_atomic_backend_nonvacuous :
  wf_prog nat nat [AAsk nat nat 1; AMut nat nat 1; AInval nat nat; AAsk nat nat 1; ADecide nat nat 2] = true.
Proof. reflexivity. Qed.
