(* C15 - SQL mutations are committed when they return and atomic when they fail.
   db = (committed store: what any other session, process or restart sees; this session's working view;
   failed-transaction flag).  settled = nothing pending and no failed transaction.  step = the storage model of
   C08 (listing sorted by uid); raised = the call raised. *)
From Coq Require Import ZArith List Bool.
From Vakt Require Import Base.PyMonad Model.Store Model.SqlSession Proofs.StoreP Proofs.SqlSessionP.
Import ListNotations.

Section C15.
  Variables K V : Type.
  Variable keq klt : K -> K -> bool.

  (* every add / update / delete leaves the session settled and has, on the committed store, exactly the effect
     and the result the storage model prescribes *)
  Theorem C15_settled_and_refines : forall d p, settled K V d ->
    settled K V (fst (sql_step K V keq klt d p)) /\
    committed K V (fst (sql_step K V keq klt d p)) = fst (step K V keq klt SortedByUid (committed K V d) p) /\
    snd (sql_step K V keq klt d p) = snd (step K V keq klt SortedByUid (committed K V d) p).
  Proof. apply sql_step_settled. Qed.

  (* when a mutation returns normally its effect is what another session observes at once, and it survives the
     session being discarded / the engine disposed / the process dying *)
  Theorem C15_committed_on_return : forall d p, settled K V d ->
    raised K V (snd (sql_step K V keq klt d p)) = false ->
    other_session_view K V (fst (sql_step K V keq klt d p)) = fst (step K V keq klt SortedByUid (committed K V d) p) /\
    committed K V (crash K V (fst (sql_step K V keq klt d p))) = fst (step K V keq klt SortedByUid (committed K V d) p).
  Proof. apply committed_on_return. Qed.

  (* a mutation that raises leaves no pending partial change and undoes nothing that had returned *)
  Theorem C15_failure_atomic : forall d p, settled K V d ->
    raised K V (snd (sql_step K V keq klt d p)) = true ->
    committed K V (fst (sql_step K V keq klt d p)) = committed K V d /\ settled K V (fst (sql_step K V keq klt d p)).
  Proof. apply failure_atomic. Qed.

  (* any history of operations with crashes placed anywhere: the committed store is the run of the operations *)
  Theorem C15_history : forall l d, settled K V d ->
    settled K V (run_ev K V keq klt d l) /\
    committed K V (run_ev K V keq klt d l) =
      fst (Store.run K V keq klt SortedByUid (committed K V d) (ops_of K V l)).
  Proof. intros l d. apply history_committed. Qed.
End C15.

Print Assumptions C15_settled_and_refines.
Print Assumptions C15_committed_on_return.
Print Assumptions C15_failure_atomic.
Print Assumptions C15_history.

Example C15_nonvacuous :
  let d0 := {| committed := []; work := []; failed := false |} in
  let d := run_ev nat nat Nat.eqb Nat.ltb d0 [Do nat nat (Add 1 10 false); Do nat nat (Add 2 20 true); Crash nat nat;
                                              Do nat nat (Delete 1); Do nat nat (Add 1 11 false); Crash nat nat] in
  committed nat nat d = [(1, 11)] /\ settled nat nat d.
Proof. split; [vm_compute; reflexivity|split; reflexivity]. Qed.
