(* C09 - Persisted policies keep their meaning.
   What vakt itself contributes to every persistence path is Policy.from_json applied to the parsed properties
   (from_props) followed by the constructor; the encoding and decoding of values is done by jsonpickle / pickle /
   SQLAlchemy / bson.  The decoding clauses are proved here; the round-trip equivalence through each path is
   established by the correspondence run (reloaded policies are probed under all four checkers and compared with
   the model's verdicts for the original policy) - C09 is therefore partial as a theorem.
   For rules the stored structure itself is modelled (Model.RuleJson: the JSON object jsonpickle writes for a rule and
   the object it rebuilds from one, tied to Rule.to_json / Rule.from_json by the rule_codec stream): reading what was
   written gives back the same rule, and two rules stored as the same structure are the same rule. *)
From Coq Require Import ZArith NArith List Bool.
From Vakt Require Import Base.PyMonad Base.PyVal Model.Rules Model.Policy Model.RuleJson Model.PolicyDoc Proofs.PyValP Proofs.PolicyP Proofs.RuleJsonP Proofs.PolicyJsonP Proofs.PolicyDocP.
Import ListNotations.

(* a document without a uid is refused *)
Theorem C09_uid_required : forall props, lookup n_uid props = None -> from_props props = Raise EPolicyCreation.
Proof. exact from_props_uid_required. Qed.
Print Assumptions C09_uid_required.

(* stored data never overrides the computed type: whatever "type" the document carries, the policy that is
   built satisfies the C10 invariant (its type is the one implied by its elements) *)
Theorem C09_type_recomputed : forall props s, from_props props = Ok s -> policy_inv s.
Proof. exact from_props_inv. Qed.
Print Assumptions C09_type_recomputed.

(* the constructor: a missing or empty effect is deny; context wins over the legacy rules; uid and description kept *)
Theorem C09_ctor_fields : forall a s, ctor a = Ok s ->
  lookup n_effect s = Some (if aval_truthy (c_effect a) then c_effect a else AV (VStr s_deny)) /\
  lookup n_context s = Some (if negb (aval_is_none (c_context a)) then c_context a
                             else if aval_truthy (c_rules a) then c_rules a else ACtx []) /\
  lookup n_uid s = Some (c_uid a) /\ lookup n_description s = Some (c_description a).
Proof. exact ctor_effect_context. Qed.
Print Assumptions C09_ctor_fields.

(* non-vacuity: legacy document with "rules", a lying "type" and an empty effect *)
Example C09_nonvacuous :
  exists s,
  from_props [(n_uid, AV (VInt 7)); (n_type, AV (VInt 2)); (n_effect, AV (VStr []));
              (n_subjects, ASeq false [XStr [97%N]]); (n_rules, ACtx [([107%N], RAny)])] = Ok s /\
  lookup n_type s = Some (AV (VInt 1)) /\ lookup n_effect s = Some (AV (VStr s_deny)) /\
  lookup n_context s = Some (ACtx [([107%N], RAny)]) /\
  from_props [(n_effect, AV (VStr s_allow))] = Raise EPolicyCreation.
Proof. eexists. split; [vm_compute; reflexivity|]. repeat split. Qed.

(* ---- the stored structure of a rule ---- *)
(* an attribute value (no dictionary key in jsonpickle's reserved py/ namespace) is read back as it was written:
   tuples stay tuples, lists stay lists, at any nesting depth *)
Theorem C09_value_round_trip : forall v, plain v = true -> dec_val (enc_val v) = v.
Proof. exact dec_enc_val. Qed.
Print Assumptions C09_value_round_trip.

(* every rule the codec covers (all built-in rules but RegexMatch, compositions of any depth and width included) has a
   stored structure, and decoding that structure - with any fuel not below the rule's nesting depth - gives the rule *)
Theorem C09_rule_round_trip : forall r, encodable r = true ->
  exists v, rule_val r = Some v /\ forall fuel, rdepth r <= fuel -> rule_of_val fuel v = Some r.
Proof. exact rule_round_trip. Qed.
Print Assumptions C09_rule_round_trip.

(* nothing is lost in the structure: rules stored alike are the same rule *)
Theorem C09_rule_structure_injective : forall r1 r2 v, encodable r1 = true -> encodable r2 = true ->
  rule_val r1 = Some v -> rule_val r2 = Some v -> r1 = r2.
Proof. exact rule_val_injective. Qed.
Print Assumptions C09_rule_structure_injective.

(* hence the reloaded rule answers every question like the stored one *)
Corollary C09_reloaded_rule_same_answers : forall r v fuel w i, encodable r = true -> rule_val r = Some v ->
  rdepth r <= fuel -> exists r', rule_of_val fuel v = Some r' /\ sat r' w i = sat r w i.
Proof.
  intros r v fuel w i He Hv Hf. destruct (rule_round_trip r He) as [v' [Hv' Hd]].
  rewrite Hv in Hv'. injection Hv' as <-. exists r. split; [apply Hd; exact Hf|reflexivity].
Qed.
Print Assumptions C09_reloaded_rule_same_answers.

(* non-vacuity: a composition three levels deep with a tuple inside a list and a set of arguments; and the guard is
   needed - a dictionary that looks like jsonpickle's own tuple tag is not read back as written *)
Example C09_codec_nonvacuous :
  let r := RAnd [RNot (ROr [REq (VList [VTup [VInt 1; VStr [97%N]]; VNone]); RIn [VInt 1; VTup [VInt 2]]]);
                 RStartsWith [97%N] true; RMatch FSubject (Some [105%N; 100%N])] in
  encodable r = true /\ rdepth r = 4 /\
  (exists v, rule_val r = Some v /\ rule_of_val 4 v = Some r /\ rule_of_val 3 v = None) /\
  dec_val (enc_val (VDict [(k_tuple, VList [VInt 1])])) <> VDict [(k_tuple, VList [VInt 1])].
Proof. cbv zeta. split; [reflexivity|]. split; [reflexivity|]. split.
  - eexists. split; [vm_compute; reflexivity|]. split; vm_compute; reflexivity.
  - vm_compute. discriminate.
Qed.

(* ---- a whole policy written with to_json and read with Policy.from_json ---- *)
(* Policy._data (data_of) turns every tuple-valued attribute into a list; from_json of what a constructed policy
   writes rebuilds exactly the written attributes: same keys in the same order, same values, same computed type *)
Theorem C09_policy_written_then_read : forall a s, ctor a = Ok s -> from_props (data_of s) = Ok (data_of s).
Proof. exact written_then_read. Qed.
Print Assumptions C09_policy_written_then_read.

(* writing twice writes the same; writing does not change the type the elements imply *)
Theorem C09_written_idempotent : forall s, data_of (data_of s) = data_of s.
Proof. exact data_of_idem. Qed.
Print Assumptions C09_written_idempotent.
Theorem C09_written_keeps_type : forall s, implied_type (data_of s) = implied_type s.
Proof. exact implied_data_of. Qed.
Print Assumptions C09_written_keeps_type.

Example C09_policy_json_nonvacuous :
  let a := {| c_uid := AV (VInt 7); c_subjects := ASeq true [XRule RAny; XDict [([107%N], REq (VInt 1))]];
              c_effect := AV (VStr s_allow); c_resources := ASeq true []; c_actions := ASeq false [XRule RTruthy];
              c_context := AV VNone; c_rules := ACtx [([99%N], RAny)]; c_description := AV VNone |} in
  exists s, ctor a = Ok s /\ data_of s <> s /\ from_props (data_of s) = Ok (data_of s) /\
            lookup n_type (data_of s) = Some (AV (VInt 2)).
Proof. cbv zeta. eexists. split; [vm_compute; reflexivity|]. split; [discriminate|]. split; reflexivity. Qed.

(* ---- the JSON path end to end ---- *)
(* policy_doc s is the JSON document of a written state (every rule in its stored structure), props_of_doc what
   jsonpickle rebuilds from a document.  For states whose values have one representation in the model and whose rules are
   within the rule codec (canon_state), reading the document gives the state back ... *)
Theorem C09_document_round_trip : forall s, canon_state s = true ->
  exists d, policy_doc s = Some d /\ forall f, state_depth s <= f -> props_of_doc f d = Some s.
Proof. exact doc_round_trip. Qed.
Print Assumptions C09_document_round_trip.

(* one element on its own - what the SQL child row's JSON column, a Mongo document's array entry and a Redis JSON value
   hold for a rule or a dictionary of rules (PolicyModel._policy_element_to_db / _from_db move it unchanged:
   SqlModelGE.element_round_trip) *)
Theorem C09_element_round_trip : forall e, canon_elemv e = true ->
  exists v, enc_elemv e = Some v /\ forall f, elemv_depth e <= f -> dec_elemv f v = Some e.
Proof. intros e H. destruct (elemv_round e H) as [v [E [_ D]]]. exists v. split; assumption. Qed.
Print Assumptions C09_element_round_trip.

(* ... and so the whole path - construct, to_json, parse, rebuild, Policy.from_json - ends in the written attributes *)
Theorem C09_json_path_round_trip : forall a s, ctor a = Ok s -> canon_state (data_of s) = true ->
  exists d, policy_doc (data_of s) = Some d /\
            forall f, state_depth (data_of s) <= f -> read_doc f d = Ok (data_of s).
Proof. exact json_path_round_trip. Qed.
Print Assumptions C09_json_path_round_trip.

Example C09_json_path_nonvacuous :
  let a := {| c_uid := AV (VStr [112%N]); c_subjects := ASeq true [XRule (RNot (REq (VTup [VInt 1]))); XDict [([107%N], RIn [VInt 2])]];
              c_effect := AV (VStr s_allow); c_resources := ASeq true []; c_actions := ASeq false [XRule RTruthy];
              c_context := ACtx [([99%N], RAnd [RAny; RStartsWith [97%N] true])]; c_rules := AV VNone;
              c_description := AV VNone |} in
  exists s d, ctor a = Ok s /\ canon_state (data_of s) = true /\ state_depth (data_of s) = 2 /\
              policy_doc (data_of s) = Some d /\ read_doc 2 d = Ok (data_of s) /\ read_doc 1 d <> Ok (data_of s).
Proof.
  cbv zeta. eexists. eexists. split; [vm_compute; reflexivity|]. split; [vm_compute; reflexivity|].
  split; [vm_compute; reflexivity|]. split; [vm_compute; reflexivity|]. split; [vm_compute; reflexivity|].
  vm_compute. discriminate.
Qed.
