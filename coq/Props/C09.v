(* C09 - Persisted policies keep their meaning.
   What vakt itself contributes to every persistence path is Policy.from_json applied to the parsed properties
   (from_props) followed by the constructor; the encoding and decoding of values is done by jsonpickle / pickle /
   SQLAlchemy / bson.  The decoding clauses are proved here; the round-trip equivalence through each path is
   established by the correspondence run (reloaded policies are probed under all four checkers and compared with
   the model's verdicts for the original policy) - C09 is therefore partial as a theorem. *)
From Coq Require Import ZArith NArith List Bool.
From Vakt Require Import Base.PyMonad Base.PyVal Model.Rules Model.Policy Proofs.PyValP Proofs.PolicyP.
Import ListNotations.

(* a document without a uid is refused *)
Theorem C09_uid_required : forall props, lookup n_uid props = None -> from_props props = Raise EPolicyCreation.
Proof. exact from_props_uid_required. Qed.
Print Assumptions C09_uid_required.

(* stored data never overrides the computed type: whatever "type" the document carries, the policy that is
   built satisfies the C10 invariant (its type is the one implied by its elements) *)
Theorem C09_type_recomputed : forall props s, from_props props = Ok s -> policy_inv s.
Proof. exact from_props_inv. Qed.
Print Assumptions C09_type_recomputed.

(* the constructor: a missing or empty effect is deny; context wins over the legacy rules; uid and description kept *)
Theorem C09_ctor_fields : forall a s, ctor a = Ok s ->
  lookup n_effect s = Some (if aval_truthy (c_effect a) then c_effect a else AV (VStr s_deny)) /\
  lookup n_context s = Some (if negb (aval_is_none (c_context a)) then c_context a
                             else if aval_truthy (c_rules a) then c_rules a else ACtx []) /\
  lookup n_uid s = Some (c_uid a) /\ lookup n_description s = Some (c_description a).
Proof. exact ctor_effect_context. Qed.
Print Assumptions C09_ctor_fields.

(* non-vacuity: legacy document with "rules", a lying "type" and an empty effect *)
Example C09_nonvacuous :
  exists s,
  from_props [(n_uid, AV (VInt 7)); (n_type, AV (VInt 2)); (n_effect, AV (VStr []));
              (n_subjects, ASeq false [XStr [97%N]]); (n_rules, ACtx [([107%N], RAny)])] = Ok s /\
  lookup n_type s = Some (AV (VInt 1)) /\ lookup n_effect s = Some (AV (VStr s_deny)) /\
  lookup n_context s = Some (ACtx [([107%N], RAny)]) /\
  from_props [(n_effect, AV (VStr s_allow))] = Raise EPolicyCreation.
Proof. eexists. split; [vm_compute; reflexivity|]. repeat split. Qed.
