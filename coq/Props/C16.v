(* C16 - A decision is a pure function of the policy set and the inquiry.
   In the model the guard, the checkers and the rules are functions without state: `decide fits_ ps q` has
   no other input, so history-independence and non-modification of policies/inquiry hold by construction
   (the real objects are compared by deep snapshots in the correspondence run).  The one piece of state the
   implementation keeps, the regex compile cache, is shown transparent for every capacity and history. *)
From Coq Require Import ZArith NArith List Bool.
From Vakt Require Import Base.PyMonad Base.PyVal Model.Regex Model.Rules Model.Policy Model.Parser
     Model.Checkers Model.Guard Model.Lru Proofs.LruP Proofs.GuardP Proofs.PolicyJsonP.
Import ListNotations.

(* asking any sequence of inquiries: each answer is the answer a fresh guard gives to that inquiry alone *)
Definition ask_all (fits_ : policy -> pfield -> val -> option inquiry -> res bool)
           (ps : list policy) (qs : list inquiry) : list (res bool) :=
  map (decide fits_ ps) qs.

Theorem C16_history_free : forall fits_ ps hist q,
  nth_error (ask_all fits_ ps (hist ++ [q])) (length hist) = Some (decide fits_ ps q).
Proof.
  intros. unfold ask_all. rewrite map_app, nth_error_app2 by (rewrite map_length; apply Nat.le_refl).
  rewrite map_length, Nat.sub_diag. reflexivity.
Qed.
Print Assumptions C16_history_free.

(* the compile cache: for every capacity (None = unbounded, 0 = disabled, n) and every history of
   (element, start tag, end tag) keys, each call returns exactly what compile_regex returns *)
Definition ckey := (pstr * pstr * pstr)%type.
Definition ckey_eqb (x y : ckey) : bool :=
  pstr_eqb (fst (fst x)) (fst (fst y)) && pstr_eqb (snd (fst x)) (snd (fst y)) && pstr_eqb (snd x) (snd y).
Definition compile_key (k : ckey) : res (list piece) := compile_pieces (fst (fst k)) (snd (fst k)) (snd k).

Lemma ckey_eqb_eq : forall x y, ckey_eqb x y = true <-> x = y.
Proof.
  intros [[a b] c] [[a' b'] c']. unfold ckey_eqb. cbn.
  rewrite !andb_true_iff, !PyValP.pstr_eqb_eq. split.
  - intros [[-> ->] ->]. reflexivity.
  - intros [= -> -> ->]. repeat split.
Qed.

Theorem C16_cache_capacity_free : forall cap cap' ks,
  snd (lru_run ckey _ ckey_eqb compile_key cap [] ks) =
  snd (lru_run ckey _ ckey_eqb compile_key cap' [] ks) /\
  snd (lru_run ckey _ ckey_eqb compile_key cap [] ks) = map compile_key ks.
Proof.
  intros cap cap' ks.
  pose proof (lru_run_transparent ckey _ ckey_eqb ckey_eqb_eq compile_key cap ks [] (lru_inv_nil _ _ _)) as [H1 _].
  pose proof (lru_run_transparent ckey _ ckey_eqb ckey_eqb_eq compile_key cap' ks [] (lru_inv_nil _ _ _)) as [H2 _].
  split; [rewrite H1, H2; reflexivity|exact H1].
Qed.
Print Assumptions C16_cache_capacity_free.

(* the cache never exceeds its capacity *)
Theorem C16_cache_bounded : forall n c k, length c <= n ->
  length (fst (fst (lru_call ckey_eqb (Some n) c k compile_key))) <= n.
Proof. intros n c k H. eapply lru_size; [reflexivity|exact H]. Qed.
Print Assumptions C16_cache_bounded.

(* the one side effect a read-only use of a stored policy has: to_json (Policy._data, data_of) turns tuple-valued
   attributes of the live object into lists.  Every reader of the elements sees the same sequence afterwards, the type
   the elements imply is the same, and nothing but tuples is touched - so the answers cannot depend on whether a stored
   policy was serialised along the way *)
Theorem C16_serialising_keeps_elements : forall s f, field_iter (data_of s) f = field_iter s f.
Proof. exact field_iter_data_of. Qed.
Print Assumptions C16_serialising_keeps_elements.

Theorem C16_serialising_touches_tuples_only : forall s k,
  lookup k (data_of s) = option_map flat (lookup k s) /\
  (forall a, (forall es, a <> ASeq true es) -> (forall l, a <> AV (VTup l)) -> flat a = a).
Proof.
  intros s k. split; [apply lookup_data_of|].
  intros a H1 H2. destruct a as [v|[] es|kvs]; try reflexivity.
  - destruct v; try reflexivity. exfalso. eapply H2. reflexivity.
  - exfalso. eapply H1. reflexivity.
Qed.
Print Assumptions C16_serialising_touches_tuples_only.
