(* C03 - Regex policy language: literal text, tagged segments, whole-string match.
   a, b are the (distinct, single-character) start and end tags; an element is
   `render a b ps last` = l0 <s0> l1 <s1> ... last, where the literals contain no tag and every
   segment is balanced with respect to the tags (nested delimiters allowed). *)
From Coq Require Import ZArith NArith List Bool.
From Vakt Require Import Base.PyMonad Base.PyVal Model.Regex Model.Rules Model.Policy Model.Parser
     Model.Checkers Model.Lru Proofs.PyValP Proofs.RegexP Proofs.ParserP Proofs.LruP.
Import ListNotations.

(* the tag scanner recovers the top-level pieces, for any number of segments *)
Theorem C03_scan : forall a b, a <> b -> forall ps last, wf_el a b ps last ->
  compile_pieces (render a b ps last) [a] [b] = Ok (pieces_of ps last).
Proof. exact compile_pieces_render. Qed.
Print Assumptions C03_scan.

(* the compiled pattern text: ^ escaped-literals (segments) $ *)
Theorem C03_pattern : forall ph st en ps, compile_pieces ph st en = Ok ps ->
  compile_pattern ph st en = Ok ([94%N] ++ flat_map piece_src ps ++ [36%N]).
Proof. intros ph st en ps H. unfold compile_pattern. rewrite H. reflexivity. Qed.
Print Assumptions C03_pattern.

(* a value fits an element iff it splits, in order, into pieces that equal the literals and are in
   the language of the segments - nothing left over at either end *)
Theorem C03_split : forall a b, a <> b -> forall rxof p, p_start p = [a] -> p_end p = [b] ->
  forall ps last v, wf_el a b ps last -> segs_known rxof ps ->
  (accepts_b rxof p (render a b ps last) v = true <->
   exists parts, v = concat parts /\ Forall2 (piece_accepts rxof) (pieces_of ps last) parts).
Proof. exact accepts_split. Qed.
Print Assumptions C03_split.

(* field level: the checker answers the disjunction of the element verdicts (string values) *)
Theorem C03_field : forall rxof p f v,
  Forall (wf_elem rxof p) (str_elems (field_elems p f)) ->
  fits_regex rxof p f (VStr v) = Ok (existsb (fun i => accepts_b rxof p i v) (str_elems (field_elems p f))).
Proof. intros. apply fits_regex_wf. assumption. Qed.
Print Assumptions C03_field.

Theorem C03_wf_elem : forall a b, a <> b -> forall rxof p, p_start p = [a] -> p_end p = [b] ->
  forall ps last, wf_el a b ps last -> segs_known rxof ps -> wf_elem rxof p (render a b ps last).
Proof. exact wf_elem_render. Qed.
Print Assumptions C03_wf_elem.

(* an element without delimiters matches by exact equality only *)
Theorem C03_untagged : forall rxof p i w, untagged p i = true ->
  regex_item rxof p i w =
  Ok (match w with VStr t => if pstr_eqb i t then Some true else None | _ => None end).
Proof. exact regex_item_untagged. Qed.
Print Assumptions C03_untagged.

(* unbalanced delimiters are exactly what the scanner rejects, and such an element never matches *)
Theorem C03_unbalanced_iff : forall a b, a <> b -> forall s,
  get_tag_indices s [a] [b] = Raise EInvalidPattern <-> ~ balanced a b s.
Proof. exact get_tag_indices_unbalanced. Qed.
Print Assumptions C03_unbalanced_iff.

Theorem C03_unbalanced_never_matches : forall rxof p i es w, untagged p i = false ->
  compile_pieces i (p_start p) (p_end p) = Raise EInvalidPattern ->
  regex_item rxof p i w = Ok (Some false) /\ fits_regex_loop rxof p (EStr i :: es) w = Ok false.
Proof.
  intros. split; [apply regex_item_unbalanced|apply fits_regex_unbalanced_head]; assumption.
Qed.
Print Assumptions C03_unbalanced_never_matches.

(* literal text is matched literally *)
Theorem C03_literal_exact : forall l s, rmatch (rx_lit l) s = true <-> s = l.
Proof. intros. rewrite rmatch_spec. apply rx_lit_lang. Qed.
Print Assumptions C03_literal_exact.

(* the matcher decides the language of a segment *)
Theorem C03_rmatch : forall r s, rmatch r s = true <-> In_lang r s.
Proof. exact rmatch_spec. Qed.
Print Assumptions C03_rmatch.

(* the compile cache (functools.lru_cache in front of compile_regex) is transparent: for every
   capacity and every history of calls, each call returns what compile_regex returns *)
Theorem C03_cache_transparent :
  forall (K : Type) (keq : K -> K -> bool), (forall x y, keq x y = true <-> x = y) ->
  forall (compile : K -> res pstr) cap ks,
  snd (lru_run K pstr keq compile cap [] ks) = map compile ks.
Proof.
  intros K keq Hk compile cap ks.
  apply (lru_run_transparent K pstr keq Hk compile cap ks []). apply lru_inv_nil.
Qed.
Print Assumptions C03_cache_transparent.

(* non-vacuity: a two-segment element with a nested delimiter pair *)
Example C03_nonvacuous :
  let ps := [([97%N], [98%N; 60%N; 62%N]); ([99%N], [100%N])] in   (* a<b<>>c<d>e *)
  wf_el 60 62 ps [101%N] /\
  compile_pattern (render 60 62 ps [101%N]) [60%N] [62%N] =
    Ok [94; 97; 40; 98; 60; 62; 41; 99; 40; 100; 41; 101; 36]%N /\
  ~ balanced 60 62 [60; 60; 97; 62]%N.
Proof.
  split; [|split].
  - cbn. repeat split; reflexivity.
  - vm_compute. reflexivity.
  - unfold balanced. vm_compute. discriminate.
Qed.
