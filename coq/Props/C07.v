(* C07 - Decisions do not depend on the storage backend.
   Layer 1 (any backend): the decision depends only on the matching subset, so every candidate set that
   contains all matching stored policies gives the decision of the whole store, and extra non-matching
   candidates change nothing.  Layer 2 (SQL): the predicates the SQL queries implement select every policy
   the corresponding checker matches.  Backends that return the whole store (Memory, Redis, no checker) are
   instances of layer 1 with the constant-true prefilter. *)
From Coq Require Import ZArith NArith List Bool.
From Vakt Require Import Base.PyMonad Base.PyVal Model.Regex Model.Rules Model.Policy Model.Checkers Model.Guard
     Model.Prefilter Proofs.RulesP Proofs.CheckersP Proofs.GuardP Proofs.PrefilterP.
Import ListNotations.

Theorem C07_superset_same_decision : forall fits_ q (pre : policy -> bool) ps, clean fits_ q ps ->
  (forall p, In p ps -> matchb fits_ q p = true -> pre p = true) ->
  decide fits_ (filter pre ps) q = decide fits_ ps q.
Proof. exact prefilter_same_decision. Qed.
Print Assumptions C07_superset_same_decision.

Theorem C07_extra_candidates_harmless : forall fits_ q ps extra, clean fits_ q ps -> clean fits_ q extra ->
  (forall p, In p extra -> matchb fits_ q p = false) ->
  decide fits_ (ps ++ extra) q = decide fits_ ps q.
Proof. exact extra_candidates_harmless. Qed.
Print Assumptions C07_extra_candidates_harmless.

(* SQL LIKE '%v%' (no escape character, optionally ASCII case-insensitive as on SQLite) selects every stored
   string that contains v - for every v, LIKE wildcards included *)
Theorem C07_like_superset : forall ci v e, is_substr v e = true -> like_contains ci v e = true.
Proof. exact like_superset. Qed.
Print Assumptions C07_like_superset.

(* the SQL queries: for policies as read back from SQL (default tags) and string inquiry fields *)
Theorem C07_sql_sound : forall uid eff su re ac ctx d p q a s r,
  mk_policy uid eff su re ac ctx d [60%N] [62%N] = Some p ->
  i_action q = VStr a -> i_subject q = VStr s -> i_resource q = VStr r ->
  forall rxof,
  (matchb (fits rxof CFuzzy) q p = true -> forall ci, sql_fuzzy ci a s r p = true) /\
  (matchb (fits rxof CExact) q p = true -> sql_exact a s r p = true) /\
  (matchb (fits rxof CRegex) q p = true -> sql_type_only StringBased p = true) /\
  (matchb (fits rxof CRules) q p = true -> sql_type_only RuleBased p = true).
Proof.
  intros uid eff su re ac ctx d p q a s r Hmk Ha Hs Hr rxof. split; [|split; [|split]].
  - intros Hm ci. eapply sql_fuzzy_sound; eassumption.
  - intros Hm. eapply sql_exact_sound; eassumption.
  - intros Hm. eapply sql_regex_type_sound; eassumption.
  - intros Hm. eapply sql_rules_type_sound; eassumption.
Qed.
Print Assumptions C07_sql_sound.

(* non-vacuity: the delimiter-wrapped deny policy is selected by the exact query *)
Example C07_nonvacuous :
  exists p, mk_policy (VInt 1) (VStr s_deny) [EStr [77%N]] [EStr [114%N]] [EStr [60; 97; 62]%N] [] VNone [60%N] [62%N] = Some p /\
    matchb (fits (fun _ => None) CExact) (mk_inquiry (VStr [114%N]) (VStr [97%N]) (VStr [77%N]) VNone) p = true /\
    sql_exact [97%N] [77%N] [114%N] p = true /\ like_contains true [97; 37]%N [120; 65; 37; 121]%N = true.
Proof. eexists. split; [reflexivity|]. repeat split; vm_compute; reflexivity. Qed.
