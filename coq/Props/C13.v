(* C13 - Inquiry equality and hash are content-based and process-stable.
   canon q = the exact text of Inquiry.to_json_sorted() (checked character by character against the
   implementation); content_eq = equal after sorting dictionary entries by key at every depth (norm).
   inq_eq / inq_hash = Inquiry.__eq__ / __hash__ (the hash value itself is compared with CPython's). *)
From Coq Require Import ZArith NArith List Bool Permutation Lia.
From Vakt Require Import Base.PyMonad Base.PyVal Model.Rules Model.Inquiry Proofs.PyValP Proofs.InquiryP Model.JsonParse Proofs.JsonParseP.
Import ListNotations.

(* same content => equal, same hash, same canonical text *)
Theorem C13_content_equal : forall a b, inq_content_eq a b ->
  inq_eq a b = true /\ inq_hash a = inq_hash b /\ canon a = canon b.
Proof. exact content_eq_equal. Qed.
Print Assumptions C13_content_equal.

(* dictionary key order is irrelevant ... *)
Theorem C13_key_order_irrelevant : forall kvs kvs', NoDup (map fst kvs) -> Permutation kvs kvs' ->
  content_eq (VDict kvs) (VDict kvs').
Proof. exact key_order_irrelevant. Qed.
Print Assumptions C13_key_order_irrelevant.

(* ... at any depth *)
Theorem C13_any_depth : forall l l' kvs kvs',
  (Forall2 content_eq l l' -> content_eq (VList l) (VList l') /\ content_eq (VTup l) (VTup l')) /\
  (Forall2 (fun x y => fst x = fst y /\ content_eq (snd x) (snd y)) kvs kvs' -> content_eq (VDict kvs) (VDict kvs')).
Proof. intros. split; [apply content_eq_list|apply content_eq_dict_values]. Qed.
Print Assumptions C13_any_depth.

(* equality is exactly equality of the canonical text, and an equivalence relation *)
Theorem C13_eq_iff_canon : forall a b, inq_eq a b = true <-> canon a = canon b.
Proof. exact eq_iff_canon. Qed.
Print Assumptions C13_eq_iff_canon.

Theorem C13_equivalence :
  (forall a, inq_eq a a = true) /\ (forall a b, inq_eq a b = inq_eq b a) /\
  (forall a b c, inq_eq a b = true -> inq_eq b c = true -> inq_eq a c = true).
Proof. exact inq_eq_equivalence. Qed.
Print Assumptions C13_equivalence.

(* equal inquiries have equal hashes; the hash is a closed function of the canonical text - the model has no
   seed parameter (process stability of the real hash is checked across interpreter processes) *)
Theorem C13_hash_compat : forall a b, inq_eq a b = true -> inq_hash a = inq_hash b.
Proof. exact hash_compat. Qed.
Print Assumptions C13_hash_compat.

Theorem C13_hash_of_text : forall a, inq_hash a = tuple_hash_ints (map Z.of_N (canon a)).
Proof. reflexivity. Qed.
Print Assumptions C13_hash_of_text.

(* omitted or empty fields normalise to the empty string / empty context *)
Theorem C13_normalise : forall r a s c,
  (truthy r = false -> i_resource (mk_inquiry r a s c) = VStr []) /\
  (truthy a = false -> i_action (mk_inquiry r a s c) = VStr []) /\
  (truthy s = false -> i_subject (mk_inquiry r a s c) = VStr []) /\
  (truthy c = false -> i_context (mk_inquiry r a s c) = VDict []) /\
  (truthy r = true -> i_resource (mk_inquiry r a s c) = r) /\ (truthy a = true -> i_action (mk_inquiry r a s c) = a) /\
  (truthy s = true -> i_subject (mk_inquiry r a s c) = s) /\ (truthy c = true -> i_context (mk_inquiry r a s c) = c).
Proof. exact mk_inquiry_normalises. Qed.
Print Assumptions C13_normalise.

(* "equal EXACTLY when the content is the same" is refuted in the other direction: the faithful model leaves out,
   as jsonpickle does, every dictionary entry under one of jsonpickle's reserved tag keys, so two inquiries that
   differ only there compare (and hash) equal.  The witness replays on the implementation (known finding
   jsonpickle-reserved-keys). *)
Theorem C13_only_if_refuted : exists a b, inq_eq a b = true /\ inq_hash a = inq_hash b /\ ~ inq_content_eq a b.
Proof. exact reserved_key_collision. Qed.
Print Assumptions C13_only_if_refuted.

(* ... and it HOLDS on the rest of the universe: values without floats, without surrogate code points in strings and
   without jsonpickle-reserved dictionary keys (inq_wf).  There the canonical text determines the content - a decoder
   (Model/JsonParse.v) inverts the printer - so two inquiries are equal exactly when their content is the same, and
   decoding the canonical text gives the normalised content back (the JSON round trip). *)
Theorem C13_text_determines_content : forall a b, jwf a -> jwf b -> print a = print b -> a = b.
Proof. exact print_injective. Qed.
Print Assumptions C13_text_determines_content.

Theorem C13_equal_iff_same_content : forall a b, inq_wf a -> inq_wf b ->
  (inq_eq a b = true <-> inq_content_eq a b).
Proof. exact equal_iff_same_content. Qed.
Print Assumptions C13_equal_iff_same_content.

Theorem C13_round_trip : forall q, inq_wf q ->
  exists fuel, parse_val fuel (canon q) = Some (norm (inq_val q), []).
Proof. exact decode_canon. Qed.
Print Assumptions C13_round_trip.

(* non-vacuity: key order at two depths; a one-point mutation is unequal *)
Definition qa : inquiry :=
  mk_inquiry (VDict [([97%N], VInt 1); ([98%N], VDict [([120%N], VInt 1); ([121%N], VList [VInt 2])])]) VNone (VStr [77%N]) VNone.
Definition qb : inquiry :=
  mk_inquiry (VDict [([98%N], VDict [([121%N], VList [VInt 2]); ([120%N], VInt 1)]); ([97%N], VInt 1)]) (VStr []) (VStr [77%N]) (VDict []).
Definition qc : inquiry :=
  mk_inquiry (VDict [([98%N], VDict [([121%N], VList [VInt 3]); ([120%N], VInt 1)]); ([97%N], VInt 1)]) (VStr []) (VStr [77%N]) (VDict []).
Example C13_domain_nonvacuous : inq_wf qa /\ inq_wf qb /\ inq_wf qc /\ decode (canon qa) = Some (norm (inq_val qa)).
Proof.
  unfold inq_wf, qa, qb, qc, mk_inquiry, or_default. cbn.
  repeat match goal with |- _ /\ _ => split end; try exact I; try reflexivity;
    try (unfold JsonStrP.valid_str; repeat constructor; unfold JsonStrP.valid_cp; lia).
Qed.

Example C13_nonvacuous :
  inq_eq qa qb = true /\ inq_hash qa = inq_hash qb /\ inq_eq qa qc = false /\ inq_content_eq qa qb.
Proof. unfold inq_content_eq, content_eq. repeat match goal with |- _ /\ _ => split end; vm_compute; reflexivity. Qed.
