(* C12 - The enfolding storage cache stays coherent with its backend.
   st = (backend store, cache store); coherent st = both hold pairwise distinct uids and every lookup gives the
   same answer in both.  `fault` = the backend call of a mutation raises. *)
From Coq Require Import ZArith List Bool Permutation.
From Vakt Require Import Base.PyMonad Model.Store Proofs.StoreP Proofs.EnfoldP.
From Vakt Require Import Base.PyVal Model.Rules Model.Policy Model.Guard Proofs.GuardP.
Import ListNotations.

Section C12.
  Variables K V : Type.
  Variable keq klt : K -> K -> bool.
  Hypothesis keq_eq : forall a b, keq a b = true <-> a = b.

  (* population (at construction or later) of an empty in-memory cache, any batch size >= 1 *)
  Theorem C12_populate : forall (backend : smap K V) b, wf K V backend -> (0 < b)%Z ->
    coherent K V keq (populate K V keq klt Insertion {| e_backend := backend; e_cache := [] |} b).
  Proof. apply populate_coherent. assumption. Qed.

  (* any sequence of operations, with a backend failure injected at any mutation position *)
  Theorem C12_history : forall ob oc ops st, coherent K V keq st -> coherent K V keq (enfold_run K V keq klt ob oc st ops).
  Proof. intros ob oc ops st. apply enfold_run_coherent. assumption. Qed.

  (* coherent stores hold the same policies *)
  Theorem C12_same_policies : forall st, coherent K V keq st -> Permutation (e_cache K V st) (e_backend K V st).
  Proof. apply coherent_perm. assumption. Qed.

  (* a mutation returns the backend's value and applies the backend's change; if the backend refuses, or the
     backend call fails, neither store changes and the error is propagated *)
  Theorem C12_mutation : forall ob oc st p, coherent K V keq st -> is_mutation K V p = true ->
    snd (enfold_step K V keq klt ob oc st p false) = snd (step K V keq klt ob (e_backend K V st) p) /\
    e_backend K V (fst (enfold_step K V keq klt ob oc st p false)) = fst (step K V keq klt ob (e_backend K V st) p) /\
    (raised K V (snd (enfold_step K V keq klt ob oc st p false)) = true ->
       fst (enfold_step K V keq klt ob oc st p false) = st) /\
    enfold_step K V keq klt ob oc st p true = (st, ORejected).
  Proof.
    intros ob oc st p Hco Hm. destruct (enfold_mutation K V keq klt keq_eq ob oc st p Hco Hm) as [_ [H1 [H2 H3]]].
    split; [exact H1|]. split; [exact H2|]. split; [exact H3|]. apply enfold_fault. exact Hm.
  Qed.

  (* reads: lookup by uid and full retrieval return what the backend alone would return *)
  Theorem C12_reads : forall ob oc st fault, coherent K V keq st ->
    (forall u, snd (enfold_step K V keq klt ob oc st (Get u) fault) = OGet (s_get K V keq u (e_backend K V st))) /\
    (forall b, (0 < b)%Z -> exists l,
        snd (enfold_step K V keq klt ob oc st (RetrieveAll b) fault) = OList l /\ Permutation l (e_backend K V st)) /\
    (forall p, is_mutation K V p = false -> fst (enfold_step K V keq klt ob oc st p fault) = st).
  Proof.
    intros ob oc st fault Hco. split; [|split].
    - intros u. apply enfold_get; assumption.
    - intros b Hb. apply enfold_retrieve_all; assumption.
    - intros p Hm. apply enfold_read. exact Hm.
  Qed.

  (* reads that the populated cache can answer do not touch the backend *)
  Theorem C12_no_backend_touch : forall st, coherent K V keq st ->
    (forall u v, s_get K V keq u (e_backend K V st) = Some v -> enfold_reads_backend keq st (Get u) = false) /\
    (forall b, (0 < b)%Z -> e_backend K V st <> [] -> enfold_reads_backend keq st (RetrieveAll b) = false).
  Proof. apply enfold_no_backend_touch. assumption. Qed.

  (* candidate search through the populated cache: the cache's candidates are the backend's policies (in the cache's
     order); only an empty cache asks the backend *)
  Theorem C12_find : forall bfind st, coherent K V keq st ->
    Permutation (enfold_find K V bfind st) (e_backend K V st) \/
    (e_cache K V st = [] /\ e_backend K V st = [] /\ enfold_find K V bfind st = bfind []).
  Proof.
    intros bfind st Hco. pose proof (coherent_perm K V keq keq_eq st Hco) as Hp. unfold enfold_find.
    destruct (e_cache K V st) as [|x c] eqn:Ec; [|left; exact Hp].
    right. apply Permutation_nil in Hp. rewrite Hp. auto.
  Qed.
End C12.

(* decisions made through the enfolding cache equal decisions made directly over the backend: the guard sees the
   cache's candidates, a permutation of the backend's policies, and the decision does not depend on the order (C01).
   `bfind` is the backend's own candidate search; for the empty store it has nothing to return. *)
Theorem C12_decisions_equal : forall (K : Type) keq, (forall a b : K, keq a b = true <-> a = b) ->
  forall fits_ q bfind (st : enfold K policy), coherent K policy keq st -> bfind [] = [] ->
  benign_all fits_ q (map snd (e_backend K policy st)) ->
  decide fits_ (map snd (enfold_find K policy bfind st)) q = decide fits_ (map snd (e_backend K policy st)) q.
Proof.
  intros K keq Hk fits_ q bfind st Hco Hb Hben.
  destruct (C12_find K policy keq Hk bfind st Hco) as [Hp|[_ [Eb Ef]]].
  - symmetry. apply decide_perm; [exact Hben|]. apply Permutation_map, Permutation_sym, Hp.
  - rewrite Ef, Hb, Eb. reflexivity.
Qed.

Print Assumptions C12_populate.
Print Assumptions C12_history.
Print Assumptions C12_same_policies.
Print Assumptions C12_mutation.
Print Assumptions C12_reads.
Print Assumptions C12_no_backend_touch.
Print Assumptions C12_find.
Print Assumptions C12_decisions_equal.

Example C12_nonvacuous :
  let st := populate nat nat Nat.eqb Nat.ltb Insertion {| e_backend := [(1, 10); (2, 20); (3, 30)]; e_cache := [] |} 2 in
  e_cache nat nat st = [(1, 10); (2, 20); (3, 30)] /\
  enfold_step nat nat Nat.eqb Nat.ltb SortedByUid Insertion st (Add 2 21 false) false = (st, OExists) /\
  enfold_step nat nat Nat.eqb Nat.ltb SortedByUid Insertion st (Delete 2) true = (st, ORejected) /\
  fst (enfold_step nat nat Nat.eqb Nat.ltb SortedByUid Insertion st (Delete 2) false) =
    {| e_backend := [(1, 10); (3, 30)]; e_cache := [(1, 10); (3, 30)] |}.
Proof. repeat split; vm_compute; reflexivity. Qed.
