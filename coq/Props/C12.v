(* C12 - The enfolding storage cache stays coherent with its backend.
   st = (backend store, cache store); coherent st = both hold pairwise distinct uids and every lookup gives the
   same answer in both.  `fault` = the backend call of a mutation raises. *)
From Coq Require Import ZArith List Bool Permutation.
From Vakt Require Import Base.PyMonad Model.Store Proofs.StoreP Proofs.EnfoldP.
Import ListNotations.

Section C12.
  Variables K V : Type.
  Variable keq klt : K -> K -> bool.
  Hypothesis keq_eq : forall a b, keq a b = true <-> a = b.

  (* population (at construction or later) of an empty in-memory cache, any batch size >= 1 *)
  Theorem C12_populate : forall (backend : smap K V) b, wf K V backend -> (0 < b)%Z ->
    coherent K V keq (populate K V keq klt Insertion {| e_backend := backend; e_cache := [] |} b).
  Proof. apply populate_coherent. assumption. Qed.

  (* any sequence of operations, with a backend failure injected at any mutation position *)
  Theorem C12_history : forall ob oc ops st, coherent K V keq st -> coherent K V keq (enfold_run K V keq klt ob oc st ops).
  Proof. intros ob oc ops st. apply enfold_run_coherent. assumption. Qed.

  (* coherent stores hold the same policies *)
  Theorem C12_same_policies : forall st, coherent K V keq st -> Permutation (e_cache K V st) (e_backend K V st).
  Proof. apply coherent_perm. assumption. Qed.

  (* a mutation returns the backend's value and applies the backend's change; if the backend refuses, or the
     backend call fails, neither store changes and the error is propagated *)
  Theorem C12_mutation : forall ob oc st p, coherent K V keq st -> is_mutation K V p = true ->
    snd (enfold_step K V keq klt ob oc st p false) = snd (step K V keq klt ob (e_backend K V st) p) /\
    e_backend K V (fst (enfold_step K V keq klt ob oc st p false)) = fst (step K V keq klt ob (e_backend K V st) p) /\
    (raised K V (snd (enfold_step K V keq klt ob oc st p false)) = true ->
       fst (enfold_step K V keq klt ob oc st p false) = st) /\
    enfold_step K V keq klt ob oc st p true = (st, ORejected).
  Proof.
    intros ob oc st p Hco Hm. destruct (enfold_mutation K V keq klt keq_eq ob oc st p Hco Hm) as [_ [H1 [H2 H3]]].
    split; [exact H1|]. split; [exact H2|]. split; [exact H3|]. apply enfold_fault. exact Hm.
  Qed.

  (* reads: lookup by uid and full retrieval return what the backend alone would return *)
  Theorem C12_reads : forall ob oc st fault, coherent K V keq st ->
    (forall u, snd (enfold_step K V keq klt ob oc st (Get u) fault) = OGet (s_get K V keq u (e_backend K V st))) /\
    (forall b, (0 < b)%Z -> exists l,
        snd (enfold_step K V keq klt ob oc st (RetrieveAll b) fault) = OList l /\ Permutation l (e_backend K V st)) /\
    (forall p, is_mutation K V p = false -> fst (enfold_step K V keq klt ob oc st p fault) = st).
  Proof.
    intros ob oc st fault Hco. split; [|split].
    - intros u. apply enfold_get; assumption.
    - intros b Hb. apply enfold_retrieve_all; assumption.
    - intros p Hm. apply enfold_read. exact Hm.
  Qed.

  (* reads that the populated cache can answer do not touch the backend *)
  Theorem C12_no_backend_touch : forall st, coherent K V keq st ->
    (forall u v, s_get K V keq u (e_backend K V st) = Some v -> enfold_reads_backend keq st (Get u) = false) /\
    (forall b, (0 < b)%Z -> e_backend K V st <> [] -> enfold_reads_backend keq st (RetrieveAll b) = false).
  Proof. apply enfold_no_backend_touch. assumption. Qed.
End C12.

Print Assumptions C12_populate.
Print Assumptions C12_history.
Print Assumptions C12_same_policies.
Print Assumptions C12_mutation.
Print Assumptions C12_reads.
Print Assumptions C12_no_backend_touch.

Example C12_nonvacuous :
  let st := populate nat nat Nat.eqb Nat.ltb Insertion {| e_backend := [(1, 10); (2, 20); (3, 30)]; e_cache := [] |} 2 in
  e_cache nat nat st = [(1, 10); (2, 20); (3, 30)] /\
  enfold_step nat nat Nat.eqb Nat.ltb SortedByUid Insertion st (Add 2 21 false) false = (st, OExists) /\
  enfold_step nat nat Nat.eqb Nat.ltb SortedByUid Insertion st (Delete 2) true = (st, ORejected) /\
  fst (enfold_step nat nat Nat.eqb Nat.ltb SortedByUid Insertion st (Delete 2) false) =
    {| e_backend := [(1, 10); (3, 30)]; e_cache := [(1, 10); (3, 30)] |}.
Proof. repeat split; vm_compute; reflexivity. Qed.
