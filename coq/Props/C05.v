(* C05 - Built-in rules mean what they say and compose as boolean algebra.
   sat r w i is the Python value `r.satisfied(w, i)` returns (or the exception it raises);
   sat_b is its truthiness, which is all any consumer looks at. *)
From Coq Require Import ZArith NArith List Bool Permutation.
From Vakt Require Import Base.PyMonad Base.PyVal Model.Regex Model.Net Model.Rules Proofs.RulesP.
Import ListNotations.
Ltac conj := repeat match goal with |- _ /\ _ => split end.

(* --- negative rules are the exact complement of their positive twin (same raise set) --- *)
Theorem C05_complements : forall a d w i,
  sat (RNotEq a) w i = rmap negv (sat (REq a) w i) /\
  sat (RNotIn d) w i = rmap negv (sat (RIn d) w i) /\
  sat (RAllNotIn d) w i = rmap negv (sat (RAllIn d) w i) /\
  sat RFalsy w i = rmap negv (sat RTruthy w i) /\
  sat RNeither w i = rmap negv (sat RAny w i).
Proof.
  intros. conj;
    [apply noteq_complement|apply notin_complement|apply allnotin_complement|apply falsy_complement|apply neither_complement].
Qed.
Print Assumptions C05_complements.

Theorem C05_not : forall r w i,
  sat (RNot r) w i = rmap negv (sat r w i) /\ sat_b (RNot (RNot r)) w i = sat_b r w i.
Proof. intros. split; [apply not_negates|apply double_negation]. Qed.
Print Assumptions C05_not.

(* --- And / Or --- *)
Theorem C05_empty_compositions : forall w i,
  sat (RAnd []) w i = Ok (VBool false) /\ sat (ROr []) w i = Ok (VBool false).
Proof. intros. split; reflexivity. Qed.
Print Assumptions C05_empty_compositions.

Theorem C05_and : forall rs w i,
  (forall e, sat (RAnd rs) w i = Raise e <-> sat_all rs w i = Raise e) /\
  (forall vs, sat_all rs w i = Ok vs ->
     (sat_b (RAnd rs) w i = Ok true <-> rs <> [] /\ Forall (fun v => truthy v = true) vs)).
Proof. intros. split; [intros e; apply and_raises|intros vs; apply and_conjunction]. Qed.
Print Assumptions C05_and.

Theorem C05_or : forall rs w i,
  (sat (ROr rs) w i = Ok (VBool true) <->
     exists pre r post v, rs = pre ++ r :: post /\ sat r w i = Ok v /\ truthy v = true /\
       Forall (fun x => exists u, sat x w i = Ok u /\ truthy u = false) pre) /\
  (sat (ROr rs) w i = Ok (VBool false) <->
     Forall (fun x => exists u, sat x w i = Ok u /\ truthy u = false) rs) /\
  (forall v, sat (ROr rs) w i = Ok v -> v = VBool true \/ v = VBool false).
Proof. intros. split; [apply or_true|split; [apply or_false|apply or_result_bool]]. Qed.
Print Assumptions C05_or.

Theorem C05_de_morgan : forall rs w i vs, rs <> [] -> sat_all rs w i = Ok vs ->
  sat_b (RNot (RAnd rs)) w i = sat_b (ROr (map RNot rs)) w i /\
  sat_b (RNot (ROr rs)) w i = sat_b (RAnd (map RNot rs)) w i.
Proof. intros rs w i vs Hn H. split; [eapply de_morgan_and|eapply de_morgan_or]; eassumption. Qed.
Print Assumptions C05_de_morgan.

Theorem C05_order_irrelevant : forall rs rs' w i vs, Permutation rs rs' -> sat_all rs w i = Ok vs ->
  sat_b (RAnd rs') w i = sat_b (RAnd rs) w i /\ sat_b (ROr rs') w i = sat_b (ROr rs) w i.
Proof. intros rs rs' w i vs P H. split; [eapply and_perm|eapply or_perm]; eassumption. Qed.
Print Assumptions C05_order_irrelevant.

(* --- comparison rules are the Python operators (py_eq / py_lt / py_le of Base/PyVal.v) --- *)
Theorem C05_comparisons : forall a w i,
  sat (REq a) w i = Ok (VBool (py_eq (tup2list a) w)) /\
  sat (RGreater a) w i = rmap VBool (py_lt a w) /\
  sat (RLess a) w i = rmap VBool (py_lt w a) /\
  sat (RGreaterOrEqual a) w i = rmap VBool (py_le a w) /\
  sat (RLessOrEqual a) w i = rmap VBool (py_le w a).
Proof.
  intros. conj; [reflexivity|apply greater_is_lt|apply less_is_lt|apply ge_is_le|apply le_is_le].
Qed.
Print Assumptions C05_comparisons.

Theorem C05_numeric_order : forall a w i x y, num_of a = Some x -> num_of w = Some y ->
  sat (RGreaterOrEqual a) w i = Ok (VBool (q_ltb x y || q_eqb x y)) /\
  sat (RGreater a) w i = Ok (VBool (q_ltb x y)) /\
  sat (RLessOrEqual a) w i = Ok (VBool (negb (q_ltb x y))) /\
  sat (RLess a) w i = Ok (VBool (negb (q_ltb x y || q_eqb x y))).
Proof. exact numeric_ge_iff. Qed.
Print Assumptions C05_numeric_order.

(* --- membership rules --- *)
Theorem C05_in : forall d w i,
  (sat (RIn d) w i = Ok (VBool true) <-> hashable w = true /\ exists y, In y d /\ py_eq w y = true) /\
  (sat (RIn d) w i = Raise ETypeError <-> hashable w = false) /\
  (forall e, sat (RIn d) w i = Raise e -> e = ETypeError).
Proof. exact in_spec. Qed.
Print Assumptions C05_in.

Theorem C05_list_rules : forall d l i,
  (sat (RAllIn d) (VList l) i = Ok (VBool true) <->
     forallb hashable l = true /\ forall x, In x l -> exists y, In y d /\ py_eq x y = true) /\
  (sat (RAnyIn d) (VList l) i = Ok (VBool true) <->
     forallb hashable l = true /\ exists x, In x l /\ exists y, In y d /\ py_eq x y = true) /\
  (sat (RAnyNotIn d) (VList l) i = Ok (VBool true) <->
     forallb hashable l = true /\ exists x, In x l /\ mem_val x d = false) /\
  (forall w, sat (RAnyNotIn d) w i = sat (RAllNotIn d) w i) /\
  (forall w, is_list w = false ->
     sat (RAllIn d) w i = Raise ETypeError /\ sat (RAllNotIn d) w i = Raise ETypeError /\
     sat (RAnyIn d) w i = Raise ETypeError /\ sat (RAnyNotIn d) w i = Raise ETypeError).
Proof.
  intros. split; [apply allin_spec|split; [apply anyin_spec|split; [apply anynotin_spec|split]]].
  - intros w. apply anynotin_allnotin.
  - intros w. apply list_rules_nonlist.
Qed.
Print Assumptions C05_list_rules.

(* --- string rules (fold_ci ci = lower when the ci flag is set, identity otherwise) --- *)
Theorem C05_strings : forall s ci t i,
  (sat (RStartsWith s ci) (VStr t) i = Ok (VBool true) <-> exists u, fold_ci ci t = fold_ci ci s ++ u) /\
  (sat (REndsWith s ci) (VStr t) i = Ok (VBool true) <-> exists u, fold_ci ci t = u ++ fold_ci ci s) /\
  (sat (RContains s ci) (VStr t) i = Ok (VBool true) <-> exists a b, fold_ci ci t = a ++ fold_ci ci s ++ b) /\
  (sat (REqual s ci) (VStr t) i = Ok (VBool true) <-> fold_ci ci t = fold_ci ci s).
Proof. exact string_rules_spec. Qed.
Print Assumptions C05_strings.

Theorem C05_strings_nonstring : forall s ci w i, is_str w = false ->
  sat (RStartsWith s ci) w i = Ok (VBool false) /\ sat (REndsWith s ci) w i = Ok (VBool false) /\
  sat (RContains s ci) w i = Ok (VBool false) /\ sat (REqual s ci) w i = Ok (VBool false).
Proof. exact string_rules_nonstring. Qed.
Print Assumptions C05_strings_nonstring.

Theorem C05_regexmatch : forall r w i s, str_of w = Ok s ->
  (sat (RRegexMatch r) w i = Ok (VBool true) <-> exists p t, s = p ++ t /\ In_lang r p).
Proof. exact regexmatch_spec. Qed.
Print Assumptions C05_regexmatch.

(* --- network rule: CIDR containment --- *)
Theorem C05_cidr : forall c t i,
  sat (RCIDR (VStr c)) (VStr t) i = Ok (VBool true) <->
  exists a n, parse_ip t = Ok (Some a) /\ parse_net c = Ok (Some n) /\ in_net a n = true.
Proof. exact cidr_spec. Qed.
Print Assumptions C05_cidr.

Theorem C05_cidr_containment : forall x n,
  (net_v6 n = false -> (net_len n <= 32)%N -> (N.modulo (net_addr n) (2 ^ (32 - net_len n)) = 0)%N ->
     (in_net (IP4 x) n = true <-> (net_addr n <= x < net_addr n + 2 ^ (32 - net_len n))%N)) /\
  (net_v6 n = true -> (net_len n <= 128)%N -> (N.modulo (net_addr n) (2 ^ (128 - net_len n)) = 0)%N ->
     (in_net (IP6 x) n = true <-> (net_addr n <= x < net_addr n + 2 ^ (128 - net_len n))%N)) /\
  (net_v6 n = true -> in_net (IP4 x) n = false) /\ (net_v6 n = false -> in_net (IP6 x) n = false).
Proof.
  intros. split; [apply in_net_interval4|split; [apply in_net_interval6|apply in_net_versions]].
Qed.
Print Assumptions C05_cidr_containment.

(* --- inquiry-matching rules compare against the current inquiry's own field or attribute --- *)
Theorem C05_inquiry_rules : forall f a w q,
  sat (RMatch f None) w (Some q) = Ok (VBool (py_eq w (inq_field f q))) /\
  sat (RMatch f (Some a)) w (Some q) =
    Ok (VBool (match inq_field f q with
               | VDict kvs => match lookup a kvs with Some x => py_eq w x | None => false end
               | _ => false end)) /\
  sat RSubjectEqual w (Some q) = Ok (VBool (is_str w && py_eq w (i_subject q))) /\
  sat RActionEqual w (Some q) = Ok (VBool (is_str w && py_eq w (i_action q))) /\
  sat RResourceIn w (Some q) = Ok (VBool (match w with VList l => mem_val (i_resource q) l | _ => false end)) /\
  sat_b (RMatch f (Some a)) w None = Ok false /\ sat_b RSubjectEqual w None = Ok false /\
  sat_b RActionEqual w None = Ok false /\ sat_b RResourceIn w None = Ok false.
Proof.
  intros. split; [apply match_no_attr|split; [apply match_attr|]].
  destruct (inquiry_equal_rules w q) as [H1 [H2 H3]].
  destruct (inquiry_rules_no_inquiry f (Some a) w) as [K1 [K2 [K3 K4]]].
  conj; assumption.
Qed.
Print Assumptions C05_inquiry_rules.

(* non-vacuity *)
Example C05_nonvacuous :
  sat_all [RGreater (VInt 50%Z); RLess (VInt 120%Z)] (VInt 80%Z) None = Ok [VBool true; VBool true] /\
  sat_b (RAnd [RGreater (VInt 50%Z); RLess (VInt 120%Z)]) (VInt 80%Z) None = Ok true /\
  sat (ROr [RBroken EValueError; RAny]) VNone None = Raise EValueError /\
  sat (ROr [RAny; RBroken EValueError]) VNone None = Ok (VBool true) /\
  sat (RCIDR (VStr [49;48;46;48;46;48;46;48;47;56]%N)) (VStr [49;48;46;49;46;50;46;51]%N) None = Ok (VBool true).
Proof. conj; vm_compute; reflexivity. Qed.
