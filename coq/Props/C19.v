(* C19 - Mongo data migrations preserve policy meaning and are reversible.
   The migrations with orders 2, 3, 4 as functions on documents (Model/MongoMig.v); _each_doc keeps the stored
   document whenever the processor raises and reports it.  Meaning preservation after upgrade (the upgraded
   document read by the current storage gives the verdicts of the policy it encodes) is established by the
   correspondence run against the checker models, not by a theorem: C19 is partial. *)
From Coq Require Import ZArith NArith List Bool.
From Vakt Require Import Base.PyMonad Base.PyVal Model.MongoMig Proofs.MongoMigP.
Import ListNotations.

(* policies are never dropped: any sequence of up / down steps keeps exactly the uids of the collection *)
Theorem C19_no_drop : forall steps coll, map doc_uid (fst (run_steps coll steps)) = map doc_uid coll.
Proof. exact run_steps_no_drop. Qed.
Print Assumptions C19_no_drop.

(* a document the processor cannot convert (Irreversible or any other exception) is left as it is and reported;
   only such documents are reported *)
Theorem C19_unconvertible_untouched_and_reported : forall f coll d,
  (forall e, In d coll -> f d = Raise e -> In d (fst (each_doc f coll)) /\ In d (snd (each_doc f coll))) /\
  (In d (snd (each_doc f coll)) -> exists e, f d = Raise e /\ In d coll).
Proof.
  intros f coll d. split.
  - intros e Hin Hf. eapply each_doc_failed_untouched; eassumption.
  - apply each_doc_reported_only_failures.
Qed.
Print Assumptions C19_unconvertible_untouched_and_reported.

(* renamed rule classes: up #3 followed by down #3 restores every rule of a document that is representable in
   the older layout (its class is not one of the new names and exists before 1.2.0) *)
Theorem C19_down3_up3_rule : forall kvs ts, lookup k_pyobject kvs = Some (VStr ts) -> is_new_name ts = false ->
  only_120 (rename_up ts) = false ->
  exists r', up3_rule (VDict kvs) = Ok r' /\ down3_rule r' = Ok (VDict kvs).
Proof. exact down3_up3_rule. Qed.
Print Assumptions C19_down3_up3_rule.

(* string-encoded rules: up #2 followed by down #2 restores {"type", "contents"} for vakt classes other than
   RegexMatchRule and for custom classes holding primitive data only *)
Theorem C19_down2_up2_rule : forall t ts ckvs, t = VStr ts -> NoDup (map fst ckvs) -> lookup k_pyobject ckvs = None ->
  (is_prefix vakt_rules_prefix ts = true /\ pstr_eqb ts regex_match_rule = false \/
   is_prefix vakt_rules_prefix ts = false /\ existsb (fun kv => has_reserved (snd kv)) ckvs = false) ->
  exists r', up2_rule (VDict [(k_type, t); (k_contents, VDict ckvs)]) = Ok r' /\
             down2_rule r' = Ok (VDict [(k_type, t); (k_contents, VDict ckvs)]).
Proof. exact down2_up2_rule. Qed.
Print Assumptions C19_down2_up2_rule.

(* down #4 removes exactly the compiled fields *)
Theorem C19_down4 : forall d d', down4_doc d = Ok d' ->
  lookup (compiled_name k_actions) d' = None /\ lookup (compiled_name k_subjects) d' = None /\
  lookup (compiled_name k_resources) d' = None /\
  (forall k, pstr_eqb k (compiled_name k_actions) = false -> pstr_eqb k (compiled_name k_subjects) = false ->
             pstr_eqb k (compiled_name k_resources) = false -> lookup k d' = lookup k d).
Proof. exact down4_removes. Qed.
Print Assumptions C19_down4.

(* every step keeps the uid of a document it converts *)
Theorem C19_uid_kept : forall s d d', step_fn s d = Ok d' -> doc_uid d' = doc_uid d.
Proof. exact steps_keep_uid. Qed.
Print Assumptions C19_uid_kept.

(* the class renames are inverse to each other *)
Theorem C19_renames_inverse : forall t, is_new_name t = false -> rename_down (rename_up t) = t.
Proof. exact rename_round_trip. Qed.
Print Assumptions C19_renames_inverse.
