(* C10 - Policy type always reflects its elements; invalid definitions are rejected.
   Only statements, `exact`, Print Assumptions and non-vacuity examples live here. *)
From Coq Require Import ZArith NArith List Bool.
From Vakt Require Import Base.PyMonad Base.PyVal Model.Rules Model.Policy Proofs.PolicyP Proofs.PolicyJsonP.
Import ListNotations.

(* every successful construction establishes the invariant: the stored type is the type implied
   by the current subject/resource/action elements, and the context is a dictionary *)
Theorem C10_ctor : forall a s, ctor a = Ok s -> policy_inv s.
Proof. exact ctor_inv. Qed.
Print Assumptions C10_ctor.

(* any accepted assignment re-establishes it *)
Theorem C10_setattr : forall s n v s', policy_inv s -> setattr s n v = Ok s' -> policy_inv s'.
Proof. intros s n v s' I H. exact (setattr_ok_inv s n v s' (inv_ctx s I) H). Qed.
Print Assumptions C10_setattr.

(* ... hence after every history of accepted and rejected assignments *)
Theorem C10_history : forall a ops s, ctor a = Ok s -> policy_inv (fold_left try_setattr ops s).
Proof. intros a ops s H. exact (history_inv ops s (ctor_inv a s H)). Qed.
Print Assumptions C10_history.

(* what the stored type means: 1 = all elements are strings (or none), 2 = all rules/dicts *)
Theorem C10_type_meaning : forall s, policy_inv s ->
  exists es, all_elems s = Ok es /\
    ((lookup n_type s = Some (AV (VInt 1%Z)) /\ forallb is_xstr es = true) \/
     (lookup n_type s = Some (AV (VInt 2%Z)) /\ forallb is_xrule es = true /\ es <> [])).
Proof. exact type_meaning. Qed.
Print Assumptions C10_type_meaning.

(* rejected assignments: the policy is what it was *)
Theorem C10_reject_unchanged : forall s n v e, setattr s n v = Raise e -> try_setattr s (n, v) = s.
Proof. exact setattr_rejected_unchanged. Qed.
Print Assumptions C10_reject_unchanged.

(* ill-typed elements, non-dictionary contexts and mixed element kinds are rejected *)
Theorem C10_bad_elem_rejected : forall s n v es,
  is_def_field n = true -> iter_aval v = Ok es -> forallb elemv_ok es = false ->
  setattr s n v = Raise EPolicyCreation.
Proof. exact setattr_bad_elem_rejected. Qed.
Print Assumptions C10_bad_elem_rejected.

Theorem C10_nondict_context_rejected : forall s v,
  is_dict_aval v = false -> setattr s n_context v = Raise EPolicyCreation.
Proof. exact setattr_nondict_context_rejected. Qed.
Print Assumptions C10_nondict_context_rejected.

Theorem C10_mixed_rejected : forall s n v es,
  is_def_field n = true -> iter_aval v = Ok es -> forallb elemv_ok es = true ->
  (exists all, all_elems (set_attr n v s) = Ok all /\
               forallb is_xstr all = false /\ forallb is_xrule all = false) ->
  setattr s n v = Raise EPolicyCreation.
Proof. exact setattr_mixed_rejected. Qed.
Print Assumptions C10_mixed_rejected.

(* the type cannot be set directly: the assignment is accepted and changes nothing about it *)
Theorem C10_type_not_settable : forall s v, policy_inv s ->
  exists s', setattr s n_type (AV v) = Ok s' /\ lookup n_type s' = lookup n_type s.
Proof. exact type_not_settable. Qed.
Print Assumptions C10_type_not_settable.

(* non-vacuity: a rule-based policy, an accepted re-typing assignment, a rejected mixed one *)
Definition ex_args : ctor_args :=
  {| c_uid := AV (VInt 1%Z); c_subjects := ASeq false [XRule RAny];
     c_effect := AV (VStr s_allow); c_resources := ASeq true [];
     c_actions := ASeq false [XDict [([107%N], REq (VInt 1%Z))]];
     c_context := AV VNone; c_rules := AV VNone; c_description := AV VNone |}.

Example C10_nonvacuous :
  exists s, ctor ex_args = Ok s /\ lookup n_type s = Some (AV (VInt 2%Z)) /\
    setattr s n_subjects (ASeq false [XStr [97%N]]) = Raise EPolicyCreation /\
    (exists s', setattr s n_actions (ASeq false []) = Ok s' /\
                setattr s' n_subjects (ASeq false []) <> Raise EPolicyCreation).
Proof.
  eexists. split; [vm_compute; reflexivity|]. split; [reflexivity|]. split; [reflexivity|].
  eexists. split; [vm_compute; reflexivity|]. vm_compute. discriminate.
Qed.

(* serialising (to_json -> Policy._data rewrites tuple-valued attributes of the live object into lists, not through
   __setattr__) keeps the invariant, at any point of any history of assignments *)
Theorem C10_serialising_keeps_invariant : forall s, policy_inv s -> policy_inv (data_of s).
Proof. exact data_of_inv. Qed.
Print Assumptions C10_serialising_keeps_invariant.

Theorem C10_history_with_serialising : forall a steps s, ctor a = Ok s -> policy_inv (fold_left run_pstep steps s).
Proof. intros a steps s H. apply pstep_history_inv. exact (ctor_inv a s H). Qed.
Print Assumptions C10_history_with_serialising.
