(* C02 - Fail-closed totality of decisions.
   find_result = what the storage hands to the guard: it raises at once (FRaise), returns None (FNone), or
   yields policies lazily with the n-th `next` possibly raising (FIter items, an item being a policy or an
   exception).  Exceptions are split into Exception subclasses and other BaseExceptions (is_exception). *)
From Coq Require Import ZArith NArith List Bool.
From Vakt Require Import Base.PyMonad Base.PyVal Model.Regex Model.Rules Model.Policy Model.Checkers
     Model.Guard Proofs.CheckersP Proofs.GuardP.
Import ListNotations.

(* a decision request never raises an Exception: it returns a boolean (only a non-Exception
   BaseException such as KeyboardInterrupt can escape) *)
Theorem C02_total : forall fits_ fr q e,
  is_allowed_check fits_ fr q = Raise e -> is_exception e = false.
Proof. intros fits_ fr q e. apply is_allowed_check_total. Qed.
Print Assumptions C02_total.

Theorem C02_none_denies : forall fits_ q, is_allowed_check fits_ FNone q = Ok (false, []).
Proof. intros. apply none_denies. Qed.
Print Assumptions C02_none_denies.

Theorem C02_storage_raise_denies : forall fits_ q e, is_exception e = true ->
  is_allowed_check fits_ (FRaise e) q = Ok (false, []).
Proof. intros. apply storage_raise_denies. assumption. Qed.
Print Assumptions C02_storage_raise_denies.

(* a raise part-way through iteration, in a checker, a policy pattern or a context rule *)
Theorem C02_evaluation_raise_denies : forall fits_ q items e, is_exception e = true ->
  filter_lazy (matches fits_ q) items = Raise e ->
  is_allowed_check fits_ (FIter items) q = Ok (false, []).
Proof. intros. eapply evaluation_raise_denies; eassumption. Qed.
Print Assumptions C02_evaluation_raise_denies.

(* allow is only ever answered when every evaluation completed and some allow policy matched *)
Theorem C02_allow_witness : forall fits_ q fr audits,
  is_allowed_check fits_ fr q = Ok (true, audits) ->
  exists ps, fr = FIter (map inl ps) /\ clean fits_ q ps /\
    (exists p, In p ps /\ matchb fits_ q p = true /\ allow_access p = true) /\
    (forall p, In p ps -> matchb fits_ q p = true -> allow_access p = true).
Proof. intros. eapply allow_witness. eassumption. Qed.
Print Assumptions C02_allow_witness.

Theorem C02_fault_never_allows : forall fits_ q items e audits, In (inr e) items ->
  is_allowed_check fits_ (FIter items) q <> Ok (true, audits).
Proof. intros. eapply fault_never_allows. eassumption. Qed.
Print Assumptions C02_fault_never_allows.

(* under the rules checker a raising rule is "that element does not match", not an error *)
Theorem C02_rules_swallow : forall r w i e, sat r w i = Raise e -> is_exception e = true ->
  check_satisfied r w i = Ok false.
Proof. exact check_satisfied_swallows. Qed.
Print Assumptions C02_rules_swallow.

(* non-vacuity *)
Definition pA : policy :=
  {| p_uid := VInt 1; p_effect := VStr s_allow; p_subjects := [EStr [77%N]]; p_resources := [EStr [114%N]];
     p_actions := [EStr [103%N]]; p_context := [([107%N], RBroken EValueError)]; p_description := VNone;
     p_type := StringBased; p_start := [60%N]; p_end := [62%N] |}.
Definition pB : policy :=
  {| p_uid := VInt 2; p_effect := VStr s_allow; p_subjects := [EStr [77%N]]; p_resources := [EStr [114%N]];
     p_actions := [EStr [103%N]]; p_context := []; p_description := VNone;
     p_type := StringBased; p_start := [60%N]; p_end := [62%N] |}.
Definition qq : inquiry :=
  mk_inquiry (VStr [114%N]) (VStr [103%N]) (VStr [77%N]) (VDict [([107%N], VInt 1)]).
Example C02_nonvacuous :
  fst (match is_allowed_check (fits (fun _ => None) CExact) (FIter [inl pB]) qq with Ok r => r | _ => (false, []) end) = true /\
  is_allowed_check (fits (fun _ => None) CExact) (FIter [inl pB; inl pA]) qq = Ok (false, []) /\
  is_allowed_check (fits (fun _ => None) CExact) (FIter [inl pB; inr ERuntimeError]) qq = Ok (false, []) /\
  is_allowed_check (fits (fun _ => None) CExact) (FIter [inl pB; inr (EBase 1)]) qq = Raise (EBase 1).
Proof. repeat split; vm_compute; reflexivity. Qed.
