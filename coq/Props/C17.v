(* C17 - Audit and decision logs tell the truth about each decision. *)
From Coq Require Import ZArith NArith List Bool.
From Vakt Require Import Base.PyMonad Base.PyVal Model.Regex Model.Rules Model.Policy Model.Checkers
     Model.Guard Model.Audit Proofs.CheckersP Proofs.GuardP.
Import ListNotations.

(* a decision that completes evaluation emits exactly one audit record: effect = the answer, candidates =
   exactly the matching policies, deciders = all candidates when allowed, the first non-allow candidate when
   vetoed, none when nothing matched *)
Theorem C17_one_audit : forall fits_ q ps, clean fits_ q ps ->
  exists a, is_allowed_check fits_ (FIter (map inl ps)) q = Ok (decision fits_ q ps, [a]) /\
    a_allow a = decision fits_ q ps /\
    a_candidates a = filter (matchb fits_ q) ps /\
    a_deciders a = (if decision fits_ q ps then filter (matchb fits_ q) ps
                    else match find (fun p => negb (allow_access p)) (filter (matchb fits_ q) ps) with
                         | Some p => [p] | None => [] end).
Proof. exact one_audit. Qed.
Print Assumptions C17_one_audit.

(* a decision that does not complete evaluation emits no audit record (and is deny) *)
Theorem C17_no_audit_on_error : forall fits_ q fr,
  (forall ps, fr <> FIter (map inl ps) \/ ~ clean fits_ q ps) ->
  forall ans audits, is_allowed_check fits_ fr q = Ok (ans, audits) -> audits = [] /\ ans = false.
Proof. exact no_audit_on_error. Qed.
Print Assumptions C17_no_audit_on_error.

(* every call emits exactly one decision-log record, in agreement with the answer *)
Theorem C17_one_decision_log : forall fits_ q fr ans audits lg,
  is_allowed fits_ fr q = Ok (ans, audits, lg) ->
  lg = ans /\ is_allowed_check fits_ fr q = Ok (ans, audits).
Proof. exact one_decision_log. Qed.
Print Assumptions C17_one_decision_log.

(* message classes: by uid, by description, by count, or not at all *)
Theorem C17_render : forall ps,
  render MsgNop ps = Ok [] /\
  render MsgCount ps = Ok ([99; 111; 117; 110; 116; 32; 61; 32]%N ++ Z_str (Z.of_nat (length ps))) /\
  (forall uids, mapM (fun p => str_of (p_uid p)) ps = Ok uids ->
     render MsgUid ps = Ok ([91%N] ++ pjoin comma_space uids ++ [93%N])) /\
  (forall ds, mapM (fun p => str_of (p_description p)) ps = Ok ds ->
     render MsgDescription ps =
       Ok ([91%N] ++ pjoin comma_space (map (fun d => [39%N] ++ d ++ [39%N]) ds) ++ [93%N])).
Proof.
  intros ps. split; [reflexivity|]. split; [reflexivity|]. split.
  - intros uids H. apply render_uid, H.
  - intros ds H. apply render_description, H.
Qed.
Print Assumptions C17_render.
