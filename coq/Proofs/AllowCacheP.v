(* AllowCacheP: the cached guard answers exactly like an uncached one (C11). *)
From Coq Require Import List Bool Arith Lia.
From Vakt Require Import Base.PyMonad Model.Lru Model.AllowCache Proofs.LruP.
Import ListNotations.

Section allow_cache_proofs.
  Variables S M Q : Type.
  Variable qeq : Q -> Q -> bool.
  Hypothesis qeq_eq : forall a b, qeq a b = true <-> a = b.
  Variable mstep : S -> M -> S * bool.
  Hypothesis raised_unchanged : forall s m, snd (mstep s m) = true -> fst (mstep s m) = s.
  Variable dec : S -> Q -> bool.

  Notation cstate := (cstate S Q).
  Notation cstep := (cstep S M Q qeq mstep dec).
  Notation crun := (crun S M Q qeq mstep dec).
  Notation urun := (urun S M Q mstep dec).

  (* every cached entry is the decision for the current policy set *)
  Definition cache_inv (st : cstate) : Prop :=
    forall q a, In (q, a) (c_cache S Q st) -> a = dec (c_store S Q st) q.

  Lemma cache_inv_lru st : cache_inv st <-> lru_inv Q bool (fun k => Ok (dec (c_store S Q st) k)) (c_cache S Q st).
  Proof.
    unfold cache_inv, lru_inv. split; intros H q a Hin.
    - rewrite (H q a Hin). reflexivity.
    - specialize (H q a Hin). injection H as ->. reflexivity.
  Qed.

  Theorem cstep_inv cap st o : cache_inv st -> cache_inv (fst (cstep cap st o)).
  Proof.
    intros I. destruct o as [m|q]; cbn.
    - pose proof (raised_unchanged (c_store S Q st) m) as Hr.
      destruct (mstep (c_store S Q st) m) as [s' r]. cbn in Hr. destruct r; cbn.
      + rewrite (Hr eq_refl). exact I.
      + intros q a [].
    - apply cache_inv_lru in I.
      pose proof (lru_call_transparent Q bool qeq qeq_eq _ cap _ q I) as [_ Hi].
      destruct (lru_call qeq cap (c_cache S Q st) q (fun k => Ok (dec (c_store S Q st) k))) as [[c' a] hit].
      cbn in *. apply cache_inv_lru. exact Hi.
  Qed.

  Theorem cstep_answer cap st q : cache_inv st ->
    answer_of (snd (cstep cap st (Ask q))) = Some (dec (c_store S Q st) q) /\
    c_store S Q (fst (cstep cap st (Ask q))) = c_store S Q st.
  Proof.
    intros I. cbn. apply cache_inv_lru in I.
    pose proof (lru_call_transparent Q bool qeq qeq_eq _ cap _ q I) as [Hv _].
    destruct (lru_call qeq cap (c_cache S Q st) q (fun k => Ok (dec (c_store S Q st) k))) as [[c' a] hit].
    cbn in *. rewrite Hv. split; reflexivity.
  Qed.

  Lemma cstep_store cap st m : c_store S Q (fst (cstep cap st (Mut m))) = fst (mstep (c_store S Q st) m).
  Proof. cbn. destruct (mstep (c_store S Q st) m) as [s' r]. destruct r; reflexivity. Qed.

  (* for every capacity (None, 0, n) and every history: the cached answers are the uncached answers *)
  Theorem cached_transparent cap ops : forall st, cache_inv st ->
    map answer_of (crun cap st ops) = urun (c_store S Q st) ops.
  Proof.
    induction ops as [|o r IH]; intros st I; [reflexivity|].
    cbn [AllowCache.crun AllowCache.urun].
    pose proof (cstep_inv cap st o I) as I'.
    destruct (cstep cap st o) as [st' x] eqn:E. cbn [map fst] in *.
    assert (Est : st' = fst (cstep cap st o)) by (rewrite E; reflexivity).
    assert (Ex : x = snd (cstep cap st o)) by (rewrite E; reflexivity).
    rewrite (IH st' I'). destruct o as [m|q].
    - rewrite Est, cstep_store. f_equal. rewrite Ex. cbn.
      destruct (mstep (c_store S Q st) m) as [s' rr]. destruct rr; reflexivity.
    - destruct (cstep_answer cap st q I) as [Ha Hst]. rewrite Est, Hst, Ex, Ha. reflexivity.
  Qed.

  Lemma init_inv s : cache_inv {| c_store := s; c_cache := [] |}.
  Proof. intros q a []. Qed.

  (* notification: a mutation that returns invalidates once (after it has been applied); a raising one and
     asks never do *)
  Theorem mutation_notifies cap st m :
    snd (cstep cap st (Mut m)) = (if snd (mstep (c_store S Q st) m) then OMut true 0 else OMut false 1) /\
    (snd (mstep (c_store S Q st) m) = false -> c_cache S Q (fst (cstep cap st (Mut m))) = []).
  Proof. cbn. destruct (mstep (c_store S Q st) m) as [s' r]. destruct r; cbn; split; try reflexivity; discriminate. Qed.

  (* ---------- a repeated inquiry still within capacity is a hit ---------- *)
  Definition ckeys (c : cache Q bool) : list Q := map fst c.

  Lemma find_app k (a b : cache Q bool) :
    lru_find qeq k (a ++ b) = match lru_find qeq k a with Some v => Some v | None => lru_find qeq k b end.
  Proof. induction a as [|[k' v] r IH]; cbn; [reflexivity|]. destruct (qeq k k'); [reflexivity|exact IH]. Qed.

  Lemma remove_app_found k v (a b : cache Q bool) : lru_find qeq k a = Some v ->
    lru_remove qeq k (a ++ b) = lru_remove qeq k a ++ b.
  Proof.
    induction a as [|[k' x] r IH]; cbn; [discriminate|]. destruct (qeq k k'); [reflexivity|].
    intros H. cbn. f_equal. apply IH, H.
  Qed.
  Lemma remove_app_notfound k (a b : cache Q bool) : lru_find qeq k a = None ->
    lru_remove qeq k (a ++ b) = a ++ lru_remove qeq k b.
  Proof.
    induction a as [|[k' x] r IH]; cbn; [reflexivity|]. destruct (qeq k k'); [discriminate|].
    intros H. f_equal. apply IH, H.
  Qed.
  Lemma remove_length_le k (a : cache Q bool) : length (lru_remove qeq k a) <= length a.
  Proof. induction a as [|[k' x] r IH]; cbn; [lia|]. destruct (qeq k k'); cbn; lia. Qed.
  Lemma remove_keys_incl k (a : cache Q bool) : incl (ckeys (lru_remove qeq k a)) (ckeys a).
  Proof.
    induction a as [|[k' x] r IH]; cbn; [apply incl_refl|]. destruct (qeq k k'); cbn.
    - apply incl_tl, incl_refl.
    - intros y [<-|Hy]; [now left|right; apply IH, Hy].
  Qed.

  Lemma qeq_refl k : qeq k k = true.
  Proof. apply qeq_eq. reflexivity. Qed.
  Lemma qeq_sym_false k q : qeq k q = false -> qeq q k = false.
  Proof.
    intros H. destruct (qeq q k) eqn:E; [|reflexivity]. apply qeq_eq in E. subst. rewrite qeq_refl in H. discriminate.
  Qed.

  Lemma find_none_notin k (a : cache Q bool) : lru_find qeq k a = None -> ~ In k (ckeys a).
  Proof.
    induction a as [|[k' x] r IH]; cbn; [tauto|]. destruct (qeq k k') eqn:E; [discriminate|].
    intros H [Hk|Hk]; [subst; rewrite qeq_refl in E; discriminate|]. apply IH; assumption.
  Qed.
  Lemma find_remove_other q k (a : cache Q bool) : qeq q k = false ->
    lru_find qeq q (lru_remove qeq k a) = lru_find qeq q a.
  Proof.
    intros Hqk. induction a as [|[k' x] r IH]; cbn; [reflexivity|].
    destruct (qeq k k') eqn:E; cbn.
    - apply qeq_eq in E. subst k'. rewrite Hqk. reflexivity.
    - destruct (qeq q k'); [reflexivity|exact IH].
  Qed.
  Lemma remove_nodup k (a : cache Q bool) : NoDup (ckeys a) -> NoDup (ckeys (lru_remove qeq k a)) /\ ~ In k (ckeys (lru_remove qeq k a)).
  Proof.
    induction a as [|[k' x] r IH]; cbn; intros H; [split; [constructor|tauto]|].
    inversion H as [|? ? Hn Hd]; subst. destruct (qeq k k') eqn:E; cbn.
    - apply qeq_eq in E. subst k'. split; assumption.
    - destruct (IH Hd) as [I1 I2]. split.
      + constructor; [|exact I1]. intros Hin. apply Hn. eapply remove_keys_incl, Hin.
      + intros [Hk|Hk]; [subst; rewrite qeq_refl in E; discriminate|contradiction].
  Qed.

  Definition distinct_add (k : Q) (seen : list Q) : list Q := if existsb (qeq k) seen then seen else k :: seen.

  Lemma distinct_add_in k seen : In k (distinct_add k seen).
  Proof.
    unfold distinct_add. destruct (existsb (qeq k) seen) eqn:E; [|now left].
    apply existsb_exists in E as [x [Hx Ex]]. apply qeq_eq in Ex. subst. exact Hx.
  Qed.
  Lemma distinct_add_incl k seen : incl seen (distinct_add k seen).
  Proof. unfold distinct_add. destruct (existsb (qeq k) seen); [apply incl_refl|apply incl_tl, incl_refl]. Qed.
  Lemma distinct_add_nodup k seen : NoDup seen -> NoDup (distinct_add k seen).
  Proof.
    intros H. unfold distinct_add. destruct (existsb (qeq k) seen) eqn:E; [exact H|].
    constructor; [|exact H]. intros Hin. assert (existsb (qeq k) seen = true); [|congruence].
    apply existsb_exists. exists k. split; [exact Hin|apply qeq_refl].
  Qed.

  (* q sits behind `front`, whose (distinct) keys are among the distinct keys `seen` asked since q was asked *)
  Definition behind (q : Q) (a : bool) (seen : list Q) (c : cache Q bool) : Prop :=
    exists front rest, c = front ++ (q, a) :: rest /\ lru_find qeq q front = None /\
      incl (ckeys front) seen /\ NoDup (ckeys front).

  Definition within (cap : option nat) (seen : list Q) : Prop :=
    match cap with Some n => length seen < n | None => True end.

  Lemma ask_other_keeps cap st q a seen k : qeq k q = false -> NoDup seen ->
    within cap (distinct_add k seen) ->
    behind q a seen (c_cache S Q st) ->
    behind q a (distinct_add k seen) (c_cache S Q (fst (cstep cap st (Ask k)))).
  Proof.
    intros Hkq Hnd Hcap [front [rest [Hc [Hnf [Hincl Hfd]]]]]. cbn.
    pose proof (qeq_sym_false _ _ Hkq) as Hqk.
    unfold lru_call. rewrite Hc, find_app.
    destruct (lru_find qeq k front) as [v|] eqn:Ef.
    - (* hit inside front: k moves to the head of front *)
      cbn. rewrite (remove_app_found _ _ _ _ Ef).
      destruct (remove_nodup k front Hfd) as [R1 R2].
      exists ((k, v) :: lru_remove qeq k front), rest. split; [reflexivity|]. split; [|split].
      + cbn. rewrite Hqk. rewrite (find_remove_other q k front Hqk). exact Hnf.
      + intros y [<-|Hy]; [apply distinct_add_in|]. apply distinct_add_incl, Hincl. eapply remove_keys_incl, Hy.
      + cbn. constructor; assumption.
    - cbn [lru_find]. rewrite Hkq.
      pose proof (find_none_notin _ _ Ef) as Hknf.
      destruct (lru_find qeq k rest) as [v|] eqn:Er.
      + (* hit behind q *)
        cbn. rewrite (remove_app_notfound _ _ _ Ef). cbn [lru_remove]. rewrite Hkq.
        exists ((k, v) :: front), (lru_remove qeq k rest). split; [reflexivity|]. split; [|split].
        * cbn. rewrite Hqk. exact Hnf.
        * intros y [<-|Hy]; [apply distinct_add_in|apply distinct_add_incl, Hincl, Hy].
        * cbn. constructor; assumption.
      + (* miss: insert at the head, possibly truncating the tail *)
        cbn. assert (Hlen : length ((k, dec (c_store S Q st) k) :: front) <= length (distinct_add k seen)).
        { rewrite <- (map_length fst ((k, dec (c_store S Q st) k) :: front)).
          change (map fst ((k, dec (c_store S Q st) k) :: front)) with (ckeys ((k, dec (c_store S Q st) k) :: front)).
          apply NoDup_incl_length.
          - cbn. constructor; assumption.
          - intros y [<-|Hy]; [apply distinct_add_in|apply distinct_add_incl, Hincl, Hy]. }
        unfold lru_insert. destruct cap as [n|].
        * cbn in Hcap.
          exists ((k, dec (c_store S Q st) k) :: front), (firstn (n - (2 + length front)) rest).
          split; [|split; [|split]].
          -- change ((k, dec (c_store S Q st) k) :: front ++ (q, a) :: rest)
               with (((k, dec (c_store S Q st) k) :: front) ++ (q, a) :: rest).
             rewrite firstn_app. cbn [length] in *. rewrite firstn_all2 by (cbn [length]; lia).
             replace (n - Datatypes.S (length front)) with (Datatypes.S (n - (2 + length front))) by lia.
             reflexivity.
          -- cbn. rewrite Hqk. exact Hnf.
          -- intros y [<-|Hy]; [apply distinct_add_in|apply distinct_add_incl, Hincl, Hy].
          -- cbn. constructor; assumption.
        * exists ((k, dec (c_store S Q st) k) :: front), rest. split; [reflexivity|]. split; [|split].
          -- cbn. rewrite Hqk. exact Hnf.
          -- intros y [<-|Hy]; [apply distinct_add_in|apply distinct_add_incl, Hincl, Hy].
          -- cbn. constructor; assumption.
  Qed.

  Lemma ask_store cap st k : c_store S Q (fst (cstep cap st (Ask k))) = c_store S Q st.
  Proof.
    cbn. destruct (lru_call qeq cap (c_cache S Q st) k (fun k0 => Ok (dec (c_store S Q st) k0))) as [[c' a] h]. reflexivity.
  Qed.

  Fixpoint ask_all (cap : option nat) (st : cstate) (ks : list Q) : cstate :=
    match ks with [] => st | k :: r => ask_all cap (fst (cstep cap st (Ask k))) r end.
  Definition seen_of (ks : list Q) : list Q := fold_left (fun s k => distinct_add k s) ks [].

  Lemma within_mono cap k seen : within cap (distinct_add k seen) -> within cap seen.
  Proof.
    destruct cap as [n|]; cbn; [|tauto]. unfold distinct_add. destruct (existsb (qeq k) seen); cbn; lia.
  Qed.
  Lemma fold_distinct_incl ks : forall s, incl s (fold_left (fun s k => distinct_add k s) ks s).
  Proof.
    induction ks as [|k r IH]; intros s; cbn; [apply incl_refl|].
    eapply incl_tran; [apply distinct_add_incl|apply IH].
  Qed.
  Lemma fold_distinct_len ks : forall s, length s <= length (fold_left (fun s k => distinct_add k s) ks s).
  Proof.
    induction ks as [|k r IH]; intros s; cbn; [lia|].
    specialize (IH (distinct_add k s)). unfold distinct_add in *. destruct (existsb (qeq k) s); cbn in *; lia.
  Qed.

  Lemma ask_all_keeps cap q a ks : forall st seen, Forall (fun k => qeq k q = false) ks -> NoDup seen ->
    within cap (fold_left (fun s k => distinct_add k s) ks seen) ->
    behind q a seen (c_cache S Q st) ->
    exists seen', behind q a seen' (c_cache S Q (ask_all cap st ks)).
  Proof.
    induction ks as [|k r IH]; intros st seen Hks Hnd Hcap Hb; cbn.
    - exists seen. exact Hb.
    - inversion Hks as [|? ? Hk Hr]; subst. cbn in Hcap.
      apply (IH _ (distinct_add k seen) Hr (distinct_add_nodup k seen Hnd) Hcap).
      apply ask_other_keeps; try assumption.
      destruct cap as [n|]; cbn in *; [|exact I].
      pose proof (fold_distinct_len r (distinct_add k seen)). lia.
  Qed.

  (* between two mutations: once q has been asked, and at most cap-1 other distinct keys since, asking q
     again is answered from the cache (a hit: the uncached decision function is not consulted) *)
  Theorem repeat_hit cap st q ks :
    Forall (fun k => qeq k q = false) ks -> within cap (seen_of ks) ->
    exists a n, snd (cstep cap (ask_all cap (fst (cstep cap st (Ask q))) ks) (Ask q)) = OAsk a true n.
  Proof.
    intros Hks Hcap.
    assert (H0 : exists a, behind q a [] (c_cache S Q (fst (cstep cap st (Ask q))))).
    { cbn. unfold lru_call. destruct (lru_find qeq q (c_cache S Q st)) as [v|] eqn:Ef; cbn.
      - exists v, [], (lru_remove qeq q (c_cache S Q st)). repeat split; try reflexivity; try constructor. apply incl_nil_l.
      - unfold lru_insert. destruct cap as [n|].
        + cbn in Hcap. pose proof (fold_distinct_len ks []) as Hl. unfold seen_of in Hcap. cbn in Hl.
          destruct n as [|n]; [lia|]. cbn.
          exists (dec (c_store S Q st) q), [], (firstn n (c_cache S Q st)). repeat split; try reflexivity; try constructor. apply incl_nil_l.
        + exists (dec (c_store S Q st) q), [], (c_cache S Q st). repeat split; try reflexivity; try constructor. apply incl_nil_l. }
    destruct H0 as [a Hb].
    destruct (ask_all_keeps cap q a ks _ [] Hks (NoDup_nil Q) Hcap Hb) as [seen' [front [rest [Hc [Hnf _]]]]].
    set (st2 := ask_all cap (fst (cstep cap st (Ask q))) ks) in *.
    unfold AllowCache.cstep, lru_call. rewrite Hc, find_app, Hnf. cbn [lru_find]. rewrite qeq_refl. cbn [snd].
    eexists. eexists. reflexivity.
  Qed.
End allow_cache_proofs.

(* ---------- any cache back-end that honours the AllowanceCacheBackend contract ---------- *)
Section generic_backend.
  Variables S M Q B : Type.
  Variable mstep : S -> M -> S * bool.
  Hypothesis raised_unchanged : forall s m, snd (mstep s m) = true -> fst (mstep s m) = s.
  Variable dec : S -> Q -> bool.
  (* the back-end: wrap(func) called with q, invalidate(), and the invariant the back-end maintains *)
  Variable bcall : B -> Q -> (Q -> bool) -> B * bool.
  Variable binv : B -> B.
  Variable good : (Q -> bool) -> B -> Prop.
  Hypothesis good_invalidate : forall f b, good f (binv b).
  Hypothesis good_call : forall f b q, good f b -> snd (bcall b q f) = f q /\ good f (fst (bcall b q f)).

  Definition gstep (st : S * B) (o : cop M Q) : (S * B) * option bool :=
    match o with
    | Mut m => let (s', r) := mstep (fst st) m in ((s', if r then snd st else binv (snd st)), None)
    | Ask q => let (b', a) := bcall (snd st) q (dec (fst st)) in ((fst st, b'), Some a)
    end.

  Fixpoint grun (st : S * B) (ops : list (cop M Q)) : list (option bool) :=
    match ops with
    | [] => []
    | o :: r => let (st', x) := gstep st o in x :: grun st' r
    end.

  Theorem generic_transparent ops : forall st, good (dec (fst st)) (snd st) ->
    grun st ops = urun S M Q mstep dec (fst st) ops.
  Proof.
    induction ops as [|o r IH]; intros [s b] G; [reflexivity|]. cbn [grun urun fst snd] in *.
    destruct o as [m|q]; cbn [gstep fst snd].
    - pose proof (raised_unchanged s m) as Hr. destruct (mstep s m) as [s' rr]. cbn [fst snd] in *.
      rewrite IH; [reflexivity|]. cbn [fst snd]. destruct rr.
      + rewrite (Hr eq_refl). exact G.
      + apply good_invalidate.
    - destruct (good_call (dec s) b q G) as [Ha Hg]. destruct (bcall b q (dec s)) as [b' a]. cbn [fst snd] in *.
      rewrite IH by exact Hg. rewrite Ha. reflexivity.
  Qed.
End generic_backend.
