(* RuleJsonP: the stored JSON structure of a rule determines the rule (decode after encode is the identity on the
   rules the codec covers). *)
From Coq Require Import ZArith NArith List Bool String Ascii Lia.
From Vakt Require Import Base.PyMonad Base.PyVal Model.Regex Model.Net Model.Rules Model.RuleJson Proofs.PyValP.
Import ListNotations.

(* the anonymous list loops of enc_val / dec_val / plain are maps *)
Lemma enc_list l :
  (fix go (l : list val) : list val := match l with [] => [] | x :: r => enc_val x :: go r end) l = map enc_val l.
Proof. induction l as [|x r IH]; [reflexivity|]. cbn. rewrite IH. reflexivity. Qed.
Lemma dec_list_map l :
  (fix go (l : list val) : list val := match l with [] => [] | x :: r => dec_val x :: go r end) l = map dec_val l.
Proof. induction l as [|x r IH]; [reflexivity|]. cbn. rewrite IH. reflexivity. Qed.
Lemma plain_list l :
  (fix go (l : list val) : bool := match l with [] => true | x :: r => plain x && go r end) l = forallb plain l.
Proof. induction l as [|x r IH]; [reflexivity|]. cbn. rewrite IH. reflexivity. Qed.

Lemma map_dec_enc l : Forall (fun v => plain v = true -> dec_val (enc_val v) = v) l ->
  forallb plain l = true -> map dec_val (map enc_val l) = l.
Proof.
  induction 1 as [|x r Hx _ IH]; [reflexivity|]. cbn. intros H. apply andb_true_iff in H as [H1 H2].
  rewrite (Hx H1), (IH H2). reflexivity.
Qed.

Theorem dec_enc_val v : plain v = true -> dec_val (enc_val v) = v.
Proof.
  induction v as [|b|z|m j|s|l IH|l IH|kvs IH] using val_ind'; intros Hp; try reflexivity.
  - cbn [enc_val dec_val plain] in *. rewrite enc_list, dec_list_map. rewrite plain_list in Hp.
    rewrite (map_dec_enc l IH Hp). reflexivity.
  - cbn [enc_val plain] in *. rewrite enc_list. rewrite plain_list in Hp.
    cbn [dec_val]. rewrite dec_list_map, (map_dec_enc l IH Hp).
    replace (pstr_eqb k_tuple k_tuple) with true by (symmetry; apply pstr_eqb_refl). reflexivity.
  - assert (Hk : forall k x, kvs = [(k, x)] -> pstr_eqb k k_tuple = false).
    { intros k x ->. cbn [plain] in Hp. destruct (pstr_eqb k k_tuple) eqn:E; [|reflexivity].
      apply pstr_eqb_eq in E. subst k. cbn in Hp. discriminate. }
    cbn [enc_val dec_val].
    assert (E : (fix go (l : list (pstr * val)) : list (pstr * val) :=
                   match l with [] => [] | (k, x) :: r => (k, dec_val x) :: go r end)
                ((fix go (l : list (pstr * val)) : list (pstr * val) :=
                    match l with [] => [] | (k, x) :: r => (k, enc_val x) :: go r end) kvs) = kvs).
    { clear Hk. cbn [plain] in Hp. induction IH as [|[k x] r Hx _ IHr]; [reflexivity|]. cbn [snd] in *.
      apply andb_true_iff in Hp as [Hp H3]. apply andb_true_iff in Hp as [H1 H2].
      rewrite (Hx H2), (IHr H3). reflexivity. }
    rewrite E. destruct kvs as [|[k x] [|kv r]]; try reflexivity; destruct x; try reflexivity.
    rewrite (Hk k _ eq_refl). reflexivity.
Qed.

(* induction on rules through the member lists of And / Or *)
Section rule_nested_ind.
  Variable P : rule -> Prop.
  Hypothesis H_and : forall rs, Forall P rs -> P (RAnd rs).
  Hypothesis H_or : forall rs, Forall P rs -> P (ROr rs).
  Hypothesis H_not : forall x, P x -> P (RNot x).
  Hypothesis H_leaf : forall r, (forall rs, r <> RAnd rs) -> (forall rs, r <> ROr rs) -> (forall x, r <> RNot x) -> P r.
  Lemma rule_nested_ind : forall r, P r.
  Proof.
    fix IH 1. intros r.
    destruct r; try (apply H_leaf; intros; discriminate).
    - apply H_and. induction rs as [|x rs IHrs]; constructor; [apply IH|exact IHrs].
    - apply H_or. induction rs as [|x rs IHrs]; constructor; [apply IH|exact IHrs].
    - apply H_not. apply IH.
  Qed.
End rule_nested_ind.

Definition round_trips (r : rule) : Prop :=
  encodable r = true ->
  exists v, rule_val r = Some v /\ forall fuel, rdepth r <= fuel -> rule_of_val fuel v = Some r.

Lemma rdepth_pos r : 1 <= rdepth r.
Proof. destruct r; cbn; lia. Qed.

Lemma forallb_dec_enc d : forallb plain d = true -> map dec_val (map enc_val d) = d.
Proof.
  induction d as [|x r IH]; [reflexivity|]. cbn. intros H. apply andb_true_iff in H as [H1 H2].
  rewrite (dec_enc_val x H1), (IH H2). reflexivity.
Qed.

Ltac leaf_case :=
  intros Henc; eexists; split; [reflexivity|]; intros [|f] Hf; [pose proof (rdepth_pos) as X; cbn in Hf; lia|];
  cbn -[dec_val enc_val]; rewrite ?dec_enc_val, ?forallb_dec_enc by assumption; reflexivity.

(* the member lists of a composition *)
Definition members_val (rs : list rule) : option (list val) :=
  (fix go (rs : list rule) : option (list val) :=
     match rs with
     | [] => Some []
     | x :: t => match rule_val x, go t with Some v, Some vs => Some (v :: vs) | _, _ => None end
     end) rs.
Definition members_of (f : nat) (vs : list val) : option (list rule) :=
  (fix go (l : list val) : option (list rule) :=
     match l with
     | [] => Some []
     | x :: r => match rule_of_val f x, go r with Some a, Some b => Some (a :: b) | _, _ => None end
     end) vs.
Definition max_depth (rs : list rule) : nat :=
  (fix go (l : list rule) : nat := match l with [] => 0 | x :: t => Nat.max (rdepth x) (go t) end) rs.
Definition all_encodable (rs : list rule) : bool :=
  (fix go (l : list rule) : bool := match l with [] => true | x :: t => encodable x && go t end) rs.

Lemma members_round_trip rs : Forall round_trips rs -> all_encodable rs = true ->
  exists vs, members_val rs = Some vs /\ forall f, max_depth rs <= f -> members_of f vs = Some rs.
Proof.
  induction 1 as [|x t Hx _ IH]; intros He.
  - exists []. split; [reflexivity|]. intros; reflexivity.
  - cbn in He. apply andb_true_iff in He as [H1 H2].
    destruct (Hx H1) as [v [Ev Dv]]. destruct (IH H2) as [vs [Evs Dvs]].
    exists (v :: vs). split.
    + unfold members_val in *. cbn. rewrite Ev. fold (members_val t). unfold members_val. rewrite Evs. reflexivity.
    + intros f Hf. change (max_depth (x :: t)) with (Nat.max (rdepth x) (max_depth t)) in Hf.
      assert (H3 : rdepth x <= f) by lia. assert (H4 : max_depth t <= f) by lia.
      change (members_of f (v :: vs)) with
        (match rule_of_val f v, members_of f vs with Some a, Some b => Some (a :: b) | _, _ => None end).
      rewrite (Dv f H3), (Dvs f H4). reflexivity.
Qed.

Theorem rule_round_trip : forall r, round_trips r.
Proof.
  apply rule_nested_ind; unfold round_trips.
  - intros rs F He. destruct (members_round_trip rs F He) as [vs [Evs Dvs]].
    eexists. split.
    + cbn [rule_val]. fold (members_val rs). rewrite Evs. reflexivity.
    + intros [|f] Hf; [cbn in Hf; lia|]. cbn -[dec_val enc_val rule_of_val] in Hf.
      cbn -[dec_val enc_val]. fold (members_of f vs). rewrite (Dvs f) by (unfold max_depth; lia). reflexivity.
  - intros rs F He. destruct (members_round_trip rs F He) as [vs [Evs Dvs]].
    eexists. split.
    + cbn [rule_val]. fold (members_val rs). rewrite Evs. reflexivity.
    + intros [|f] Hf; [cbn in Hf; lia|]. cbn -[dec_val enc_val rule_of_val] in Hf.
      cbn -[dec_val enc_val]. fold (members_of f vs). rewrite (Dvs f) by (unfold max_depth; lia). reflexivity.
  - intros x Hx He. cbn [encodable] in He. destruct (Hx He) as [v [Ev Dv]].
    eexists. split.
    + cbn [rule_val]. rewrite Ev. reflexivity.
    + intros [|f] Hf; [cbn in Hf; lia|]. cbn [rdepth] in Hf.
      cbn -[dec_val enc_val]. rewrite (Dv f) by lia. reflexivity.
  - intros r H1 H2 H3. destruct r; try (exfalso; first [solve [eapply H1; reflexivity]|solve [eapply H2; reflexivity]|solve [eapply H3; reflexivity]]);
      try (cbn [encodable]; discriminate); try leaf_case.
  intros Henc; eexists; split; [reflexivity|]; intros [|f0] Hf; [cbn in Hf; lia|].
  destruct f, attr; reflexivity.
Qed.
Print Assumptions rule_round_trip.

(* two rules stored as the same structure are the same rule *)
Corollary rule_val_injective r1 r2 v : encodable r1 = true -> encodable r2 = true ->
  rule_val r1 = Some v -> rule_val r2 = Some v -> r1 = r2.
Proof.
  intros E1 E2 V1 V2.
  destruct (rule_round_trip r1 E1) as [v1 [A1 D1]]. destruct (rule_round_trip r2 E2) as [v2 [A2 D2]].
  rewrite V1 in A1. rewrite V2 in A2. injection A1 as <-. injection A2 as <-.
  pose proof (D1 (Nat.max (rdepth r1) (rdepth r2)) (Nat.le_max_l _ _)) as X1.
  pose proof (D2 (Nat.max (rdepth r1) (rdepth r2)) (Nat.le_max_r _ _)) as X2.
  rewrite X1 in X2. injection X2. auto.
Qed.
