(* PyValP: basic facts about strings and lookups. *)
From Coq Require Import ZArith NArith List Bool Lia.
From Vakt Require Import Base.PyMonad Base.PyVal.
Import ListNotations.

Lemma pstr_eqb_refl s : pstr_eqb s s = true.
Proof. induction s as [|c s IH]; cbn; [reflexivity|]. rewrite N.eqb_refl, IH. reflexivity. Qed.

Lemma pstr_eqb_eq a b : pstr_eqb a b = true <-> a = b.
Proof.
  split.
  - revert b; induction a as [|x a IH]; intros [|y b] H; cbn in H; try discriminate; [reflexivity|].
    apply andb_true_iff in H as [H1 H2]. apply N.eqb_eq in H1. subst. f_equal. apply IH, H2.
  - intros ->. apply pstr_eqb_refl.
Qed.

Lemma pstr_eqb_neq a b : pstr_eqb a b = false <-> a <> b.
Proof.
  split.
  - intros H E. apply pstr_eqb_eq in E. congruence.
  - intros H. destruct (pstr_eqb a b) eqn:E; [|reflexivity]. apply pstr_eqb_eq in E. contradiction.
Qed.

Lemma pstr_eqb_sym a b : pstr_eqb a b = pstr_eqb b a.
Proof.
  destruct (pstr_eqb a b) eqn:E.
  - apply pstr_eqb_eq in E. subst. symmetry. apply pstr_eqb_refl.
  - symmetry. apply pstr_eqb_neq. apply pstr_eqb_neq in E. congruence.
Qed.

Lemma lookup_In {A} k (kvs : list (pstr * A)) v : lookup k kvs = Some v -> In (k, v) kvs.
Proof.
  induction kvs as [|[k' x] r IH]; cbn; [discriminate|].
  destruct (pstr_eqb k k') eqn:E.
  - intros [= ->]. apply pstr_eqb_eq in E. subst. now left.
  - intros H. right. apply IH, H.
Qed.
