(* CheckersP: string checkers (C06) and rules checker (C04). *)
From Coq Require Import ZArith NArith List Bool Lia Permutation.
From Vakt Require Import Base.PyMonad Base.PyVal Model.Regex Model.Rules Model.Policy Model.Parser
     Model.Checkers Proofs.PyValP Proofs.RulesP.
Import ListNotations.

(* ---------------- string checkers ---------------- *)

Lemma py_eq_str a b : py_eq (VStr a) (VStr b) = pstr_eqb a b.
Proof. reflexivity. Qed.

Lemma fits_string_exact_iff p es v :
  fits_string_loop compare_exact p es (VStr v) = Ok true <->
  exists e, In (EStr e) es /\ strip_tags (p_start p) (p_end p) e = v.
Proof.
  induction es as [|x es IH]; cbn.
  - split; [discriminate|intros [e [[] _]]].
  - destruct x as [item|r|kvs]; cbn.
    + destruct (pstr_eqb v (strip_tags (p_start p) (p_end p) item)) eqn:E.
      * split; [|reflexivity]. intros _. exists item. split; [now left|]. apply pstr_eqb_eq in E. congruence.
      * rewrite IH. split.
        -- intros [e [H1 H2]]. exists e. split; [now right|exact H2].
        -- intros [e [[H1|H1] H2]].
           ++ injection H1 as ->. subst v. rewrite pstr_eqb_refl in E. discriminate.
           ++ exists e. split; assumption.
    + rewrite IH. split; intros [e [H1 H2]]; exists e; (split; [|exact H2]); [now right|destruct H1; [discriminate|assumption]].
    + rewrite IH. split; intros [e [H1 H2]]; exists e; (split; [|exact H2]); [now right|destruct H1; [discriminate|assumption]].
Qed.

Lemma fits_string_fuzzy_iff p es v :
  fits_string_loop compare_fuzzy p es (VStr v) = Ok true <->
  exists e, In (EStr e) es /\ is_substr v (strip_tags (p_start p) (p_end p) e) = true.
Proof.
  induction es as [|x es IH]; cbn.
  - split; [discriminate|intros [e [[] _]]].
  - destruct x as [item|r|kvs]; cbn.
    + destruct (is_substr v (strip_tags (p_start p) (p_end p) item)) eqn:E.
      * split; [|reflexivity]. intros _. exists item. split; [now left|exact E].
      * rewrite IH. split.
        -- intros [e [H1 H2]]. exists e. split; [now right|exact H2].
        -- intros [e [[H1|H1] H2]].
           ++ injection H1 as ->. congruence.
           ++ exists e. split; assumption.
    + rewrite IH. split; intros [e [H1 H2]]; exists e; (split; [|exact H2]); [now right|destruct H1; [discriminate|assumption]].
    + rewrite IH. split; intros [e [H1 H2]]; exists e; (split; [|exact H2]); [now right|destruct H1; [discriminate|assumption]].
Qed.

Lemma fits_string_total cmp p es v :
  (forall item, exists b, cmp (VStr v) item = Ok b) ->
  exists b, fits_string_loop cmp p es (VStr v) = Ok b.
Proof.
  intros Hc. induction es as [|x es IH]; cbn; [eexists; reflexivity|].
  destruct x as [item|r|kvs]; try exact IH.
  destruct (Hc (strip_tags (p_start p) (p_end p) item)) as [b Hb]. rewrite Hb. cbn.
  destruct b; [eexists; reflexivity|exact IH].
Qed.

Lemma string_checkers_total p f v :
  (exists b, fits_exact p f (VStr v) = Ok b) /\ (exists b, fits_fuzzy p f (VStr v) = Ok b).
Proof.
  split; apply fits_string_total; intros item; eexists; reflexivity.
Qed.

(* policies without string elements never match under a string or regex checker *)
Definition no_str_elems (es : list elem) : Prop := Forall (fun e => is_str_elem e = false) es.
Definition only_str_elems (es : list elem) : Prop := Forall (fun e => is_str_elem e = true) es.

Lemma fits_string_no_str cmp p es w : no_str_elems es -> fits_string_loop cmp p es w = Ok false.
Proof.
  induction 1 as [|x es Hx Hr IH]; cbn; [reflexivity|]. destruct x; cbn in Hx; try discriminate; exact IH.
Qed.

Lemma fits_regex_no_str rxof p es w : no_str_elems es -> fits_regex_loop rxof p es w = Ok false.
Proof.
  induction 1 as [|x es Hx Hr IH]; cbn; [reflexivity|]. destruct x; cbn in Hx; try discriminate; exact IH.
Qed.

Lemma fits_rules_only_str p f w i : only_str_elems (field_elems p f) -> fits_rules p f w i = Ok false.
Proof.
  unfold fits_rules. induction 1 as [|x es Hx Hr IH]; cbn; [reflexivity|].
  destruct x; cbn in Hx; try discriminate. cbn. exact IH.
Qed.

(* the type a policy carries decides which case applies *)
Lemma forallb_app_l {A} (f : A -> bool) l1 l2 : forallb f (l1 ++ l2) = true -> forallb f l1 = true.
Proof. rewrite forallb_app. intros H. apply andb_true_iff in H. tauto. Qed.
Lemma forallb_app_r {A} (f : A -> bool) l1 l2 : forallb f (l1 ++ l2) = true -> forallb f l2 = true.
Proof. rewrite forallb_app. intros H. apply andb_true_iff in H. tauto. Qed.

Lemma mk_policy_typed uid eff su re ac ctx d st en p :
  mk_policy uid eff su re ac ctx d st en = Some p ->
  forall f,
    (p_type p = StringBased -> only_str_elems (field_elems p f)) /\
    (p_type p = RuleBased -> no_str_elems (field_elems p f)).
Proof.
  unfold mk_policy, calc_type. intros H f.
  destruct (forallb is_str_elem (su ++ re ++ ac)) eqn:E1.
  - injection H as <-. cbn. split; [|discriminate]. intros _.
    unfold only_str_elems. apply Forall_forall. intros x Hx.
    rewrite forallb_forall in E1. apply E1.
    destruct f; cbn in Hx; rewrite !in_app_iff; tauto.
  - destruct (forallb (fun e => negb (is_str_elem e)) (su ++ re ++ ac)) eqn:E2; [|discriminate].
    injection H as <-. cbn. split; [discriminate|]. intros _.
    unfold no_str_elems. apply Forall_forall. intros x Hx.
    rewrite forallb_forall in E2. apply negb_true_iff. apply E2.
    destruct f; cbn in Hx; rewrite !in_app_iff; tauto.
Qed.

(* ---------------- rules checker ---------------- *)

(* an evaluation that raises raises an Exception (not a BaseException) *)
Definition benign {A} (m : res A) : Prop :=
  match m with Raise e => is_exception e = true | Ok _ => True end.

Definition rule_benign (i : option inquiry) (r : rule) : Prop := forall x, benign (sat r x i).

Definition elem_rules (e : elem) : list rule :=
  match e with EStr _ => [] | ERule r => [r] | EDict kvs => map snd kvs end.

Definition satisfied_b (r : rule) (w : val) (i : option inquiry) : bool :=
  match sat_b r w i with Ok true => true | _ => false end.

Lemma check_satisfied_benign r w i : benign (sat r w i) ->
  check_satisfied r w i = Ok (satisfied_b r w i).
Proof.
  unfold check_satisfied, catch_exception, try_except, sat_b, satisfied_b, benign, sat_b.
  destruct (sat r w i) as [v|e]; cbn; [destruct (truthy v); reflexivity|]. intros ->. reflexivity.
Qed.

Lemma check_satisfied_swallows r w i e : sat r w i = Raise e -> is_exception e = true ->
  check_satisfied r w i = Ok false.
Proof.
  intros H He. unfold check_satisfied, catch_exception, try_except, sat_b. rewrite H. cbn. rewrite He. reflexivity.
Qed.

Definition attr_ok (w : val) (i : option inquiry) (kr : pstr * rule) : bool :=
  match w with
  | VDict d => match lookup (fst kr) d with Some x => satisfied_b (snd kr) x i | None => false end
  | _ => false
  end.

Definition elem_matches_b (e : elem) (w : val) (i : option inquiry) : bool :=
  match e with
  | EStr _ => false
  | ERule r => satisfied_b r w i
  | EDict kvs => negb (match kvs with [] => true | _ => false end) && forallb (attr_ok w i) kvs
  end.

Lemma dict_item_spec kvs w i : Forall (rule_benign i) (map snd kvs) ->
  forall acc, dict_item kvs w i acc =
    Ok (match kvs with [] => acc | _ => forallb (attr_ok w i) kvs end).
Proof.
  induction kvs as [|[k r] rest IH]; intros Hb acc; cbn [dict_item]; [reflexivity|].
  inversion Hb as [|r' l' Hr Hrest]; subst.
  assert (E : match w with
              | VDict d => match lookup k d with None => Ok false | Some x => check_satisfied r x i end
              | _ => Ok false
              end = Ok (attr_ok w i (k, r))).
  { unfold attr_ok. cbn [fst snd]. destruct w; try reflexivity.
    destruct (lookup k kvs); [|reflexivity]. apply check_satisfied_benign, Hr. }
  rewrite E. cbn [bind]. cbn [forallb].
  destruct (attr_ok w i (k, r)); cbn [andb]; [|reflexivity].
  rewrite (IH Hrest). destruct rest; reflexivity.
Qed.

Lemma rules_item_spec e w i : Forall (rule_benign i) (elem_rules e) ->
  rules_item e w i = Ok (elem_matches_b e w i).
Proof.
  destruct e as [s|r|kvs]; cbn; intros Hb; [reflexivity| |].
  - inversion Hb; subst. apply check_satisfied_benign. auto.
  - rewrite (dict_item_spec _ _ _ Hb). destruct kvs; reflexivity.
Qed.

Lemma fits_rules_spec p f w i :
  Forall (fun e => Forall (rule_benign i) (elem_rules e)) (field_elems p f) ->
  fits_rules p f w i = Ok (existsb (fun e => elem_matches_b e w i) (field_elems p f)).
Proof.
  unfold fits_rules. induction 1 as [|e es He Hr IH]; cbn; [reflexivity|].
  rewrite (rules_item_spec _ _ _ He). cbn. destruct (elem_matches_b e w i); [reflexivity|exact IH].
Qed.

(* element level, as propositions *)
Lemma elem_matches_rule r w i :
  elem_matches_b (ERule r) w i = true <-> exists v, sat r w i = Ok v /\ truthy v = true.
Proof.
  cbn. unfold satisfied_b, sat_b. destruct (sat r w i) as [v|e]; cbn.
  - destruct (truthy v) eqn:T; split; try discriminate.
    + intros _. exists v. split; [reflexivity|exact T].
    + reflexivity.
    + intros [v' [[= <-] T']]. congruence.
  - split; [discriminate|intros [v [H _]]; discriminate].
Qed.

Lemma elem_matches_dict kvs w i :
  elem_matches_b (EDict kvs) w i = true <->
  kvs <> [] /\ exists d, w = VDict d /\
    forall k r, In (k, r) kvs -> exists x v, lookup k d = Some x /\ sat r x i = Ok v /\ truthy v = true.
Proof.
  cbn. rewrite andb_true_iff, negb_true_iff, forallb_forall. split.
  - intros [Hn Hall]. split; [destruct kvs; [discriminate|discriminate]|].
    destruct kvs as [|kr0 rest]; [discriminate|].
    pose proof (Hall kr0 (or_introl eq_refl)) as H0. unfold attr_ok in H0.
    destruct w; try discriminate. exists kvs. split; [reflexivity|].
    intros k r Hin. specialize (Hall (k, r) Hin). unfold attr_ok in Hall. cbn in Hall.
    destruct (lookup k kvs) as [x|]; [|discriminate]. exists x.
    unfold satisfied_b, sat_b in Hall. destruct (sat r x i) as [v|]; cbn in Hall; [|discriminate].
    exists v. destruct (truthy v); [auto|discriminate].
  - intros [Hn [d [-> Hall]]]. split; [destruct kvs; [contradiction|reflexivity]|].
    intros [k r] Hin. destruct (Hall k r Hin) as [x [v [Hl [Hs Ht]]]].
    unfold attr_ok. cbn. rewrite Hl. unfold satisfied_b, sat_b. rewrite Hs. cbn. rewrite Ht. reflexivity.
Qed.

Lemma elem_matches_perm es es' w i : Permutation es es' ->
  existsb (fun e => elem_matches_b e w i) es = existsb (fun e => elem_matches_b e w i) es'.
Proof. apply existsb_perm. Qed.
