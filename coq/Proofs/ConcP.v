(* ConcP: concurrent adds succeed exactly once; plain decisions are atomic; the decision cache can serve a
   stale answer (refuted clause, C14). *)
From Coq Require Import List Bool Arith Lia.
From Vakt Require Import Base.PyMonad Model.Store Model.Lru Model.Conc Proofs.StoreP.
Import ListNotations.

Section add_once.
  Variables K V : Type.
  Variable keq klt : K -> K -> bool.
  Hypothesis keq_eq : forall a b, keq a b = true <-> a = b.

  (* whatever the order in which n concurrent adds of one uid reach the storage lock: one succeeds, the others
     are refused with PolicyExistsError, and the store holds the policy of the one that succeeded *)
  Lemma adds_after_present o u (xs : list V) : forall s v, s_get K V keq u s = Some v ->
    run K V keq klt o s (map (fun x => Add u x false) xs) = (s, repeat OExists (length xs)).
  Proof.
    induction xs as [|x r IH]; intros s v H; cbn; [reflexivity|]. rewrite H. cbn.
    rewrite (IH s v H). reflexivity.
  Qed.

  Theorem adds_once o u x (xs : list V) s : s_get K V keq u s = None ->
    snd (run K V keq klt o s (map (fun y => Add u y false) (x :: xs))) = ODone :: repeat OExists (length xs) /\
    s_get K V keq u (fst (run K V keq klt o s (map (fun y => Add u y false) (x :: xs)))) = Some x.
  Proof.
    intros H. cbn. rewrite H. cbn.
    assert (Hp : s_get K V keq u (s_insert K V klt o u x s) = Some x).
    { rewrite (s_get_insert K V keq klt keq_eq o u x s u H). rewrite (keq_refl K keq keq_eq). reflexivity. }
    rewrite (adds_after_present o u xs _ x Hp). cbn. split; [reflexivity|exact Hp].
  Qed.
End add_once.

Section plain_decisions.
  Variables S M Q : Type.
  Variable qeq : Q -> Q -> bool.
  Variable mstep : S -> M -> S * bool.
  Variable dec : S -> Q -> bool.
  Variable cap : option nat.

  (* a plain decision touches shared state once: its answer is the decision for the store at that instant, and
     it changes nothing *)
  Theorem decide_atomic sh lo q :
    astep S M Q qeq mstep dec cap sh lo (ADecide M Q q) = (sh, lo, Some (OAnswer (dec (sh_store S Q sh) q))).
  Proof. reflexivity. Qed.

  (* a mutation takes effect in one step, with the result the sequential storage gives at that instant *)
  Theorem mutate_atomic sh lo m :
    astep S M Q qeq mstep dec cap sh lo (AMut M Q m) =
    ({| sh_store := fst (mstep (sh_store S Q sh) m); sh_cache := sh_cache S Q sh |}, lo,
     Some (OMutated (snd (mstep (sh_store S Q sh) m)))).
  Proof. cbn. destruct (mstep (sh_store S Q sh) m). reflexivity. Qed.
End plain_decisions.

(* the decision cache: a result computed before invalidate() ran can be inserted after it - REFUTED clause.
   store = numbers that are denied; the inquiry n is allowed unless denied; the mutation denies 1. *)
Definition r_mstep (s : list nat) (m : nat) : list nat * bool := (m :: s, false).
Definition r_dec (s : list nat) (q : nat) : bool := negb (existsb (Nat.eqb q) s).
Definition r_progs : list (list (act nat nat)) :=
  [ [ALookup nat nat 1; ASnap nat nat 1; AInsert nat nat 1; ALookup nat nat 1; ASnap nat nat 1; AInsert nat nat 1];
    [AMut nat nat 1; AInval nat nat] ].
Definition r_sched : list nat := [0; 0; 1; 1; 0; 0; 0; 0].

Theorem stale_after_return_refuted :
  let '(sh, ts) := exec (list nat) nat nat Nat.eqb r_mstep r_dec (Some 8) r_sched
                        {| sh_store := []; sh_cache := [] |} (init_threads nat nat r_progs) in
  (* the mutation has returned (both its steps ran) before the second ask started, the store now denies 1,
     and yet the second ask answered allow - from an entry computed against the older store *)
  map (fun t => rev (snd t)) ts = [[OAnswer true; OAnswer true]; [OMutated false]] /\
  r_dec (sh_store (list nat) nat sh) 1 = false.
Proof. vm_compute. split; reflexivity. Qed.

(* ---------- an atomic cache back-end: vakt's own protocol (apply the mutation, THEN notify) keeps the cache fresh ----------
   Programs: plain decisions, atomic cached asks, and mutations each immediately followed by the invalidation
   (ObservableMutationStorage: res = storage.op(...); notify()).  Invariant: every cache entry is the decision for the
   store as it is now, unless some thread is between its mutation and its invalidation.  Hence an ask answered while no
   mutation is in flight returns the decision for the current store: with such a back-end nothing stale survives the
   return of add / update / delete.  (The refuted clause above is lru_cache's three-step ask, not this protocol; swapping
   the two steps of a mutation breaks the invariant at once.) *)
Section atomic_backend.
  Variables S M Q : Type.
  Variable qeq : Q -> Q -> bool.
  Hypothesis qeq_eq : forall a b, qeq a b = true <-> a = b.
  Variable mstep : S -> M -> S * bool.
  Variable dec : S -> Q -> bool.
  Variable cap : option nat.

  Notation act := (act M Q).
  Notation tstate := (tstate M Q).

  Fixpoint wf_prog (p : list act) : bool :=
    match p with
    | [] => true
    | ADecide _ _ _ :: r | AAsk _ _ _ :: r => wf_prog r
    | AMut _ _ _ :: AInval _ _ :: r => wf_prog r
    | _ => false
    end.
  (* what is left of a well-formed program while it runs *)
  Definition wf_rem (p : list act) : bool :=
    wf_prog p || match p with AInval _ _ :: r => wf_prog r | _ => false end.
  Definition in_flight (t : tstate) : bool :=
    match fst (fst t) with AInval _ _ :: _ => true | _ => false end.

  Definition valid (sh : shared S Q) : Prop :=
    Forall (fun kv => snd kv = dec (sh_store S Q sh) (fst kv)) (sh_cache S Q sh).
  Definition Inv (sh : shared S Q) (ts : list tstate) : Prop :=
    Forall (fun t => wf_rem (fst (fst t)) = true) ts /\ (existsb in_flight ts = true \/ valid sh).

  Lemma find_in q (c : cache Q bool) v : lru_find qeq q c = Some v -> In (q, v) c.
  Proof.
    induction c as [|[k x] r IH]; cbn; [discriminate|]. destruct (qeq q k) eqn:E.
    - intros [= ->]. apply qeq_eq in E. subst. left. reflexivity.
    - intros H. right. apply IH, H.
  Qed.
  Lemma remove_incl q (c : cache Q bool) x : In x (lru_remove qeq q c) -> In x c.
  Proof.
    induction c as [|[k y] r IH]; cbn; [tauto|]. destruct (qeq q k); cbn; [tauto|]. intros [H|H]; auto.
  Qed.
  Lemma insert_incl q v (c : cache Q bool) x : In x (lru_insert cap q v c) -> x = (q, v) \/ In x c.
  Proof.
    unfold lru_insert. destruct cap as [n|].
    - intros H.
      assert (F : forall (l : cache Q bool) n0, In x (firstn n0 l) -> In x l).
      { induction l as [|y l IH]; intros [|n0]; cbn; try tauto. intros [E|E]; [left; exact E|right; eapply IH, E]. }
      apply F in H. destruct H as [H|H]; auto.
    - intros [H|H]; auto.
  Qed.

  Lemma existsb_upd (ts : list tstate) t x :
    in_flight x = false -> existsb in_flight (upd_nth t x ts) = true -> existsb in_flight ts = true.
  Proof.
    revert t. induction ts as [|y r IH]; intros [|t] Hx; cbn; try tauto.
    - rewrite Hx. cbn. intros H. rewrite H. apply orb_true_r.
    - intros H. apply orb_true_iff in H as [H|H]; [rewrite H; reflexivity|].
      rewrite (IH t Hx H). apply orb_true_r.
  Qed.
  Lemma existsb_upd_other (ts : list tstate) t x y :
    nth_error ts t = Some y -> in_flight y = false -> existsb in_flight ts = true ->
    existsb in_flight (upd_nth t x ts) = true.
  Proof.
    revert t. induction ts as [|z r IH]; intros [|t]; cbn; try discriminate.
    - intros [= ->] Hy H. rewrite Hy in H. cbn in H. rewrite H. apply orb_true_r.
    - intros Hn Hy H. apply orb_true_iff in H as [H|H]; [rewrite H; reflexivity|].
      rewrite (IH t Hn Hy H). apply orb_true_r.
  Qed.
  Lemma existsb_upd_here (ts : list tstate) t x y :
    nth_error ts t = Some y -> in_flight x = true -> existsb in_flight (upd_nth t x ts) = true.
  Proof.
    revert t. induction ts as [|z r IH]; intros [|t]; cbn; try discriminate.
    - intros _ ->. reflexivity.
    - intros Hn Hx. rewrite (IH t Hn Hx). apply orb_true_r.
  Qed.
  Lemma Forall_upd (P : tstate -> Prop) (ts : list tstate) t x : Forall P ts -> P x -> Forall P (upd_nth t x ts).
  Proof.
    revert t. induction ts as [|y r IH]; intros [|t] H Hx; cbn; auto; inversion H; subst; constructor; auto.
  Qed.

  Lemma step_inv sh ts t a prog lo outs :
    Inv sh ts -> nth_error ts t = Some (a :: prog, lo, outs) ->
    let '(sh', lo', o) := astep S M Q qeq mstep dec cap sh lo a in
    Inv sh' (upd_nth t (prog, lo', match o with Some x => x :: outs | None => outs end) ts).
  Proof.
    intros [Hwf Hv] Hn.
    assert (Hw : wf_rem (a :: prog) = true).
    { rewrite Forall_forall in Hwf. apply (Hwf _ (nth_error_In _ _ Hn)). }
    destruct a as [q|m| |q|q|q|q]; cbn [astep].
    - (* ADecide *) split.
      + apply Forall_upd; [exact Hwf|]. cbn in *. unfold wf_rem in *. cbn in Hw. rewrite orb_false_r in Hw.
        rewrite Hw. reflexivity.
      + destruct Hv as [Hv|Hv]; [left|right; exact Hv].
        eapply existsb_upd_other; [exact Hn|reflexivity|exact Hv].
    - (* AMut *) destruct (mstep (sh_store S Q sh) m) as [s' r] eqn:Em. unfold wf_rem in Hw. cbn in Hw.
      rewrite orb_false_r in Hw. destruct prog as [|[ | | | | | | ] prog']; try discriminate. split.
      + apply Forall_upd; [exact Hwf|]. cbn. unfold wf_rem. cbn. rewrite Hw. first [reflexivity | apply orb_true_r].
      + left. eapply existsb_upd_here; [exact Hn|reflexivity].
    - (* AInval *) split.
      + apply Forall_upd; [exact Hwf|]. cbn. unfold wf_rem in *. cbn in Hw. rewrite Hw. reflexivity.
      + right. unfold valid. cbn. constructor.
    - unfold wf_rem in Hw. cbn in Hw. discriminate.
    - unfold wf_rem in Hw. cbn in Hw. discriminate.
    - unfold wf_rem in Hw. cbn in Hw. discriminate.
    - (* AAsk *)
      assert (Hp : wf_rem prog = true).
      { unfold wf_rem in *. cbn in Hw. rewrite orb_false_r in Hw. rewrite Hw. reflexivity. }
      destruct (lru_find qeq q (sh_cache S Q sh)) as [v|] eqn:Ef; (split; [apply Forall_upd; assumption|]).
      + destruct Hv as [Hv|Hv]; [left; eapply existsb_upd_other; [exact Hn|reflexivity|exact Hv]|right].
        unfold valid in *. cbn. pose proof (find_in _ _ _ Ef) as Hin. rewrite Forall_forall in Hv.
        constructor; [apply (Hv _ Hin)|]. apply Forall_forall. intros x Hx. apply Hv. eapply remove_incl, Hx.
      + destruct Hv as [Hv|Hv]; [left; eapply existsb_upd_other; [exact Hn|reflexivity|exact Hv]|right].
        unfold valid in *. cbn. apply Forall_forall. intros x Hx. apply insert_incl in Hx. destruct Hx as [->|Hx].
        * reflexivity.
        * rewrite Forall_forall in Hv. apply Hv, Hx.
  Qed.

  Theorem atomic_backend_invariant sched : forall sh ts, Inv sh ts ->
    let '(sh', ts') := exec S M Q qeq mstep dec cap sched sh ts in Inv sh' ts'.
  Proof.
    induction sched as [|t r IH]; intros sh ts H; cbn [exec]; [exact H|].
    destruct (nth_error ts t) as [[[[|a prog] lo] outs]|] eqn:Hn; try (apply IH, H).
    pose proof (step_inv sh ts t a prog lo outs H Hn) as St.
    destruct (astep S M Q qeq mstep dec cap sh lo a) as [[sh' lo'] o]. apply IH, St.
  Qed.

  (* whenever no mutation is between its two steps, every cache entry is the decision for the store as it is: an atomic
     ask answered then returns the decision for the current store *)
  Theorem atomic_backend_fresh progs sched s0 :
    forallb wf_prog progs = true ->
    let '(sh, ts) := exec S M Q qeq mstep dec cap sched {| sh_store := s0; sh_cache := [] |} (init_threads M Q progs) in
    existsb in_flight ts = false ->
    forall q lo, snd (astep S M Q qeq mstep dec cap sh lo (AAsk M Q q)) = Some (OAnswer (dec (sh_store S Q sh) q)).
  Proof.
    intros Hwf.
    assert (I0 : Inv {| sh_store := s0; sh_cache := [] |} (init_threads M Q progs)).
    { split; [|right; constructor]. unfold init_threads. apply Forall_forall. intros t Ht.
      apply in_map_iff in Ht. destruct Ht as [p [<- Hp]]. cbn. unfold wf_rem.
      rewrite forallb_forall in Hwf. rewrite (Hwf p Hp). reflexivity. }
    pose proof (atomic_backend_invariant sched _ _ I0) as H.
    destruct (exec S M Q qeq mstep dec cap sched {| sh_store := s0; sh_cache := [] |} (init_threads M Q progs)) as [sh ts].
    destruct H as [_ [Hf|Hv]]; intros Hno; [rewrite Hf in Hno; discriminate|].
    intros q lo. cbn [astep]. destruct (lru_find qeq q (sh_cache S Q sh)) as [v|] eqn:Ef; cbn; [|reflexivity].
    unfold valid in Hv. rewrite Forall_forall in Hv. pose proof (Hv _ (find_in _ _ _ Ef)) as E. cbn in E. rewrite E. reflexivity.
  Qed.
End atomic_backend.

(* the two steps of a mutation swapped (invalidate first, then apply): even an atomic back-end serves a stale answer *)
Definition sw_progs : list (list (act nat nat)) :=
  [ [AAsk nat nat 1; AAsk nat nat 1]; [AInval nat nat; AMut nat nat 1] ].
Definition sw_sched : list nat := [1; 0; 1; 0].
Theorem swapped_protocol_stale :
  let '(sh, ts) := exec (list nat) nat nat Nat.eqb r_mstep r_dec None sw_sched
                        {| sh_store := []; sh_cache := [] |} (init_threads nat nat sw_progs) in
  map (fun t => rev (snd t)) ts = [[OAnswer true; OAnswer true]; [OMutated false]] /\
  r_dec (sh_store (list nat) nat sh) 1 = false.
Proof. vm_compute. split; reflexivity. Qed.
