(* ConcP: concurrent adds succeed exactly once; plain decisions are atomic; the decision cache can serve a
   stale answer (refuted clause, C14). *)
From Coq Require Import List Bool Arith Lia.
From Vakt Require Import Base.PyMonad Model.Store Model.Lru Model.Conc Proofs.StoreP.
Import ListNotations.

Section add_once.
  Variables K V : Type.
  Variable keq klt : K -> K -> bool.
  Hypothesis keq_eq : forall a b, keq a b = true <-> a = b.

  (* whatever the order in which n concurrent adds of one uid reach the storage lock: one succeeds, the others
     are refused with PolicyExistsError, and the store holds the policy of the one that succeeded *)
  Lemma adds_after_present o u (xs : list V) : forall s v, s_get K V keq u s = Some v ->
    run K V keq klt o s (map (fun x => Add u x false) xs) = (s, repeat OExists (length xs)).
  Proof.
    induction xs as [|x r IH]; intros s v H; cbn; [reflexivity|]. rewrite H. cbn.
    rewrite (IH s v H). reflexivity.
  Qed.

  Theorem adds_once o u x (xs : list V) s : s_get K V keq u s = None ->
    snd (run K V keq klt o s (map (fun y => Add u y false) (x :: xs))) = ODone :: repeat OExists (length xs) /\
    s_get K V keq u (fst (run K V keq klt o s (map (fun y => Add u y false) (x :: xs)))) = Some x.
  Proof.
    intros H. cbn. rewrite H. cbn.
    assert (Hp : s_get K V keq u (s_insert K V klt o u x s) = Some x).
    { rewrite (s_get_insert K V keq klt keq_eq o u x s u H). rewrite (keq_refl K keq keq_eq). reflexivity. }
    rewrite (adds_after_present o u xs _ x Hp). cbn. split; [reflexivity|exact Hp].
  Qed.
End add_once.

Section plain_decisions.
  Variables S M Q : Type.
  Variable qeq : Q -> Q -> bool.
  Variable mstep : S -> M -> S * bool.
  Variable dec : S -> Q -> bool.
  Variable cap : option nat.

  (* a plain decision touches shared state once: its answer is the decision for the store at that instant, and
     it changes nothing *)
  Theorem decide_atomic sh lo q :
    astep S M Q qeq mstep dec cap sh lo (ADecide M Q q) = (sh, lo, Some (OAnswer (dec (sh_store S Q sh) q))).
  Proof. reflexivity. Qed.

  (* a mutation takes effect in one step, with the result the sequential storage gives at that instant *)
  Theorem mutate_atomic sh lo m :
    astep S M Q qeq mstep dec cap sh lo (AMut M Q m) =
    ({| sh_store := fst (mstep (sh_store S Q sh) m); sh_cache := sh_cache S Q sh |}, lo,
     Some (OMutated (snd (mstep (sh_store S Q sh) m)))).
  Proof. cbn. destruct (mstep (sh_store S Q sh) m). reflexivity. Qed.
End plain_decisions.

(* the decision cache: a result computed before invalidate() ran can be inserted after it - REFUTED clause.
   store = numbers that are denied; the inquiry n is allowed unless denied; the mutation denies 1. *)
Definition r_mstep (s : list nat) (m : nat) : list nat * bool := (m :: s, false).
Definition r_dec (s : list nat) (q : nat) : bool := negb (existsb (Nat.eqb q) s).
Definition r_progs : list (list (act nat nat)) :=
  [ [ALookup nat nat 1; ASnap nat nat 1; AInsert nat nat 1; ALookup nat nat 1; ASnap nat nat 1; AInsert nat nat 1];
    [AMut nat nat 1; AInval nat nat] ].
Definition r_sched : list nat := [0; 0; 1; 1; 0; 0; 0; 0].

Theorem stale_after_return_refuted :
  let '(sh, ts) := exec (list nat) nat nat Nat.eqb r_mstep r_dec (Some 8) r_sched
                        {| sh_store := []; sh_cache := [] |} (init_threads nat nat r_progs) in
  (* the mutation has returned (both its steps ran) before the second ask started, the store now denies 1,
     and yet the second ask answered allow - from an entry computed against the older store *)
  map (fun t => rev (snd t)) ts = [[OAnswer true; OAnswer true]; [OMutated false]] /\
  r_dec (sh_store (list nat) nat sh) 1 = false.
Proof. vm_compute. split; reflexivity. Qed.
