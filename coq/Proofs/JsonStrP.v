(* JsonStrP: json string escaping (ensure_ascii) is inverted code point by code point. *)
From Coq Require Import ZArith NArith List Bool Lia ZifyBool ZifyN.
From Vakt Require Import Base.PyMonad Base.PyVal Model.Rules Model.Inquiry Model.JsonParse.
Import ListNotations.
Ltac Zify.zify_post_hook ::= Z.to_euclidean_division_equations.
Local Open Scope N_scope.

Definition valid_cp (c : N) : Prop := c < 1114112 /\ ~ (55296 <= c <= 57343).

Lemma unhex_hex d : d < 16 -> unhex (hex_digit_cp d) = Some d.
Proof.
  intros H. unfold unhex, hex_digit_cp.
  destruct (N.ltb_spec d 10).
  - rewrite (proj2 (N.leb_le 48 (48 + d))) by lia. rewrite (proj2 (N.leb_le (48 + d) 57)) by lia.
    cbn [andb]. f_equal. lia.
  - rewrite (proj2 (N.leb_le 48 (87 + d))) by lia. rewrite (proj2 (N.leb_gt (87 + d) 57)) by lia.
    cbn [andb]. rewrite (proj2 (N.leb_le 97 (87 + d))) by lia. rewrite (proj2 (N.leb_le (87 + d) 102)) by lia.
    cbn [andb]. f_equal. lia.
Qed.

Lemma parse_u_escape c rest : c < 65536 ->
  exists t, u_escape c = 92 :: 117 :: t /\ parse_u (t ++ rest) = Some (c, rest).
Proof.
  intros H. unfold u_escape. eexists. split; [reflexivity|].
  cbn [app parse_u]. unfold unhex4.
  rewrite !unhex_hex by (try apply N.mod_lt; lia). f_equal. f_equal. lia.
Qed.

Lemma andb_range lo hi x : (lo <=? x) && (x <=? hi) = true <-> lo <= x <= hi.
Proof. rewrite andb_true_iff, !N.leb_le. tauto. Qed.

Lemma parse_cp_esc c rest : valid_cp c ->
  parse_cp (esc_cp c ++ rest) = Some (c, rest) /\ exists h t, esc_cp c ++ rest = h :: t /\ h <> 34.
Proof.
  intros [V1 V2]. unfold esc_cp.
  destruct (N.eqb_spec c 34) as [->|N34]; [split; [reflexivity|eexists _, _; split; [reflexivity|lia]]|].
  destruct (N.eqb_spec c 92) as [->|N92]; [split; [reflexivity|eexists _, _; split; [reflexivity|lia]]|].
  destruct (N.eqb_spec c 10) as [->|N10]; [split; [reflexivity|eexists _, _; split; [reflexivity|lia]]|].
  destruct (N.eqb_spec c 13) as [->|N13]; [split; [reflexivity|eexists _, _; split; [reflexivity|lia]]|].
  destruct (N.eqb_spec c 9) as [->|N9]; [split; [reflexivity|eexists _, _; split; [reflexivity|lia]]|].
  destruct (N.eqb_spec c 8) as [->|N8]; [split; [reflexivity|eexists _, _; split; [reflexivity|lia]]|].
  destruct (N.eqb_spec c 12) as [->|N12]; [split; [reflexivity|eexists _, _; split; [reflexivity|lia]]|].
  assert (BMP : forall x, x < 65536 -> ~ (55296 <= x <= 57343) ->
            parse_cp (u_escape x ++ rest) = Some (x, rest) /\ exists h t, u_escape x ++ rest = h :: t /\ h <> 34).
  { intros x Hx Hs. destruct (parse_u_escape x rest Hx) as [t [E P]]. rewrite E. cbn [app]. split.
    - unfold parse_cp. cbn [N.eqb Pos.eqb]. rewrite P.
      destruct ((55296 <=? x) && (x <=? 56319)) eqn:B; [|reflexivity].
      apply andb_range in B. lia.
    - eexists _, _. split; [reflexivity|lia]. }
  destruct (N.ltb_spec c 32) as [L32|G32]; [apply BMP; lia|].
  destruct (N.ltb_spec c 127) as [L127|G127].
  { cbn [app]. split.
    - unfold parse_cp. destruct (N.eqb_spec c 92); [contradiction|reflexivity].
    - eexists _, _. split; [reflexivity|exact N34]. }
  destruct (N.ltb_spec c 65536) as [L64|G64]; [apply BMP; [lia|exact V2]|].
  (* astral: a surrogate pair *)
  set (c' := c - 65536). set (hi := 55296 + c' / 1024). set (lo := 56320 + c' mod 1024).
  assert (Hhi : 55296 <= hi <= 56319) by (unfold hi, c'; lia).
  assert (Hlo : 56320 <= lo <= 57343) by (unfold lo, c'; lia).
  destruct (parse_u_escape hi (u_escape lo ++ rest) ltac:(lia)) as [t1 [E1 P1]].
  destruct (parse_u_escape lo rest ltac:(lia)) as [t2 [E2 P2]].
  rewrite <- app_assoc. rewrite E1. cbn [app]. split.
  - unfold parse_cp. cbn [N.eqb Pos.eqb]. rewrite P1.
    rewrite (proj2 (andb_range 55296 56319 hi) Hhi). rewrite E2. cbn [app N.eqb Pos.eqb andb]. rewrite P2.
    rewrite (proj2 (andb_range 56320 57343 lo) Hlo). f_equal. f_equal. unfold hi, lo, c'. lia.
  - eexists _, _. split; [reflexivity|lia].
Qed.

Definition valid_str (s : pstr) : Prop := Forall valid_cp s.

Lemma parse_str_json s : valid_str s -> forall fuel rest, (length s < fuel)%nat ->
  parse_str fuel (flat_map esc_cp s ++ 34 :: rest) = Some (s, rest).
Proof.
  induction 1 as [|c s Hc Hs IH]; intros fuel rest Hf.
  - destruct fuel; [lia|]. reflexivity.
  - destruct fuel as [|f]; [cbn in Hf; lia|]. cbn [flat_map]. rewrite <- app_assoc.
    destruct (parse_cp_esc c (flat_map esc_cp s ++ 34 :: rest) Hc) as [P [h [t [E Hh]]]].
    cbn [parse_str]. rewrite E. destruct (N.eqb_spec h 34); [contradiction|]. rewrite <- E, P.
    rewrite IH by (cbn in Hf; lia). reflexivity.
Qed.
