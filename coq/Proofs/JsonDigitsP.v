(* JsonDigitsP: reading back the decimal digits str(int) prints. *)
From Coq Require Import ZArith NArith List Bool Lia ZifyBool ZifyN.
From Vakt Require Import Base.PyMonad Base.PyVal Model.Rules Model.Inquiry Model.JsonParse.
Import ListNotations.
Ltac Zify.zify_post_hook ::= Z.to_euclidean_division_equations.
Local Open Scope N_scope.

(* ---------- digits ---------- *)
Lemma is_digit_digit_cp r : r < 10 -> is_digit (digit_cp r) = true /\ digit_cp r - 48 = r.
Proof. unfold is_digit, digit_cp. lia. Qed.

(* the accumulator after reading the decimal digits of n, most significant first, starting from a *)
Fixpoint shiftf (fuel : nat) (a n : N) : N :=
  match fuel with
  | O => a
  | S f => match n / 10 with
           | 0 => 10 * a + n mod 10
           | q => 10 * shiftf f a q + n mod 10
           end
  end.

Lemma pos_digits_read : forall fuel n acc a,
  read_digits (pos_digits fuel n acc) a =
  match fuel with O => read_digits acc a | _ => read_digits acc (shiftf fuel a n) end.
Proof.
  induction fuel as [|f IH]; intros n acc a; [reflexivity|].
  cbn [pos_digits shiftf].
  assert (R : n mod 10 < 10) by (apply N.mod_lt; lia).
  destruct (is_digit_digit_cp _ R) as [D1 D2].
  destruct (n / 10) as [|q] eqn:Q.
  - cbn [read_digits]. rewrite D1, D2. reflexivity.
  - rewrite IH. destruct f as [|f'].
    + cbn [read_digits shiftf]. rewrite D1, D2. reflexivity.
    + cbn [read_digits]. rewrite D1, D2. reflexivity.
Qed.

Lemma shiftf_0 : forall f n, n < 2 ^ N.of_nat f -> shiftf f 0 n = n.
Proof.
  induction f as [|f IH]; intros n H.
  - cbn in H. cbn. lia.
  - cbn [shiftf]. rewrite Nat2N.inj_succ, N.pow_succ_r' in H.
    destruct (n / 10) as [|q] eqn:Q.
    + lia.
    + rewrite IH; [lia|]. set (P := 2 ^ N.of_nat f) in *. lia.
Qed.

Lemma pos_digits_app : forall fuel n acc rest, pos_digits fuel n acc ++ rest = pos_digits fuel n (acc ++ rest).
Proof.
  induction fuel as [|f IH]; intros n acc rest; [reflexivity|].
  cbn [pos_digits]. destruct (n / 10); [reflexivity|]. rewrite IH. reflexivity.
Qed.

Definition no_digit_head (s : pstr) : Prop := match s with [] => True | c :: _ => is_digit c = false end.

Lemma read_digits_stop rest a : no_digit_head rest -> read_digits rest a = (a, rest).
Proof. destruct rest as [|c r]; cbn; [reflexivity|]. intros ->. reflexivity. Qed.

Lemma log2_fuel n : n < 2 ^ N.of_nat (S (N.to_nat (N.log2 n))).
Proof.
  rewrite Nat2N.inj_succ, N2Nat.id. destruct n as [|p]; [cbn; lia|].
  apply N.log2_spec. lia.
Qed.

Lemma read_N_digits n rest : no_digit_head rest -> read_digits (N_digits n ++ rest) 0 = (n, rest).
Proof.
  intros H. unfold N_digits. rewrite pos_digits_app, pos_digits_read. cbn [app].
  rewrite shiftf_0 by apply log2_fuel. apply read_digits_stop, H.
Qed.

(* the first character of a printed natural is a digit *)
Lemma pos_digits_head : forall fuel n acc, (fuel > 0)%nat ->
  exists c r, pos_digits fuel n acc = c :: r /\ is_digit c = true.
Proof.
  induction fuel as [|f IH]; intros n acc Hf; [lia|].
  cbn [pos_digits].
  assert (R : n mod 10 < 10) by (apply N.mod_lt; lia).
  destruct (is_digit_digit_cp _ R) as [D1 _].
  destruct (n / 10) as [|q].
  - eexists _, _. split; [reflexivity|exact D1].
  - destruct f as [|f'].
    + cbn. eexists _, _. split; [reflexivity|exact D1].
    + apply IH. lia.
Qed.

Lemma parse_nat_N_digits n rest : no_digit_head rest -> parse_nat (N_digits n ++ rest) = Some (n, rest).
Proof.
  intros H. unfold parse_nat.
  destruct (pos_digits_head (S (N.to_nat (N.log2 n))) n [] ltac:(lia)) as [c [r [E D]]].
  pose proof (read_N_digits n rest H) as R. unfold N_digits in *. rewrite E in *. cbn [app] in *.
  rewrite D. rewrite R. reflexivity.
Qed.

Lemma parse_int_Z_str z rest : no_digit_head rest -> parse_int (Z_str z ++ rest) = Some (z, rest).
Proof.
  intros H. destruct z as [|p|p]; cbn [Z_str].
  - cbn. rewrite (read_digits_stop rest 0 H). reflexivity.
  - unfold parse_int.
    destruct (pos_digits_head (S (N.to_nat (N.log2 (Npos p)))) (Npos p) [] ltac:(lia)) as [c [r [E D]]].
    pose proof (parse_nat_N_digits (Npos p) rest H) as R. unfold N_digits in *. rewrite E in *. cbn [app] in *.
    assert (c <> 45) by (unfold is_digit in D; lia).
    destruct (N.eqb_spec c 45); [contradiction|]. rewrite R. reflexivity.
  - cbn [app]. unfold parse_int. cbn [N.eqb Pos.eqb]. rewrite (parse_nat_N_digits (Npos p) rest H). reflexivity.
Qed.
