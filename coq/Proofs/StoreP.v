(* StoreP: every storage is a uid-keyed map (C08); wrappers (C11 notification, C12 coherence). *)
From Coq Require Import ZArith List Bool Lia Permutation ZifyBool.
From Vakt Require Import Base.PyMonad Model.Store.
Import ListNotations.
Arguments Store.retrieve_all : simpl never.
Arguments Store.get_all : simpl never.

Section store_proofs.
  Variables K V : Type.
  Variable keq : K -> K -> bool.
  Variable klt : K -> K -> bool.
  Hypothesis keq_eq : forall a b, keq a b = true <-> a = b.

  Notation smap := (smap K V).
  Notation s_get := (s_get K V keq).
  Notation s_replace := (s_replace K V keq).
  Notation s_remove := (s_remove K V keq).
  Notation s_insert := (s_insert K V klt).
  Notation step := (step K V keq klt).
  Notation run := (run K V keq klt).
  Notation get_all := (get_all K V).
  Notation retrieve_all := (retrieve_all K V).
  Notation retrieve_loop := (retrieve_loop K V).
  Notation page := (page K V).

  Lemma keq_refl a : keq a a = true.
  Proof. apply keq_eq. reflexivity. Qed.
  Lemma keq_neq a b : a <> b -> keq a b = false.
  Proof. intros H. destruct (keq a b) eqn:E; [apply keq_eq in E; contradiction|reflexivity]. Qed.
  Lemma keq_false a b : keq a b = false -> a <> b.
  Proof. intros E H. subst. rewrite keq_refl in E. discriminate. Qed.

  Definition keys (s : smap) : list K := map fst s.
  Definition wf (s : smap) : Prop := NoDup (keys s).

  (* ---------- lookups after updates ---------- *)
  Lemma s_get_in u s v : s_get u s = Some v -> In (u, v) s.
  Proof.
    induction s as [|[k x] r IH]; cbn; [discriminate|]. destruct (keq u k) eqn:E.
    - intros [= ->]. apply keq_eq in E. subst. now left.
    - intros H. right. apply IH, H.
  Qed.
  Lemma s_get_none_notin u s : s_get u s = None -> ~ In u (keys s).
  Proof.
    induction s as [|[k x] r IH]; cbn; [tauto|]. destruct (keq u k) eqn:E; [discriminate|].
    intros H [Hk|Hk]; [subst; rewrite keq_refl in E; discriminate|]. apply IH; assumption.
  Qed.
  Lemma s_get_notin u s : ~ In u (keys s) -> s_get u s = None.
  Proof.
    induction s as [|[k x] r IH]; cbn; [reflexivity|]. intros H.
    rewrite keq_neq by (intros ->; apply H; now left). apply IH. intros Hr. apply H. now right.
  Qed.

  Lemma s_get_app u a b : s_get u (a ++ b) = match s_get u a with Some v => Some v | None => s_get u b end.
  Proof. induction a as [|[k x] r IH]; cbn; [reflexivity|]. destruct (keq u k); [reflexivity|exact IH]. Qed.

  Lemma s_get_insert_sorted u x s u' : s_get u s = None ->
    s_get u' (s_insert_sorted K V klt u x s) = if keq u' u then Some x else s_get u' s.
  Proof.
    induction s as [|[k v] r IH]; cbn; intros Hn.
    - destruct (keq u' u); reflexivity.
    - destruct (keq u k) eqn:Euk; [discriminate|].
      destruct (klt u k); cbn.
      + destruct (keq u' u); reflexivity.
      + destruct (keq u' k) eqn:E2.
        * destruct (keq u' u) eqn:E; [|reflexivity].
          apply keq_eq in E, E2. subst. rewrite keq_refl in Euk. discriminate.
        * apply IH, Hn.
  Qed.

  Lemma s_get_insert o u x s u' : s_get u s = None ->
    s_get u' (s_insert o u x s) = if keq u' u then Some x else s_get u' s.
  Proof.
    intros Hn. destruct o; cbn.
    - rewrite s_get_app. cbn. destruct (keq u' u) eqn:E.
      + apply keq_eq in E. subst. rewrite Hn. reflexivity.
      + destruct (s_get u' s); reflexivity.
    - apply s_get_insert_sorted, Hn.
  Qed.

  Lemma s_get_replace u x s u' :
    s_get u' (s_replace u x s) =
    if keq u' u then (match s_get u s with Some _ => Some x | None => None end) else s_get u' s.
  Proof.
    induction s as [|[k v] r IH]; cbn.
    - destruct (keq u' u); reflexivity.
    - destruct (keq u k) eqn:Euk; cbn.
      + apply keq_eq in Euk. subst k. destruct (keq u' u); reflexivity.
      + rewrite IH. destruct (keq u' k) eqn:E2; [|reflexivity].
        destruct (keq u' u) eqn:E; [|reflexivity].
        apply keq_eq in E, E2. subst. rewrite keq_refl in Euk. discriminate.
  Qed.

  Lemma s_get_remove u s u' : wf s ->
    s_get u' (s_remove u s) = if keq u' u then None else s_get u' s.
  Proof.
    unfold wf, keys. induction s as [|[k v] r IH]; cbn; intros Hnd.
    - destruct (keq u' u); reflexivity.
    - inversion Hnd as [|k' l' Hnotin Hnd']; subst.
      destruct (keq u k) eqn:Euk; cbn.
      + apply keq_eq in Euk. subst k. destruct (keq u' u) eqn:E; [|reflexivity].
        apply keq_eq in E. subst. apply s_get_notin. exact Hnotin.
      + rewrite (IH Hnd'). destruct (keq u' k) eqn:E2; [|reflexivity].
        destruct (keq u' u) eqn:E; [|reflexivity].
        apply keq_eq in E, E2. subst. rewrite keq_refl in Euk. discriminate.
  Qed.

  (* ---------- key uniqueness is preserved ---------- *)
  Lemma keys_replace u x s : keys (s_replace u x s) = keys s.
  Proof. induction s as [|[k v] r IH]; cbn; [reflexivity|]. destruct (keq u k); cbn; [reflexivity|f_equal; exact IH]. Qed.

  Lemma keys_remove_incl u s : incl (keys (s_remove u s)) (keys s).
  Proof.
    induction s as [|[k v] r IH]; cbn; [apply incl_refl|]. destruct (keq u k); cbn.
    - apply incl_tl, incl_refl.
    - intros y [<-|Hy]; [now left|right; apply IH, Hy].
  Qed.

  Lemma wf_remove u s : wf s -> wf (s_remove u s).
  Proof.
    unfold wf. induction s as [|[k v] r IH]; cbn; intros H; [exact H|].
    inversion H as [|k' l' Hn Hd]; subst. destruct (keq u k); cbn; [exact Hd|].
    constructor; [|apply IH, Hd]. intros Hin. apply Hn. eapply keys_remove_incl, Hin.
  Qed.

  Lemma keys_insert_sorted u x s y : In y (keys (s_insert_sorted K V klt u x s)) <-> y = u \/ In y (keys s).
  Proof.
    induction s as [|[k v] r IH]; cbn; [intuition congruence|].
    destruct (klt u k); cbn; [intuition congruence|]. rewrite IH. intuition congruence.
  Qed.

  Lemma wf_insert_sorted u x s : wf s -> ~ In u (keys s) -> wf (s_insert_sorted K V klt u x s).
  Proof.
    unfold wf. induction s as [|[k v] r IH]; cbn; intros Hd Hn.
    - constructor; [tauto|constructor].
    - inversion Hd as [|k' l' Hk Hd']; subst. destruct (klt u k); cbn.
      + constructor; [exact Hn|exact Hd].
      + constructor.
        * intros Hin. apply keys_insert_sorted in Hin as [->|Hin]; [apply Hn; now left|contradiction].
        * apply IH; [exact Hd'|]. intros Hin. apply Hn. now right.
  Qed.

  Lemma wf_insert o u x s : wf s -> s_get u s = None -> wf (s_insert o u x s).
  Proof.
    intros Hw Hn. apply s_get_none_notin in Hn. destruct o; cbn.
    - unfold wf, keys in *. rewrite map_app. cbn.
      eapply Permutation_NoDup; [apply Permutation_cons_append|]. constructor; assumption.
    - apply wf_insert_sorted; assumption.
  Qed.

  Theorem step_wf o s p : wf s -> wf (fst (step o s p)).
  Proof.
    intros Hw. destruct p as [u x bad|u x bad|u|u|l off|b]; cbn.
    - destruct bad; [exact Hw|]. destruct (s_get u s) eqn:E; cbn; [exact Hw|apply wf_insert; assumption].
    - destruct (s_get u s); cbn; [|exact Hw]. destruct bad; cbn; [exact Hw|].
      unfold wf. rewrite keys_replace. exact Hw.
    - apply wf_remove, Hw.
    - exact Hw.
    - destruct (get_all s l off); exact Hw.
    - destruct (retrieve_all s b) as [[?|]|]; exact Hw.
  Qed.

  (* ---------- the abstract map and the refinement ---------- *)
  Definition amap := K -> option V.
  Definition abs (s : smap) : amap := fun u => s_get u s.
  Definition upd (m : amap) (u : K) (x : option V) : amap := fun k => if keq k u then x else m k.

  Definition spec_step (m : amap) (p : op K V) : amap :=
    match p with
    | Add u x false => match m u with None => upd m u (Some x) | Some _ => m end
    | Update u x false => match m u with Some _ => upd m u (Some x) | None => m end
    | Delete u => upd m u None
    | _ => m
    end.

  Theorem step_refines o s p : wf s -> forall k, abs (fst (step o s p)) k = spec_step (abs s) p k.
  Proof.
    intros Hw k. unfold abs. destruct p as [u x [|]|u x [|]|u|u|l off|b]; cbn.
    - reflexivity.
    - destruct (s_get u s) eqn:E; cbn; [reflexivity|].
      rewrite (s_get_insert _ _ _ _ _ E). reflexivity.
    - destruct (s_get u s) eqn:E; reflexivity.
    - destruct (s_get u s) eqn:E; cbn; [|reflexivity].
      rewrite s_get_replace, E. reflexivity.
    - rewrite (s_get_remove _ _ _ Hw). reflexivity.
    - reflexivity.
    - destruct (get_all s l off); reflexivity.
    - destruct (retrieve_all s b) as [[?|]|]; reflexivity.
  Qed.

  (* outputs, stated on the abstract map *)
  Theorem step_outputs o s p :
    match p with
    | Add u x bad =>
        snd (step o s p) = (if bad then ORejected else match abs s u with Some _ => OExists | None => ODone end)
    | Update u x bad =>
        snd (step o s p) = (match abs s u with Some _ => if bad then ORejected else ODone | None => ODone end)
    | Delete u => snd (step o s p) = ODone
    | Get u => snd (step o s p) = OGet (abs s u)
    | _ => True
    end.
  Proof.
    unfold abs. destruct p as [u x bad|u x bad|u|u|l off|b]; cbn; try exact I; try reflexivity.
    - destruct bad; [reflexivity|]. destruct (s_get u s); reflexivity.
    - destruct (s_get u s); [destruct bad|]; reflexivity.
  Qed.

  (* a mutation that raises leaves the stored set exactly as it was *)
  Theorem raised_unchanged o s p : raised K V (snd (step o s p)) = true -> fst (step o s p) = s.
  Proof.
    destruct p as [u x bad|u x bad|u|u|l off|b]; cbn.
    - destruct bad; [reflexivity|]. destruct (s_get u s); cbn; [reflexivity|discriminate].
    - destruct (s_get u s); cbn; [|reflexivity]. destruct bad; cbn; [reflexivity|discriminate].
    - discriminate.
    - reflexivity.
    - destruct (get_all s l off); reflexivity.
    - destruct (retrieve_all s b) as [[?|]|]; reflexivity.
  Qed.

  Lemma s_remove_absent u s : s_get u s = None -> s_remove u s = s.
  Proof.
    induction s as [|[k v] r IH]; cbn; [reflexivity|]. destruct (keq u k); [discriminate|].
    intros H. f_equal. apply IH, H.
  Qed.

  Theorem absent_unchanged o s u x bad : s_get u s = None ->
    fst (step o s (Update u x bad)) = s /\ fst (step o s (Delete u)) = s.
  Proof. intros H. cbn. rewrite H. split; [reflexivity|apply s_remove_absent, H]. Qed.

  Theorem reads_unchanged o s p : is_mutation K V p = false -> fst (step o s p) = s.
  Proof.
    destruct p as [u x bad|u x bad|u|u|l off|b]; cbn; try discriminate; intros _; [reflexivity| |].
    - destruct (get_all s l off); reflexivity.
    - destruct (retrieve_all s b) as [[?|]|]; reflexivity.
  Qed.

  (* histories: the invariant and the refinement hold in every reachable state *)
  Theorem run_wf o ops : forall s, wf s -> wf (fst (run o s ops)).
  Proof.
    induction ops as [|p r IH]; intros s Hw; cbn; [exact Hw|].
    pose proof (step_wf o s p Hw) as Hw'. destruct (step o s p) as [s' x]. cbn in Hw'.
    specialize (IH s' Hw'). destruct (run o s' r) as [s'' xs]. exact IH.
  Qed.

  Lemma spec_step_ext m1 m2 q : (forall k, m1 k = m2 k) -> forall k, spec_step m1 q k = spec_step m2 q k.
  Proof.
    intros Hm k. destruct q as [u x [|]|u x [|]|u|u|l off|b]; cbn; try apply Hm.
    - rewrite Hm. destruct (m2 u); [apply Hm|]. unfold upd. destruct (keq k u); [reflexivity|apply Hm].
    - rewrite Hm. destruct (m2 u); [|apply Hm]. unfold upd. destruct (keq k u); [reflexivity|apply Hm].
    - unfold upd. destruct (keq k u); [reflexivity|apply Hm].
  Qed.

  Lemma fold_spec_ext ops : forall m1 m2, (forall k, m1 k = m2 k) ->
    forall k, fold_left spec_step ops m1 k = fold_left spec_step ops m2 k.
  Proof.
    induction ops as [|q r IH]; intros m1 m2 Hm k; cbn; [apply Hm|].
    apply IH. apply spec_step_ext, Hm.
  Qed.

  Theorem run_refines o ops : forall s, wf s ->
    forall k, abs (fst (run o s ops)) k = fold_left spec_step ops (abs s) k.
  Proof.
    induction ops as [|p r IH]; intros s Hw k; cbn; [reflexivity|].
    pose proof (step_wf o s p Hw) as Hw'. pose proof (step_refines o s p Hw) as Hr.
    destruct (step o s p) as [s' x]. cbn in Hw', Hr.
    specialize (IH s' Hw' k). destruct (run o s' r) as [s'' xs]. cbn in *. rewrite IH.
    apply fold_spec_ext. exact Hr.
  Qed.

  (* ---------- paging ---------- *)
  Theorem get_all_limit_zero s off : (0 <= off)%Z -> get_all s 0 off = Ok [].
  Proof. intros H. unfold Store.get_all. cbn. destruct (Z.ltb_spec off 0); [lia|]. reflexivity. Qed.

  Theorem get_all_negative s l off : (l < 0 \/ off < 0)%Z -> get_all s l off = Raise EValueError.
  Proof.
    intros H. unfold Store.get_all. destruct (Z.ltb_spec l 0); [reflexivity|].
    destruct (Z.ltb_spec off 0); [reflexivity|lia].
  Qed.

  Lemma page_tile (s : smap) (b : nat) : (0 < b)%nat -> forall n,
    concat (map (fun k => firstn b (skipn (k * b) s)) (seq 0 n)) = firstn (n * b) s.
  Proof.
    intros Hb. induction n as [|n IH]; [reflexivity|].
    rewrite seq_S, map_app, concat_app, IH. cbn [map concat plus]. rewrite app_nil_r.
    replace (S n * b)%nat with (n * b + b)%nat by lia.
    rewrite <- (firstn_skipn (n * b) s) at 3.
    rewrite firstn_app.
    assert (Hlen : (length (firstn (n * b) s) <= n * b)%nat) by apply firstn_le_length.
    rewrite firstn_firstn. replace (Init.Nat.min (n * b + b) (n * b)) with (n * b)%nat by lia.
    f_equal.
    destruct (Nat.le_gt_cases (n * b) (length s)) as [Hle|Hgt].
    - rewrite firstn_length_le by exact Hle. f_equal. lia.
    - rewrite (skipn_all2 s) by lia. rewrite !firstn_nil. reflexivity.
  Qed.

  (* consecutive pages tile the whole collection *)
  Theorem pages_tile s (b : Z) n : (0 < b)%Z -> (length s <= n * Z.to_nat b)%nat ->
    concat (map (fun k => page s b (Z.of_nat k * b)) (seq 0 n)) = s.
  Proof.
    intros Hb Hn. unfold Store.page.
    replace (map (fun k => firstn (Z.to_nat b) (skipn (Z.to_nat (Z.of_nat k * b)) s)) (seq 0 n))
      with (map (fun k => firstn (Z.to_nat b) (skipn (k * Z.to_nat b) s)) (seq 0 n)).
    2:{ apply map_ext. intros k. f_equal. f_equal. lia. }
    rewrite page_tile by lia. apply firstn_all2. exact Hn.
  Qed.

  (* full retrieval yields every stored policy exactly once, in listing order, for every positive batch *)
  Lemma skipn_skipn' {A} (a b : nat) (l : list A) : skipn a (skipn b l) = skipn (a + b) l.
  Proof.
    revert l. induction b as [|b IH]; intros l; [rewrite Nat.add_0_r; reflexivity|].
    destruct l as [|x l]; [rewrite !skipn_nil; reflexivity|].
    replace (a + S b)%nat with (S (a + b)) by lia. cbn [skipn]. apply IH.
  Qed.

  Lemma retrieve_loop_S f s l off :
    retrieve_loop (S f) s l off =
    match get_all s l off with
    | Raise e => Raise e
    | Ok [] => Ok (Some [])
    | Ok pg => match retrieve_loop f s l (off + l)%Z with
               | Ok (Some rest) => Ok (Some (pg ++ rest))
               | other => other
               end
    end.
  Proof. reflexivity. Qed.

  Lemma retrieve_loop_spec (b : Z) : (0 < b)%Z -> forall f s off,
    (0 <= off)%Z -> (length s <= Z.to_nat off + f * Z.to_nat b)%nat ->
    retrieve_loop (S f) s b off = Ok (Some (skipn (Z.to_nat off) s)).
  Proof.
    intros Hb. induction f as [|f IH]; intros s off Hoff Hlen.
    - rewrite retrieve_loop_S. unfold Store.get_all.
      destruct (Z.ltb_spec b 0); [lia|]. destruct (Z.ltb_spec off 0); [lia|]. unfold Store.page.
      rewrite skipn_all2 by lia. rewrite firstn_nil. reflexivity.
    - rewrite retrieve_loop_S. unfold Store.get_all.
      destruct (Z.ltb_spec b 0); [lia|]. destruct (Z.ltb_spec off 0); [lia|]. unfold Store.page.
      destruct (firstn (Z.to_nat b) (skipn (Z.to_nat off) s)) as [|x pg] eqn:Ep.
      + f_equal. f_equal. destruct (skipn (Z.to_nat off) s) as [|y r] eqn:Es; [reflexivity|].
        destruct (Z.to_nat b) eqn:Eb; [lia|]. cbn in Ep. discriminate.
      + rewrite IH; [| lia |].
        * f_equal. f_equal. rewrite <- Ep.
          replace (Z.to_nat (off + b)) with (Z.to_nat b + Z.to_nat off)%nat by lia.
          rewrite <- skipn_skipn'. apply firstn_skipn.
        * cbn in Hlen. lia.
  Qed.

  Theorem retrieve_all_complete s b : (0 < b)%Z -> retrieve_all s b = Ok (Some s).
  Proof.
    intros Hb. unfold Store.retrieve_all. rewrite (retrieve_loop_spec b Hb); [reflexivity|lia|].
    cbn. assert (1 <= Z.to_nat b)%nat by lia. nia.
  Qed.

  Theorem retrieve_all_negative s b : (b < 0)%Z -> retrieve_all s b = Raise EValueError.
  Proof. intros Hb. unfold Store.retrieve_all. cbn. unfold Store.get_all. destruct (Z.ltb_spec b 0); [reflexivity|lia]. Qed.

  (* ---------- ObservableMutationStorage ---------- *)
  Theorem observable_events o s p :
    let '(s', x, evs) := observable_step K V keq klt o s p in
    (s', x) = step o s p /\
    (is_mutation K V p = false -> evs = [] /\ s' = s) /\
    (is_mutation K V p = true -> raised K V x = false -> evs = [Applied K V p; Notified K V]) /\
    (is_mutation K V p = true -> raised K V x = true -> evs = [RaisedEv K V p] /\ s' = s).
  Proof.
    unfold observable_step. pose proof (raised_unchanged o s p) as Hr. pose proof (reads_unchanged o s p) as Hq.
    destruct (step o s p) as [s' x]. cbn in *.
    split; [reflexivity|]. split; [|split].
    - intros Hm. rewrite Hm. split; [reflexivity|apply Hq, Hm].
    - intros Hm Hx. rewrite Hm, Hx. reflexivity.
    - intros Hm Hx. rewrite Hm, Hx. split; [reflexivity|apply Hr, Hx].
  Qed.
End store_proofs.
