(* PolicyJsonP: a constructed policy written with to_json (Policy._data: tuples become lists) and read with
   Policy.from_json comes back with the same attributes. *)
From Coq Require Import ZArith NArith List Bool Lia.
From Vakt Require Import Base.PyMonad Base.PyVal Model.Rules Model.Policy Proofs.PyValP Proofs.PolicyP.
Import ListNotations.

Lemma flat_idem a : flat (flat a) = flat a.
Proof. destruct a as [[]| |]; reflexivity. Qed.

Lemma data_of_idem s : data_of (data_of s) = data_of s.
Proof.
  induction s as [|[k a] r IH]; [reflexivity|]. unfold data_of in *. cbn [map fst snd]. rewrite flat_idem, IH. reflexivity.
Qed.

Lemma lookup_data_of k s : lookup k (data_of s) = option_map flat (lookup k s).
Proof.
  induction s as [|[k' a] r IH]; [reflexivity|]. unfold data_of in *. cbn [map fst snd lookup option_map].
  destruct (pstr_eqb k k'); [reflexivity|exact IH].
Qed.

Lemma set_attr_data_of n v s : data_of (set_attr n v s) = set_attr n (flat v) (data_of s).
Proof.
  induction s as [|[k a] r IH]; [reflexivity|]. unfold data_of in *. cbn [map fst snd set_attr].
  destruct (pstr_eqb n k); cbn [map fst snd]; [reflexivity|]. rewrite IH. reflexivity.
Qed.

Lemma iter_flat a : iter_aval (flat a) = iter_aval a.
Proof. destruct a as [[]| |]; reflexivity. Qed.

Lemma field_iter_data_of s f : field_iter (data_of s) f = field_iter s f.
Proof. unfold field_iter. rewrite lookup_data_of. destruct (lookup f s); cbn; [apply iter_flat|reflexivity]. Qed.

Lemma check_flat n v : check_field_type n (flat v) = check_field_type n v.
Proof. unfold check_field_type. rewrite iter_flat. destruct v as [[]| |]; reflexivity. Qed.

Lemma calculate_flat s n v : calculate_type (data_of s) n (flat v) = calculate_type s n v.
Proof. unfold calculate_type. rewrite <- set_attr_data_of, !field_iter_data_of. reflexivity. Qed.

Lemma setattr_flat s n v : setattr (data_of s) n (flat v) = match setattr s n v with Ok s' => Ok (data_of s') | Raise e => Raise e end.
Proof.
  unfold setattr. rewrite check_flat, calculate_flat.
  destruct (check_field_type n v) as [[]|]; cbn; [|reflexivity].
  destruct (calculate_type s n v) as [t|]; cbn; [|reflexivity].
  rewrite !set_attr_data_of. reflexivity.
Qed.

Lemma truthy_flat a : aval_truthy (flat a) = aval_truthy a.
Proof. destruct a as [[]| |]; reflexivity. Qed.
Lemma is_none_flat a : aval_is_none (flat a) = aval_is_none a.
Proof. destruct a as [[]| |]; reflexivity. Qed.

Definition flat_args (a : ctor_args) : ctor_args :=
  {| c_uid := flat (c_uid a); c_subjects := flat (c_subjects a); c_effect := flat (c_effect a);
     c_resources := flat (c_resources a); c_actions := flat (c_actions a); c_context := flat (c_context a);
     c_rules := flat (c_rules a); c_description := flat (c_description a) |}.

(* the constructor sees only the values it assigns *)
Definition ctor_core (uid subjects effect resources actions context description : aval) : res pstate :=
  s <- setattr [] n_uid uid ;;
  s <- setattr s n_subjects subjects ;;
  s <- setattr s n_effect effect ;;
  s <- setattr s n_resources resources ;;
  s <- setattr s n_actions actions ;;
  s <- setattr s n_context context ;;
  s <- setattr s n_description description ;;
  setattr s n_type (AV VNone).

Definition eff (a : ctor_args) : aval := if aval_truthy (c_effect a) then c_effect a else AV (VStr s_deny).
Definition ctx (a : ctor_args) : aval :=
  if negb (aval_is_none (c_context a)) then c_context a else if aval_truthy (c_rules a) then c_rules a else ACtx [].

Lemma ctor_is_core a :
  ctor a = ctor_core (c_uid a) (c_subjects a) (eff a) (c_resources a) (c_actions a) (ctx a) (c_description a).
Proof. reflexivity. Qed.

Lemma ctor_core_flat u sj e r ac c d s :
  ctor_core u sj e r ac c d = Ok s ->
  ctor_core (flat u) (flat sj) (flat e) (flat r) (flat ac) (flat c) (flat d) = Ok (data_of s).
Proof.
  unfold ctor_core. intros H.
  repeat match type of H with
         | bind ?m _ = Ok _ =>
             let s0 := fresh "s" in let E := fresh "E" in
             destruct m as [s0|?] eqn:E; cbn [bind] in H; [|discriminate]
         end.
  change (@nil (pstr * aval)) with (data_of []).
  rewrite setattr_flat, E; cbn [bind]. rewrite setattr_flat, E0; cbn [bind]. rewrite setattr_flat, E1; cbn [bind].
  rewrite setattr_flat, E2; cbn [bind]. rewrite setattr_flat, E3; cbn [bind]. rewrite setattr_flat, E4; cbn [bind].
  rewrite setattr_flat, E5; cbn [bind]. change (AV VNone) with (flat (AV VNone)). rewrite setattr_flat, H. reflexivity.
Qed.

(* the shape of a constructed state *)
Lemma ctor_core_shape u sj e r ac c d s : ctor_core u sj e r ac c d = Ok s ->
  exists t, s = [(n_uid, u); (n_type, AV (VInt t)); (n_subjects, sj); (n_effect, e); (n_resources, r);
                 (n_actions, ac); (n_context, c); (n_description, d)] /\ is_dict_aval c = true.
Proof.
  unfold ctor_core. intros H.
  repeat match type of H with
         | bind ?m _ = Ok _ =>
             let s0 := fresh "s" in let E := fresh "E" in
             destruct m as [s0|?] eqn:E; cbn [bind] in H; [|discriminate]
         end.
  assert (Hc : is_dict_aval c = true).
  { unfold setattr in E4. destruct (check_field_type n_context c) as [[]|] eqn:Ec; cbn in E4; [|discriminate].
    unfold check_field_type in Ec. cbn in Ec. destruct (is_dict_aval c); [reflexivity|discriminate]. }
  apply setattr_shape in E as [t0 ->]. apply setattr_shape in E0 as [t1 ->]. apply setattr_shape in E1 as [t2 ->].
  apply setattr_shape in E2 as [t3 ->]. apply setattr_shape in E3 as [t4 ->]. apply setattr_shape in E4 as [t5 ->].
  apply setattr_shape in E5 as [t6 ->]. apply setattr_shape in H as [t7 ->].
  exists t7. split; [reflexivity|exact Hc].
Qed.

Theorem written_then_read a s : ctor a = Ok s -> from_props (data_of s) = Ok (data_of s).
Proof.
  rewrite ctor_is_core. intros H. pose proof (ctor_core_flat _ _ _ _ _ _ _ _ H) as Hf.
  destruct (ctor_core_shape _ _ _ _ _ _ _ _ H) as [t [-> Hc]].
  assert (He : aval_truthy (eff a) = true).
  { unfold eff. destruct (aval_truthy (c_effect a)) eqn:E; [exact E|reflexivity]. }
  assert (Hn : aval_is_none (flat (ctx a)) = false).
  { rewrite is_none_flat. destruct (ctx a) as [[]| |]; try reflexivity; discriminate. }
  set (e := eff a) in *. set (c := ctx a) in *.
  cbn -[ctor flat]. rewrite ctor_is_core. cbn [c_uid c_subjects c_resources c_actions c_description].
  unfold eff, ctx. cbn [c_effect c_context c_rules].
  rewrite truthy_flat, He, Hn. cbn [negb]. exact Hf.
Qed.

(* writing does not change what the elements imply *)
Lemma implied_data_of s : implied_type (data_of s) = implied_type s.
Proof. unfold implied_type. rewrite !field_iter_data_of. reflexivity. Qed.

(* the C10 invariant survives writing *)
Lemma data_of_inv s : policy_inv s -> policy_inv (data_of s).
Proof.
  intros [[t [Hi Ht]] Hc]. split.
  - exists t. split; [rewrite implied_data_of; exact Hi|]. rewrite lookup_data_of, Ht. reflexivity.
  - intros a Ha. rewrite lookup_data_of in Ha. destruct (lookup n_context s) as [c|] eqn:E; [|discriminate].
    cbn in Ha. injection Ha as <-. specialize (Hc c E). destruct c as [[]| |]; try discriminate; reflexivity.
Qed.

(* histories of assignments with serialisations anywhere in between *)
Inductive pstep : Type := Assign (nv : pstr * aval) | Serialise.
Definition run_pstep (s : pstate) (st : pstep) : pstate :=
  match st with Assign nv => try_setattr s nv | Serialise => data_of s end.

Lemma pstep_history_inv steps : forall s, policy_inv s -> policy_inv (fold_left run_pstep steps s).
Proof.
  induction steps as [|st r IH]; intros s H; [exact H|]. cbn [fold_left]. apply IH.
  destruct st; [apply try_setattr_inv; exact H|apply data_of_inv; exact H].
Qed.
