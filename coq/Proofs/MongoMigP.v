(* MongoMigP: Mongo data migrations never drop documents, leave irreversible ones untouched, and are
   reversible on representable documents (C19). *)
From Coq Require Import ZArith NArith List Bool Lia.
From Vakt Require Import Base.PyMonad Base.PyVal Model.Regex Model.Parser Model.MongoMig Proofs.PyValP.
Import ListNotations.

(* ---------- dictionaries ---------- *)
Lemma lookup_dset_same k v d : lookup k (dset k v d) = Some v.
Proof.
  induction d as [|[k' x] r IH]; cbn; [rewrite pstr_eqb_refl; reflexivity|].
  destruct (pstr_eqb k k') eqn:E; cbn; rewrite E; [reflexivity|exact IH].
Qed.
Lemma lookup_dset_other m k v d : pstr_eqb m k = false -> lookup m (dset k v d) = lookup m d.
Proof.
  intros H. induction d as [|[k' x] r IH]; cbn; [rewrite H; reflexivity|].
  destruct (pstr_eqb k k') eqn:E; cbn.
  - apply pstr_eqb_eq in E. subst k'. rewrite H. reflexivity.
  - destruct (pstr_eqb m k'); [reflexivity|exact IH].
Qed.
Lemma lookup_ddel_same k d : lookup k (ddel k d) = None.
Proof.
  induction d as [|[k' x] r IH]; cbn; [reflexivity|]. destruct (pstr_eqb k k') eqn:E; [exact IH|]. cbn. rewrite E. exact IH.
Qed.
Lemma lookup_ddel_other m k d : pstr_eqb m k = false -> lookup m (ddel k d) = lookup m d.
Proof.
  intros H. induction d as [|[k' x] r IH]; cbn; [reflexivity|]. destruct (pstr_eqb k k') eqn:E.
  - apply pstr_eqb_eq in E. subst k'. rewrite H. exact IH.
  - cbn. destruct (pstr_eqb m k'); [reflexivity|exact IH].
Qed.
Lemma dset_dset k v v' d : dset k v (dset k v' d) = dset k v d.
Proof.
  induction d as [|[k' x] r IH]; cbn; [rewrite pstr_eqb_refl; reflexivity|].
  destruct (pstr_eqb k k') eqn:E; cbn; rewrite E; [reflexivity|]. f_equal. exact IH.
Qed.
Lemma dset_same k v d : lookup k d = Some v -> dset k v d = d.
Proof.
  induction d as [|[k' x] r IH]; cbn; [discriminate|]. destruct (pstr_eqb k k') eqn:E.
  - intros [= ->]. reflexivity.
  - intros H. f_equal. apply IH, H.
Qed.

(* ---------- _each_doc: nothing is dropped, failures stay as they are and are reported ---------- *)
Definition doc_uid (d : doc) : option val := lookup k_uid d.

Lemma each_doc_cons f d r :
  each_doc f (d :: r) =
  match f d with
  | Ok d' => (d' :: fst (each_doc f r), snd (each_doc f r))
  | Raise _ => (d :: fst (each_doc f r), d :: snd (each_doc f r))
  end.
Proof. reflexivity. Qed.

Theorem each_doc_length f coll : length (fst (each_doc f coll)) = length coll.
Proof.
  induction coll as [|d r IH]; [reflexivity|]. rewrite each_doc_cons. destruct (f d); cbn; f_equal; exact IH.
Qed.

Theorem each_doc_uids f coll : (forall d d', f d = Ok d' -> doc_uid d' = doc_uid d) ->
  map doc_uid (fst (each_doc f coll)) = map doc_uid coll.
Proof.
  intros Hf. induction coll as [|d r IH]; [reflexivity|]. rewrite each_doc_cons.
  destruct (f d) as [d'|e] eqn:E; cbn; rewrite IH; [rewrite (Hf _ _ E)|]; reflexivity.
Qed.

Theorem each_doc_failed_untouched f coll d e : In d coll -> f d = Raise e ->
  In d (fst (each_doc f coll)) /\ In d (snd (each_doc f coll)).
Proof.
  induction coll as [|x r IH]; [intros []|]. rewrite each_doc_cons. intros [->|Hin] Hf.
  - rewrite Hf. cbn. split; now left.
  - destruct (IH Hin Hf) as [H1 H2]. destruct (f x); cbn; split; try (right; assumption); assumption.
Qed.

Theorem each_doc_reported_only_failures f coll d : In d (snd (each_doc f coll)) -> exists e, f d = Raise e /\ In d coll.
Proof.
  induction coll as [|x r IH]; [intros []|]. rewrite each_doc_cons. destruct (f x) as [x'|e] eqn:E; cbn.
  - intros H. destruct (IH H) as [e [H1 H2]]. exists e. split; [exact H1|now right].
  - intros [<-|H]; [exists e; split; [exact E|now left]|]. destruct (IH H) as [e' [H1 H2]]. exists e'. split; [exact H1|now right].
Qed.

(* every processor keeps the uid *)
Lemma map_rules_ok f kvs kvs' : map_rules f kvs = Ok kvs' -> map fst kvs' = map fst kvs.
Proof.
  revert kvs'. induction kvs as [|[k v] r IH]; intros kvs' H; cbn in H; [injection H as <-; reflexivity|].
  destruct (f v); cbn in H; [|discriminate]. destruct (map_rules f r) eqn:E; cbn in H; [|discriminate].
  injection H as <-. cbn. f_equal. apply IH. reflexivity.
Qed.

Lemma add_compiled_lookup f d d' k : add_compiled f d = Ok d' -> pstr_eqb k (compiled_name f) = false ->
  lookup k d' = lookup k d.
Proof.
  unfold add_compiled. destruct (dget f d) as [[]|]; cbn; try discriminate.
  destruct (mapM compile_el l); cbn; [|discriminate]. intros [= <-] H. apply lookup_dset_other, H.
Qed.

Theorem steps_keep_uid s d d' : step_fn s d = Ok d' -> doc_uid d' = doc_uid d.
Proof.
  unfold doc_uid. destruct s; cbn [step_fn].
  - unfold up2_doc. destruct (dget k_rules d) as [[]|]; cbn; try discriminate.
    destruct (map_rules up2_rule kvs); cbn; [|discriminate]. intros [= <-]. apply lookup_dset_other. reflexivity.
  - unfold down2_doc. destruct (dget k_rules d) as [[]|]; cbn; try discriminate.
    destruct (map_rules down2_rule kvs); cbn; [|discriminate]. intros [= <-]. apply lookup_dset_other. reflexivity.
  - unfold up3_doc. destruct (dget k_rules (dset k_type (VInt 1) d)) as [[]|]; cbn; try discriminate.
    destruct (map_rules up3_rule kvs); cbn; [|discriminate]. intros [= <-].
    rewrite lookup_ddel_other, lookup_dset_other, lookup_dset_other by reflexivity. reflexivity.
  - unfold down3_doc. destruct (dget k_type d); cbn; [|discriminate].
    destruct (negb (py_eq a (VInt 1))); [discriminate|].
    destruct (dget k_context d) as [[]|]; cbn; try discriminate.
    destruct (map_rules down3_rule kvs); cbn; [|discriminate]. intros [= <-].
    rewrite !lookup_ddel_other, lookup_dset_other by reflexivity. reflexivity.
  - unfold up4_doc. destruct (dget k_type d); cbn; [|discriminate].
    destruct (py_eq a (VInt 1)); [|intros [= <-]; reflexivity].
    destruct (add_compiled k_actions d) as [d1|] eqn:E1; cbn; [|discriminate].
    destruct (add_compiled k_subjects d1) as [d2|] eqn:E2; cbn; [|discriminate].
    intros E3.
    rewrite (add_compiled_lookup _ _ _ k_uid E3) by reflexivity.
    rewrite (add_compiled_lookup _ _ _ k_uid E2) by reflexivity.
    apply (add_compiled_lookup _ _ _ k_uid E1). reflexivity.
  - unfold down4_doc. intros [= <-]. rewrite !lookup_ddel_other by reflexivity. reflexivity.
Qed.

Theorem run_steps_no_drop steps : forall coll,
  map doc_uid (fst (run_steps coll steps)) = map doc_uid coll.
Proof.
  induction steps as [|s r IH]; intros coll; cbn; [reflexivity|].
  pose proof (each_doc_uids (step_fn s) coll (steps_keep_uid s)) as H.
  destruct (each_doc (step_fn s) coll) as [c' failed]. cbn in H.
  specialize (IH c'). destruct (run_steps c' r) as [c'' fs]. cbn in *. rewrite IH. exact H.
Qed.

(* ---------- class renames are inverse to each other ---------- *)
Lemma renames_inverse : forallb (fun on => pstr_eqb (rename_up (fst on)) (snd on) && pstr_eqb (rename_down (snd on)) (fst on)) renames = true.
Proof. vm_compute. reflexivity. Qed.

Definition is_new_name (t : pstr) : bool := existsb (fun on => pstr_eqb t (snd on)) renames.
Definition is_old_name (t : pstr) : bool := existsb (fun on => pstr_eqb t (fst on)) renames.

Lemma find_none_existsb {A} (f : A -> bool) l : existsb f l = false -> find f l = None.
Proof. induction l as [|x r IH]; cbn; [reflexivity|]. destruct (f x); [discriminate|exact IH]. Qed.

Lemma rename_round_trip t : is_new_name t = false -> rename_down (rename_up t) = t.
Proof.
  intros Hn. unfold rename_up. destruct (find (fun on => pstr_eqb t (fst on)) renames) as [[o n]|] eqn:Ef.
  - apply find_some in Ef as [Hin E]. cbn in E. apply pstr_eqb_eq in E. subst o. cbn.
    pose proof renames_inverse as H. rewrite forallb_forall in H. specialize (H _ Hin). cbn in H.
    apply andb_true_iff in H as [_ H]. apply pstr_eqb_eq in H. exact H.
  - unfold rename_down. rewrite (find_none_existsb _ _ Hn). reflexivity.
Qed.

(* ---------- rule level round trips ---------- *)
Theorem down3_up3_rule kvs ts : lookup k_pyobject kvs = Some (VStr ts) -> is_new_name ts = false ->
  only_120 (rename_up ts) = false ->
  exists r', up3_rule (VDict kvs) = Ok r' /\ down3_rule r' = Ok (VDict kvs).
Proof.
  intros Hl Hn Ho. unfold up3_rule, dget. rewrite Hl. cbn. eexists. split; [reflexivity|].
  unfold down3_rule, dget. rewrite lookup_dset_same. cbn. rewrite Ho.
  rewrite dset_dset, (rename_round_trip _ Hn), (dset_same _ _ _ Hl). reflexivity.
Qed.

Lemma lookup_app {A} k (a b : list (pstr * A)) :
  lookup k (a ++ b) = match lookup k a with Some v => Some v | None => lookup k b end.
Proof. induction a as [|[k' x] r IH]; cbn; [reflexivity|]. destruct (pstr_eqb k k'); [reflexivity|exact IH]. Qed.

Lemma dset_absent k v d : lookup k d = None -> dset k v d = d ++ [(k, v)].
Proof.
  induction d as [|[k' x] r IH]; cbn; [reflexivity|]. destruct (pstr_eqb k k'); [discriminate|].
  intros H. f_equal. apply IH, H.
Qed.

Lemma fold_dset_app (l : list (pstr * val)) : forall acc,
  (forall k, In k (map fst l) -> lookup k acc = None) -> NoDup (map fst l) ->
  fold_left (fun a kv => dset (fst kv) (snd kv) a) l acc = acc ++ l.
Proof.
  induction l as [|[k v] r IH]; intros acc Hf Hd; cbn [fold_left]; [rewrite app_nil_r; reflexivity|].
  cbn [fst snd]. cbn in Hd. inversion Hd as [|? ? Hn Hd']; subst.
  rewrite (dset_absent k v acc (Hf k (or_introl eq_refl))). rewrite IH; [rewrite <- app_assoc; reflexivity| |exact Hd'].
  intros k' Hk'. rewrite lookup_app, (Hf k' (or_intror Hk')). cbn.
  destruct (pstr_eqb k' k) eqn:E; [|reflexivity]. apply pstr_eqb_eq in E. subst. contradiction.
Qed.

Lemma lookup_none_notin k (l : list (pstr * val)) : lookup k l = None -> ~ In k (map fst l).
Proof.
  induction l as [|[k' x] r IH]; cbn [lookup map fst In]; [tauto|].
  destruct (pstr_eqb k k') eqn:E; [discriminate|].
  intros H [Hk|Hk]; [subst; rewrite pstr_eqb_refl in E; discriminate|apply IH; assumption].
Qed.

Lemma ddel_head k v l : lookup k l = None -> ddel k ((k, v) :: l) = l.
Proof.
  intros H. cbn. rewrite pstr_eqb_refl. induction l as [|[k' x] r IH]; [reflexivity|]. cbn in *.
  destruct (pstr_eqb k k'); [discriminate|]. f_equal. apply IH, H.
Qed.

(* a 1.1.0 rule {"type": T, "contents": C} with a vakt class other than RegexMatchRule, or a custom class whose
   contents hold primitive data only, survives up #2 followed by down #2 *)
Theorem down2_up2_rule t ts ckvs : t = VStr ts -> NoDup (map fst ckvs) -> lookup k_pyobject ckvs = None ->
  (is_prefix vakt_rules_prefix ts = true /\ pstr_eqb ts regex_match_rule = false \/
   is_prefix vakt_rules_prefix ts = false /\ existsb (fun kv => has_reserved (snd kv)) ckvs = false) ->
  exists r', up2_rule (VDict [(k_type, t); (k_contents, VDict ckvs)]) = Ok r' /\
             down2_rule r' = Ok (VDict [(k_type, t); (k_contents, VDict ckvs)]).
Proof.
  intros -> Hd Hn Hrep. unfold up2_rule. cbn [dget lookup]. cbn. eexists. split; [reflexivity|].
  rewrite fold_dset_app.
  2:{ intros k Hk. cbn [lookup]. destruct (pstr_eqb k k_pyobject) eqn:E; [|reflexivity].
      apply pstr_eqb_eq in E. subst k. exfalso. exact (lookup_none_notin _ _ Hn Hk). }
  2:{ exact Hd. }
  cbn [app]. unfold down2_rule, dget. cbn [lookup]. rewrite pstr_eqb_refl. cbn [bind].
  rewrite (ddel_head _ _ _ Hn).
  destruct Hrep as [[H1 H2]|[H1 H2]]; rewrite H1; cbn [negb]; [rewrite H2|rewrite H2]; reflexivity.
Qed.

(* compiled fields are removed again by down #4 *)
Theorem down4_removes d d' : down4_doc d = Ok d' ->
  lookup (compiled_name k_actions) d' = None /\ lookup (compiled_name k_subjects) d' = None /\
  lookup (compiled_name k_resources) d' = None /\
  (forall k, pstr_eqb k (compiled_name k_actions) = false -> pstr_eqb k (compiled_name k_subjects) = false ->
             pstr_eqb k (compiled_name k_resources) = false -> lookup k d' = lookup k d).
Proof.
  unfold down4_doc. intros [= <-]. repeat split.
  - apply lookup_ddel_same.
  - rewrite lookup_ddel_other by reflexivity. apply lookup_ddel_same.
  - rewrite !lookup_ddel_other by reflexivity. apply lookup_ddel_same.
  - intros k H1 H2 H3. rewrite !lookup_ddel_other by assumption. reflexivity.
Qed.
