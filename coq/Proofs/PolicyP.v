(* PolicyP: the C10 invariant of the policy attribute machine. *)
From Coq Require Import ZArith NArith List Bool Lia.
From Vakt Require Import Base.PyMonad Base.PyVal Model.Rules Model.Policy Proofs.PyValP.
Import ListNotations.

Lemma lookup_set_same n v s : lookup n (set_attr n v s) = Some v.
Proof.
  induction s as [|[k x] r IH]; cbn.
  - rewrite pstr_eqb_refl. reflexivity.
  - destruct (pstr_eqb n k) eqn:E; cbn; rewrite E; [reflexivity|exact IH].
Qed.

Lemma lookup_set_other m n v s : pstr_eqb m n = false -> lookup m (set_attr n v s) = lookup m s.
Proof.
  intros Hmn. induction s as [|[k x] r IH]; cbn.
  - rewrite Hmn. reflexivity.
  - destruct (pstr_eqb n k) eqn:E; cbn.
    + apply pstr_eqb_eq in E. subst k. rewrite Hmn. reflexivity.
    + destruct (pstr_eqb m k); [reflexivity|exact IH].
Qed.

Lemma field_iter_set_other s f n v : pstr_eqb f n = false ->
  field_iter (set_attr n v s) f = field_iter s f.
Proof. intros H. unfold field_iter. rewrite lookup_set_other by exact H. reflexivity. Qed.

(* the context clause and the invariant *)
Definition ctx_clause (s : pstate) : Prop :=
  forall a, lookup n_context s = Some a -> is_dict_aval a = true.

Definition policy_inv (s : pstate) : Prop :=
  (exists t, implied_type s = Ok t /\ lookup n_type s = Some (AV (VInt t))) /\ ctx_clause s.

Lemma implied_after_set s n v x :
  implied_type (set_attr n_type x (set_attr n v s)) = calculate_type s n v.
Proof.
  unfold implied_type, calculate_type.
  rewrite !(field_iter_set_other (set_attr n v s) _ n_type x) by reflexivity. reflexivity.
Qed.

Lemma setattr_ok_inv s n v s' :
  ctx_clause s -> setattr s n v = Ok s' -> policy_inv s'.
Proof.
  intros Hc H. unfold setattr in H.
  destruct (check_field_type n v) as [[]|e] eqn:Hchk; cbn in H; [|discriminate].
  destruct (calculate_type s n v) as [t|e] eqn:Hcalc; cbn in H; [|discriminate].
  injection H as <-.
  split.
  - exists t. split.
    + rewrite implied_after_set. exact Hcalc.
    + apply lookup_set_same.
  - intros a Ha.
    rewrite lookup_set_other in Ha by reflexivity.
    destruct (pstr_eqb n_context n) eqn:En.
    + apply pstr_eqb_eq in En. subst n. rewrite lookup_set_same in Ha. injection Ha as <-.
      unfold check_field_type in Hchk. cbn in Hchk.
      destruct (is_dict_aval v); [reflexivity|discriminate].
    + rewrite lookup_set_other in Ha by exact En. apply Hc, Ha.
Qed.

Lemma ctx_clause_nil : ctx_clause [].
Proof. intros a H. discriminate. Qed.

Lemma inv_ctx s : policy_inv s -> ctx_clause s.
Proof. intros [_ H]. exact H. Qed.

Lemma ctor_inv a s : ctor a = Ok s -> policy_inv s.
Proof.
  unfold ctor. intros H.
  repeat match type of H with
         | bind ?m _ = Ok _ =>
             let s0 := fresh "s" in let E := fresh "E" in
             destruct m as [s0|?] eqn:E; cbn [bind] in H; [|discriminate]
         end.
  pose proof (setattr_ok_inv _ _ _ _ ctx_clause_nil E) as I0.
  pose proof (setattr_ok_inv _ _ _ _ (inv_ctx _ I0) E0) as I1.
  pose proof (setattr_ok_inv _ _ _ _ (inv_ctx _ I1) E1) as I2.
  pose proof (setattr_ok_inv _ _ _ _ (inv_ctx _ I2) E2) as I3.
  pose proof (setattr_ok_inv _ _ _ _ (inv_ctx _ I3) E3) as I4.
  pose proof (setattr_ok_inv _ _ _ _ (inv_ctx _ I4) E4) as I5.
  pose proof (setattr_ok_inv _ _ _ _ (inv_ctx _ I5) E5) as I6.
  exact (setattr_ok_inv _ _ _ _ (inv_ctx _ I6) H).
Qed.

Lemma try_setattr_inv s nv : policy_inv s -> policy_inv (try_setattr s nv).
Proof.
  intros I. unfold try_setattr. destruct (setattr s (fst nv) (snd nv)) eqn:E; [|exact I].
  eapply setattr_ok_inv; [apply inv_ctx, I|exact E].
Qed.

Lemma history_inv ops : forall s, policy_inv s -> policy_inv (fold_left try_setattr ops s).
Proof.
  induction ops as [|o ops IH]; intros s I; cbn; [exact I|]. apply IH, try_setattr_inv, I.
Qed.

Lemma setattr_rejected_unchanged s n v e :
  setattr s n v = Raise e -> try_setattr s (n, v) = s.
Proof. intros H. unfold try_setattr. cbn. rewrite H. reflexivity. Qed.

(* assigning `type` directly: always accepted, and the stored type is what it was *)
Lemma type_not_settable s v : policy_inv s ->
  exists s', setattr s n_type (AV v) = Ok s' /\ lookup n_type s' = lookup n_type s.
Proof.
  intros [[t [Hi Ht]] Hc].
  unfold setattr. cbn [check_field_type].
  assert (Hchk : check_field_type n_type (AV v) = Ok tt) by reflexivity.
  rewrite Hchk. cbn [bind].
  assert (Hcalc : calculate_type s n_type (AV v) = Ok t).
  { unfold calculate_type. rewrite !(field_iter_set_other s _ n_type (AV v)) by reflexivity. exact Hi. }
  rewrite Hcalc. cbn [bind]. eexists. split; [reflexivity|].
  rewrite lookup_set_same. symmetry. exact Ht.
Qed.

(* what the stored type means *)
Definition all_elems (s : pstate) : res (list elemv) :=
  a <- field_iter s n_subjects ;; b <- field_iter s n_resources ;; d <- field_iter s n_actions ;;
  Ok (a ++ b ++ d).

Definition is_xstr (e : elemv) : bool := match e with XStr _ => true | _ => false end.
Definition is_xrule (e : elemv) : bool := match e with XRule _ | XDict _ => true | _ => false end.

Lemma filter_len_le {A} (f : A -> bool) l : length (filter f l) <= length l.
Proof. induction l as [|x l IH]; cbn; [lia|]. destruct (f x); cbn; lia. Qed.

Lemma count_filter_all {A} (f : A -> bool) l : length l = length (filter f l) -> forallb f l = true.
Proof.
  induction l as [|x l IH]; cbn; [reflexivity|].
  destruct (f x) eqn:E; cbn.
  - intros H. apply IH. lia.
  - intros H. pose proof (filter_len_le f l). lia.
Qed.

Lemma forallb_count_all {A} (f : A -> bool) l : forallb f l = true -> length l = length (filter f l).
Proof.
  induction l as [|x l IH]; cbn; [reflexivity|].
  destruct (f x); cbn; [|discriminate]. intros H. f_equal. apply IH, H.
Qed.

Lemma type_meaning s : policy_inv s ->
  exists es, all_elems s = Ok es /\
    ((lookup n_type s = Some (AV (VInt 1%Z)) /\ forallb is_xstr es = true) \/
     (lookup n_type s = Some (AV (VInt 2%Z)) /\ forallb is_xrule es = true /\ es <> [])).
Proof.
  intros [[t [Hi Ht]] _]. unfold implied_type in Hi. unfold all_elems.
  destruct (field_iter s n_subjects) as [a|] ; cbn in *; [|discriminate].
  destruct (field_iter s n_resources) as [b|] ; cbn in *; [|discriminate].
  destruct (field_iter s n_actions) as [d|] ; cbn in *; [|discriminate].
  exists (a ++ b ++ d). split; [reflexivity|].
  set (es := a ++ b ++ d) in *.
  destruct (Nat.eqb (length es) (count_str es) || Nat.eqb (length es) 0) eqn:E1.
  - injection Hi as <-. left. split; [exact Ht|].
    apply orb_true_iff in E1 as [E|E]; apply Nat.eqb_eq in E.
    + apply count_filter_all. exact E.
    + destruct es; [reflexivity|discriminate].
  - destruct (Nat.eqb (length es) (count_rule es)) eqn:E2; [|discriminate].
    injection Hi as <-. right. split; [exact Ht|]. apply Nat.eqb_eq in E2. split.
    + apply count_filter_all. exact E2.
    + apply orb_false_iff in E1 as [_ E0]. apply Nat.eqb_neq in E0. intros ->. apply E0. reflexivity.
Qed.

(* a successful assignment of a definition field stores homogeneous, well-typed elements *)
Lemma setattr_field_ok s n v s' es :
  is_def_field n = true -> setattr s n v = Ok s' -> iter_aval v = Ok es -> forallb elemv_ok es = true.
Proof.
  intros Hn H Hes. unfold setattr, check_field_type in H. rewrite Hn, Hes in H. cbn in H.
  destruct (forallb elemv_ok es); [reflexivity|]. cbn in H. discriminate.
Qed.

Lemma setattr_bad_elem_rejected s n v es :
  is_def_field n = true -> iter_aval v = Ok es -> forallb elemv_ok es = false ->
  setattr s n v = Raise EPolicyCreation.
Proof.
  intros Hn Hes Hb. unfold setattr, check_field_type. rewrite Hn, Hes. cbn. rewrite Hb. reflexivity.
Qed.

Lemma setattr_nondict_context_rejected s v :
  is_dict_aval v = false -> setattr s n_context v = Raise EPolicyCreation.
Proof.
  intros Hv. unfold setattr, check_field_type.
  replace (is_def_field n_context) with false by reflexivity. cbn [bind].
  rewrite pstr_eqb_refl, Hv. reflexivity.
Qed.

(* a definition-field assignment that would make the elements mixed is rejected *)
Lemma setattr_mixed_rejected s n v es :
  is_def_field n = true -> iter_aval v = Ok es -> forallb elemv_ok es = true ->
  (exists all, all_elems (set_attr n v s) = Ok all /\ forallb is_xstr all = false /\ forallb is_xrule all = false) ->
  setattr s n v = Raise EPolicyCreation.
Proof.
  intros Hn Hes Hok [all [Hall [Hs Hr]]].
  unfold setattr, check_field_type. rewrite Hn, Hes. cbn [bind]. rewrite Hok. cbn [bind].
  replace (pstr_eqb n n_context) with false.
  2:{ unfold is_def_field in Hn. symmetry. apply pstr_eqb_neq. intros ->. cbn in Hn. discriminate. }
  cbn [andb bind].
  unfold calculate_type. unfold all_elems in Hall.
  destruct (field_iter (set_attr n v s) n_subjects) as [a|]; cbn in *; [|discriminate].
  destruct (field_iter (set_attr n v s) n_resources) as [b|]; cbn in *; [|discriminate].
  destruct (field_iter (set_attr n v s) n_actions) as [d|]; cbn in *; [|discriminate].
  injection Hall as <-.
  set (xs := a ++ b ++ d) in *.
  destruct (Nat.eqb (length xs) (count_str xs)) eqn:E1.
  { apply Nat.eqb_eq in E1. apply count_filter_all in E1. unfold is_xstr in Hs. congruence. }
  destruct (Nat.eqb (length xs) 0) eqn:E0.
  { apply Nat.eqb_eq in E0. destruct xs; [cbn in Hs; discriminate|discriminate]. }
  cbn [orb].
  destruct (Nat.eqb (length xs) (count_rule xs)) eqn:E2; [|reflexivity].
  apply Nat.eqb_eq in E2. apply count_filter_all in E2. unfold is_xrule in Hr. congruence.
Qed.

(* ---------- Policy.from_json on parsed properties (C09 decoding clauses) ---------- *)
Lemma setattr_shape s n v s' : setattr s n v = Ok s' ->
  exists t, s' = set_attr n_type (AV (VInt t)) (set_attr n v s).
Proof.
  unfold setattr. destruct (check_field_type n v) as [[]|]; cbn; [|discriminate].
  destruct (calculate_type s n v) as [t|]; cbn; [|discriminate]. intros [= <-]. exists t. reflexivity.
Qed.

Lemma setattr_lookup_other s n v s' m : setattr s n v = Ok s' -> pstr_eqb m n = false -> pstr_eqb m n_type = false ->
  lookup m s' = lookup m s.
Proof.
  intros H Hn Ht. destruct (setattr_shape _ _ _ _ H) as [t ->].
  rewrite lookup_set_other by exact Ht. apply lookup_set_other. exact Hn.
Qed.

Lemma setattr_lookup_same s n v s' : setattr s n v = Ok s' -> pstr_eqb n n_type = false -> lookup n s' = Some v.
Proof.
  intros H Ht. destruct (setattr_shape _ _ _ _ H) as [t ->].
  rewrite lookup_set_other by exact Ht. apply lookup_set_same.
Qed.

Lemma ctor_effect_context a s : ctor a = Ok s ->
  lookup n_effect s = Some (if aval_truthy (c_effect a) then c_effect a else AV (VStr s_deny)) /\
  lookup n_context s = Some (if negb (aval_is_none (c_context a)) then c_context a
                             else if aval_truthy (c_rules a) then c_rules a else ACtx []) /\
  lookup n_uid s = Some (c_uid a) /\ lookup n_description s = Some (c_description a).
Proof.
  unfold ctor. intros H.
  repeat match type of H with
         | bind ?m _ = Ok _ =>
             let s0 := fresh "s" in let E := fresh "E" in
             destruct m as [s0|?] eqn:E; cbn [bind] in H; [|discriminate]
         end.
  (* E: uid, E0: subjects, E1: effect, E2: resources, E3: actions, E4: context, E5: description, H: type *)
  repeat split.
  - rewrite (setattr_lookup_other _ _ _ _ n_effect H) by reflexivity.
    rewrite (setattr_lookup_other _ _ _ _ n_effect E5) by reflexivity.
    rewrite (setattr_lookup_other _ _ _ _ n_effect E4) by reflexivity.
    rewrite (setattr_lookup_other _ _ _ _ n_effect E3) by reflexivity.
    rewrite (setattr_lookup_other _ _ _ _ n_effect E2) by reflexivity.
    apply (setattr_lookup_same _ _ _ _ E1). reflexivity.
  - rewrite (setattr_lookup_other _ _ _ _ n_context H) by reflexivity.
    rewrite (setattr_lookup_other _ _ _ _ n_context E5) by reflexivity.
    apply (setattr_lookup_same _ _ _ _ E4). reflexivity.
  - rewrite (setattr_lookup_other _ _ _ _ n_uid H) by reflexivity.
    rewrite (setattr_lookup_other _ _ _ _ n_uid E5) by reflexivity.
    rewrite (setattr_lookup_other _ _ _ _ n_uid E4) by reflexivity.
    rewrite (setattr_lookup_other _ _ _ _ n_uid E3) by reflexivity.
    rewrite (setattr_lookup_other _ _ _ _ n_uid E2) by reflexivity.
    rewrite (setattr_lookup_other _ _ _ _ n_uid E1) by reflexivity.
    rewrite (setattr_lookup_other _ _ _ _ n_uid E0) by reflexivity.
    apply (setattr_lookup_same _ _ _ _ E). reflexivity.
  - rewrite (setattr_lookup_other _ _ _ _ n_description H) by reflexivity.
    apply (setattr_lookup_same _ _ _ _ E5). reflexivity.
Qed.

Lemma from_props_uid_required props : lookup n_uid props = None -> from_props props = Raise EPolicyCreation.
Proof. intros H. unfold from_props. rewrite H. reflexivity. Qed.

Lemma from_props_inv props s : from_props props = Ok s -> policy_inv s.
Proof.
  unfold from_props. destruct (lookup n_uid props); [|discriminate].
  match goal with |- (if ?c then _ else _) = _ -> _ => destruct c end; [|discriminate].
  apply ctor_inv.
Qed.
