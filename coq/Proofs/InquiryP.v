(* InquiryP: equality and hash of inquiries depend on content only (C13). *)
From Coq Require Import ZArith NArith List Bool Lia Permutation Sorted.
From Vakt Require Import Base.PyMonad Base.PyVal Model.Rules Model.Inquiry Proofs.PyValP.
Import ListNotations.

(* ---------- the key order is a strict total order ---------- *)
Lemma pstr_ltb_irrefl s : pstr_ltb s s = false.
Proof. induction s as [|c s IH]; cbn; [reflexivity|]. rewrite N.eqb_refl. exact IH. Qed.

Lemma pstr_ltb_trans a : forall b c, pstr_ltb a b = true -> pstr_ltb b c = true -> pstr_ltb a c = true.
Proof.
  induction a as [|x a IH]; intros [|y b] [|z c]; cbn; try discriminate; try reflexivity.
  destruct (N.eqb_spec x y), (N.eqb_spec y z); subst.
  - rewrite N.eqb_refl. apply IH.
  - intros _ H. destruct (N.eqb_spec y z); [contradiction|exact H].
  - intros H _. destruct (N.eqb_spec x z); [contradiction|exact H].
  - intros H1 H2. apply N.ltb_lt in H1, H2. destruct (N.eqb_spec x z); [subst; lia|]. apply N.ltb_lt. lia.
Qed.

Lemma pstr_ltb_total a : forall b, pstr_ltb a b = false -> pstr_ltb b a = false -> a = b.
Proof.
  induction a as [|x a IH]; intros [|y b]; cbn; try discriminate; try reflexivity.
  destruct (N.eqb_spec x y).
  - subst. rewrite N.eqb_refl. intros H1 H2. f_equal. apply IH; assumption.
  - destruct (N.eqb_spec y x); [subst; contradiction|].
    intros H1 H2. apply N.ltb_ge in H1, H2. lia.
Qed.

Lemma pstr_ltb_asym a b : pstr_ltb a b = true -> pstr_ltb b a = false.
Proof.
  intros H. destruct (pstr_ltb b a) eqn:E; [|reflexivity].
  pose proof (pstr_ltb_trans _ _ _ H E) as C. rewrite pstr_ltb_irrefl in C. discriminate.
Qed.

(* ---------- sorting ---------- *)
Section sorting.
  Variable A : Type.
  Definition klt (x y : pstr * A) : Prop := pstr_ltb (fst x) (fst y) = true.

  Lemma insert_kv_perm k v (l : list (pstr * A)) : Permutation ((k, v) :: l) (insert_kv k v l).
  Proof.
    induction l as [|[k' v'] r IH]; cbn; [apply Permutation_refl|].
    destruct (pstr_ltb k k'); [apply Permutation_refl|].
    eapply Permutation_trans; [apply perm_swap|]. constructor. exact IH.
  Qed.
  Lemma sort_kvs_perm (l : list (pstr * A)) : Permutation l (sort_kvs l).
  Proof.
    induction l as [|[k v] r IH]; cbn; [constructor|].
    eapply Permutation_trans; [constructor; exact IH|apply insert_kv_perm].
  Qed.

  Lemma insert_kv_sorted k v (l : list (pstr * A)) : ~ In k (map fst l) ->
    StronglySorted klt l -> StronglySorted klt (insert_kv k v l).
  Proof.
    intros Hn Hs. induction Hs as [|[k' v'] r Hs IH Hall]; cbn; [repeat constructor|].
    destruct (pstr_ltb k k') eqn:E.
    - constructor; [constructor; assumption|]. constructor; [exact E|].
      rewrite Forall_forall in *. intros y Hy. unfold klt in *. cbn. eapply pstr_ltb_trans; [exact E|apply (Hall y Hy)].
    - constructor; [apply IH; intros Hin; apply Hn; now right|].
      rewrite Forall_forall in *. intros y Hy.
      apply (Permutation_in _ (Permutation_sym (insert_kv_perm k v r))) in Hy. destruct Hy as [<-|Hy]; [|apply Hall, Hy].
      unfold klt. cbn. destruct (pstr_ltb k' k) eqn:E2; [reflexivity|].
      exfalso. apply Hn. left. symmetry. apply pstr_ltb_total; assumption.
  Qed.

  Lemma sort_kvs_sorted (l : list (pstr * A)) : NoDup (map fst l) -> StronglySorted klt (sort_kvs l).
  Proof.
    induction l as [|[k v] r IH]; cbn; intros Hd; [constructor|]. inversion Hd as [|? ? Hn Hd']; subst.
    apply insert_kv_sorted; [|apply IH, Hd'].
    intros Hin. apply Hn. eapply Permutation_in; [apply Permutation_map, Permutation_sym, sort_kvs_perm|exact Hin].
  Qed.

  (* two strictly sorted lists that are permutations of each other are equal *)
  Lemma sorted_perm_eq (l l' : list (pstr * A)) :
    StronglySorted klt l -> StronglySorted klt l' -> Permutation l l' -> l = l'.
  Proof.
    revert l'. induction l as [|x l IH]; intros l' Hs Hs' P.
    - apply Permutation_nil in P. subst. reflexivity.
    - destruct l' as [|y l']; [apply Permutation_sym, Permutation_nil in P; discriminate|].
      inversion Hs as [|? ? Hs1 Hx]; subst. inversion Hs' as [|? ? Hs1' Hy]; subst.
      rewrite Forall_forall in Hx, Hy.
      assert (Exy : x = y).
      { assert (Hin1 : In x (y :: l')) by (eapply Permutation_in; [exact P|now left]).
        assert (Hin2 : In y (x :: l)) by (eapply Permutation_in; [apply Permutation_sym, P|now left]).
        destruct Hin1 as [->|Hin1]; [reflexivity|]. destruct Hin2 as [->|Hin2]; [reflexivity|].
        pose proof (Hy x Hin1) as H1. pose proof (Hx y Hin2) as H2. unfold klt in *.
        rewrite (pstr_ltb_asym _ _ H1) in H2. discriminate. }
      subst y. f_equal. apply IH; try assumption. eapply Permutation_cons_inv, P.
  Qed.

  Theorem sort_kvs_canonical (l l' : list (pstr * A)) :
    NoDup (map fst l) -> Permutation l l' -> sort_kvs l = sort_kvs l'.
  Proof.
    intros Hd P. apply sorted_perm_eq.
    - apply sort_kvs_sorted, Hd.
    - apply sort_kvs_sorted. eapply Permutation_NoDup; [apply Permutation_map, P|exact Hd].
    - eapply Permutation_trans; [apply Permutation_sym, sort_kvs_perm|].
      eapply Permutation_trans; [exact P|apply sort_kvs_perm].
  Qed.
End sorting.

(* ---------- content equality ---------- *)
Definition content_eq (a b : val) : Prop := norm a = norm b.

Definition norm_kvs (kvs : list (pstr * val)) : list (pstr * val) := map (fun kv => (fst kv, norm (snd kv))) kvs.

Lemma norm_dict kvs : norm (VDict kvs) = VDict (sort_kvs (norm_kvs kvs)).
Proof.
  cbn [norm]. f_equal. f_equal. unfold norm_kvs. induction kvs as [|[k x] r IH]; [reflexivity|].
  cbn [map fst snd]. rewrite <- IH. reflexivity.
Qed.
Lemma norm_list l : norm (VList l) = VList (map norm l).
Proof. reflexivity. Qed.
Lemma norm_tup l : norm (VTup l) = VTup (map norm l).
Proof. reflexivity. Qed.

(* dictionary key order is irrelevant ... *)
Theorem key_order_irrelevant kvs kvs' : NoDup (map fst kvs) -> Permutation kvs kvs' ->
  content_eq (VDict kvs) (VDict kvs').
Proof.
  intros Hd P. unfold content_eq. rewrite !norm_dict. f_equal. apply sort_kvs_canonical.
  - unfold norm_kvs. rewrite map_map. cbn. exact Hd.
  - unfold norm_kvs. apply Permutation_map, P.
Qed.

(* ... at any depth: content equality is a congruence for lists, tuples and dictionary values *)
Theorem content_eq_list l l' : Forall2 content_eq l l' -> content_eq (VList l) (VList l') /\ content_eq (VTup l) (VTup l').
Proof.
  intros H. unfold content_eq. rewrite !norm_list, !norm_tup.
  assert (E : map norm l = map norm l').
  { induction H as [|x y l l' Hxy _ IH]; cbn; [reflexivity|]. rewrite Hxy, IH. reflexivity. }
  rewrite E. split; reflexivity.
Qed.

Theorem content_eq_dict_values kvs kvs' :
  Forall2 (fun x y => fst x = fst y /\ content_eq (snd x) (snd y)) kvs kvs' ->
  content_eq (VDict kvs) (VDict kvs').
Proof.
  intros H. unfold content_eq. rewrite !norm_dict. f_equal. f_equal. unfold norm_kvs.
  induction H as [|[k x] [k' y] l l' [Hk Hv] _ IH]; cbn in *; [reflexivity|]. subst k'. rewrite Hv, IH. reflexivity.
Qed.

Lemma content_eq_refl a : content_eq a a.
Proof. reflexivity. Qed.
Lemma content_eq_trans a b c : content_eq a b -> content_eq b c -> content_eq a c.
Proof. unfold content_eq. congruence. Qed.

(* ---------- inquiries ---------- *)
Definition inq_content_eq (a b : inquiry) : Prop :=
  content_eq (i_resource a) (i_resource b) /\ content_eq (i_action a) (i_action b) /\
  content_eq (i_subject a) (i_subject b) /\ content_eq (i_context a) (i_context b).

Theorem content_eq_equal a b : inq_content_eq a b -> inq_eq a b = true /\ inq_hash a = inq_hash b /\ canon a = canon b.
Proof.
  intros [H1 [H2 [H3 H4]]].
  assert (E : canon a = canon b).
  { unfold canon, canon_val, inq_val. rewrite !norm_dict. cbn [norm_kvs map fst snd].
    unfold content_eq in *. rewrite H1, H2, H3, H4. reflexivity. }
  split; [unfold inq_eq; rewrite E; apply pstr_eqb_refl|]. split; [unfold inq_hash; rewrite E; reflexivity|exact E].
Qed.

Theorem eq_iff_canon a b : inq_eq a b = true <-> canon a = canon b.
Proof. unfold inq_eq. apply pstr_eqb_eq. Qed.

Theorem hash_compat a b : inq_eq a b = true -> inq_hash a = inq_hash b.
Proof. intros H. apply eq_iff_canon in H. unfold inq_hash. rewrite H. reflexivity. Qed.

Theorem inq_eq_equivalence :
  (forall a, inq_eq a a = true) /\ (forall a b, inq_eq a b = inq_eq b a) /\
  (forall a b c, inq_eq a b = true -> inq_eq b c = true -> inq_eq a c = true).
Proof.
  split; [intros a; apply pstr_eqb_refl|]. split; [intros a b; apply pstr_eqb_sym|].
  intros a b c H1 H2. apply eq_iff_canon in H1, H2. apply eq_iff_canon. congruence.
Qed.

(* constructor normalisation *)
Theorem mk_inquiry_normalises r a s c :
  (truthy r = false -> i_resource (mk_inquiry r a s c) = VStr []) /\
  (truthy a = false -> i_action (mk_inquiry r a s c) = VStr []) /\
  (truthy s = false -> i_subject (mk_inquiry r a s c) = VStr []) /\
  (truthy c = false -> i_context (mk_inquiry r a s c) = VDict []) /\
  (truthy r = true -> i_resource (mk_inquiry r a s c) = r) /\ (truthy a = true -> i_action (mk_inquiry r a s c) = a) /\
  (truthy s = true -> i_subject (mk_inquiry r a s c) = s) /\ (truthy c = true -> i_context (mk_inquiry r a s c) = c).
Proof. unfold mk_inquiry, or_default. cbn. repeat split; intros ->; reflexivity. Qed.

(* ---------- the converse fails on dictionary keys jsonpickle reserves ---------- *)
Definition k_py_id : pstr := [112; 121; 47; 105; 100]%N.       (* py/id *)
Definition q_reserved (n : Z) : inquiry :=
  mk_inquiry (VStr [114%N]) (VStr [120%N]) (VDict [(k_py_id, VInt n); ([122%N], VInt 2)]) VNone.

Theorem reserved_key_collision :
  exists a b, inq_eq a b = true /\ inq_hash a = inq_hash b /\ ~ inq_content_eq a b.
Proof.
  exists (q_reserved 1), (q_reserved 2). split; [vm_compute; reflexivity|]. split; [vm_compute; reflexivity|].
  intros [_ [_ [H _]]]. vm_compute in H. discriminate H.
Qed.

(* entries under reserved keys never reach the canonical text *)
Lemma print_drops_reserved k x kvs : reserved_key k = true ->
  print (VDict ((k, x) :: kvs)) = print (VDict kvs).
Proof. intros H. cbn [print]. rewrite H. reflexivity. Qed.
