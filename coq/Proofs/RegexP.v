(* RegexP: the derivative matcher decides the language. *)
From Coq Require Import NArith List Bool Lia.
From Vakt Require Import Base.PyVal Model.Regex.
Import ListNotations.

Lemma nullable_spec r : nullable r = true <-> In_lang r [].
Proof.
  induction r as [| | c | neg rs | | a IHa b IHb | a IHa b IHb | a IHa | a IHa | a IHa]; cbn.
  - split; [discriminate|]. intros H; inversion H.
  - split; [intros _; constructor|reflexivity].
  - split; [discriminate|]. intros H; inversion H.
  - split; [discriminate|]. intros H; inversion H.
  - split; [discriminate|]. intros H; inversion H.
  - rewrite andb_true_iff, IHa, IHb. split.
    + intros [H1 H2]. change (@nil N) with (@nil N ++ []). constructor; assumption.
    + intros H. inversion H as [| | | |a' b' s t H1 H2 E1 E2| | | | | | |]; subst.
      apply app_eq_nil in E2 as [-> ->]. split; assumption.
  - rewrite orb_true_iff, IHa, IHb. split.
    + intros [H|H]; [apply L_AltL|apply L_AltR]; exact H.
    + intros H. inversion H; subst; [left|right]; assumption.
  - split; [intros _; constructor|reflexivity].
  - rewrite IHa. split.
    + intros H. change (@nil N) with (@nil N ++ []). apply L_Plus; [exact H|constructor].
    + intros H. inversion H as [| | | | | | | | |a' s t H1 H2 E1 E2| |]; subst.
      apply app_eq_nil in E2 as [-> ->]. exact H1.
  - split; [intros _; constructor|reflexivity].
Qed.

Lemma cat'_lang a b s : In_lang (cat' a b) s <-> In_lang (Cat a b) s.
Proof.
  destruct a, b; cbn; try reflexivity;
    try (split; intros H; [inversion H|
         inversion H as [| | | |a' b' s1 s2 H1 H2 E1 E2| | | | | | |]; subst;
         first [inversion H1; fail | inversion H2; fail]]; fail).
  all: try (split; intros H;
        [ change s with ([] ++ s); constructor; [constructor|exact H]
        | inversion H as [| | | |a' b' s1 s2 H1 H2 E1 E2| | | | | | |]; subst; inversion H1; subst; exact H2 ]).
Qed.

Lemma ranges_eqb_eq a : forall b, ranges_eqb a b = true -> a = b.
Proof.
  induction a as [|[x1 y1] r IH]; intros [|[x2 y2] s]; cbn; try discriminate; [reflexivity|].
  intros H. apply andb_true_iff in H as [H H3]. apply andb_true_iff in H as [H1 H2].
  apply N.eqb_eq in H1, H2. subst. f_equal. apply IH, H3.
Qed.
Lemma rx_eqb_eq a : forall b, rx_eqb a b = true -> a = b.
Proof.
  induction a; intros b; destruct b; cbn; try discriminate; try reflexivity; intros H.
  - apply N.eqb_eq in H. subst. reflexivity.
  - apply andb_true_iff in H as [H1 H2]. apply Bool.eqb_prop in H1. apply ranges_eqb_eq in H2. subst. reflexivity.
  - apply andb_true_iff in H as [H1 H2]. f_equal; auto.
  - apply andb_true_iff in H as [H1 H2]. f_equal; auto.
  - f_equal; auto.
  - f_equal; auto.
  - f_equal; auto.
Qed.
Lemma alt_mem_lang x a s : alt_mem x a = true -> In_lang x s -> In_lang a s.
Proof.
  induction a; cbn [alt_mem]; intros H Hx;
    try (apply rx_eqb_eq in H; subst; exact Hx).
  apply orb_true_iff in H as [H|H]; [apply L_AltL|apply L_AltR]; auto.
Qed.
Lemma alt_add_lang b : forall a s, In_lang (alt_add a b) s <-> In_lang (Alt a b) s.
Proof.
  assert (Leaf : forall a x s, (forall l r, x <> Alt l r) -> x <> Emp ->
            In_lang (if alt_mem x a then a else match a with Emp => x | _ => Alt a x end) s <-> In_lang (Alt a x) s).
  { intros a x s _ _. destruct (alt_mem x a) eqn:E.
    - split; [apply L_AltL|]. intros H. inversion H; subst; [assumption|eapply alt_mem_lang; eassumption].
    - destruct a; try reflexivity. split; [apply L_AltR|]. intros H. inversion H; subst; [|assumption].
      match goal with H1 : In_lang Emp _ |- _ => inversion H1 end. }
  induction b; intros a0 s; cbn [alt_add];
    try (apply Leaf; [intros; discriminate|discriminate]).
  - (* Emp *) split; [apply L_AltL|]. intros H. inversion H; subst; [assumption|].
    match goal with H1 : In_lang Emp _ |- _ => inversion H1 end.
  - (* Alt *) rewrite IHb2. split; intros H.
    + inversion H; subst.
      * match goal with H1 : In_lang (alt_add _ _) _ |- _ => apply IHb1 in H1; inversion H1; subst end;
          [apply L_AltL; assumption|apply L_AltR, L_AltL; assumption].
      * apply L_AltR, L_AltR. assumption.
    + inversion H; subst.
      * apply L_AltL, IHb1, L_AltL. assumption.
      * match goal with H1 : In_lang (Alt b1 b2) _ |- _ => inversion H1; subst end;
          [apply L_AltL, IHb1, L_AltR; assumption|apply L_AltR; assumption].
Qed.

Lemma alt'_lang a b s : In_lang (alt' a b) s <-> In_lang (Alt a b) s.
Proof. apply alt_add_lang. Qed.

(* nonempty members of a star split with a nonempty first block *)
Lemma star_cons_inv a c s :
  In_lang (Star a) (c :: s) ->
  exists s1 s2, s = s1 ++ s2 /\ In_lang a (c :: s1) /\ In_lang (Star a) s2.
Proof.
  intros H. remember (Star a) as r eqn:Er. remember (c :: s) as w eqn:Ew.
  revert c s Ew. induction H; try discriminate; intros c0 s0 Ew.
  injection Er as ->.
  destruct s as [|x s].
  - cbn in Ew. subst t. apply IHIn_lang2; reflexivity.
  - cbn in Ew. injection Ew as -> <-. exists s, t. repeat split; assumption.
Qed.

Lemma deriv_spec c r : forall s, In_lang (deriv c r) s <-> In_lang r (c :: s).
Proof.
  induction r as [| | d | neg rs | | a IHa b IHb | a IHa b IHb | a IHa | a IHa | a IHa]; intros s; cbn.
  - split; intros H; inversion H.
  - split; intros H; inversion H.
  - destruct (N.eqb c d) eqn:E.
    + apply N.eqb_eq in E. subst. split; intros H; inversion H; subst; constructor.
    + split; intros H; inversion H; subst. rewrite N.eqb_refl in E. discriminate.
  - destruct (cls_mem neg rs c) eqn:E.
    + split; intros H; inversion H; subst; constructor. exact E.
    + split; intros H; inversion H; subst. congruence.
  - destruct (N.eqb c 10) eqn:E.
    + split; intros H; inversion H; subst. congruence.
    + split; intros H; inversion H; subst; constructor. exact E.
  - assert (Hcat : forall s, In_lang (cat' (deriv c a) b) s <->
                             exists s1 s2, s = s1 ++ s2 /\ In_lang a (c :: s1) /\ In_lang b s2).
    { intros s'. rewrite cat'_lang. split.
      - intros H. inversion H as [| | | |a' b' s1 s2 H1 H2 E1 E2| | | | | | |]; subst.
        exists s1, s2. repeat split; [apply IHa, H1|exact H2].
      - intros [s1 [s2 [-> [H1 H2]]]]. constructor; [apply IHa, H1|exact H2]. }
    destruct (nullable a) eqn:Na.
    + rewrite alt'_lang. split.
      * intros H. inversion H as [| | | | |a' b' s' H1|a' b' s' H1| | | | |]; subst.
        -- apply Hcat in H1 as [s1 [s2 [-> [H1 H2]]]].
           change (c :: s1 ++ s2) with ((c :: s1) ++ s2). constructor; assumption.
        -- apply IHb in H1. change (c :: s) with ([] ++ c :: s). constructor; [apply nullable_spec, Na|exact H1].
      * intros H. inversion H as [| | | |a' b' s1 s2 H1 H2 E1 E2| | | | | | |]; subst.
        destruct s1 as [|x s1].
        -- cbn in E2. subst s2. apply L_AltR. apply IHb, H2.
        -- cbn in E2. injection E2 as -> <-. apply L_AltL. apply Hcat. exists s1, s2. repeat split; assumption.
    + rewrite Hcat. split.
      * intros [s1 [s2 [-> [H1 H2]]]]. change (c :: s1 ++ s2) with ((c :: s1) ++ s2). constructor; assumption.
      * intros H. inversion H as [| | | |a' b' s1 s2 H1 H2 E1 E2| | | | | | |]; subst.
        destruct s1 as [|x s1].
        -- apply nullable_spec in H1. congruence.
        -- cbn in E2. injection E2 as -> <-. exists s1, s2. repeat split; assumption.
  - rewrite alt'_lang. split.
    + intros H. inversion H; subst; [apply L_AltL, IHa|apply L_AltR, IHb]; assumption.
    + intros H. inversion H; subst; [apply L_AltL, IHa|apply L_AltR, IHb]; assumption.
  - rewrite cat'_lang. split.
    + intros H. inversion H as [| | | |a' b' s1 s2 H1 H2 E1 E2| | | | | | |]; subst.
      change (c :: s1 ++ s2) with ((c :: s1) ++ s2). apply L_StarS; [apply IHa, H1|exact H2].
    + intros H. apply star_cons_inv in H as [s1 [s2 [-> [H1 H2]]]].
      constructor; [apply IHa, H1|exact H2].
  - rewrite cat'_lang. split.
    + intros H. inversion H as [| | | |a' b' s1 s2 H1 H2 E1 E2| | | | | | |]; subst.
      change (c :: s1 ++ s2) with ((c :: s1) ++ s2). apply L_Plus; [apply IHa, H1|exact H2].
    + intros H. inversion H as [| | | | | | | | |a' s1 s2 H1 H2 E1 E2| |]; subst.
      destruct s1 as [|x s1].
      * cbn in E2. subst s2. apply star_cons_inv in H2 as [t1 [t2 [-> [K1 K2]]]].
        constructor; [apply IHa, K1|exact K2].
      * cbn in E2. injection E2 as -> <-. constructor; [apply IHa, H1|exact H2].
  - split.
    + intros H. apply L_OptS, IHa, H.
    + intros H. inversion H; subst. apply IHa. assumption.
Qed.

Theorem rmatch_spec r s : rmatch r s = true <-> In_lang r s.
Proof.
  revert r. induction s as [|c s IH]; intros r; cbn.
  - apply nullable_spec.
  - rewrite IH. apply deriv_spec.
Qed.

Theorem rmatch_prefix_spec r s :
  rmatch_prefix r s = true <-> exists p t, s = p ++ t /\ In_lang r p.
Proof.
  revert r. induction s as [|c s IH]; intros r; cbn.
  - rewrite orb_false_r, nullable_spec. split.
    + intros H. exists [], []. split; [reflexivity|exact H].
    + intros [p [t [E H]]]. symmetry in E. apply app_eq_nil in E as [-> ->]. exact H.
  - rewrite orb_true_iff, nullable_spec, IH. split.
    + intros [H|[p [t [-> H]]]].
      * exists [], (c :: s). split; [reflexivity|exact H].
      * exists (c :: p), t. split; [reflexivity|]. apply deriv_spec, H.
    + intros [p [t [E H]]]. destruct p as [|x p].
      * left. exact H.
      * cbn in E. injection E as -> ->. right. exists p, t. split; [reflexivity|]. apply deriv_spec, H.
Qed.

(* literals *)
Lemma rx_lit_lang l s : In_lang (rx_lit l) s <-> s = l.
Proof.
  revert s. induction l as [|c l IH]; intros s; cbn.
  - split; [intros H; inversion H; reflexivity|intros ->; constructor].
  - split.
    + intros H. inversion H as [| | | |a' b' s1 s2 H1 H2 E1 E2| | | | | | |]; subst.
      inversion H1; subst. apply IH in H2. subst. reflexivity.
    + intros ->. change (c :: l) with ([c] ++ l). constructor; [constructor|apply IH; reflexivity].
Qed.
