(* EnfoldP: the enfolding storage cache stays coherent with its backend (C12). *)
From Coq Require Import ZArith List Bool Lia Permutation.
From Vakt Require Import Base.PyMonad Model.Store Proofs.StoreP.
Import ListNotations.
Arguments Store.retrieve_all : simpl never.
Arguments Store.get_all : simpl never.

Section enfold_proofs.
  Variables K V : Type.
  Variable keq : K -> K -> bool.
  Variable klt : K -> K -> bool.
  Hypothesis keq_eq : forall a b, keq a b = true <-> a = b.

  Notation s_get := (s_get K V keq).
  Notation step := (step K V keq klt).
  Notation wf := (wf K V).
  Notation abs := (abs K V keq).

  Definition coherent (st : enfold K V) : Prop :=
    wf (e_backend K V st) /\ wf (e_cache K V st) /\
    forall u, s_get u (e_cache K V st) = s_get u (e_backend K V st).

  (* two duplicate-free association lists with the same lookups hold the same entries *)
  Lemma s_get_split u v (s : smap K V) : s_get u s = Some v -> wf s ->
    exists a b, s = a ++ (u, v) :: b /\ s_get u a = None /\ s_get u b = None.
  Proof.
    unfold StoreP.wf, keys. induction s as [|[k x] r IH]; cbn; [discriminate|]. intros H Hnd.
    inversion Hnd as [|k' l' Hn Hd]; subst. destruct (keq u k) eqn:E.
    - injection H as ->. apply keq_eq in E. subst k. exists [], r. split; [reflexivity|]. split; [reflexivity|].
      apply (s_get_notin K V keq keq_eq). exact Hn.
    - destruct (IH H Hd) as [a [b [-> [Ha Hb]]]]. exists ((k, x) :: a), b. split; [reflexivity|].
      split; [cbn; rewrite E; exact Ha|exact Hb].
  Qed.

  Lemma wf_app_inv (a b : smap K V) kv : wf (a ++ kv :: b) -> wf (a ++ b) /\ ~ In (fst kv) (keys K V (a ++ b)).
  Proof.
    unfold StoreP.wf, keys. rewrite !map_app. cbn. intros H. split.
    - eapply NoDup_remove_1, H.
    - rewrite <- map_app. rewrite map_app. eapply NoDup_remove_2, H.
  Qed.

  Lemma same_gets_perm (s s' : smap K V) : wf s -> wf s' -> (forall u, s_get u s = s_get u s') -> Permutation s s'.
  Proof.
    revert s'. induction s as [|[k v] r IH]; intros s' Hw Hw' Hg.
    - destruct s' as [|[k' v'] r']; [constructor|]. specialize (Hg k'). cbn in Hg.
      rewrite (keq_refl K keq keq_eq) in Hg. discriminate.
    - assert (Hk : s_get k s' = Some v). { rewrite <- Hg. cbn. rewrite (keq_refl K keq keq_eq). reflexivity. }
      destruct (s_get_split _ _ _ Hk Hw') as [a [b [-> [Ha Hb]]]].
      apply Permutation_cons_app. apply IH.
      + unfold StoreP.wf, keys in *. cbn in Hw. inversion Hw; assumption.
      + apply (wf_app_inv a b (k, v)), Hw'.
      + intros u. specialize (Hg u). cbn in Hg. rewrite (s_get_app K V keq) in Hg. cbn in Hg.
        rewrite (s_get_app K V keq).
        destruct (keq u k) eqn:E.
        * apply keq_eq in E. subst u. rewrite Ha, Hb.
          unfold StoreP.wf, keys in Hw. cbn in Hw. inversion Hw as [|? ? Hn ?]; subst.
          apply (s_get_notin K V keq keq_eq). exact Hn.
        * exact Hg.
  Qed.

  Theorem coherent_perm st : coherent st -> Permutation (e_cache K V st) (e_backend K V st).
  Proof. intros [Hb [Hc Hg]]. apply same_gets_perm; assumption. Qed.

  (* one operation through the enfolding cache *)
  Lemma enfold_mutation_eq ob oc st p : is_mutation K V p = true ->
    enfold_step K V keq klt ob oc st p false =
    (let (b', x) := step ob (e_backend K V st) p in
     if raised K V x then ({| e_backend := b'; e_cache := e_cache K V st |}, x)
     else let (c', _) := step oc (e_cache K V st) p in ({| e_backend := b'; e_cache := c' |}, x)).
  Proof. destruct p; cbn; intros Hm; try discriminate Hm; reflexivity. Qed.

  Lemma enfold_mutation ob oc st p : coherent st -> is_mutation K V p = true ->
    coherent (fst (enfold_step K V keq klt ob oc st p false)) /\
    snd (enfold_step K V keq klt ob oc st p false) = snd (step ob (e_backend K V st) p) /\
    e_backend K V (fst (enfold_step K V keq klt ob oc st p false)) = fst (step ob (e_backend K V st) p) /\
    (raised K V (snd (enfold_step K V keq klt ob oc st p false)) = true ->
     fst (enfold_step K V keq klt ob oc st p false) = st).
  Proof.
    intros [Hb [Hc Hg]] Hm. rewrite (enfold_mutation_eq ob oc st p Hm).
    pose proof (raised_unchanged K V keq klt ob (e_backend K V st) p) as Hru.
    pose proof (step_wf K V keq klt keq_eq ob (e_backend K V st) p Hb) as Hwb.
    pose proof (step_refines K V keq klt keq_eq ob (e_backend K V st) p Hb) as Hrb.
    destruct (step ob (e_backend K V st) p) as [b' x] eqn:Eb. cbn [fst snd] in *.
    destruct (raised K V x) eqn:Er.
    - rewrite (Hru eq_refl). cbn [fst snd e_backend]. split; [|split; [reflexivity|split; [reflexivity|]]].
      + repeat split; assumption.
      + intros _. destruct st; reflexivity.
    - pose proof (step_wf K V keq klt keq_eq oc (e_cache K V st) p Hc) as Hwc.
      pose proof (step_refines K V keq klt keq_eq oc (e_cache K V st) p Hc) as Hrc.
      destruct (step oc (e_cache K V st) p) as [c' y] eqn:Ec. cbn [fst snd e_backend e_cache] in *.
      rewrite Er. split; [|split; [reflexivity|split; [reflexivity|discriminate]]].
      split; [exact Hwb|]. split; [exact Hwc|]. intros u. cbn [e_backend e_cache].
      unfold StoreP.abs in *. rewrite Hrc, Hrb. apply (spec_step_ext K V keq). exact Hg.
  Qed.

  Lemma enfold_fault ob oc st p : is_mutation K V p = true ->
    enfold_step K V keq klt ob oc st p true = (st, ORejected).
  Proof. destruct p; cbn; intros Hm; try discriminate Hm; reflexivity. Qed.

  Lemma enfold_read ob oc st p fault : is_mutation K V p = false ->
    fst (enfold_step K V keq klt ob oc st p fault) = st.
  Proof.
    destruct p as [u x0 bad|u x0 bad|u|u|l off|b]; cbn; intros Hm; try discriminate Hm.
    - destruct (s_get u (e_cache K V st)); reflexivity.
    - destruct (get_all K V (e_cache K V st) l off) as [[|y ys]|e]; reflexivity.
    - destruct (retrieve_all K V (e_cache K V st) b) as [[[|y ys]|]|e]; reflexivity.
  Qed.

  Lemma enfold_get ob oc st u fault : coherent st ->
    snd (enfold_step K V keq klt ob oc st (Get u) fault) = OGet (s_get u (e_backend K V st)).
  Proof.
    intros [Hb [Hc Hg]]. cbn. destruct (s_get u (e_cache K V st)) eqn:E; cbn; [|reflexivity].
    rewrite <- Hg, E. reflexivity.
  Qed.

  Theorem enfold_step_coherent ob oc st p fault : coherent st ->
    coherent (fst (enfold_step K V keq klt ob oc st p fault)).
  Proof.
    intros Hco. destruct (is_mutation K V p) eqn:Hm.
    - destruct fault.
      + rewrite (enfold_fault ob oc st p Hm). exact Hco.
      + apply enfold_mutation; assumption.
    - rewrite (enfold_read ob oc st p fault Hm). exact Hco.
  Qed.

  (* full retrieval through the cache returns the backend's policies (as a set) *)
  Theorem enfold_retrieve_all ob oc st b fault : coherent st -> (0 < b)%Z ->
    exists l, snd (enfold_step K V keq klt ob oc st (RetrieveAll b) fault) = OList l /\
              Permutation l (e_backend K V st).
  Proof.
    intros Hco Hb. pose proof (coherent_perm st Hco) as Hp. cbn.
    rewrite (retrieve_all_complete K V (e_cache K V st) b Hb).
    destruct (e_cache K V st) as [|y ys] eqn:Ec.
    - apply Permutation_nil in Hp. cbn.
      rewrite (retrieve_all_complete K V (e_backend K V st) b Hb). rewrite Hp. exists []. split; [reflexivity|constructor].
    - exists (y :: ys). split; [reflexivity|exact Hp].
  Qed.

  (* a populated cache answers lookups of stored uids and full retrieval without consulting the backend *)
  Theorem enfold_no_backend_touch st : coherent st ->
    (forall u v, s_get u (e_backend K V st) = Some v -> enfold_reads_backend keq st (Get u) = false) /\
    (forall b, (0 < b)%Z -> e_backend K V st <> [] -> enfold_reads_backend keq st (RetrieveAll b) = false).
  Proof.
    intros Hco. pose proof Hco as [Hb [Hc Hg]]. split.
    - intros u v H. cbn. rewrite Hg, H. reflexivity.
    - intros b Hbp Hne. cbn. rewrite (retrieve_all_complete K V (e_cache K V st) b Hbp).
      destruct (e_cache K V st) as [|y ys] eqn:Ec; [|reflexivity].
      pose proof (coherent_perm st Hco) as Hp. rewrite Ec in Hp. apply Permutation_nil in Hp. contradiction.
  Qed.

  (* population of an empty in-memory cache from any backend, any positive batch size *)
  Lemma fold_add_fresh (l acc : smap K V) : wf (acc ++ l) ->
    fold_left (fun c kv => fst (Store.step K V keq klt Insertion c (Add (fst kv) (snd kv) false))) l acc = acc ++ l.
  Proof.
    revert acc. induction l as [|[k v] r IH]; intros acc Hw; cbn [fold_left]; [rewrite app_nil_r; reflexivity|].
    cbn [Store.step fst snd].
    assert (Hn : s_get k acc = None).
    { apply (s_get_notin K V keq keq_eq). unfold StoreP.wf, keys in Hw. rewrite map_app in Hw. cbn in Hw.
      apply NoDup_remove_2 in Hw. intros Hin. apply Hw. apply in_or_app. now left. }
    rewrite Hn. cbn [fst Store.s_insert]. rewrite IH.
    - rewrite <- app_assoc. reflexivity.
    - rewrite <- app_assoc. exact Hw.
  Qed.

  Theorem populate_coherent (backend : smap K V) b : wf backend -> (0 < b)%Z ->
    coherent (populate K V keq klt Insertion {| e_backend := backend; e_cache := [] |} b).
  Proof.
    intros Hw Hb. unfold populate. cbn [e_backend e_cache].
    rewrite (retrieve_all_complete K V backend b Hb). rewrite (fold_add_fresh backend [] Hw). cbn.
    repeat split; assumption.
  Qed.

  (* histories of operations with faults *)
  Fixpoint enfold_run ob oc (st : enfold K V) (ops : list (op K V * bool)) : enfold K V :=
    match ops with
    | [] => st
    | (p, fault) :: r => enfold_run ob oc (fst (enfold_step K V keq klt ob oc st p fault)) r
    end.

  Theorem enfold_run_coherent ob oc ops : forall st, coherent st -> coherent (enfold_run ob oc st ops).
  Proof.
    induction ops as [|[p fault] r IH]; intros st Hco; cbn; [exact Hco|].
    apply IH. apply enfold_step_coherent, Hco.
  Qed.
End enfold_proofs.
