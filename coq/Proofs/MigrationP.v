(* MigrationP: the migration driver (C18). *)
From Coq Require Import ZArith List Bool Lia Sorted ZifyBool.
From Vakt Require Import Base.PyMonad Model.Migration.
Import ListNotations.
Local Open Scope Z_scope.

(* ---------- sorting ---------- *)
Lemma insert_asc_in x l y : In y (insert_asc x l) <-> y = x \/ In y l.
Proof.
  induction l as [|z l IH]; cbn; [intuition congruence|]. destruct (Z.ltb x z); cbn; [intuition congruence|]. rewrite IH. intuition congruence.
Qed.
Lemma sort_asc_in l y : In y (sort_asc l) <-> In y l.
Proof. induction l as [|x l IH]; cbn; [tauto|]. rewrite insert_asc_in, IH. intuition congruence. Qed.

Lemma insert_asc_sorted x l : StronglySorted Z.le l -> StronglySorted Z.le (insert_asc x l).
Proof.
  induction 1 as [|z l Hs IH Hz]; cbn; [repeat constructor|].
  destruct (Z.ltb_spec x z).
  - constructor; [constructor; assumption|]. constructor; [lia|].
    rewrite Forall_forall in *. intros y Hy. specialize (Hz y Hy). lia.
  - constructor; [exact IH|]. rewrite Forall_forall in *. intros y Hy.
    apply insert_asc_in in Hy as [->|Hy]; [lia|apply Hz, Hy].
Qed.
Lemma sort_asc_sorted l : StronglySorted Z.le (sort_asc l).
Proof. induction l; cbn; [constructor|apply insert_asc_sorted; assumption]. Qed.

Lemma insert_desc_in x l y : In y (insert_desc x l) <-> y = x \/ In y l.
Proof.
  induction l as [|z l IH]; cbn; [intuition congruence|]. destruct (Z.ltb z x); cbn; [intuition congruence|]. rewrite IH. intuition congruence.
Qed.
Lemma sort_desc_in l y : In y (sort_desc l) <-> In y l.
Proof. induction l as [|x l IH]; cbn; [tauto|]. rewrite insert_desc_in, IH. intuition congruence. Qed.

Lemma insert_desc_sorted x l : StronglySorted Z.ge l -> StronglySorted Z.ge (insert_desc x l).
Proof.
  induction 1 as [|z l Hs IH Hz]; cbn; [repeat constructor|].
  destruct (Z.ltb_spec z x).
  - constructor; [constructor; assumption|]. constructor; [lia|].
    rewrite Forall_forall in *. intros y Hy. specialize (Hz y Hy). lia.
  - constructor; [exact IH|]. rewrite Forall_forall in *. intros y Hy.
    apply insert_desc_in in Hy as [->|Hy]; [lia|apply Hz, Hy].
Qed.
Lemma sort_desc_sorted l : StronglySorted Z.ge (sort_desc l).
Proof. induction l; cbn; [constructor|apply insert_desc_sorted; assumption]. Qed.

(* ---------- gating and version bookkeeping ---------- *)
Definition ev_gated (e : ev) : Prop :=
  match e with
  | EvUp n v | EvFailUp n v => v < n
  | EvDown n v | EvFailDown n v => n <= v
  end.

Definition ev_seen (e : ev) : Z :=
  match e with EvUp _ v | EvDown _ v | EvFailUp _ v | EvFailDown _ v => v end.
Definition ev_next (ver : Z) (e : ev) : Z :=
  match e with EvUp n _ => n | EvDown n _ => n - 1 | _ => ver end.

(* every step saw the version recorded at that moment, and the version recorded after a completed step is
   n (up) / n-1 (down); a failing step leaves it unchanged *)
Fixpoint consistent (ver : Z) (es : list ev) : Prop :=
  match es with
  | [] => True
  | e :: r => ev_seen e = ver /\ consistent (ev_next ver e) r
  end.
Definition replay (ver : Z) (es : list ev) : Z := fold_left ev_next es ver.

Lemma up_loop_spec l : forall ver fault k v' es f, up_loop l ver fault k = (v', es, f) ->
  Forall ev_gated es /\ consistent ver es /\ v' = replay ver es /\ ver <= v' /\
  (f = true -> exists n, es <> [] /\ last es (EvUp 0 0) = EvFailUp n v') /\
  (f = false -> Forall (fun e => match e with EvUp _ _ => True | _ => False end) es).
Proof.
  induction l as [|m r IH]; intros ver fault k v' es f H; cbn in H.
  - injection H as <- <- <-. cbn. repeat split; try constructor; try lia; discriminate.
  - destruct (Z.ltb_spec ver m).
    + destruct (match fault with Some j => Nat.eqb j k | None => false end).
      * injection H as <- <- <-. cbn. repeat split; try (repeat constructor; cbn; lia); try lia; try discriminate.
        intros _. exists m. split; [discriminate|reflexivity].
      * destruct (up_loop r m fault (S k)) as [[v1 es1] f1] eqn:E. injection H as <- <- <-.
        destruct (IH _ _ _ _ _ _ E) as [G [C [R [M [F1 F0]]]]].
        split; [constructor; [cbn; lia|exact G]|]. split; [cbn; split; [reflexivity|exact C]|].
        split; [cbn; exact R|]. split; [lia|]. split.
        -- intros Hf. destruct (F1 Hf) as [n [Hne Hl]]. exists n. split; [discriminate|].
           destruct es1; [contradiction|exact Hl].
        -- intros Hf. constructor; [exact I|apply F0, Hf].
    + apply IH in H. exact H.
Qed.

Lemma down_loop_spec l : forall ver fault k v' es f, down_loop l ver fault k = (v', es, f) ->
  Forall ev_gated es /\ consistent ver es /\ v' = replay ver es /\ v' <= ver /\
  (f = true -> exists n, es <> [] /\ last es (EvUp 0 0) = EvFailDown n v') /\
  (f = false -> Forall (fun e => match e with EvDown _ _ => True | _ => False end) es).
Proof.
  induction l as [|m r IH]; intros ver fault k v' es f H; cbn in H.
  - injection H as <- <- <-. cbn. repeat split; try constructor; try lia; discriminate.
  - destruct (Z.leb_spec m ver).
    + destruct (match fault with Some j => Nat.eqb j k | None => false end).
      * injection H as <- <- <-. cbn. repeat split; try (repeat constructor; cbn; lia); try lia; try discriminate.
        intros _. exists m. split; [discriminate|reflexivity].
      * destruct (down_loop r (m - 1) fault (S k)) as [[v1 es1] f1] eqn:E. injection H as <- <- <-.
        destruct (IH _ _ _ _ _ _ E) as [G [C [R [M [F1 F0]]]]].
        split; [constructor; [cbn; lia|exact G]|]. split; [cbn; split; [reflexivity|exact C]|].
        split; [cbn; exact R|]. split; [lia|]. split.
        -- intros Hf. destruct (F1 Hf) as [n [Hne Hl]]. exists n. split; [discriminate|].
           destruct es1; [contradiction|exact Hl].
        -- intros Hf. constructor; [exact I|apply F0, Hf].
    + apply IH in H. exact H.
Qed.

Theorem request_gated ms ver rq fault v' es f : run_request ms ver rq fault = (v', es, f) ->
  Forall ev_gated es /\ consistent ver es /\ v' = replay ver es.
Proof.
  destruct rq as [n|n]; cbn; intros H.
  - apply up_loop_spec in H. tauto.
  - apply down_loop_spec in H. tauto.
Qed.

Lemma consistent_app ver es es' : consistent ver es -> consistent (replay ver es) es' -> consistent ver (es ++ es').
Proof.
  revert ver. induction es as [|e r IH]; intros ver H H'; cbn in *; [exact H'|].
  destruct H as [H1 H2]. split; [exact H1|]. apply IH; assumption.
Qed.
Lemma replay_app ver es es' : replay ver (es ++ es') = replay (replay ver es) es'.
Proof. unfold replay. apply fold_left_app. Qed.

Theorem history_gated ms h : forall ver v' es, run_history ms ver h = (v', es) ->
  Forall ev_gated es /\ consistent ver es /\ v' = replay ver es.
Proof.
  induction h as [|[rq fault] r IH]; intros ver v' es H; cbn in H.
  - injection H as <- <-. cbn. repeat split. constructor.
  - destruct (run_request ms ver rq fault) as [[v1 es1] f1] eqn:E1.
    destruct (run_history ms v1 r) as [v2 es2] eqn:E2. injection H as <- <-.
    destruct (request_gated _ _ _ _ _ _ _ E1) as [G1 [C1 R1]].
    destruct (IH _ _ _ E2) as [G2 [C2 R2]]. subst v1.
    split; [apply Forall_app; split; assumption|]. split.
    + apply consistent_app; assumption.
    + rewrite replay_app. exact R2.
Qed.

(* ---------- order within one request ---------- *)
Definition ev_order (e : ev) : Z :=
  match e with EvUp n _ | EvDown n _ | EvFailUp n _ | EvFailDown n _ => n end.

Lemma up_loop_ascending l : forall ver fault k v' es f, up_loop l ver fault k = (v', es, f) ->
  StronglySorted Z.lt (map ev_order es) /\ Forall (fun e => ver < ev_order e) es.
Proof.
  induction l as [|m r IH]; intros ver fault k v' es f H; cbn in H.
  - injection H as <- <- <-. split; constructor.
  - destruct (Z.ltb_spec ver m).
    + destruct (match fault with Some j => Nat.eqb j k | None => false end).
      * injection H as <- <- <-. cbn. split; repeat constructor. exact H0.
      * destruct (up_loop r m fault (S k)) as [[v1 es1] f1] eqn:E. injection H as <- <- <-.
        destruct (IH _ _ _ _ _ _ E) as [S1 F1]. cbn. split.
        -- constructor; [exact S1|]. rewrite Forall_map. exact F1.
        -- constructor; [cbn; lia|]. eapply Forall_impl; [|exact F1]. cbn. intros; lia.
    + apply IH in H. destruct H as [S1 F1]. split; [exact S1|].
      eapply Forall_impl; [|exact F1]. cbn. intros; lia.
Qed.

Lemma down_loop_descending l : forall ver fault k v' es f, down_loop l ver fault k = (v', es, f) ->
  StronglySorted Z.gt (map ev_order es) /\ Forall (fun e => ev_order e <= ver) es.
Proof.
  induction l as [|m r IH]; intros ver fault k v' es f H; cbn in H.
  - injection H as <- <- <-. split; constructor.
  - destruct (Z.leb_spec m ver).
    + destruct (match fault with Some j => Nat.eqb j k | None => false end).
      * injection H as <- <- <-. cbn. split; repeat constructor. exact H0.
      * destruct (down_loop r (m - 1) fault (S k)) as [[v1 es1] f1] eqn:E. injection H as <- <- <-.
        destruct (IH _ _ _ _ _ _ E) as [S1 F1]. cbn. split.
        -- constructor; [exact S1|]. rewrite Forall_map. eapply Forall_impl; [|exact F1]. cbn. intros; lia.
        -- constructor; [cbn; lia|]. eapply Forall_impl; [|exact F1]. cbn. intros; lia.
    + apply IH in H. destruct H as [S1 F1]. split; [exact S1|].
      eapply Forall_impl; [|exact F1]. cbn. intros; lia.
Qed.

(* ---------- no step is skipped by a whole-set request (needs the sort) ---------- *)
Definition up_in (x : Z) (es : list ev) : Prop := exists v, In (EvUp x v) es.
Definition down_in (x : Z) (es : list ev) : Prop := exists v, In (EvDown x v) es.

Lemma up_loop_no_skip l : StronglySorted Z.le l ->
  forall ver fault k v' es f, up_loop l ver fault k = (v', es, f) ->
  forall x, In x l -> (x <= v' <-> x <= ver \/ up_in x es).
Proof.
  induction 1 as [|m r Hs IH Hm]; intros ver fault k v' es f H x Hx; [destruct Hx|].
  cbn in H. rewrite Forall_forall in Hm.
  destruct (Z.ltb_spec ver m).
  - destruct (match fault with Some j => Nat.eqb j k | None => false end).
    + injection H as <- <- <-. split; [tauto|]. intros [Hl|[v [Hv|[]]]]; [exact Hl|discriminate].
    + destruct (up_loop r m fault (S k)) as [[v1 es1] f1] eqn:E. injection H as <- <- <-.
      pose proof (up_loop_spec _ _ _ _ _ _ _ E) as [_ [_ [_ [Mono _]]]].
      destruct Hx as [<-|Hx].
      * split; [intros _; right; exists ver; now left|intros _; exact Mono].
      * specialize (Hm x Hx). rewrite (IH _ _ _ _ _ _ E x Hx). split.
        -- intros [Hle|[v Hv]]; [right; exists ver; left; f_equal; lia|right; exists v; now right].
        -- intros [Hle|[v [Hv|Hv]]]; [lia|injection Hv as -> _; left; lia|right; exists v; exact Hv].
  - destruct Hx as [<-|Hx].
    + pose proof (up_loop_spec _ _ _ _ _ _ _ H) as [_ [_ [_ [Mono _]]]]. split; [intros _; left; lia|intros _; lia].
    + apply (IH _ _ _ _ _ _ H x Hx).
Qed.

Lemma down_loop_no_skip l : StronglySorted Z.ge l ->
  forall ver fault k v' es f, down_loop l ver fault k = (v', es, f) ->
  forall x, In x l -> (v' < x <-> ver < x \/ down_in x es).
Proof.
  induction 1 as [|m r Hs IH Hm]; intros ver fault k v' es f H x Hx; [destruct Hx|].
  cbn in H. rewrite Forall_forall in Hm.
  destruct (Z.leb_spec m ver).
  - destruct (match fault with Some j => Nat.eqb j k | None => false end).
    + injection H as <- <- <-. split; [tauto|]. intros [Hl|[v [Hv|[]]]]; [exact Hl|discriminate].
    + destruct (down_loop r (m - 1) fault (S k)) as [[v1 es1] f1] eqn:E. injection H as <- <- <-.
      pose proof (down_loop_spec _ _ _ _ _ _ _ E) as [_ [_ [_ [Mono _]]]].
      destruct Hx as [<-|Hx].
      * split; [intros _; right; exists ver; now left|intros _; lia].
      * specialize (Hm x Hx). rewrite (IH _ _ _ _ _ _ E x Hx). split.
        -- intros [Hle|[v Hv]]; [right; exists ver; left; f_equal; lia|right; exists v; now right].
        -- intros [Hle|[v [Hv|Hv]]]; [lia|injection Hv as -> _; left; lia|right; exists v; exact Hv].
  - destruct Hx as [<-|Hx].
    + pose proof (down_loop_spec _ _ _ _ _ _ _ H) as [_ [_ [_ [Mono _]]]]. split; [intros _; left; lia|intros _; lia].
    + apply (IH _ _ _ _ _ _ H x Hx).
Qed.

(* ---------- final version, idempotence, resume ---------- *)
Lemma up_loop_noop l : forall v fault k, (forall m, In m l -> m <= v) -> up_loop l v fault k = (v, [], false).
Proof.
  induction l as [|m r IH]; intros v fault k H; cbn; [reflexivity|].
  destruct (Z.ltb_spec v m); [specialize (H m (or_introl eq_refl)); lia|].
  apply IH. intros x Hx. apply H. now right.
Qed.
Lemma down_loop_noop l : forall v fault k, (forall m, In m l -> v < m) -> down_loop l v fault k = (v, [], false).
Proof.
  induction l as [|m r IH]; intros v fault k H; cbn; [reflexivity|].
  destruct (Z.leb_spec m v); [specialize (H m (or_introl eq_refl)); lia|].
  apply IH. intros x Hx. apply H. now right.
Qed.

Lemma up_loop_final l : StronglySorted Z.le l -> forall ver k v' es,
  up_loop l ver None k = (v', es, false) -> forall m, In m l -> m <= v'.
Proof.
  induction 1 as [|m r Hs IH Hm]; intros ver k v' es H x Hx; [destruct Hx|]. cbn in H.
  destruct (Z.ltb_spec ver m).
  - destruct (up_loop r m None (S k)) as [[v1 es1] f1] eqn:E. injection H as <- <- ->.
    pose proof (up_loop_spec _ _ _ _ _ _ _ E) as [_ [_ [_ [Mono _]]]].
    destruct Hx as [<-|Hx]; [exact Mono|]. eapply IH; eassumption.
  - pose proof (up_loop_spec _ _ _ _ _ _ _ H) as [_ [_ [_ [Mono _]]]].
    destruct Hx as [<-|Hx]; [lia|]. eapply IH; eassumption.
Qed.

Lemma up_loop_unfaulted_flag l : forall ver k, snd (up_loop l ver None k) = false.
Proof.
  induction l as [|m r IH]; intros ver k; cbn; [reflexivity|].
  destruct (Z.ltb ver m); [|apply IH].
  specialize (IH m (S k)). destruct (up_loop r m None (S k)) as [[v1 es1] f1]. exact IH.
Qed.
Lemma down_loop_unfaulted_flag l : forall ver k, snd (down_loop l ver None k) = false.
Proof.
  induction l as [|m r IH]; intros ver k; cbn; [reflexivity|].
  destruct (Z.leb m ver); [|apply IH].
  specialize (IH (m - 1) (S k)). destruct (down_loop r (m - 1) None (S k)) as [[v1 es1] f1]. exact IH.
Qed.

(* the version an unfaulted loop ends with depends only on the start version and the list *)
Lemma up_loop_version_indep l : forall ver k k',
  fst (fst (up_loop l ver None k)) = fst (fst (up_loop l ver None k')) .
Proof.
  induction l as [|m r IH]; intros ver k k'; cbn; [reflexivity|].
  destruct (Z.ltb ver m); [|apply IH].
  specialize (IH m (S k) (S k')).
  destruct (up_loop r m None (S k)) as [[v1 es1] f1], (up_loop r m None (S k')) as [[v2 es2] f2]. exact IH.
Qed.

Definition up_final (l : list Z) (ver : Z) : Z := fst (fst (up_loop l ver None 0)).
Definition down_final (l : list Z) (ver : Z) : Z := fst (fst (down_loop l ver None 0)).

Lemma up_final_cons m r ver : up_final (m :: r) ver = if Z.ltb ver m then up_final r m else up_final r ver.
Proof.
  unfold up_final. cbn. destruct (Z.ltb ver m); [|reflexivity].
  rewrite (up_loop_version_indep r m 0 1).
  destruct (up_loop r m None 1) as [[v1 es1] f1]. reflexivity.
Qed.

(* a faulted loop stops at a version from which the unfaulted loop reaches the same end *)
Lemma up_loop_resume l : forall ver fault k v1 es1 f1,
  up_loop l ver fault k = (v1, es1, f1) -> up_final l v1 = up_final l ver.
Proof.
  induction l as [|m r IH]; intros ver fault k v1 es1 f1 H; cbn in H.
  - injection H as <- <- <-. reflexivity.
  - rewrite !up_final_cons. destruct (Z.ltb_spec ver m).
    + destruct (match fault with Some j => Nat.eqb j k | None => false end).
      * injection H as <- <- <-. destruct (Z.ltb_spec ver m); [reflexivity|lia].
      * destruct (up_loop r m fault (S k)) as [[v2 es2] f2] eqn:E. injection H as <- <- <-.
        pose proof (up_loop_spec _ _ _ _ _ _ _ E) as [_ [_ [_ [Mono _]]]].
        pose proof (IH _ _ _ _ _ _ E) as R.
        destruct (Z.ltb_spec v2 m); [lia|]. exact R.
    + pose proof (up_loop_spec _ _ _ _ _ _ _ H) as [_ [_ [_ [Mono _]]]].
      destruct (Z.ltb_spec v1 m); [lia|]. eapply IH, H.
Qed.

Lemma down_loop_version_indep l : forall ver k k',
  fst (fst (down_loop l ver None k)) = fst (fst (down_loop l ver None k')).
Proof.
  induction l as [|m r IH]; intros ver k k'; cbn; [reflexivity|].
  destruct (Z.leb m ver); [|apply IH].
  specialize (IH (m - 1) (S k) (S k')).
  destruct (down_loop r (m - 1) None (S k)) as [[v1 es1] f1], (down_loop r (m - 1) None (S k')) as [[v2 es2] f2]. exact IH.
Qed.

Lemma down_final_cons m r ver : down_final (m :: r) ver = if Z.leb m ver then down_final r (m - 1) else down_final r ver.
Proof.
  unfold down_final. cbn. destruct (Z.leb m ver); [|reflexivity].
  rewrite (down_loop_version_indep r (m - 1) 0 1).
  destruct (down_loop r (m - 1) None 1) as [[v1 es1] f1]. reflexivity.
Qed.

Lemma down_loop_resume l : forall ver fault k v1 es1 f1,
  down_loop l ver fault k = (v1, es1, f1) -> down_final l v1 = down_final l ver.
Proof.
  induction l as [|m r IH]; intros ver fault k v1 es1 f1 H; cbn in H.
  - injection H as <- <- <-. reflexivity.
  - rewrite !down_final_cons. destruct (Z.leb_spec m ver).
    + destruct (match fault with Some j => Nat.eqb j k | None => false end).
      * injection H as <- <- <-. destruct (Z.leb_spec m ver); [reflexivity|lia].
      * destruct (down_loop r (m - 1) fault (S k)) as [[v2 es2] f2] eqn:E. injection H as <- <- <-.
        pose proof (down_loop_spec _ _ _ _ _ _ _ E) as [_ [_ [_ [Mono _]]]].
        pose proof (IH _ _ _ _ _ _ E) as R.
        destruct (Z.leb_spec m v2); [lia|]. exact R.
    + pose proof (down_loop_spec _ _ _ _ _ _ _ H) as [_ [_ [_ [Mono _]]]].
      destruct (Z.leb_spec m v1); [lia|]. eapply IH, H.
Qed.

(* request level statements *)
Definition req_final (ms : list Z) (ver : Z) (rq : request) : Z := fst (fst (run_request ms ver rq None)).

Theorem resume ms ver rq fault v1 es1 f1 :
  run_request ms ver rq fault = (v1, es1, f1) -> req_final ms v1 rq = req_final ms ver rq.
Proof.
  destruct rq as [n|n]; unfold req_final; cbn; intros H.
  - apply up_loop_resume in H. exact H.
  - apply down_loop_resume in H. exact H.
Qed.

Lemma filter_eqb_all n ms m : In m (filter (Z.eqb n) ms) -> m = n.
Proof. intros H. apply filter_In in H as [_ H]. lia. Qed.

Lemma up_loop_all_le l : forall ver k v' es, up_loop l ver None k = (v', es, false) ->
  (StronglySorted Z.le l \/ exists n, forall m, In m l -> m = n) -> forall m, In m l -> m <= v'.
Proof.
  intros ver k v' es H [Hs|[n Hn]] m Hm.
  - eapply up_loop_final; eassumption.
  - revert ver k v' es H. induction l as [|x r IH]; intros ver k v' es H; [destruct Hm|]. cbn in H.
    assert (Hx : x = n) by (apply Hn; now left). assert (Hmn : m = n) by (apply Hn, Hm). subst x m.
    destruct (Z.ltb_spec ver n).
    + destruct (up_loop r n None (S k)) as [[v1 es1] f1] eqn:E. injection H as <- <- ->.
      pose proof (up_loop_spec _ _ _ _ _ _ _ E) as [_ [_ [_ [Mono _]]]]. exact Mono.
    + pose proof (up_loop_spec _ _ _ _ _ _ _ H) as [_ [_ [_ [Mono _]]]]. lia.
Qed.

Lemma down_loop_all_gt l : forall ver k v' es, down_loop l ver None k = (v', es, false) ->
  (StronglySorted Z.ge l \/ exists n, forall m, In m l -> m = n) -> forall m, In m l -> v' < m.
Proof.
  intros ver k v' es H Hc m Hm.
  destruct Hc as [Hs|[n Hn]].
  - revert ver k v' es H m Hm. induction Hs as [|x r Hs IH Hx]; intros ver k v' es H m Hm; [destruct Hm|].
    cbn in H. rewrite Forall_forall in Hx. destruct (Z.leb_spec x ver).
    + destruct (down_loop r (x - 1) None (S k)) as [[v1 es1] f1] eqn:E. injection H as <- <- ->.
      pose proof (down_loop_spec _ _ _ _ _ _ _ E) as [_ [_ [_ [Mono _]]]].
      destruct Hm as [<-|Hm]; [lia|]. eapply IH; eassumption.
    + pose proof (down_loop_spec _ _ _ _ _ _ _ H) as [_ [_ [_ [Mono _]]]].
      destruct Hm as [<-|Hm]; [lia|]. eapply IH; eassumption.
  - revert ver k v' es H. induction l as [|x r IH]; intros ver k v' es H; [destruct Hm|]. cbn in H.
    assert (Hx : x = n) by (apply Hn; now left). assert (Hmn : m = n) by (apply Hn, Hm). subst x m.
    destruct (Z.leb_spec n ver).
    + destruct (down_loop r (n - 1) None (S k)) as [[v1 es1] f1] eqn:E. injection H as <- <- ->.
      pose proof (down_loop_spec _ _ _ _ _ _ _ E) as [_ [_ [_ [Mono _]]]]. lia.
    + pose proof (down_loop_spec _ _ _ _ _ _ _ H) as [_ [_ [_ [Mono _]]]]. lia.
Qed.

Lemma get_migrations_shape_up ms n :
  StronglySorted Z.le (get_migrations ms n false) \/ exists x, forall m, In m (get_migrations ms n false) -> m = x.
Proof.
  destruct n as [n|]; cbn; [right; exists n; apply filter_eqb_all|left; apply sort_asc_sorted].
Qed.
Lemma get_migrations_shape_down ms n :
  StronglySorted Z.ge (get_migrations ms n true) \/ exists x, forall m, In m (get_migrations ms n true) -> m = x.
Proof.
  destruct n as [n|]; cbn; [right; exists n; apply filter_eqb_all|left; apply sort_desc_sorted].
Qed.

(* repeating a completed request runs no step *)
Theorem idempotent ms ver rq v' es :
  run_request ms ver rq None = (v', es, false) -> run_request ms v' rq None = (v', [], false).
Proof.
  destruct rq as [n|n]; cbn; intros H.
  - apply up_loop_noop. intros m Hm. eapply up_loop_all_le; [exact H|apply get_migrations_shape_up|exact Hm].
  - apply down_loop_noop. intros m Hm. eapply down_loop_all_gt; [exact H|apply get_migrations_shape_down|exact Hm].
Qed.

Lemma unfaulted_flag ms ver rq : snd (run_request ms ver rq None) = false.
Proof. destruct rq; cbn; [apply up_loop_unfaulted_flag|apply down_loop_unfaulted_flag]. Qed.

(* whole-set requests skip nothing *)
Theorem whole_up_no_skip ms ver fault v' es f : run_request ms ver (RUp None) fault = (v', es, f) ->
  forall x, In x ms -> (x <= v' <-> x <= ver \/ up_in x es).
Proof.
  cbn. intros H x Hx. eapply up_loop_no_skip; [apply sort_asc_sorted|exact H|apply sort_asc_in, Hx].
Qed.
Theorem whole_down_no_skip ms ver fault v' es f : run_request ms ver (RDown None) fault = (v', es, f) ->
  forall x, In x ms -> (v' < x <-> ver < x \/ down_in x es).
Proof.
  cbn. intros H x Hx. eapply down_loop_no_skip; [apply sort_desc_sorted|exact H|apply sort_desc_in, Hx].
Qed.

(* full up then full down: every migration at or below the reached version is taken down again and the
   recorded version ends below every migration *)
Theorem up_then_down ms ver v1 es1 v2 es2 :
  run_request ms ver (RUp None) None = (v1, es1, false) ->
  run_request ms v1 (RDown None) None = (v2, es2, false) ->
  (forall m, In m ms -> m <= v1) /\ (forall m, In m ms -> v2 < m) /\
  (forall m, In m ms -> down_in m es2).
Proof.
  intros H1 H2. cbn in H1, H2.
  assert (A : forall m, In m ms -> m <= v1).
  { intros m Hm. eapply up_loop_final; [apply sort_asc_sorted|exact H1|apply sort_asc_in, Hm]. }
  assert (B : forall m, In m ms -> v2 < m).
  { intros m Hm. eapply down_loop_all_gt; [exact H2|left; apply sort_desc_sorted|apply sort_desc_in, Hm]. }
  split; [exact A|]. split; [exact B|].
  intros m Hm. pose proof (down_loop_no_skip _ (sort_desc_sorted ms) _ _ _ _ _ _ H2 m (proj2 (sort_desc_in ms m) Hm)) as [Hf _].
  destruct (Hf (B m Hm)) as [Hlt|Hd]; [specialize (A m Hm); lia|exact Hd].
Qed.
