(* ParserP: the tag scanner, the compiled pattern and the regex checker (C03). *)
From Coq Require Import ZArith NArith List Bool Lia ZifyBool.
From Vakt Require Import Base.PyMonad Base.PyVal Model.Regex Model.Rules Model.Policy Model.Parser
     Model.Checkers Proofs.PyValP Proofs.RegexP.
Import ListNotations.

(* relative nesting depth after reading s from depth d; None when it dips below zero *)
Fixpoint rel (a b : N) (s : pstr) (d : nat) : option nat :=
  match s with
  | [] => Some d
  | c :: t =>
      if N.eqb c a then rel a b t (S d)
      else if N.eqb c b then match d with O => None | S d' => rel a b t d' end
      else rel a b t d
  end.

Definition balanced (a b : N) (s : pstr) : Prop := rel a b s 0 = Some 0.

Lemma pstr_eqb_single v a : pstr_eqb [v] [a] = N.eqb v a.
Proof. cbn. rewrite andb_true_r. reflexivity. Qed.

Section scanner.
  Variables a b : N.
  Hypothesis Hab : a <> b.
  Let st : pstr := [a].
  Let en : pstr := [b].

  Lemma tag_loop_rel s : forall i idx d acc,
    match rel a b s d with
    | None => tag_loop st en s i idx (Z.of_nat d) acc = Raise EInvalidPattern
    | Some d' => exists acc', tag_loop st en s i idx (Z.of_nat d) acc = Ok (acc', Z.of_nat d')
    end.
  Proof.
    induction s as [|c t IH]; intros i idx d acc; cbn [rel tag_loop].
    - exists acc. reflexivity.
    - unfold st, en. rewrite !pstr_eqb_single. destruct (N.eqb c a) eqn:Ea.
      + replace (Z.of_nat d + 1)%Z with (Z.of_nat (S d)) by lia. apply IH.
      + destruct (N.eqb c b) eqn:Eb.
        * destruct d as [|d'].
          -- cbn. reflexivity.
          -- replace (Z.of_nat (S d') - 1)%Z with (Z.of_nat d') by lia.
             destruct (Z.eqb (Z.of_nat d') 0) eqn:E0.
             ++ apply IH.
             ++ destruct (Z.ltb (Z.of_nat d') 0) eqn:E1; [lia|]. apply IH.
        * apply IH.
  Qed.

  (* unbalanced delimiters are exactly what get_tag_indices rejects *)
  Theorem get_tag_indices_balanced s :
    (exists ix, get_tag_indices s st en = Ok ix) <-> balanced a b s.
  Proof.
    unfold get_tag_indices, balanced.
    pose proof (tag_loop_rel s 0 0 0 []) as H. cbn [Z.of_nat] in H.
    destruct (rel a b s 0) as [d'|].
    - destruct H as [acc' H]. rewrite H. cbn. destruct d' as [|d'']; cbn.
      + split; [reflexivity|]. intros _. exists acc'. reflexivity.
      + split; [intros [ix E]; discriminate|discriminate].
    - rewrite H. cbn. split; [intros [ix E]; discriminate|discriminate].
  Qed.

  Theorem get_tag_indices_unbalanced s :
    get_tag_indices s st en = Raise EInvalidPattern <-> ~ balanced a b s.
  Proof.
    rewrite <- get_tag_indices_balanced. unfold get_tag_indices.
    pose proof (tag_loop_rel s 0 0 0 []) as H. cbn [Z.of_nat] in H.
    destruct (rel a b s 0) as [d'|].
    - destruct H as [acc' H]. rewrite H. cbn. destruct (Z.eqb (Z.of_nat d') 0).
      + split; [discriminate|]. intros N. exfalso. apply N. eexists. reflexivity.
      + split; [|reflexivity]. intros _ [ix E]. discriminate.
    - rewrite H. cbn. split; [|reflexivity]. intros _ [ix E]. discriminate.
  Qed.

  (* ---- structured elements ---- *)
  Definition no_tags (l : pstr) : bool := forallb (fun c => negb (N.eqb c a) && negb (N.eqb c b)) l.

  Fixpoint render (ps : list (pstr * pstr)) (last : pstr) : pstr :=
    match ps with
    | [] => last
    | (l, s) :: r => l ++ a :: s ++ b :: render r last
    end.

  Fixpoint pieces_of (ps : list (pstr * pstr)) (last : pstr) : list piece :=
    match ps with
    | [] => [PLit last]
    | (l, s) :: r => PLit l :: PSeg s :: pieces_of r last
    end.

  Fixpoint wf_el (ps : list (pstr * pstr)) (last : pstr) : Prop :=
    match ps with
    | [] => no_tags last = true
    | (l, s) :: r => no_tags l = true /\ balanced a b s /\ wf_el r last
    end.

  Fixpoint indices_of (ps : list (pstr * pstr)) (off : nat) : list nat :=
    match ps with
    | [] => []
    | (l, s) :: r =>
        (off + length l) :: (off + length l + length s + 2) :: indices_of r (off + length l + length s + 2)
    end.

  Lemma lit_step l : no_tags l = true -> forall rest i idx lev acc,
    tag_loop st en (l ++ rest) i idx lev acc = tag_loop st en rest (i + length l) idx lev acc.
  Proof.
    induction l as [|c t IH]; intros Hl rest i idx lev acc; cbn [app length tag_loop].
    - rewrite Nat.add_0_r. reflexivity.
    - cbn in Hl. apply andb_true_iff in Hl as [Hc Ht]. apply andb_true_iff in Hc as [Ha Hb].
      unfold st, en. rewrite !pstr_eqb_single.
      apply negb_true_iff in Ha, Hb. rewrite Ha, Hb.
      fold st en. rewrite (IH Ht). f_equal. lia.
  Qed.

  Lemma seg_step s : forall d d' L rest i idx acc,
    rel a b s d = Some d' -> (1 <= L)%Z ->
    tag_loop st en (s ++ rest) i idx (L + Z.of_nat d) acc =
    tag_loop st en rest (i + length s) idx (L + Z.of_nat d') acc.
  Proof.
    induction s as [|c t IH]; intros d d' L rest i idx acc Hr HL; cbn [app length tag_loop rel] in *.
    - injection Hr as <-. rewrite Nat.add_0_r. reflexivity.
    - unfold st, en. rewrite !pstr_eqb_single. fold st en.
      destruct (N.eqb c a) eqn:Ea.
      + replace (L + Z.of_nat d + 1)%Z with (L + Z.of_nat (S d))%Z by lia.
        destruct (Z.eqb (L + Z.of_nat (S d)) 1) eqn:E1; [lia|].
        rewrite (IH _ _ _ _ _ _ _ Hr HL). f_equal. lia.
      + destruct (N.eqb c b) eqn:Eb.
        * destruct d as [|d0]; [discriminate|].
          replace (L + Z.of_nat (S d0) - 1)%Z with (L + Z.of_nat d0)%Z by lia.
          destruct (Z.eqb (L + Z.of_nat d0) 0) eqn:E0; [lia|].
          destruct (Z.ltb (L + Z.of_nat d0) 0) eqn:E1; [lia|].
          rewrite (IH _ _ _ _ _ _ _ Hr HL). f_equal. lia.
        * rewrite (IH _ _ _ _ _ _ _ Hr HL). f_equal. lia.
  Qed.

  Lemma scan_el ps last : wf_el ps last -> forall i idx acc,
    tag_loop st en (render ps last) i idx 0%Z acc = Ok (acc ++ indices_of ps i, 0%Z).
  Proof.
    induction ps as [|[l s] r IH]; intros Hwf i idx acc; cbn [render indices_of wf_el] in *.
    - rewrite <- (app_nil_r last). rewrite (lit_step _ Hwf). cbn. rewrite app_nil_r. reflexivity.
    - destruct Hwf as [Hl [Hs Hr]].
      rewrite (lit_step _ Hl). cbn [tag_loop].
      unfold st, en. rewrite !pstr_eqb_single, N.eqb_refl. fold st en.
      cbn [Z.add Z.eqb Pos.eqb].
      change (s ++ b :: render r last) with (s ++ (b :: render r last)).
      pose proof (seg_step s 0 0 1%Z (b :: render r last) (S (i + length l)) (i + length l) acc Hs ltac:(lia)) as Hseg.
      cbn [Z.of_nat Z.add] in Hseg. rewrite Hseg. cbn [tag_loop].
      unfold st, en. rewrite !pstr_eqb_single. fold st en.
      assert (Eba : N.eqb b a = false) by (apply N.eqb_neq; congruence).
      rewrite Eba, N.eqb_refl. cbn [Z.sub Z.add Z.opp Z.pos_sub Z.eqb].
      rewrite (IH Hr). rewrite <- app_assoc. cbn [app].
      repeat f_equal; lia.
  Qed.

  Lemma get_tag_indices_render ps last : wf_el ps last ->
    get_tag_indices (render ps last) st en = Ok (indices_of ps 0).
  Proof.
    intros Hwf. unfold get_tag_indices. rewrite (scan_el _ _ Hwf). cbn. reflexivity.
  Qed.

  Lemma skipn_len_app {A} (p x : list A) : skipn (length p) (p ++ x) = x.
  Proof. induction p; cbn; [reflexivity|assumption]. Qed.
  Lemma firstn_len_app {A} (p x : list A) : firstn (length p) (p ++ x) = p.
  Proof. induction p; cbn; [reflexivity|f_equal; assumption]. Qed.

  Lemma pieces_loop_render ps last : forall pre,
    pieces_loop (pre ++ render ps last) (indices_of ps (length pre)) (length pre) = pieces_of ps last.
  Proof.
    induction ps as [|[l s] r IH]; intros pre; cbn [render indices_of pieces_loop pieces_of].
    - rewrite skipn_len_app. reflexivity.
    - f_equal; [|f_equal].
      + unfold slice. rewrite skipn_len_app.
        replace (length pre + length l - length pre) with (length l) by lia.
        rewrite firstn_len_app. reflexivity.
      + unfold slice.
        replace (pre ++ l ++ a :: s ++ b :: render r last)
          with ((pre ++ l ++ [a]) ++ s ++ b :: render r last)
          by (rewrite <- !app_assoc; reflexivity).
        replace (S (length pre + length l)) with (length (pre ++ l ++ [a]))
          by (rewrite !app_length; cbn; lia).
        rewrite skipn_len_app.
        replace (length pre + length l + length s + 2 - 1 - length (pre ++ l ++ [a])) with (length s)
          by (rewrite !app_length; cbn; lia).
        rewrite firstn_len_app. reflexivity.
      + specialize (IH (pre ++ l ++ a :: s ++ [b])).
        replace (length (pre ++ l ++ a :: s ++ [b])) with (length pre + length l + length s + 2) in IH
          by (rewrite !app_length; cbn; rewrite app_length; cbn; lia).
        replace ((pre ++ l ++ a :: s ++ [b]) ++ render r last)
          with (pre ++ l ++ a :: s ++ b :: render r last) in IH
          by (rewrite <- !app_assoc; cbn; rewrite <- app_assoc; reflexivity).
        exact IH.
  Qed.

  (* the scanner recovers the top-level pieces of any well-formed element *)
  Theorem compile_pieces_render ps last : wf_el ps last ->
    compile_pieces (render ps last) st en = Ok (pieces_of ps last).
  Proof.
    intros Hwf. unfold compile_pieces. rewrite (get_tag_indices_render _ _ Hwf). cbn [bind].
    f_equal. apply (pieces_loop_render ps last []).
  Qed.

  Lemma mem_render ps last : ps <> [] -> mem_N a (render ps last) = true /\ mem_N b (render ps last) = true.
  Proof.
    destruct ps as [|[l s] r]; [contradiction|]. intros _. cbn [render]. unfold mem_N.
    split; rewrite existsb_app; apply orb_true_iff; right; cbn [existsb].
    - rewrite N.eqb_refl. reflexivity.
    - rewrite existsb_app. apply orb_true_iff. right. apply orb_true_iff. right. cbn. rewrite N.eqb_refl. reflexivity.
  Qed.
End scanner.

(* ---- `x in s` for a one-character x ---- *)
Lemma is_substr_single c s : is_substr [c] s = mem_N c s.
Proof.
  induction s as [|y s IH]; cbn; [reflexivity|].
  rewrite IH. rewrite andb_true_r. reflexivity.
Qed.

Lemma mem_N_no_tags a b l : no_tags a b l = true -> mem_N a l = false /\ mem_N b l = false.
Proof.
  unfold no_tags, mem_N. induction l as [|c l IH]; cbn; [split; reflexivity|].
  intros H. apply andb_true_iff in H as [Hc Hl]. apply andb_true_iff in Hc as [Ha Hb].
  destruct (IH Hl) as [I1 I2]. rewrite I1, I2.
  apply negb_true_iff in Ha, Hb. rewrite (N.eqb_sym a c), (N.eqb_sym b c), Ha, Hb. split; reflexivity.
Qed.

(* ---- what the compiled pattern accepts ---- *)
Definition piece_accepts (rxof : pstr -> option rx) (p : piece) (s : pstr) : Prop :=
  match p with
  | PLit l => s = l
  | PSeg src => exists r, rxof src = Some r /\ In_lang r s
  end.

Lemma pieces_rx_lang rxof ps : forall x, pieces_rx rxof ps = Some x ->
  forall v, In_lang x v <-> exists parts, v = concat parts /\ Forall2 (piece_accepts rxof) ps parts.
Proof.
  induction ps as [|p ps IH]; intros x Hx v; cbn in Hx.
  - injection Hx as <-. split.
    + intros H. inversion H; subst. exists []. split; [reflexivity|constructor].
    + intros [parts [-> H]]. inversion H; subst. constructor.
  - destruct p as [l|src].
    + destruct (pieces_rx rxof ps) as [y|] eqn:Ey; [|discriminate]. injection Hx as <-. split.
      * intros H. inversion H as [| | | |a' b' s1 s2 H1 H2 E1 E2| | | | | | |]; subst.
        apply rx_lit_lang in H1. subst s1.
        apply (IH y eq_refl) in H2 as [parts [-> HF]].
        exists (l :: parts). split; [reflexivity|constructor; [reflexivity|exact HF]].
      * intros [parts [-> HF]]. inversion HF as [|p' s' ps' parts' Hp Hr]; subst. cbn in Hp. subst s'.
        cbn [concat]. constructor; [apply rx_lit_lang; reflexivity|].
        apply (IH y eq_refl). exists parts'. split; [reflexivity|exact Hr].
    + destruct (rxof src) as [r|] eqn:Er; [|discriminate].
      destruct (pieces_rx rxof ps) as [y|] eqn:Ey; [|discriminate]. injection Hx as <-. split.
      * intros H. inversion H as [| | | |a' b' s1 s2 H1 H2 E1 E2| | | | | | |]; subst.
        apply (IH y eq_refl) in H2 as [parts [-> HF]].
        exists (s1 :: parts). split; [reflexivity|constructor; [|exact HF]].
        exists r. split; assumption.
      * intros [parts [-> HF]]. inversion HF as [|p' s' ps' parts' Hp Hr]; subst.
        destruct Hp as [r' [Er' Hl]]. rewrite Er in Er'. injection Er' as <-.
        cbn [concat]. constructor; [exact Hl|].
        apply (IH y eq_refl). exists parts'. split; [reflexivity|exact Hr].
Qed.

(* ---- one element under the regex checker ---- *)
Definition untagged (p : policy) (i : pstr) : bool :=
  negb (is_substr (p_start p) i) && negb (is_substr (p_end p) i).

(* the verdict of one element as a boolean, when the element is well formed *)
Definition accepts_b (rxof : pstr -> option rx) (p : policy) (i v : pstr) : bool :=
  if untagged p i then pstr_eqb i v
  else match compile_pieces i (p_start p) (p_end p) with
       | Ok ps => match pieces_rx rxof ps with Some x => rmatch x v | None => false end
       | Raise _ => false
       end.

Definition wf_elem (rxof : pstr -> option rx) (p : policy) (i : pstr) : Prop :=
  untagged p i = true \/
  exists ps x, compile_pieces i (p_start p) (p_end p) = Ok ps /\ pieces_rx rxof ps = Some x.

Lemma regex_item_wf rxof p i v : wf_elem rxof p i ->
  regex_item rxof p i (VStr v) = Ok (if accepts_b rxof p i v then Some true else None).
Proof.
  intros [H|[ps [x [Hc Hx]]]]; unfold regex_item, accepts_b, untagged in *.
  - rewrite H. destruct (pstr_eqb i v); reflexivity.
  - destruct (negb (is_substr (p_start p) i) && negb (is_substr (p_end p) i)).
    + destruct (pstr_eqb i v); reflexivity.
    + rewrite Hc, Hx. destruct (rmatch x v); reflexivity.
Qed.

Lemma regex_item_untagged rxof p i w : untagged p i = true ->
  regex_item rxof p i w = Ok (match w with VStr t => if pstr_eqb i t then Some true else None | _ => None end).
Proof. unfold regex_item, untagged. intros ->. destruct w; try reflexivity. destruct (pstr_eqb i s); reflexivity. Qed.

Lemma regex_item_unbalanced rxof p i w : untagged p i = false ->
  compile_pieces i (p_start p) (p_end p) = Raise EInvalidPattern ->
  regex_item rxof p i w = Ok (Some false).
Proof. unfold regex_item, untagged. intros -> ->. reflexivity. Qed.

Definition str_elems (es : list elem) : list pstr :=
  flat_map (fun e => match e with EStr s => [s] | _ => [] end) es.

Lemma fits_regex_wf rxof p es v :
  Forall (wf_elem rxof p) (str_elems es) ->
  fits_regex_loop rxof p es (VStr v) = Ok (existsb (fun i => accepts_b rxof p i v) (str_elems es)).
Proof.
  induction es as [|e es IH]; intros H; cbn; [reflexivity|].
  destruct e as [i|r|kvs]; cbn in *; try (apply IH, H).
  inversion H as [|i' l' Hi Hr]; subst.
  rewrite (regex_item_wf _ _ _ _ Hi). cbn. destruct (accepts_b rxof p i v); cbn; [reflexivity|apply IH, Hr].
Qed.

(* an unbalanced element never matches (and ends the scan of the field) *)
Lemma fits_regex_unbalanced_head rxof p i es w : untagged p i = false ->
  compile_pieces i (p_start p) (p_end p) = Raise EInvalidPattern ->
  fits_regex_loop rxof p (EStr i :: es) w = Ok false.
Proof. intros H1 H2. cbn. rewrite (regex_item_unbalanced _ _ _ _ H1 H2). reflexivity. Qed.

(* ---- the split characterisation for structured elements ---- *)
Section split.
  Variables a b : N.
  Hypothesis Hab : a <> b.
  Variable rxof : pstr -> option rx.
  Variable p : policy.
  Hypothesis Hst : p_start p = [a].
  Hypothesis Hen : p_end p = [b].

  Definition segs_known (ps : list (pstr * pstr)) : Prop :=
    Forall (fun ls => exists r, rxof (snd ls) = Some r) ps.

  Lemma pieces_rx_known ps last : segs_known ps -> exists x, pieces_rx rxof (pieces_of ps last) = Some x.
  Proof.
    induction ps as [|[l s] r IH]; intros H; cbn.
    - eexists. reflexivity.
    - inversion H as [|x l' [rx0 Hx] Hr]; subst. cbn in Hx. rewrite Hx.
      destruct (IH Hr) as [y Hy]. rewrite Hy. eexists. reflexivity.
  Qed.

  Theorem accepts_split ps last v : wf_el a b ps last -> segs_known ps ->
    (accepts_b rxof p (render a b ps last) v = true <->
     exists parts, v = concat parts /\ Forall2 (piece_accepts rxof) (pieces_of ps last) parts).
  Proof.
    intros Hwf Hk. unfold accepts_b, untagged. rewrite Hst, Hen, !is_substr_single.
    destruct ps as [|[l s] r].
    - cbn [render pieces_of wf_el] in *. destruct (mem_N_no_tags _ _ _ Hwf) as [-> ->]. cbn.
      rewrite pstr_eqb_eq. split.
      + intros <-. exists [last]. split; [cbn; rewrite app_nil_r; reflexivity|].
        constructor; [reflexivity|constructor].
      + intros [parts [-> HF]]. inversion HF as [|p' s' ps' parts' Hp Hr]; subst. inversion Hr; subst.
        cbn in Hp. subst. cbn. rewrite app_nil_r. reflexivity.
    - destruct (mem_render a b ((l, s) :: r) last ltac:(discriminate)) as [-> ->]. cbn [negb andb].
      rewrite (compile_pieces_render a b Hab _ _ Hwf).
      destruct (pieces_rx_known _ last Hk) as [x Hx]. rewrite Hx.
      rewrite rmatch_spec. apply (pieces_rx_lang _ _ _ Hx).
  Qed.

  Theorem wf_elem_render ps last : wf_el a b ps last -> segs_known ps ->
    wf_elem rxof p (render a b ps last).
  Proof.
    intros Hwf Hk. destruct ps as [|[l s] r].
    - left. unfold untagged. rewrite Hst, Hen, !is_substr_single. cbn [render wf_el] in *.
      destruct (mem_N_no_tags _ _ _ Hwf) as [-> ->]. reflexivity.
    - right. destruct (pieces_rx_known _ last Hk) as [x Hx].
      exists (pieces_of ((l, s) :: r) last), x. split; [|exact Hx].
      rewrite Hst, Hen. apply (compile_pieces_render a b Hab _ _ Hwf).
  Qed.
End split.

(* the text of the compiled pattern *)
Lemma pattern_src_spec ps : pattern_src ps = [94%N] ++ flat_map piece_src ps ++ [36%N].
Proof. reflexivity. Qed.
