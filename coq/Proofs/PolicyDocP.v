(* PolicyDocP: reading the JSON document of a written policy gives back the written attribute state. *)
From Coq Require Import ZArith NArith List Bool String Lia.
From Vakt Require Import Base.PyMonad Base.PyVal Model.Regex Model.Net Model.Rules Model.Policy Model.RuleJson
     Proofs.PyValP Proofs.PolicyP Proofs.RuleJsonP Proofs.PolicyJsonP.
From Vakt Require Import Model.PolicyDoc.
Import ListNotations.

(* ---------- a generic round trip through mapO ---------- *)
Section mapO_round.
  Context {A B : Type} (enc : A -> option B) (dec : nat -> B -> option A) (depth : A -> nat) (ok : A -> bool)
          (Q : B -> Prop).
  Hypothesis one : forall a, ok a = true ->
    exists b, enc a = Some b /\ Q b /\ forall f, depth a <= f -> dec f b = Some a.

  Lemma mapO_round l : forallb ok l = true ->
    exists bs, mapO enc l = Some bs /\ Forall Q bs /\
               forall f, fold_right (fun a m => Nat.max (depth a) m) 0 l <= f -> mapO (dec f) bs = Some l.
  Proof.
    induction l as [|a r IH]; intros H.
    - exists []. split; [reflexivity|]. split; [constructor|]. intros; reflexivity.
    - cbn in H. apply andb_true_iff in H as [H1 H2].
      destruct (one a H1) as [b [Eb [Qb Db]]]. destruct (IH H2) as [bs [Ebs [Qbs Dbs]]].
      exists (b :: bs). split; [cbn; rewrite Eb, Ebs; reflexivity|]. split; [constructor; assumption|].
      intros f Hf. cbn [fold_right] in Hf. cbn [mapO]. rewrite (Db f) by lia. rewrite (Dbs f) by lia. reflexivity.
  Qed.
End mapO_round.

(* ---------- objects and plain values do not look alike ---------- *)
Lemma rule_val_is_obj r v : rule_val r = Some v -> is_obj v = true.
Proof.
  destruct r; cbn -[pstr_eqb]; intros H;
    repeat match type of H with
           | match ?x with _ => _ end = Some _ => destruct x; try discriminate
           end;
    first [discriminate | injection H as <-; reflexivity].
Qed.

Lemma reserved_object : reserved k_object = true.
Proof. reflexivity. Qed.

Lemma plain_not_obj x : plain x = true -> is_obj (enc_val x) = false.
Proof.
  destruct x as [|b|z|m j|s|l|l|kvs]; try reflexivity.
  destruct kvs as [|[k y] r]; [reflexivity|]. intros H. cbn [plain] in H.
  apply andb_true_iff in H as [H _]. apply andb_true_iff in H as [H _].
  cbn [enc_val is_obj]. destruct (enc_val y); try reflexivity.
  destruct (pstr_eqb k k_object) eqn:E; [|reflexivity]. apply pstr_eqb_eq in E. subst k. discriminate H.
Qed.

(* ---------- dictionaries of rules ---------- *)
Lemma kv_round kr : encodable (snd kr) = true ->
  exists kv, enc_kv kr = Some kv /\ is_obj (snd kv) = true /\
             forall f, rdepth (snd kr) <= f -> dec_kv f kv = Some kr.
Proof.
  destruct kr as [k r]. cbn [snd]. intros He. destruct (rule_round_trip r He) as [v [Ev Dv]].
  exists (k, v). unfold enc_kv, dec_kv. cbn [fst snd]. rewrite Ev. split; [reflexivity|].
  split; [exact (rule_val_is_obj r v Ev)|]. intros f Hf. rewrite (Dv f Hf). reflexivity.
Qed.

Lemma kvs_round kvs : canon_kvs kvs = true ->
  exists vs, mapO enc_kv kvs = Some vs /\ rules_dict vs = true /\
             forall f, kvs_depth kvs <= f -> mapO (dec_kv f) vs = Some kvs.
Proof.
  intros H.
  destruct (mapO_round enc_kv dec_kv (fun kr => rdepth (snd kr)) (fun kr => encodable (snd kr))
                       (fun kv => is_obj (snd kv) = true) kv_round kvs H) as [vs [E [Q D]]].
  exists vs. split; [exact E|]. split; [|exact D].
  unfold rules_dict. apply forallb_forall. intros x Hx. rewrite Forall_forall in Q. exact (Q x Hx).
Qed.

(* a dictionary of rule objects is not itself an object *)
Lemma rules_dict_not_obj vs : rules_dict vs = true -> is_obj (VDict vs) = false.
Proof.
  destruct vs as [|[k v] r]; [reflexivity|]. cbn. intros H. apply andb_true_iff in H as [H _].
  destruct v; try reflexivity. discriminate H.
Qed.

(* ---------- elements ---------- *)
Lemma bad_round x f : canon_bad x = true -> dec_elemv f (enc_val x) = Some (XBad x).
Proof.
  unfold canon_bad. intros H. apply andb_true_iff in H as [Hp Hs].
  pose proof (dec_enc_val x Hp) as D. pose proof (plain_not_obj x Hp) as O.
  destruct x as [|b|z|m j|s|l|l|kvs]; try reflexivity; try discriminate Hs.
  - cbn [enc_val dec_elemv]. cbn [enc_val] in D. rewrite D. reflexivity.
  - (* a tuple: {"py/tuple": [...]} *)
    cbn [enc_val] in *. unfold dec_elemv. rewrite O. cbn [rules_dict forallb snd is_obj andb]. rewrite D. reflexivity.
  - destruct kvs as [|[k y] r]; [discriminate Hs|].
    cbn [enc_val] in *. unfold dec_elemv. rewrite O.
    assert (R : rules_dict ((fix go (l : list (pstr * val)) : list (pstr * val) :=
                               match l with [] => [] | (k0, x) :: r0 => (k0, enc_val x) :: go r0 end) ((k, y) :: r)) = false).
    { cbn [rules_dict forallb snd]. cbn [plain] in Hp. apply andb_true_iff in Hp as [Hp _].
      apply andb_true_iff in Hp as [_ Hy]. rewrite (plain_not_obj y Hy). reflexivity. }
    rewrite R, D. reflexivity.
Qed.

Lemma elemv_round e : canon_elemv e = true ->
  exists v, enc_elemv e = Some v /\ True /\ forall f, elemv_depth e <= f -> dec_elemv f v = Some e.
Proof.
  destruct e as [s|r|kvs|x]; cbn [canon_elemv enc_elemv elemv_depth]; intros H.
  - exists (VStr s). repeat split.
  - destruct (rule_round_trip r H) as [v [Ev Dv]]. exists v. split; [exact Ev|]. split; [exact I|].
    intros f Hf. pose proof (rule_val_is_obj r v Ev) as O.
    destruct v as [| | | | | | |vs]; try discriminate O. unfold dec_elemv. rewrite O, (Dv f Hf). reflexivity.
  - destruct (kvs_round kvs H) as [vs [E [R D]]]. exists (VDict vs). rewrite E. split; [reflexivity|]. split; [exact I|].
    intros f Hf. unfold dec_elemv. rewrite (rules_dict_not_obj vs R), R, (D f Hf). reflexivity.
  - exists (enc_val x). split; [reflexivity|]. split; [exact I|]. intros f _. apply bad_round. exact H.
Qed.

Lemma elems_round es : forallb canon_elemv es = true ->
  exists vs, mapO enc_elemv es = Some vs /\
             forall f, fold_right (fun e m => Nat.max (elemv_depth e) m) 0 es <= f -> mapO (dec_elemv f) vs = Some es.
Proof.
  intros H. destruct (mapO_round enc_elemv dec_elemv elemv_depth canon_elemv (fun _ => True) elemv_round es H)
    as [vs [E [_ D]]]. exists vs. split; assumption.
Qed.

(* ---------- attribute values ---------- *)
Lemma scalar_round x f : plain_scalar x = true -> dec_aval f (enc_val x) = Some (AV x).
Proof.
  unfold plain_scalar. intros H. apply andb_true_iff in H as [Hp Hs].
  pose proof (dec_enc_val x Hp) as D.
  destruct x as [|b|z|m j|s|l|l|kvs]; try reflexivity; try discriminate Hs.
  destruct kvs as [|[k y] r]; [discriminate Hs|].
  assert (Hk : pstr_eqb k k_tuple = false).
  { cbn [plain] in Hp. apply andb_true_iff in Hp as [Hp _]. apply andb_true_iff in Hp as [Hk _].
    destruct (pstr_eqb k k_tuple) eqn:E; [|reflexivity]. apply pstr_eqb_eq in E. subst k. discriminate Hk. }
  assert (Hy : is_obj (enc_val y) = false).
  { cbn [plain] in Hp. apply andb_true_iff in Hp as [Hp _]. apply andb_true_iff in Hp as [_ Hy].
    exact (plain_not_obj y Hy). }
  cbn [enc_val] in *. unfold dec_aval.
  destruct r as [|kv2 r2]; [|destruct kv2 as [k2 y2]];
    destruct (enc_val y) eqn:Ey; rewrite ?Ey in Hy; rewrite ?Ey in D;
    cbn [rules_dict forallb snd]; rewrite ?Hk, ?Hy; cbn [andb]; rewrite D; reflexivity.
Qed.

Lemma aval_round a : canon_aval a = true ->
  exists v, enc_aval a = Some v /\ forall f, aval_depth a <= f -> dec_aval f v = Some a.
Proof.
  destruct a as [x|tup es|kvs]; cbn [canon_aval enc_aval aval_depth]; intros H.
  - exists (enc_val x). split; [reflexivity|]. intros f _. apply scalar_round. exact H.
  - destruct (elems_round es H) as [vs [E D]]. destruct tup.
    + exists (VDict [(k_tuple, VList vs)]). rewrite E. split; [reflexivity|]. intros f Hf.
      unfold dec_aval. replace (pstr_eqb k_tuple k_tuple) with true by (symmetry; apply pstr_eqb_refl).
      rewrite (D f Hf). reflexivity.
    + exists (VList vs). rewrite E. split; [reflexivity|]. intros f Hf. cbn [dec_aval]. rewrite (D f Hf). reflexivity.
  - destruct (kvs_round kvs H) as [vs [E [R D]]]. exists (VDict vs). rewrite E. split; [reflexivity|].
    intros f Hf. unfold dec_aval.
    destruct vs as [|[k v] [|kv2 r2]].
    + cbn [rules_dict forallb]. rewrite (D f Hf). reflexivity.
    + (* one entry: its value is a rule object, not a list *)
      pose proof R as R'. cbn [rules_dict forallb snd] in R'. apply andb_true_iff in R' as [O _].
      destruct v; try discriminate O. rewrite R, (D f Hf). reflexivity.
    + destruct v; rewrite R, (D f Hf); reflexivity.
Qed.

Lemma attr_round na : canon_aval (snd na) = true ->
  exists kv, enc_attr na = Some kv /\ True /\ forall f, aval_depth (snd na) <= f -> dec_attr f kv = Some na.
Proof.
  destruct na as [n a]. cbn [snd]. intros H. destruct (aval_round a H) as [v [E D]].
  exists (n, v). unfold enc_attr, dec_attr. cbn [fst snd]. rewrite E. split; [reflexivity|]. split; [exact I|].
  intros f Hf. rewrite (D f Hf). reflexivity.
Qed.

(* reading the document of a written state gives the state back *)
Theorem doc_round_trip s : canon_state s = true ->
  exists d, policy_doc s = Some d /\ forall f, state_depth s <= f -> props_of_doc f d = Some s.
Proof.
  intros H.
  destruct (mapO_round enc_attr dec_attr (fun na => aval_depth (snd na)) (fun na => canon_aval (snd na))
                       (fun _ => True) attr_round s H) as [kvs [E [_ D]]].
  exists (VDict kvs). unfold policy_doc. rewrite E. split; [reflexivity|]. exact D.
Qed.

(* the JSON path end to end: construct, write (to_json), parse, rebuild (jsonpickle), Policy.from_json *)
Theorem json_path_round_trip a s : ctor a = Ok s -> canon_state (data_of s) = true ->
  exists d, policy_doc (data_of s) = Some d /\
            forall f, state_depth (data_of s) <= f -> read_doc f d = Ok (data_of s).
Proof.
  intros Hc Hk. destruct (doc_round_trip (data_of s) Hk) as [d [E D]]. exists d. split; [exact E|].
  intros f Hf. unfold read_doc. rewrite (D f Hf). exact (written_then_read a s Hc).
Qed.
Print Assumptions json_path_round_trip.
