(* SqlSessionP: SQL mutations are committed when they return and atomic when they fail (C15). *)
From Coq Require Import ZArith List Bool.
From Vakt Require Import Base.PyMonad Model.Store Model.SqlSession Proofs.StoreP.
Import ListNotations.
Arguments Store.retrieve_all : simpl never.
Arguments Store.get_all : simpl never.

Section sql_proofs.
  Variables K V : Type.
  Variable keq klt : K -> K -> bool.

  Notation db := (db K V).
  Notation sql_step := (sql_step K V keq klt).
  Notation step := (Store.step K V keq klt SortedByUid).

  (* nothing pending, no failed transaction *)
  Definition settled (d : db) : Prop := work K V d = committed K V d /\ failed K V d = false.

  (* every operation, started from a settled session, ends settled: what it did is committed, nothing is
     left pending that a later operation could commit, no failed transaction is left behind; and it behaves
     exactly like the storage model of C08 on the committed store *)
  Theorem sql_step_settled d p : settled d ->
    settled (fst (sql_step d p)) /\
    committed K V (fst (sql_step d p)) = fst (step (committed K V d) p) /\
    snd (sql_step d p) = snd (step (committed K V d) p).
  Proof.
    intros [Hw Hf]. destruct d as [c w f]. cbn in Hw, Hf. subst w f.
    destruct p as [u x bad|u x bad|u|u|l off|b]; cbn.
    - unfold sql_add, sess_insert_commit. cbn. destruct bad; cbn; [repeat split|].
      destruct (s_get K V keq u c); cbn; repeat split.
    - unfold sql_update, sess_get. cbn. destruct (s_get K V keq u c); cbn; [|repeat split].
      unfold sess_update_commit. cbn. destruct bad; cbn; repeat split.
    - unfold sql_delete, sess_query_delete, sess_commit. cbn. repeat split.
    - repeat split.
    - destruct (get_all K V c l off); repeat split.
    - destruct (retrieve_all K V c b) as [[?|]|]; repeat split.
  Qed.

  Theorem committed_on_return d p : settled d -> raised K V (snd (sql_step d p)) = false ->
    other_session_view K V (fst (sql_step d p)) = fst (step (committed K V d) p) /\
    committed K V (crash K V (fst (sql_step d p))) = fst (step (committed K V d) p).
  Proof.
    intros Hs _. destruct (sql_step_settled d p Hs) as [_ [Hc _]]. unfold other_session_view. cbn. split; exact Hc.
  Qed.

  Theorem failure_atomic d p : settled d -> raised K V (snd (sql_step d p)) = true ->
    committed K V (fst (sql_step d p)) = committed K V d /\ settled (fst (sql_step d p)).
  Proof.
    intros Hs Hr. destruct (sql_step_settled d p Hs) as [Hs' [Hc Ho]]. split; [|exact Hs'].
    rewrite Hc. apply raised_unchanged. rewrite <- Ho. exact Hr.
  Qed.

  Lemma crash_settled d : settled (crash K V d).
  Proof. split; reflexivity. Qed.

  (* histories interleaved with crashes: the committed store is the C08 run of the operations, and a crash
     after any operation loses nothing that had returned *)
  Inductive ev : Type := Do (p : op K V) | Crash.

  Fixpoint run_ev (d : db) (l : list ev) : db :=
    match l with
    | [] => d
    | Do p :: r => run_ev (fst (sql_step d p)) r
    | Crash :: r => run_ev (crash K V d) r
    end.

  Fixpoint ops_of (l : list ev) : list (op K V) :=
    match l with [] => [] | Do p :: r => p :: ops_of r | Crash :: r => ops_of r end.

  Theorem history_committed l : forall d, settled d ->
    settled (run_ev d l) /\
    committed K V (run_ev d l) = fst (Store.run K V keq klt SortedByUid (committed K V d) (ops_of l)).
  Proof.
    induction l as [|e r IH]; intros d Hs; cbn; [split; [exact Hs|reflexivity]|].
    destruct e as [p|].
    - destruct (sql_step_settled d p Hs) as [Hs' [Hc _]].
      destruct (IH _ Hs') as [H1 H2]. split; [exact H1|]. rewrite H2, Hc. cbn.
      destruct (Store.step K V keq klt SortedByUid (committed K V d) p) as [s' x]. cbn.
      destruct (Store.run K V keq klt SortedByUid s' (ops_of r)). reflexivity.
    - destruct (IH _ (crash_settled d)) as [H1 H2]. split; [exact H1|]. rewrite H2. reflexivity.
  Qed.
End sql_proofs.
