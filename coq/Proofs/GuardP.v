(* GuardP: deny-overrides (C01), fail-closed totality (C02), audit truthfulness (C17). *)
From Coq Require Import ZArith NArith List Bool Lia Permutation.
From Vakt Require Import Base.PyMonad Base.PyVal Model.Regex Model.Net Model.Rules Model.Policy Model.Parser
     Model.Checkers Model.Guard Model.Audit Proofs.PyValP Proofs.RulesP Proofs.CheckersP.
Import ListNotations.

Section guard_proofs.
  Variable fits_ : policy -> pfield -> val -> option inquiry -> res bool.
  Variable q : inquiry.

  Definition matchb (p : policy) : bool :=
    match matches fits_ q p with Ok true => true | _ => false end.

  (* every evaluation the guard makes for p completes *)
  Definition clean (ps : list policy) : Prop := forall p, In p ps -> exists b, matches fits_ q p = Ok b.
  (* evaluations that raise raise Exceptions *)
  Definition benign_all (ps : list policy) : Prop := forall p, In p ps -> benign (matches fits_ q p).

  Lemma filterM_clean ps : clean ps -> filterM (matches fits_ q) ps = Ok (filter matchb ps).
  Proof.
    induction ps as [|p ps IH]; intros Hc; cbn; [reflexivity|].
    destruct (Hc p (or_introl eq_refl)) as [b Hb]. unfold matchb at 1. rewrite Hb. cbn.
    rewrite IH by (intros p' Hp'; apply Hc; now right). cbn. destruct b; reflexivity.
  Qed.

  Lemma filterM_raise ps e : filterM (matches fits_ q) ps = Raise e ->
    exists p, In p ps /\ matches fits_ q p = Raise e.
  Proof.
    induction ps as [|p ps IH]; cbn; [discriminate|].
    destruct (matches fits_ q p) as [b|e'] eqn:Ep; cbn.
    - destruct (filterM (matches fits_ q) ps) as [r|e''] eqn:Er; cbn; [discriminate|].
      intros [= <-]. destruct (IH eq_refl) as [p' [H1 H2]]. exists p'. split; [now right|exact H2].
    - intros [= <-]. exists p. split; [now left|exact Ep].
  Qed.

  Lemma filterM_ok_clean ps l : filterM (matches fits_ q) ps = Ok l -> clean ps.
  Proof.
    revert l. induction ps as [|p ps IH]; intros l H p' Hp'; [destruct Hp'|].
    cbn in H. destruct (matches fits_ q p) as [b|e] eqn:Ep; cbn in H; [|discriminate].
    destruct (filterM (matches fits_ q) ps) as [r|e] eqn:Er; cbn in H; [|discriminate].
    destruct Hp' as [<-|Hp']; [exists b; exact Ep|]. eapply IH; [reflexivity|exact Hp'].
  Qed.

  Lemma filter_lazy_map_inl ps : filter_lazy (matches fits_ q) (map inl ps) = filterM (matches fits_ q) ps.
  Proof. induction ps as [|p ps IH]; cbn; [reflexivity|]. rewrite IH. reflexivity. Qed.

  (* the decision as a closed formula over the matching subset *)
  Definition decision (ps : list policy) : bool :=
    let m := filter matchb ps in negb (is_nil m) && forallb allow_access m.

  Lemma decide_filtered_answer l : fst (decide_filtered l) = negb (is_nil l) && forallb allow_access l.
  Proof.
    unfold decide_filtered. destruct l as [|p l]; [reflexivity|].
    destruct (find (fun p0 => negb (allow_access p0)) (p :: l)) as [d|] eqn:Ef; cbn [fst is_nil negb andb].
    - apply find_some in Ef as [Hin Hd]. symmetry. apply not_true_is_false. intros Hall.
      rewrite forallb_forall in Hall. rewrite (Hall d Hin) in Hd. discriminate.
    - symmetry. apply forallb_forall. intros x Hx. pose proof (find_none _ _ Ef x Hx) as H.
      apply negb_false_iff in H. exact H.
  Qed.

  Theorem decide_clean ps : clean ps -> decide fits_ ps q = Ok (decision ps).
  Proof.
    intros Hc. unfold decide, is_allowed_check, check_policies_lazy.
    rewrite filter_lazy_map_inl, (filterM_clean _ Hc). cbn.
    rewrite decide_filtered_answer. reflexivity.
  Qed.

  Theorem decide_iff ps : clean ps ->
    (decide fits_ ps q = Ok true <->
       (exists p, In p ps /\ matchb p = true) /\
       (forall p, In p ps -> matchb p = true -> allow_access p = true)).
  Proof.
    intros Hc. rewrite (decide_clean _ Hc). unfold decision. split.
    - intros [= H]. apply andb_true_iff in H as [H1 H2]. split.
      + destruct (filter matchb ps) as [|p l] eqn:Ef; [discriminate|].
        exists p. apply filter_In. rewrite Ef. now left.
      + intros p Hin Hm. rewrite forallb_forall in H2. apply H2. apply filter_In. split; assumption.
    - intros [[p [Hin Hm]] Hall]. f_equal. apply andb_true_iff. split.
      + destruct (filter matchb ps) as [|x l] eqn:Ef; [|reflexivity].
        assert (In p []) by (rewrite <- Ef; apply filter_In; split; assumption). contradiction.
      + apply forallb_forall. intros x Hx. apply filter_In in Hx as [Hx1 Hx2]. apply Hall; assumption.
  Qed.

  Theorem default_deny ps : clean ps -> (forall p, In p ps -> matchb p = false) -> decide fits_ ps q = Ok false.
  Proof.
    intros Hc Hn. rewrite (decide_clean _ Hc). unfold decision.
    replace (filter matchb ps) with (@nil policy); [reflexivity|].
    symmetry. induction ps as [|p ps IH]; [reflexivity|]. cbn. rewrite (Hn p (or_introl eq_refl)).
    apply IH; [intros p' Hp'; apply Hc; now right|intros p' Hp'; apply Hn; now right].
  Qed.

  Theorem veto ps p : clean ps -> In p ps -> matchb p = true -> allow_access p = false ->
    decide fits_ ps q = Ok false.
  Proof.
    intros Hc Hin Hm Hd. rewrite (decide_clean _ Hc). unfold decision. f_equal.
    apply andb_false_iff. right. apply not_true_is_false. intros Hall. rewrite forallb_forall in Hall.
    rewrite (Hall p) in Hd; [discriminate|]. apply filter_In. split; assumption.
  Qed.

  (* any evaluation raising an Exception turns the answer into deny *)
  Lemma decide_not_clean ps : benign_all ps -> ~ clean ps -> decide fits_ ps q = Ok false.
  Proof.
    intros Hb Hnc. unfold decide, is_allowed_check, check_policies_lazy. rewrite filter_lazy_map_inl.
    destruct (filterM (matches fits_ q) ps) as [l|e] eqn:Ef.
    - exfalso. apply Hnc. eapply filterM_ok_clean, Ef.
    - destruct (filterM_raise _ _ Ef) as [p [Hin Hp]]. specialize (Hb p Hin). rewrite Hp in Hb. cbn in Hb.
      cbn. unfold catch_exception, try_except. cbn. rewrite Hb. reflexivity.
  Qed.

  Lemma filter_perm {A} (f : A -> bool) l l' : Permutation l l' -> Permutation (filter f l) (filter f l').
  Proof.
    induction 1 as [|x l l' P IH|x y l|l l' l'' P1 IH1 P2 IH2]; cbn.
    - constructor.
    - destruct (f x); [constructor|]; exact IH.
    - destruct (f x), (f y); try apply Permutation_refl. apply perm_swap.
    - eapply Permutation_trans; eassumption.
  Qed.

  Lemma decision_perm ps ps' : Permutation ps ps' -> decision ps = decision ps'.
  Proof.
    intros P. unfold decision. pose proof (filter_perm matchb _ _ P) as Q.
    rewrite (is_nil_perm _ _ Q), (forallb_perm _ _ _ Q). reflexivity.
  Qed.

  (* insertion order is irrelevant *)
  Theorem decide_perm ps ps' : benign_all ps -> Permutation ps ps' ->
    decide fits_ ps q = decide fits_ ps' q.
  Proof.
    intros Hb P.
    assert (Hb' : benign_all ps') by (intros p Hp; apply Hb; eapply Permutation_in; [apply Permutation_sym, P|exact Hp]).
    assert (Hdec : forall l, benign_all l -> (clean l /\ decide fits_ l q = Ok (decision l)) \/
                                             (~ clean l /\ decide fits_ l q = Ok false)).
    { intros l Hl. destruct (filterM (matches fits_ q) l) as [r|e] eqn:Ef.
      - left. pose proof (filterM_ok_clean _ _ Ef) as Hc. split; [exact Hc|apply decide_clean, Hc].
      - right. assert (Hnc : ~ clean l).
        { intros Hc. rewrite (filterM_clean _ Hc) in Ef. discriminate. }
        split; [exact Hnc|apply decide_not_clean; assumption]. }
    destruct (Hdec ps Hb) as [[Hc E]|[Hnc E]]; destruct (Hdec ps' Hb') as [[Hc' E']|[Hnc' E']]; rewrite E, E'.
    - f_equal. apply decision_perm, P.
    - exfalso. apply Hnc'. intros p Hp. apply Hc. eapply Permutation_in; [apply Permutation_sym, P|exact Hp].
    - exfalso. apply Hnc. intros p Hp. apply Hc'. eapply Permutation_in; [exact P|exact Hp].
    - reflexivity.
  Qed.

  (* ---------------- C02 ---------------- *)

  Theorem is_allowed_check_total fr e :
    is_allowed_check fits_ fr q = Raise e -> is_exception e = false.
  Proof.
    unfold is_allowed_check, catch_exception, try_except.
    match goal with |- context [match ?m with Ok _ => _ | Raise _ => _ end] => destruct m as [r|e'] end.
    - discriminate.
    - destruct (is_exception e') eqn:Ee; [discriminate|]. intros [= <-]. exact Ee.
  Qed.

  Theorem none_denies : is_allowed_check fits_ FNone q = Ok (false, []).
  Proof. reflexivity. Qed.

  Theorem storage_raise_denies e : is_exception e = true ->
    is_allowed_check fits_ (FRaise e) q = Ok (false, []).
  Proof. intros He. unfold is_allowed_check, catch_exception, try_except. rewrite He. reflexivity. Qed.

  Theorem evaluation_raise_denies items e : is_exception e = true ->
    filter_lazy (matches fits_ q) items = Raise e ->
    is_allowed_check fits_ (FIter items) q = Ok (false, []).
  Proof.
    intros He H. unfold is_allowed_check, check_policies_lazy. rewrite H. cbn.
    unfold catch_exception, try_except. rewrite He. reflexivity.
  Qed.

  Lemma filter_lazy_ok_inl items l : filter_lazy (matches fits_ q) items = Ok l ->
    exists ps, items = map inl ps /\ filterM (matches fits_ q) ps = Ok l.
  Proof.
    revert l. induction items as [|[p|e] items IH]; intros l H; cbn in H.
    - exists []. split; [reflexivity|exact H].
    - destruct (matches fits_ q p) as [b|] eqn:Ep; cbn in H; [|discriminate].
      destruct (filter_lazy (matches fits_ q) items) as [r|] eqn:Er; cbn in H; [|discriminate].
      destruct (IH r eq_refl) as [ps [-> Hps]]. exists (p :: ps). split; [reflexivity|].
      cbn. rewrite Ep, Hps. cbn. exact H.
    - discriminate.
  Qed.

  (* an allow answer is only ever given when some stored allow policy matched without any error *)
  Theorem allow_witness fr audits : is_allowed_check fits_ fr q = Ok (true, audits) ->
    exists ps, fr = FIter (map inl ps) /\ clean ps /\
      (exists p, In p ps /\ matchb p = true /\ allow_access p = true) /\
      (forall p, In p ps -> matchb p = true -> allow_access p = true).
  Proof.
    unfold is_allowed_check, catch_exception, try_except. destruct fr as [e|?|items].
    - destruct (is_exception e); discriminate.
    - discriminate.
    - unfold check_policies_lazy. destruct (filter_lazy (matches fits_ q) items) as [l|e] eqn:Ef; cbn.
      + intros [= Hans _]. destruct (filter_lazy_ok_inl _ _ Ef) as [ps [-> Hps]].
        exists ps. split; [reflexivity|]. pose proof (filterM_ok_clean _ _ Hps) as Hc. split; [exact Hc|].
        rewrite (filterM_clean _ Hc) in Hps. injection Hps as <-.
        rewrite decide_filtered_answer in Hans. apply andb_true_iff in Hans as [H1 H2].
        rewrite forallb_forall in H2. split.
        * destruct (filter matchb ps) as [|p l'] eqn:E; [discriminate|].
          assert (Hp : In p (filter matchb ps)) by (rewrite E; now left).
          exists p. pose proof Hp as Hp'. apply filter_In in Hp as [Hp1 Hp2]. repeat split; try assumption.
          apply H2. now left.
        * intros p Hin Hm. apply H2. apply filter_In. split; assumption.
      + destruct (is_exception e); discriminate.
  Qed.

  (* a fault anywhere in the iteration never produces allow *)
  Theorem fault_never_allows items e audits : In (inr e) items ->
    is_allowed_check fits_ (FIter items) q <> Ok (true, audits).
  Proof.
    intros Hin H. apply allow_witness in H as [ps [E _]]. injection E as ->.
    apply in_map_iff in Hin as [p [Hp _]]. discriminate.
  Qed.

  (* ---------------- C17 ---------------- *)

  Theorem one_audit ps : clean ps ->
    exists a, is_allowed_check fits_ (FIter (map inl ps)) q = Ok (decision ps, [a]) /\
      a_allow a = decision ps /\
      a_candidates a = filter matchb ps /\
      a_deciders a = (if decision ps then filter matchb ps
                      else match find (fun p => negb (allow_access p)) (filter matchb ps) with
                           | Some p => [p] | None => [] end).
  Proof.
    intros Hc. unfold is_allowed_check, check_policies_lazy.
    rewrite filter_lazy_map_inl, (filterM_clean _ Hc). cbn.
    unfold decision. set (m := filter matchb ps).
    pose proof (decide_filtered_answer m) as Ha.
    unfold decide_filtered in *. destruct m as [|p l] eqn:Em.
    - eexists. split; [reflexivity|]. cbn. repeat split; reflexivity.
    - destruct (find (fun p0 => negb (allow_access p0)) (p :: l)) as [d|] eqn:Ef; cbn [fst snd] in *.
      + rewrite <- Ha. eexists. split; [reflexivity|]. cbn. repeat split; reflexivity.
      + rewrite <- Ha. eexists. split; [reflexivity|]. cbn. repeat split; reflexivity.
  Qed.

  Theorem no_audit_on_error fr : (forall ps, fr <> FIter (map inl ps) \/ ~ clean ps) ->
    forall ans audits, is_allowed_check fits_ fr q = Ok (ans, audits) -> audits = [] /\ ans = false.
  Proof.
    intros Hbad ans audits. unfold is_allowed_check, catch_exception, try_except. destruct fr as [e|?|items].
    - destruct (is_exception e); [intros [= <- <-]; split; reflexivity|discriminate].
    - intros [= <- <-]. split; reflexivity.
    - unfold check_policies_lazy. destruct (filter_lazy (matches fits_ q) items) as [l|e] eqn:Ef; cbn.
      + destruct (filter_lazy_ok_inl _ _ Ef) as [ps [-> Hps]].
        destruct (Hbad ps) as [H|H]; [contradiction|]. exfalso. apply H. eapply filterM_ok_clean, Hps.
      + destruct (is_exception e); [intros [= <- <-]; split; reflexivity|discriminate].
  Qed.

  Theorem one_decision_log fr ans audits lg :
    is_allowed fits_ fr q = Ok (ans, audits, lg) -> lg = ans /\ is_allowed_check fits_ fr q = Ok (ans, audits).
  Proof.
    unfold is_allowed. destruct (is_allowed_check fits_ fr q) as [[a au]|e]; cbn; [|discriminate].
    intros [= <- <- <-]. split; reflexivity.
  Qed.
End guard_proofs.

(* uids do not influence the decision *)
Definition set_uid (u : val) (p : policy) : policy :=
  {| p_uid := u; p_effect := p_effect p; p_subjects := p_subjects p; p_resources := p_resources p;
     p_actions := p_actions p; p_context := p_context p; p_description := p_description p;
     p_type := p_type p; p_start := p_start p; p_end := p_end p |}.

Lemma fits_regex_loop_set_uid rxof u p es w :
  fits_regex_loop rxof (set_uid u p) es w = fits_regex_loop rxof p es w.
Proof.
  induction es as [|e es IH]; cbn; [reflexivity|]. destruct e; try exact IH.
  change (regex_item rxof (set_uid u p) s w) with (regex_item rxof p s w).
  destruct (regex_item rxof p s w) as [[b|]|]; cbn; try reflexivity. exact IH.
Qed.

Lemma fits_string_loop_set_uid cmp u p es w :
  fits_string_loop cmp (set_uid u p) es w = fits_string_loop cmp p es w.
Proof.
  induction es as [|e es IH]; cbn; [reflexivity|]. destruct e; try exact IH.
  destruct (cmp w (strip_tags (p_start p) (p_end p) s)) as [b|]; cbn; [|reflexivity].
  destruct b; [reflexivity|exact IH].
Qed.

Lemma fits_set_uid rxof ck u p f w i : fits rxof ck (set_uid u p) f w i = fits rxof ck p f w i.
Proof.
  destruct ck; cbn.
  - unfold fits_regex. destruct f; apply fits_regex_loop_set_uid.
  - unfold fits_exact. destruct f; apply fits_string_loop_set_uid.
  - unfold fits_fuzzy. destruct f; apply fits_string_loop_set_uid.
  - destruct f; reflexivity.
Qed.

Lemma matches_set_uid rxof ck q u p :
  matches (fits rxof ck) q (set_uid u p) = matches (fits rxof ck) q p.
Proof. unfold matches. rewrite !fits_set_uid. reflexivity. Qed.

Lemma filterM_map_uid rxof ck q (us : policy -> val) ps :
  filterM (matches (fits rxof ck) q) (map (fun p => set_uid (us p) p) ps) =
  rmap (map (fun p => set_uid (us p) p)) (filterM (matches (fits rxof ck) q) ps).
Proof.
  induction ps as [|p ps IH]; cbn; [reflexivity|].
  rewrite matches_set_uid. destruct (matches (fits rxof ck) q p) as [b|e]; cbn; [|reflexivity].
  rewrite IH. destruct (filterM (matches (fits rxof ck) q) ps) as [r|e]; cbn; [|reflexivity].
  destruct b; reflexivity.
Qed.

Lemma decide_filtered_map_uid (us : policy -> val) l :
  fst (decide_filtered (map (fun p => set_uid (us p) p) l)) = fst (decide_filtered l).
Proof.
  rewrite !decide_filtered_answer. f_equal.
  - destruct l; reflexivity.
  - induction l as [|p l IH]; cbn; [reflexivity|]. rewrite IH. reflexivity.
Qed.

Theorem decide_uid_irrelevant rxof ck q (us : policy -> val) ps :
  decide (fits rxof ck) (map (fun p => set_uid (us p) p) ps) q = decide (fits rxof ck) ps q.
Proof.
  unfold decide, is_allowed_check, check_policies_lazy. rewrite !filter_lazy_map_inl, filterM_map_uid.
  destruct (filterM (matches (fits rxof ck) q) ps) as [l|e]; cbn; [|reflexivity].
  rewrite decide_filtered_map_uid. reflexivity.
Qed.

(* constructor: a falsy effect becomes 'deny' *)
Lemma mk_policy_effect uid eff su re ac ctx d st en p :
  mk_policy uid eff su re ac ctx d st en = Some p ->
  p_effect p = (if truthy eff then eff else VStr s_deny).
Proof. unfold mk_policy. destruct (calc_type _); [|discriminate]. intros [= <-]. reflexivity. Qed.

(* rendering of audit message classes *)
Lemma render_count ps : render MsgCount ps = Ok ([99; 111; 117; 110; 116; 32; 61; 32]%N ++ Z_str (Z.of_nat (length ps))).
Proof. reflexivity. Qed.
Lemma render_nop ps : render MsgNop ps = Ok [].
Proof. reflexivity. Qed.
Lemma render_uid ps uids : mapM (fun p => str_of (p_uid p)) ps = Ok uids ->
  render MsgUid ps = Ok ([91%N] ++ pjoin comma_space uids ++ [93%N]).
Proof. intros H. cbn. rewrite H. reflexivity. Qed.
Lemma render_description ps ds : mapM (fun p => str_of (p_description p)) ps = Ok ds ->
  render MsgDescription ps = Ok ([91%N] ++ pjoin comma_space (map (fun d => [39%N] ++ d ++ [39%N]) ds) ++ [93%N]).
Proof. intros H. cbn. rewrite H. reflexivity. Qed.
