(* RulesP: laws of the built-in rules (C05). *)
From Coq Require Import ZArith NArith List Bool Lia Permutation.
From Vakt Require Import Base.PyMonad Base.PyVal Model.Regex Model.Net Model.Rules Proofs.PyValP Proofs.RegexP.
Import ListNotations.

Definition negv (v : val) : val := VBool (negb (truthy v)).

(* ---------- exact complements ---------- *)

Lemma noteq_complement a w i : sat (RNotEq a) w i = rmap negv (sat (REq a) w i).
Proof. reflexivity. Qed.

Lemma notin_complement d w i : sat (RNotIn d) w i = rmap negv (sat (RIn d) w i).
Proof. cbn. unfold py_in_set. destruct (hashable w); reflexivity. Qed.

Lemma allnotin_complement d w i : sat (RAllNotIn d) w i = rmap negv (sat (RAllIn d) w i).
Proof. cbn. destruct w; try reflexivity. destruct (to_set l); reflexivity. Qed.

Lemma falsy_complement w i : sat RFalsy w i = rmap negv (sat RTruthy w i).
Proof. reflexivity. Qed.

Lemma neither_complement w i : sat RNeither w i = rmap negv (sat RAny w i).
Proof. reflexivity. Qed.

Lemma not_negates r w i : sat (RNot r) w i = rmap negv (sat r w i).
Proof. cbn. destruct (sat r w i); reflexivity. Qed.

Lemma not_sat_b r w i : sat_b (RNot r) w i = rmap negb (sat_b r w i).
Proof. unfold sat_b. rewrite not_negates. destruct (sat r w i); reflexivity. Qed.

Lemma double_negation r w i : sat_b (RNot (RNot r)) w i = sat_b r w i.
Proof. rewrite !not_sat_b. destruct (sat_b r w i); cbn; [rewrite negb_involutive|]; reflexivity. Qed.

(* ---------- And / Or ---------- *)

Lemma and_unfold rs w i :
  sat (RAnd rs) w i =
  (answers <- sat_all rs w i ;; Ok (VBool (negb (is_nil answers) && forallb truthy answers))).
Proof.
  cbn. unfold sat_all.
  assert (E : forall l, (fix go (rs0 : list rule) : res (list val) :=
              match rs0 with
              | [] => Ok []
              | x :: t => a <- sat x w i;; r' <- go t;; Ok (a :: r')
              end) l = mapM (fun x => sat x w i) l).
  { induction l as [|x l IH]; cbn; [reflexivity|]. rewrite IH. reflexivity. }
  rewrite E. reflexivity.
Qed.

Definition or_loop (w : val) (i : option inquiry) : list rule -> res val :=
  fix go (rs : list rule) : res val :=
    match rs with
    | [] => Ok (VBool false)
    | x :: t => a <- sat x w i ;; if truthy a then Ok (VBool true) else go t
    end.

Lemma or_unfold rs w i : sat (ROr rs) w i = or_loop w i rs.
Proof. reflexivity. Qed.

Lemma and_empty w i : sat (RAnd []) w i = Ok (VBool false).
Proof. reflexivity. Qed.
Lemma or_empty w i : sat (ROr []) w i = Ok (VBool false).
Proof. reflexivity. Qed.

(* And: all operands are evaluated; it raises iff some operand raises (the first one, in order) *)
Lemma and_raises rs w i e : sat (RAnd rs) w i = Raise e <-> sat_all rs w i = Raise e.
Proof. rewrite and_unfold. destruct (sat_all rs w i); cbn; split; intros H; congruence. Qed.

Lemma and_value rs w i vs : sat_all rs w i = Ok vs ->
  sat (RAnd rs) w i = Ok (VBool (negb (is_nil rs) && forallb truthy vs)).
Proof.
  intros H. rewrite and_unfold, H. cbn. f_equal. f_equal. f_equal.
  unfold sat_all in H. revert vs H. destruct rs as [|x rs]; intros vs H; cbn in H.
  - injection H as <-. reflexivity.
  - destruct (sat x w i); cbn in H; [|discriminate].
    destruct (mapM _ rs); cbn in H; [|discriminate]. injection H as <-. reflexivity.
Qed.

Lemma sat_all_length rs w i vs : sat_all rs w i = Ok vs -> length vs = length rs.
Proof.
  unfold sat_all. revert vs. induction rs as [|x rs IH]; intros vs H; cbn in H.
  - injection H as <-. reflexivity.
  - destruct (sat x w i); cbn in H; [|discriminate].
    destruct (mapM _ rs) eqn:E; cbn in H; [|discriminate]. injection H as <-. cbn. f_equal. apply IH. reflexivity.
Qed.

Lemma sat_all_Forall2 rs w i vs :
  sat_all rs w i = Ok vs <-> Forall2 (fun r v => sat r w i = Ok v) rs vs.
Proof.
  unfold sat_all. revert vs. induction rs as [|x rs IH]; intros vs; cbn.
  - split; [intros [= <-]; constructor|intros H; inversion H; reflexivity].
  - split.
    + intros H. destruct (sat x w i) eqn:Ex; cbn in H; [|discriminate].
      destruct (mapM _ rs) eqn:E; cbn in H; [|discriminate]. injection H as <-.
      constructor; [exact Ex|apply IH; reflexivity].
    + intros H. inversion H as [|x' v rs' vs' Hx Hr]; subst. rewrite Hx. cbn.
      apply IH in Hr. rewrite Hr. reflexivity.
Qed.

(* And = conjunction, empty composition unsatisfied *)
Lemma and_conjunction rs w i vs : sat_all rs w i = Ok vs ->
  (sat_b (RAnd rs) w i = Ok true <-> rs <> [] /\ Forall (fun v => truthy v = true) vs).
Proof.
  intros H. unfold sat_b. rewrite (and_value _ _ _ _ H). cbn. split.
  - intros [= E]. apply andb_true_iff in E as [E1 E2]. split.
    + intros ->. discriminate.
    + apply Forall_forall. intros v Hv. rewrite forallb_forall in E2. apply E2, Hv.
  - intros [Hn Hall]. f_equal. apply andb_true_iff. split.
    + destruct rs; [contradiction|reflexivity].
    + apply forallb_forall. rewrite Forall_forall in Hall. exact Hall.
Qed.

(* Or = disjunction with short-circuit: true iff some operand is satisfied and every operand before it
   evaluated (without raising) to an unsatisfied answer *)
Lemma or_true rs w i :
  sat (ROr rs) w i = Ok (VBool true) <->
  exists pre r post v, rs = pre ++ r :: post /\ sat r w i = Ok v /\ truthy v = true /\
    Forall (fun x => exists u, sat x w i = Ok u /\ truthy u = false) pre.
Proof.
  rewrite or_unfold. induction rs as [|x rs IH]; cbn.
  - split; [discriminate|]. intros [pre [r [post [v [E _]]]]]. destruct pre; discriminate.
  - split.
    + intros H. destruct (sat x w i) as [a|] eqn:Ex; cbn in H; [|discriminate].
      destruct (truthy a) eqn:Ta.
      * exists [], x, rs, a. repeat split; try assumption. constructor.
      * apply IH in H as [pre [r [post [v [-> [H1 [H2 H3]]]]]]].
        exists (x :: pre), r, post, v. repeat split; try assumption.
        constructor; [exists a; split; assumption|exact H3].
    + intros [pre [r [post [v [E [H1 [H2 H3]]]]]]]. destruct pre as [|y pre]; cbn in E.
      * injection E as -> ->. rewrite H1. cbn. rewrite H2. reflexivity.
      * injection E as -> ->. inversion H3 as [|y' l' [u [Hu Tu]] Hr]; subst.
        rewrite Hu. cbn. rewrite Tu. apply IH. exists pre, r, post, v. repeat split; assumption.
Qed.

Lemma or_false rs w i :
  sat (ROr rs) w i = Ok (VBool false) <->
  Forall (fun x => exists u, sat x w i = Ok u /\ truthy u = false) rs.
Proof.
  rewrite or_unfold. induction rs as [|x rs IH]; cbn.
  - split; [constructor|reflexivity].
  - split.
    + intros H. destruct (sat x w i) as [a|] eqn:Ex; cbn in H; [|discriminate].
      destruct (truthy a) eqn:Ta; [discriminate|].
      constructor; [exists a; split; assumption|apply IH, H].
    + intros H. inversion H as [|x' l' [u [Hu Tu]] Hr]; subst. rewrite Hu. cbn. rewrite Tu. apply IH, Hr.
Qed.

Lemma or_result_bool rs w i v : sat (ROr rs) w i = Ok v -> v = VBool true \/ v = VBool false.
Proof.
  rewrite or_unfold. induction rs as [|x rs IH]; cbn.
  - intros [= <-]. right. reflexivity.
  - destruct (sat x w i) as [a|]; cbn; [|discriminate]. destruct (truthy a); [intros [= <-]; left; reflexivity|exact IH].
Qed.

(* when no operand raises: Or = exists, and both are permutation invariant *)
Lemma or_disjunction rs w i vs : sat_all rs w i = Ok vs ->
  sat_b (ROr rs) w i = Ok (existsb truthy vs).
Proof.
  unfold sat_b. rewrite or_unfold. unfold sat_all. revert vs.
  induction rs as [|x rs IH]; intros vs H; cbn in *.
  - injection H as <-. reflexivity.
  - destruct (sat x w i) as [a|]; cbn in *; [|discriminate].
    destruct (mapM _ rs) as [l|] eqn:E; cbn in H; [|discriminate]. injection H as <-. cbn.
    destruct (truthy a); [reflexivity|]. apply IH. reflexivity.
Qed.

Lemma and_conjunction_b rs w i vs : sat_all rs w i = Ok vs ->
  sat_b (RAnd rs) w i = Ok (negb (is_nil rs) && forallb truthy vs).
Proof. intros H. unfold sat_b. rewrite (and_value _ _ _ _ H). reflexivity. Qed.

Lemma sat_all_perm rs rs' w i vs : Permutation rs rs' -> sat_all rs w i = Ok vs ->
  exists vs', sat_all rs' w i = Ok vs' /\ Permutation vs vs'.
Proof.
  intros P. revert vs. induction P as [|x l l' P IH|x y l|l l' l'' P1 IH1 P2 IH2]; intros vs H.
  - exists vs. split; [exact H|apply Permutation_refl].
  - unfold sat_all in *. cbn in *. destruct (sat x w i) as [a|]; cbn in *; [|discriminate].
    destruct (mapM _ l) as [r|] eqn:E; cbn in H; [|discriminate]. injection H as <-.
    destruct (IH r eq_refl) as [r' [E' P']]. rewrite E'. cbn. exists (a :: r'). split; [reflexivity|constructor; exact P'].
  - unfold sat_all in *. cbn in *.
    destruct (sat y w i) as [b|]; cbn in *; [|discriminate].
    destruct (sat x w i) as [a|]; cbn in *; [|discriminate].
    destruct (mapM _ l) as [r|]; cbn in *; [|discriminate]. injection H as <-.
    exists (a :: b :: r). split; [reflexivity|apply perm_swap].
  - destruct (IH1 vs H) as [v1 [E1 Q1]]. destruct (IH2 v1 E1) as [v2 [E2 Q2]].
    exists v2. split; [exact E2|eapply Permutation_trans; eassumption].
Qed.

Lemma forallb_perm {A} (f : A -> bool) l l' : Permutation l l' -> forallb f l = forallb f l'.
Proof.
  induction 1; cbn; try congruence.
  - rewrite !andb_assoc. f_equal. apply andb_comm.
Qed.
Lemma existsb_perm {A} (f : A -> bool) l l' : Permutation l l' -> existsb f l = existsb f l'.
Proof.
  induction 1; cbn; try congruence.
  - rewrite !orb_assoc. f_equal. apply orb_comm.
Qed.
Lemma is_nil_perm {A} (l l' : list A) : Permutation l l' -> is_nil l = is_nil l'.
Proof. intros P. destruct l, l'; try reflexivity; [apply Permutation_nil in P|apply Permutation_sym, Permutation_nil in P]; discriminate. Qed.

Lemma and_perm rs rs' w i vs : Permutation rs rs' -> sat_all rs w i = Ok vs ->
  sat_b (RAnd rs') w i = sat_b (RAnd rs) w i.
Proof.
  intros P H. destruct (sat_all_perm _ _ _ _ _ P H) as [vs' [H' Q]].
  rewrite (and_conjunction_b _ _ _ _ H), (and_conjunction_b _ _ _ _ H').
  rewrite (forallb_perm _ _ _ Q), (is_nil_perm _ _ P). reflexivity.
Qed.

Lemma or_perm rs rs' w i vs : Permutation rs rs' -> sat_all rs w i = Ok vs ->
  sat_b (ROr rs') w i = sat_b (ROr rs) w i.
Proof.
  intros P H. destruct (sat_all_perm _ _ _ _ _ P H) as [vs' [H' Q]].
  rewrite (or_disjunction _ _ _ _ H), (or_disjunction _ _ _ _ H').
  rewrite (existsb_perm _ _ _ Q). reflexivity.
Qed.

(* De Morgan, for non-empty compositions none of whose operands raises *)
Lemma sat_all_map_not rs w i vs : sat_all rs w i = Ok vs ->
  sat_all (map RNot rs) w i = Ok (map negv vs).
Proof.
  unfold sat_all. revert vs. induction rs as [|x rs IH]; intros vs H; cbn in *.
  - injection H as <-. reflexivity.
  - destruct (sat x w i) as [a|]; cbn in *; [|discriminate].
    destruct (mapM _ rs) as [r|] eqn:E; cbn in H; [|discriminate]. injection H as <-.
    rewrite (IH r eq_refl). reflexivity.
Qed.

Lemma de_morgan_and rs w i vs : rs <> [] -> sat_all rs w i = Ok vs ->
  sat_b (RNot (RAnd rs)) w i = sat_b (ROr (map RNot rs)) w i.
Proof.
  intros Hn H. rewrite not_sat_b, (and_conjunction_b _ _ _ _ H).
  rewrite (or_disjunction _ _ _ _ (sat_all_map_not _ _ _ _ H)). cbn.
  destruct rs; [contradiction|]. cbn. f_equal.
  clear. induction vs as [|v vs IH]; cbn; [reflexivity|]. rewrite negb_andb, IH. reflexivity.
Qed.

Lemma de_morgan_or rs w i vs : rs <> [] -> sat_all rs w i = Ok vs ->
  sat_b (RNot (ROr rs)) w i = sat_b (RAnd (map RNot rs)) w i.
Proof.
  intros Hn H. rewrite not_sat_b, (or_disjunction _ _ _ _ H).
  rewrite (and_conjunction_b _ _ _ _ (sat_all_map_not _ _ _ _ H)). cbn.
  destruct rs; [contradiction|]. cbn. f_equal.
  clear. induction vs as [|v vs IH]; cbn; [reflexivity|]. rewrite negb_orb, IH. reflexivity.
Qed.

(* ---------- comparisons ---------- *)

Lemma greater_is_lt a w i : sat (RGreater a) w i = rmap VBool (py_lt a w).
Proof. cbn. destruct (py_lt a w); reflexivity. Qed.
Lemma less_is_lt a w i : sat (RLess a) w i = rmap VBool (py_lt w a).
Proof. cbn. destruct (py_lt w a); reflexivity. Qed.
Lemma ge_is_le a w i : sat (RGreaterOrEqual a) w i = rmap VBool (py_le a w).
Proof. cbn. destruct (py_le a w); reflexivity. Qed.
Lemma le_is_le a w i : sat (RLessOrEqual a) w i = rmap VBool (py_le w a).
Proof. cbn. destruct (py_le w a); reflexivity. Qed.
Lemma eq_is_eq a w i : sat (REq a) w i = Ok (VBool (py_eq (tup2list a) w)).
Proof. reflexivity. Qed.

Lemma pow2_pos j : (0 < pow2 j)%Z.
Proof. unfold pow2. apply Z.pow_pos_nonneg; lia. Qed.

(* on numbers the order is total and >= is (> or ==) *)
Lemma num_lt_le_dual x y : q_ltb x y = negb (q_leb y x).
Proof. unfold q_ltb, q_leb. rewrite Z.leb_antisym. rewrite negb_involutive. reflexivity. Qed.

Lemma num_le_lt_or_eq x y : q_leb x y = q_ltb x y || q_eqb x y.
Proof.
  unfold q_leb, q_ltb, q_eqb.
  destruct (Z.leb_spec (fst x * pow2 (snd y)) (fst y * pow2 (snd x)));
  destruct (Z.ltb_spec (fst x * pow2 (snd y)) (fst y * pow2 (snd x)));
  destruct (Z.eqb_spec (fst x * pow2 (snd y)) (fst y * pow2 (snd x))); cbn; try reflexivity; lia.
Qed.

Lemma num_cases a : (exists x, num_of a = Some x) ->
  forall b y, num_of b = Some y ->
  exists x, num_of a = Some x /\ py_lt a b = Ok (q_ltb x y) /\ py_le a b = Ok (q_leb x y) /\
            py_eq a b = q_eqb x y.
Proof.
  intros [x Hx] b y Hy. exists x. split; [exact Hx|].
  destruct a; cbn in Hx; try discriminate; cbn; rewrite Hy; injection Hx as <-; repeat split; reflexivity.
Qed.

Lemma numeric_ge_iff a w i x y : num_of a = Some x -> num_of w = Some y ->
  sat (RGreaterOrEqual a) w i = Ok (VBool (q_ltb x y || q_eqb x y)) /\
  sat (RGreater a) w i = Ok (VBool (q_ltb x y)) /\
  sat (RLessOrEqual a) w i = Ok (VBool (negb (q_ltb x y))) /\
  sat (RLess a) w i = Ok (VBool (negb (q_ltb x y || q_eqb x y))).
Proof.
  intros Hx Hy.
  destruct (num_cases a (ex_intro _ x Hx) w y Hy) as [x' [Hx' [L1 [L2 _]]]].
  rewrite Hx in Hx'. injection Hx' as <-.
  destruct (num_cases w (ex_intro _ y Hy) a x Hx) as [y' [Hy' [M1 [M2 _]]]].
  rewrite Hy in Hy'. injection Hy' as <-.
  cbn. rewrite L1, L2, M1, M2. cbn. rewrite <- num_le_lt_or_eq.
  repeat split; try reflexivity.
  - rewrite num_lt_le_dual, negb_involutive. reflexivity.
  - rewrite num_lt_le_dual. reflexivity.
Qed.

(* ---------- membership ---------- *)

Lemma mem_val_spec x d : mem_val x d = true <-> exists y, In y d /\ py_eq x y = true.
Proof. unfold mem_val. apply existsb_exists. Qed.

Lemma in_spec d w i :
  (sat (RIn d) w i = Ok (VBool true) <-> hashable w = true /\ exists y, In y d /\ py_eq w y = true) /\
  (sat (RIn d) w i = Raise ETypeError <-> hashable w = false) /\
  (forall e, sat (RIn d) w i = Raise e -> e = ETypeError).
Proof.
  cbn. unfold py_in_set. destruct (hashable w); cbn.
  - split; [|split].
    + split.
      * intros [= E]. split; [reflexivity|]. apply mem_val_spec, E.
      * intros [_ E]. apply mem_val_spec in E. rewrite E. reflexivity.
    + split; discriminate.
    + discriminate.
  - split; [|split].
    + split; [discriminate|]. intros [E _]. discriminate.
    + split; reflexivity.
    + intros e [= <-]. reflexivity.
Qed.

Lemma list_rules_nonlist d w i : is_list w = false ->
  sat (RAllIn d) w i = Raise ETypeError /\ sat (RAllNotIn d) w i = Raise ETypeError /\
  sat (RAnyIn d) w i = Raise ETypeError /\ sat (RAnyNotIn d) w i = Raise ETypeError.
Proof. destruct w; cbn; try discriminate; repeat split; reflexivity. Qed.

Lemma allin_spec d l i :
  sat (RAllIn d) (VList l) i = Ok (VBool true) <->
  forallb hashable l = true /\ forall x, In x l -> exists y, In y d /\ py_eq x y = true.
Proof.
  cbn. unfold to_set. destruct (forallb hashable l); cbn.
  - split.
    + intros [= H]. split; [reflexivity|]. intros x Hx. rewrite forallb_forall in H. apply mem_val_spec, H, Hx.
    + intros [_ H]. f_equal. f_equal. apply forallb_forall. intros x Hx. apply mem_val_spec, H, Hx.
  - split; [discriminate|intros [H _]; discriminate].
Qed.

Lemma anyin_spec d l i :
  sat (RAnyIn d) (VList l) i = Ok (VBool true) <->
  forallb hashable l = true /\ exists x, In x l /\ exists y, In y d /\ py_eq x y = true.
Proof.
  cbn. unfold to_set. destruct (forallb hashable l); cbn.
  - split.
    + intros [= H]. split; [reflexivity|]. apply existsb_exists in H as [x [Hx Hm]].
      exists x. split; [exact Hx|apply mem_val_spec, Hm].
    + intros [_ [x [Hx Hm]]]. f_equal. f_equal. apply existsb_exists. exists x. split; [exact Hx|apply mem_val_spec, Hm].
  - split; [discriminate|intros [H _]; discriminate].
Qed.

Lemma anynotin_spec d l i :
  sat (RAnyNotIn d) (VList l) i = Ok (VBool true) <->
  forallb hashable l = true /\ exists x, In x l /\ mem_val x d = false.
Proof.
  cbn. unfold to_set. destruct (forallb hashable l); cbn.
  - split.
    + intros [= H]. split; [reflexivity|]. apply existsb_exists in H as [x [Hx Hm]].
      exists x. split; [exact Hx|]. apply negb_true_iff, Hm.
    + intros [_ [x [Hx Hm]]]. f_equal. f_equal. apply existsb_exists. exists x. split; [exact Hx|]. rewrite Hm. reflexivity.
  - split; [discriminate|intros [H _]; discriminate].
Qed.

(* AnyNotIn and AllNotIn say the same thing on lists: some item is not in the set *)
Lemma anynotin_allnotin d w i : sat (RAnyNotIn d) w i = sat (RAllNotIn d) w i.
Proof.
  cbn. destruct w; try reflexivity. destruct (to_set l) as [s|]; cbn; [|reflexivity].
  f_equal. f_equal. induction s as [|x s IH]; cbn; [reflexivity|]. rewrite negb_andb, IH. reflexivity.
Qed.

(* ---------- strings ---------- *)

Lemma is_prefix_spec p s : is_prefix p s = true <-> exists t, s = p ++ t.
Proof.
  revert s. induction p as [|x p IH]; intros s; cbn.
  - split; [intros _; exists s; reflexivity|reflexivity].
  - destruct s as [|y s]; cbn.
    + split; [discriminate|intros [t H]; discriminate].
    + rewrite andb_true_iff, N.eqb_eq, IH. split.
      * intros [-> [t ->]]. exists t. reflexivity.
      * intros [t [= -> ->]]. split; [reflexivity|exists t; reflexivity].
Qed.

Lemma is_substr_spec p s : is_substr p s = true <-> exists a b, s = a ++ p ++ b.
Proof.
  induction s as [|y s IH]; cbn.
  - rewrite orb_false_r. rewrite is_prefix_spec. split.
    + intros [t H]. exists [], t. exact H.
    + intros [a [b H]]. destruct a; cbn in H; [exists b; exact H|discriminate].
  - rewrite orb_true_iff, is_prefix_spec, IH. split.
    + intros [[t H]|[a [b ->]]]; [exists [], t; exact H|exists (y :: a), b; reflexivity].
    + intros [a [b H]]. destruct a as [|x a]; cbn in H.
      * left. exists b. exact H.
      * injection H as -> ->. right. exists a, b. reflexivity.
Qed.

Lemma is_suffix_spec p s : is_suffix p s = true <-> exists t, s = t ++ p.
Proof.
  unfold is_suffix. rewrite is_prefix_spec. split.
  - intros [t H]. exists (rev t). apply (f_equal (@rev N)) in H. rewrite rev_involutive, rev_app_distr, rev_involutive in H. exact H.
  - intros [t ->]. exists (rev t). rewrite rev_app_distr. reflexivity.
Qed.

Lemma bool_ok_iff b : @Ok val (VBool b) = Ok (VBool true) <-> b = true.
Proof. split; [intros [= E]; exact E|intros ->; reflexivity]. Qed.

Lemma string_rules_spec s ci t i :
  (sat (RStartsWith s ci) (VStr t) i = Ok (VBool true) <-> exists u, fold_ci ci t = fold_ci ci s ++ u) /\
  (sat (REndsWith s ci) (VStr t) i = Ok (VBool true) <-> exists u, fold_ci ci t = u ++ fold_ci ci s) /\
  (sat (RContains s ci) (VStr t) i = Ok (VBool true) <-> exists a b, fold_ci ci t = a ++ fold_ci ci s ++ b) /\
  (sat (REqual s ci) (VStr t) i = Ok (VBool true) <-> fold_ci ci t = fold_ci ci s).
Proof.
  cbn. rewrite !bool_ok_iff. split; [|split; [|split]].
  - apply is_prefix_spec.
  - apply is_suffix_spec.
  - apply is_substr_spec.
  - apply pstr_eqb_eq.
Qed.

Lemma string_rules_nonstring s ci w i : is_str w = false ->
  sat (RStartsWith s ci) w i = Ok (VBool false) /\ sat (REndsWith s ci) w i = Ok (VBool false) /\
  sat (RContains s ci) w i = Ok (VBool false) /\ sat (REqual s ci) w i = Ok (VBool false).
Proof. destruct w; cbn; try discriminate; repeat split; reflexivity. Qed.

Lemma regexmatch_spec r w i s : str_of w = Ok s ->
  (sat (RRegexMatch r) w i = Ok (VBool true) <-> exists p t, s = p ++ t /\ In_lang r p).
Proof.
  intros H. cbn. rewrite H. cbn. rewrite <- rmatch_prefix_spec. split; [intros [= E]; exact E|intros ->; reflexivity].
Qed.

(* ---------- inquiry rules ---------- *)

Lemma match_no_attr f w q : sat (RMatch f None) w (Some q) = Ok (VBool (py_eq w (inq_field f q))).
Proof. reflexivity. Qed.

Lemma match_attr f a w q :
  sat (RMatch f (Some a)) w (Some q) =
  Ok (VBool (match inq_field f q with
             | VDict kvs => match lookup a kvs with Some x => py_eq w x | None => false end
             | _ => false end)).
Proof. cbn. destruct (inq_field f q); try reflexivity. destruct (lookup a kvs); reflexivity. Qed.

Lemma inquiry_rules_no_inquiry f a w :
  sat_b (RMatch f a) w None = Ok false /\ sat_b RSubjectEqual w None = Ok false /\
  sat_b RActionEqual w None = Ok false /\ sat_b RResourceIn w None = Ok false.
Proof. repeat split; reflexivity. Qed.

Lemma inquiry_equal_rules w q :
  sat RSubjectEqual w (Some q) = Ok (VBool (is_str w && py_eq w (i_subject q))) /\
  sat RActionEqual w (Some q) = Ok (VBool (is_str w && py_eq w (i_action q))) /\
  sat RResourceIn w (Some q) =
    Ok (VBool (match w with VList l => mem_val (i_resource q) l | _ => false end)).
Proof. repeat split; try reflexivity. destruct w; reflexivity. Qed.

(* ---------- network ---------- *)

Lemma in_net_interval4 x n : net_v6 n = false -> (net_len n <= 32)%N ->
  (N.modulo (net_addr n) (2 ^ (32 - net_len n)) = 0)%N ->
  (in_net (IP4 x) n = true <-> (net_addr n <= x < net_addr n + 2 ^ (32 - net_len n))%N).
Proof.
  intros Hv Hl Hm. unfold in_net. rewrite Hv. cbn [negb andb].
  set (k := (2 ^ (32 - net_len n))%N) in *.
  assert (Hk : (0 < k)%N) by (unfold k; apply N.neq_0_lt_0, N.pow_nonzero; discriminate).
  clearbody k.
  rewrite N.eqb_eq.
  pose proof (N.div_mod (net_addr n) k ltac:(lia)) as Ha. rewrite Hm in Ha.
  pose proof (N.div_mod x k ltac:(lia)) as Hx.
  pose proof (N.mod_lt x k ltac:(lia)) as Hlt.
  split.
  - intros E. rewrite E in Hx.
    set (q := (net_addr n / k)%N) in *. set (r := (x mod k)%N) in *. clearbody q r. lia.
  - intros [H1 H2]. symmetry. apply N.div_unique with (r := (x - net_addr n)%N).
    + lia.
    + set (q := (net_addr n / k)%N) in *. clearbody q. lia.
Qed.

Lemma in_net_interval6 x n : net_v6 n = true -> (net_len n <= 128)%N ->
  (N.modulo (net_addr n) (2 ^ (128 - net_len n)) = 0)%N ->
  (in_net (IP6 x) n = true <-> (net_addr n <= x < net_addr n + 2 ^ (128 - net_len n))%N).
Proof.
  intros Hv Hl Hm. unfold in_net. rewrite Hv. cbn [andb].
  set (k := (2 ^ (128 - net_len n))%N) in *.
  assert (Hk : (0 < k)%N) by (unfold k; apply N.neq_0_lt_0, N.pow_nonzero; discriminate).
  clearbody k.
  rewrite N.eqb_eq.
  pose proof (N.div_mod (net_addr n) k ltac:(lia)) as Ha. rewrite Hm in Ha.
  pose proof (N.div_mod x k ltac:(lia)) as Hx.
  pose proof (N.mod_lt x k ltac:(lia)) as Hlt.
  split.
  - intros E. rewrite E in Hx.
    set (q := (net_addr n / k)%N) in *. set (r := (x mod k)%N) in *. clearbody q r. lia.
  - intros [H1 H2]. symmetry. apply N.div_unique with (r := (x - net_addr n)%N).
    + lia.
    + set (q := (net_addr n / k)%N) in *. clearbody q. lia.
Qed.

Lemma in_net_versions x n :
  (net_v6 n = true -> in_net (IP4 x) n = false) /\ (net_v6 n = false -> in_net (IP6 x) n = false).
Proof. unfold in_net. split; intros ->; reflexivity. Qed.

Lemma mk_net_aligned v6 a len n : mk_net v6 a len = Some n ->
  net_v6 n = v6 /\ net_addr n = a /\ net_len n = len /\ (N.modulo a (2 ^ (bits_of v6 - len)) = 0)%N.
Proof.
  unfold mk_net. destruct (N.eqb_spec (a mod 2 ^ (bits_of v6 - len)) 0); [|discriminate].
  intros [= <-]. repeat split; try reflexivity. assumption.
Qed.

Lemma cidr_spec c t i :
  sat (RCIDR (VStr c)) (VStr t) i = Ok (VBool true) <->
  exists a n, parse_ip t = Ok (Some a) /\ parse_net c = Ok (Some n) /\ in_net a n = true.
Proof.
  cbn. unfold cidr_sat. destruct (parse_ip t) as [[a|]|e]; cbn.
  - destruct (parse_net c) as [[n|]|e]; cbn.
    + split.
      * intros [= H]. exists a, n. repeat split; assumption.
      * intros [a' [n' [[= <-] [[= <-] H]]]]. rewrite H. reflexivity.
    + split; [discriminate|]. intros [a' [n' [_ [H _]]]]. discriminate.
    + split; [discriminate|]. intros [a' [n' [_ [H _]]]]. discriminate.
  - split; [discriminate|]. intros [a' [n' [H _]]]. discriminate.
  - split; [discriminate|]. intros [a' [n' [H _]]]. discriminate.
Qed.

Lemma cidr_nonstring c w i : is_str w = false -> sat (RCIDR c) w i = Ok (VBool false).
Proof. destruct w; cbn; try discriminate; reflexivity. Qed.
