(* LruP: a result cache in front of a pure function is transparent. *)
From Coq Require Import List Bool Arith Lia.
From Vakt Require Import Base.PyMonad Model.Lru.
Import ListNotations.

Section lru_proofs.
  Variables K V : Type.
  Variable keq : K -> K -> bool.
  Hypothesis keq_eq : forall a b, keq a b = true <-> a = b.
  Variable f : K -> res V.

  (* every stored entry is a result the function gives *)
  Definition lru_inv (c : cache K V) : Prop := forall (k : K) (v : V), In (k, v) c -> f k = Ok v.

  Lemma lru_find_in (k : K) (c : cache K V) (v : V) : lru_find keq k c = Some v -> In (k, v) c.
  Proof.
    induction c as [|[k' x] r IH]; cbn; [discriminate|].
    destruct (keq k k') eqn:E.
    - intros [= ->]. apply keq_eq in E. subst. now left.
    - intros H. right. apply IH, H.
  Qed.

  Lemma lru_remove_incl (k : K) (c : cache K V) : incl (lru_remove keq k c) c.
  Proof.
    induction c as [|[k' x] r IH]; cbn; [apply incl_refl|].
    destruct (keq k k'); [apply incl_tl, incl_refl|].
    intros y [<-|Hy]; [now left|right; apply IH, Hy].
  Qed.

  Lemma firstn_incl {A} n (l : list A) : incl (firstn n l) l.
  Proof.
    revert l; induction n as [|n IH]; intros l; cbn; [apply incl_nil_l|].
    destruct l as [|x l]; [apply incl_refl|].
    intros y [<-|Hy]; [now left|right; apply IH, Hy].
  Qed.

  Theorem lru_call_transparent cap (c : cache K V) (k : K) : lru_inv c ->
    snd (fst (lru_call keq cap c k f)) = f k /\ lru_inv (fst (fst (lru_call keq cap c k f))).
  Proof.
    intros I. unfold lru_call. destruct (lru_find keq k c) as [v|] eqn:Ef; cbn.
    - pose proof (I _ _ (lru_find_in _ _ _ Ef)) as Hv. split; [symmetry; exact Hv|].
      intros k' v' [[= <- <-]|H]; [exact Hv|]. apply I. eapply lru_remove_incl, H.
    - destruct (f k) as [v|e] eqn:Efk; cbn; split; try reflexivity; [|exact I].
      intros k' v' H. unfold lru_insert in H. destruct cap as [n|].
      + apply firstn_incl in H. destruct H as [[= <- <-]|H]; [exact Efk|apply I, H].
      + destruct H as [[= <- <-]|H]; [exact Efk|apply I, H].
  Qed.

  (* a hit does not call the function; a miss does *)
  Lemma lru_hit_iff cap (c : cache K V) (k : K) : snd (lru_call keq cap c k f) = true <-> exists v, lru_find keq k c = Some v.
  Proof.
    unfold lru_call. destruct (lru_find keq k c) as [v|]; cbn.
    - split; [intros _; exists v; reflexivity|reflexivity].
    - destruct (f k); cbn; split; try discriminate; intros [v' H]; discriminate.
  Qed.

  Lemma lru_size cap n (c : cache K V) (k : K) : cap = Some n -> length c <= n ->
    length (fst (fst (lru_call keq cap c k f))) <= n.
  Proof.
    intros -> Hc. unfold lru_call. destruct (lru_find keq k c) as [v|] eqn:Ef; cbn.
    - assert (H : S (length (lru_remove keq k c)) = length c).
      { clear Hc. revert v Ef. induction c as [|[k' x] r IH]; cbn; [discriminate|].
        intros v. destruct (keq k k'); [reflexivity|]. intros H. cbn. f_equal. eapply IH, H. }
      lia.
    - destruct (f k); cbn; [|exact Hc]. rewrite firstn_length. cbn. lia.
  Qed.

  (* any history of calls: every answer equals the function's answer *)
  Fixpoint lru_run (cap : option nat) (c : cache K V) (ks : list K) : cache K V * list (res V) :=
    match ks with
    | [] => (c, [])
    | k :: r =>
        let '(c', v, _) := lru_call keq cap c k f in
        let (c'', vs) := lru_run cap c' r in (c'', v :: vs)
    end.

  Theorem lru_run_transparent cap ks : forall c, lru_inv c ->
    snd (lru_run cap c ks) = map f ks /\ lru_inv (fst (lru_run cap c ks)).
  Proof.
    induction ks as [|k r IH]; intros c I; cbn; [split; [reflexivity|exact I]|].
    destruct (lru_call_transparent cap c k I) as [Hv Hi].
    destruct (lru_call keq cap c k f) as [[c' v] h]; cbn in *.
    destruct (IH c' Hi) as [Hvs Hi']. destruct (lru_run cap c' r) as [c'' vs]; cbn in *.
    split; [rewrite Hv, Hvs; reflexivity|exact Hi'].
  Qed.

  Lemma lru_inv_nil : lru_inv [].
  Proof. intros k v []. Qed.
End lru_proofs.
