(* JsonParseP: the decoder of Model/JsonParse.v inverts the canonical printer of Model/Inquiry.v on values without
   floats, surrogate code points and jsonpickle-reserved keys; hence the canonical text determines the content. *)
From Coq Require Import ZArith NArith List Bool Lia ZifyBool ZifyN.
From Vakt Require Import Base.PyMonad Base.PyVal Model.Rules Model.Inquiry Model.JsonParse.
From Vakt Require Import Proofs.JsonDigitsP Proofs.JsonStrP Proofs.InquiryP.
Import ListNotations.
Local Open Scope N_scope.

(* ---------- the domain ---------- *)
Fixpoint jwf (v : val) : Prop :=
  match v with
  | VNone | VBool _ | VInt _ => True
  | VFlt _ _ => False
  | VStr s => valid_str s
  | VList l | VTup l => (fix go (l : list val) := match l with [] => True | x :: r => jwf x /\ go r end) l
  | VDict kvs =>
      (fix go (l : list (pstr * val)) :=
         match l with
         | [] => True
         | (k, x) :: r => (valid_str k /\ reserved_key k = false /\ jwf x) /\ go r
         end) kvs
  end.

Fixpoint vsize (v : val) : nat :=
  match v with
  | VList l | VTup l => S ((fix go (l : list val) := match l with [] => O | x :: r => S (vsize x + go r) end) l)
  | VDict kvs => S ((fix go (l : list (pstr * val)) := match l with [] => O | (_, x) :: r => S (vsize x + go r) end) kvs)
  | _ => 1%nat
  end.
Definition lsize (l : list val) : nat :=
  (fix go (l : list val) := match l with [] => O | x :: r => S (vsize x + go r) end) l.
Definition msize (l : list (pstr * val)) : nat :=
  (fix go (l : list (pstr * val)) := match l with [] => O | (_, x) :: r => S (vsize x + go r) end) l.

Definition print_list (l : list val) : list pstr :=
  (fix go (l : list val) := match l with [] => [] | x :: r => print x :: go r end) l.
Definition print_mems (l : list (pstr * val)) : list pstr :=
  (fix go (l : list (pstr * val)) :=
     match l with
     | [] => []
     | (k, x) :: r => if reserved_key k then go r else (json_str k ++ [58; 32] ++ print x) :: go r
     end) l.

Lemma print_VList l : print (VList l) = [91] ++ join_p comma_sp (print_list l) ++ [93].
Proof. reflexivity. Qed.
Lemma print_VTup l : print (VTup l) = (123 :: tuple_tag) ++ join_p comma_sp (print_list l) ++ [93; 125].
Proof. reflexivity. Qed.
Lemma print_VDict kvs : print (VDict kvs) = [123] ++ join_p comma_sp (print_mems kvs) ++ [125].
Proof. reflexivity. Qed.

(* ---------- first characters ---------- *)
Definition ok_head (c : N) : Prop :=
  c <> 93 /\ c <> 125 /\ c <> 44 /\ c <> 32.

Lemma Z_str_head z : exists c t, Z_str z = c :: t /\ (c = 45 \/ is_digit c = true).
Proof.
  destruct z as [|p|p]; cbn [Z_str].
  - eexists _, _. split; [reflexivity|right; reflexivity].
  - destruct (pos_digits_head (S (N.to_nat (N.log2 (Npos p)))) (Npos p) [] ltac:(lia)) as [c [r [E D]]].
    unfold N_digits. rewrite E. eexists _, _. split; [reflexivity|right; exact D].
  - eexists _, _. split; [reflexivity|left; reflexivity].
Qed.

Lemma print_head v : jwf v -> exists c t, print v = c :: t /\ ok_head c.
Proof.
  unfold ok_head. destruct v as [|[|]|z|m j|s|l|l|kvs]; intros H;
    try (eexists _, _; split; [reflexivity|lia]).
  - destruct (Z_str_head z) as [c [t [E [->|D]]]]; cbn [print]; rewrite E; eexists _, _; (split; [reflexivity|]).
    + lia.
    + unfold is_digit in D. lia.
  - destruct H.
Qed.

(* ---------- prefixes ---------- *)
Lemma strip_prefix_app p s : strip_prefix p (p ++ s) = Some s.
Proof. induction p as [|a p IH]; cbn; [reflexivity|]. rewrite N.eqb_refl. exact IH. Qed.

Lemma strip_prefix_some p : forall s r, strip_prefix p s = Some r -> s = p ++ r.
Proof.
  induction p as [|a p IH]; intros s r H; cbn in H.
  - injection H as ->. reflexivity.
  - destruct s as [|b s]; [discriminate|]. destruct (N.eqb_spec a b); [|discriminate]. subst b.
    cbn. f_equal. apply IH, H.
Qed.

Lemma esc_nonempty c rest : valid_cp c -> exists h t, esc_cp c ++ rest = h :: t.
Proof. intros H. destruct (parse_cp_esc c rest H) as [_ [h [t [E _]]]]. eauto. Qed.

Lemma esc_len s : valid_str s -> (length s <= length (flat_map esc_cp s))%nat.
Proof.
  induction 1 as [|c s Hc Hs IH]; cbn; [lia|]. rewrite app_length.
  destruct (esc_nonempty c [] Hc) as [h [t E]]. rewrite app_nil_r in E. rewrite E. cbn. lia.
Qed.

Lemma parse_str_lit s rest : valid_str s ->
  parse_str (S (length (flat_map esc_cp s ++ 34 :: rest))) (flat_map esc_cp s ++ 34 :: rest) = Some (s, rest).
Proof.
  intros H. apply parse_str_json; [exact H|]. rewrite app_length. pose proof (esc_len s H). cbn. lia.
Qed.

Definition py_tuple_key : pstr := [112; 121; 47; 116; 117; 112; 108; 101].
Lemma py_tuple_key_facts : valid_str py_tuple_key /\ reserved_key py_tuple_key = true /\
  tuple_tag = 34 :: flat_map esc_cp py_tuple_key ++ 34 :: [58; 32; 91].
Proof.
  split; [|split; reflexivity].
  unfold py_tuple_key, valid_str. repeat constructor; unfold valid_cp; lia.
Qed.

Lemma not_tuple_tag k X : valid_str k -> reserved_key k = false ->
  strip_prefix tuple_tag (json_str k ++ X) = None.
Proof.
  intros Vk Rk. destruct (strip_prefix tuple_tag (json_str k ++ X)) as [r|] eqn:E; [|reflexivity].
  exfalso. apply strip_prefix_some in E.
  destruct py_tuple_key_facts as [Vp [Rp Et]]. rewrite Et in E. unfold json_str in E. cbn [app] in E.
  injection E as E. rewrite <- !app_assoc in E. cbn [app] in E.
  pose proof (parse_str_lit k X Vk) as P1. rewrite E in P1.
  pose proof (parse_str_lit py_tuple_key (58 :: 32 :: 91 :: r) Vp) as P2.
  pose proof (eq_trans (eq_sym P1) P2) as Q. injection Q as -> _. congruence.
Qed.

(* ---------- the decoder inverts the printer ---------- *)
Definition follow_ok (rest : pstr) : Prop := no_digit_head rest.

Definition P_val (v : val) : Prop :=
  jwf v -> forall fuel rest, (vsize v <= fuel)%nat -> follow_ok rest ->
  parse_val fuel (print v ++ rest) = Some (v, rest).

Lemma follow_comma r : follow_ok (comma_sp ++ r).
Proof. cbn. reflexivity. Qed.
Lemma follow_close c r : c = 93 \/ c = 125 -> follow_ok (c :: r).
Proof. intros [->| ->]; reflexivity. Qed.

Lemma jwf_list_inv x r : jwf (VList (x :: r)) -> jwf x /\ jwf (VList r).
Proof. cbn. tauto. Qed.

Lemma join_p_cons2 sep (x y : list N) (r : list (list N)) :
  join_p sep (@cons (list N) x (@cons (list N) y r)) = x ++ sep ++ join_p sep (@cons (list N) y r).
Proof. reflexivity. Qed.

(* a non-empty sequence of elements up to the closing bracket *)
Lemma parse_seq_ok l : l <> [] -> Forall P_val l -> jwf (VList l) ->
  forall fuel rest, (lsize l <= fuel)%nat ->
  parse_seq fuel (join_p comma_sp (print_list l) ++ 93 :: rest) = Some (l, rest).
Proof.
  induction l as [|x l IH]; intros NE HP HW fuel rest Hf; [contradiction|].
  apply jwf_list_inv in HW. destruct HW as [Wx Wl].
  inversion HP as [|? ? Px Pl]; subst.
  destruct fuel as [|f]; [cbn in Hf; lia|]. cbn [lsize] in Hf. fold (lsize l) in Hf.
  destruct l as [|y l'].
  - (* last element *)
    cbn [print_list join_p]. cbn [parse_seq].
    rewrite (Px Wx f (93 :: rest)); [|lia|apply follow_close; auto].
    cbn. reflexivity.
  - change (print_list (x :: y :: l')) with (print x :: print y :: print_list l').
    rewrite join_p_cons2. change (print y :: print_list l') with (print_list (y :: l')).
    rewrite <- !app_assoc. cbn [parse_seq].
    rewrite (Px Wx f _); [|lia|apply follow_comma].
    cbn [comma_sp app seq_follow N.eqb Pos.eqb].
    rewrite IH; [reflexivity|discriminate|exact Pl|exact Wl|lia].
Qed.

Lemma jwf_dict_inv k x r : jwf (VDict ((k, x) :: r)) ->
  valid_str k /\ reserved_key k = false /\ jwf x /\ jwf (VDict r).
Proof. cbn. tauto. Qed.

Lemma print_mems_cons k x r : reserved_key k = false ->
  print_mems ((k, x) :: r) = (json_str k ++ [58; 32] ++ print x) :: print_mems r.
Proof. intros H. unfold print_mems. rewrite H. reflexivity. Qed.

Lemma parse_mems_ok kvs : kvs <> [] -> Forall (fun kv => P_val (snd kv)) kvs -> jwf (VDict kvs) ->
  forall fuel rest, (msize kvs <= fuel)%nat ->
  parse_mems fuel (join_p comma_sp (print_mems kvs) ++ 125 :: rest) = Some (kvs, rest).
Proof.
  induction kvs as [|[k x] l IH]; intros NE HP HW fuel rest Hf; [contradiction|].
  apply jwf_dict_inv in HW. destruct HW as [Vk [Rk [Wx Wl]]].
  inversion HP as [|? ? Px Pl]; subst. cbn [snd] in Px.
  destruct fuel as [|f]; [cbn in Hf; lia|]. cbn [msize] in Hf. fold (msize l) in Hf.
  rewrite (print_mems_cons k x l Rk).
  destruct l as [|[k2 x2] l'].
  - cbn [print_mems join_p]. unfold json_str. rewrite <- !app_assoc. cbn [app parse_mems N.eqb Pos.eqb].
    rewrite (parse_str_lit k (58 :: 32 :: print x ++ 125 :: rest) Vk). cbn [N.eqb Pos.eqb andb].
    rewrite (Px Wx f (125 :: rest)); [|lia|apply follow_close; auto].
    cbn. reflexivity.
  - destruct (jwf_dict_inv _ _ _ Wl) as [_ [Rk2 _]].
    specialize (IH ltac:(discriminate) Pl Wl f rest ltac:(lia)).
    rewrite (print_mems_cons k2 x2 l' Rk2) in *. rewrite join_p_cons2.
    remember (join_p comma_sp ((json_str k2 ++ [58; 32] ++ print x2) :: print_mems l')) as J eqn:EJ.
    clear EJ.
    unfold json_str. rewrite <- !app_assoc. cbn [app parse_mems N.eqb Pos.eqb].
    match goal with |- context [parse_str _ (flat_map esc_cp k ++ 34 :: ?T)] =>
      rewrite (parse_str_lit k T Vk) end.
    cbn [N.eqb Pos.eqb andb].
    match goal with |- context [parse_val f (print x ++ ?T)] =>
      rewrite (Px Wx f T); [|lia|apply follow_comma] end.
    cbn [comma_sp app seq_follow N.eqb Pos.eqb].
    rewrite IH. reflexivity.
Qed.

Lemma jwf_list_of_tup l : jwf (VTup l) -> jwf (VList l).
Proof. exact (fun H => H). Qed.

Theorem parse_print : forall v, P_val v.
Proof.
  induction v as [|b|z|m j|s|l IH|l IH|kvs IH] using val_ind'; unfold P_val; intros W fuel rest Hf Fo;
    (destruct fuel as [|f]; [cbn in Hf; lia|]).
  - reflexivity.
  - destruct b; reflexivity.
  - (* integers *)
    cbn [print]. destruct (Z_str_head z) as [c [t [E Hc]]].
    pose proof (parse_int_Z_str z rest Fo) as PI. rewrite E in *. cbn [app] in *. cbn [parse_val].
    assert (c <> 110 /\ c <> 116 /\ c <> 102 /\ c <> 34 /\ c <> 91 /\ c <> 123) as [A1 [A2 [A3 [A4 [A5 A6]]]]].
    { destruct Hc as [->|D]; [lia|]. unfold is_digit in D. lia. }
    destruct (N.eqb_spec c 110); [contradiction|]. destruct (N.eqb_spec c 116); [contradiction|].
    destruct (N.eqb_spec c 102); [contradiction|]. destruct (N.eqb_spec c 34); [contradiction|].
    destruct (N.eqb_spec c 91); [contradiction|]. destruct (N.eqb_spec c 123); [contradiction|].
    rewrite PI. reflexivity.
  - destruct W.
  - (* strings *)
    cbn [print]. unfold json_str. rewrite <- !app_assoc. cbn [app parse_val N.eqb Pos.eqb].
    rewrite (parse_str_lit s rest W). reflexivity.
  - (* lists *)
    rewrite print_VList. destruct l as [|x l'].
    + reflexivity.
    + rewrite <- !app_assoc. cbn [app parse_val N.eqb Pos.eqb].
      destruct (print_head x (proj1 (jwf_list_inv _ _ W))) as [c [t [E [N93 _]]]].
      change (print_list (x :: l')) with (print x :: print_list l').
      assert (HD : exists c' t', join_p comma_sp (print x :: print_list l') ++ 93 :: rest = c' :: t' /\ c' <> 93).
      { destruct (print_list l') as [|p ps]; cbn [join_p]; rewrite E; cbn [app]; eexists _, _; split;
          try reflexivity; exact N93. }
      destruct HD as [c' [t' [E' N']]].
      pose proof (parse_seq_ok (x :: l') ltac:(discriminate) IH W f rest ltac:(cbn in Hf |- *; lia)) as PS.
      change (print_list (x :: l')) with (print x :: print_list l') in PS.
      rewrite E' in *. destruct (N.eqb_spec c' 93); [contradiction|]. rewrite PS. reflexivity.
  - (* tuples *)
    rewrite print_VTup. rewrite <- !app_assoc. cbn [app parse_val N.eqb Pos.eqb].
    change (34 :: 112 :: 121 :: 47 :: 116 :: 117 :: 112 :: 108 :: 101 :: 34 :: 58 :: 32 :: 91 ::
            join_p comma_sp (print_list l) ++ 93 :: 125 :: rest)
      with (tuple_tag ++ join_p comma_sp (print_list l) ++ 93 :: 125 :: rest).
    rewrite strip_prefix_app. destruct l as [|x l'].
    + reflexivity.
    + destruct (print_head x (proj1 (jwf_list_inv _ _ W))) as [c [t [E [N93 _]]]].
      change (print_list (x :: l')) with (print x :: print_list l').
      assert (HD : exists c' t', join_p comma_sp (print x :: print_list l') ++ 93 :: 125 :: rest = c' :: t' /\ c' <> 93).
      { destruct (print_list l') as [|p ps]; cbn [join_p]; rewrite E; cbn [app]; eexists _, _; split;
          try reflexivity; exact N93. }
      destruct HD as [c' [t' [E' N']]].
      pose proof (parse_seq_ok (x :: l') ltac:(discriminate) IH W f (125 :: rest) ltac:(cbn in Hf |- *; lia)) as PS.
      change (print_list (x :: l')) with (print x :: print_list l') in PS.
      rewrite E' in *. destruct (N.eqb_spec c' 93); [contradiction|]. rewrite PS. reflexivity.
  - (* dictionaries *)
    rewrite print_VDict. destruct kvs as [|[k x] l'].
    + reflexivity.
    + destruct (jwf_dict_inv _ _ _ W) as [Vk [Rk _]].
      pose proof (parse_mems_ok ((k, x) :: l') ltac:(discriminate) IH W f rest ltac:(cbn in Hf |- *; lia)) as PM.
      rewrite (print_mems_cons k x l' Rk) in *.
      assert (HD : exists Y, join_p comma_sp ((json_str k ++ [58; 32] ++ print x) :: print_mems l') ++ 125 :: rest
                             = json_str k ++ Y).
      { destruct (print_mems l') as [|p ps]; cbn [join_p]; rewrite <- !app_assoc; eexists; reflexivity. }
      destruct HD as [Y EY].
      rewrite <- !app_assoc. change ([125] ++ rest) with (125 :: rest).
      rewrite EY in *. cbn [app].
      assert (H34 : exists t, json_str k ++ Y = 34 :: t) by (unfold json_str; cbn [app]; eexists; reflexivity).
      destruct H34 as [t Et].
      cbn [parse_val N.eqb Pos.eqb]. rewrite Et at 1. cbn [N.eqb Pos.eqb].
      rewrite (not_tuple_tag k Y Vk Rk). rewrite PM. reflexivity.
Qed.

(* ---------- consequences ---------- *)
Theorem print_injective a b : jwf a -> jwf b -> print a = print b -> a = b.
Proof.
  intros Wa Wb E.
  pose proof (parse_print a Wa (vsize a + vsize b)%nat [] ltac:(lia) I) as Pa.
  pose proof (parse_print b Wb (vsize a + vsize b)%nat [] ltac:(lia) I) as Pb.
  rewrite E in Pa. rewrite Pa in Pb. injection Pb as ->. reflexivity.
Qed.

(* ---------- normalisation keeps a value inside the domain ---------- *)
Definition entry_ok (kv : pstr * val) : Prop :=
  valid_str (fst kv) /\ reserved_key (fst kv) = false /\ jwf (snd kv).

Lemma jwf_list_Forall l : jwf (VList l) <-> Forall jwf l.
Proof.
  induction l as [|x l IH]; cbn; [split; auto|]. fold (jwf (VList l)). rewrite IH.
  split; [intros [A B]; constructor; assumption|intros H; inversion H; auto].
Qed.
Lemma jwf_dict_Forall kvs : jwf (VDict kvs) <-> Forall entry_ok kvs.
Proof.
  induction kvs as [|[k x] l IH]; cbn; [split; auto|]. fold (jwf (VDict l)). rewrite IH. unfold entry_ok at 2. cbn.
  split; [intros [A B]; constructor; assumption|intros H; inversion H; auto].
Qed.

Lemma jwf_norm v : jwf v -> jwf (norm v).
Proof.
  induction v as [|b|z|m j|s|l IH|l IH|kvs IH] using val_ind'; intros W; try exact W.
  - rewrite InquiryP.norm_list. apply jwf_list_Forall. apply jwf_list_Forall in W.
    induction l as [|x l IHl]; [constructor|]. inversion IH; inversion W; subst. constructor; auto.
  - rewrite InquiryP.norm_tup. change (jwf (VList (map norm l))). apply jwf_list_Forall.
    change (jwf (VList l)) in W. apply jwf_list_Forall in W.
    induction l as [|x l IHl]; [constructor|]. inversion IH; inversion W; subst. constructor; auto.
  - rewrite InquiryP.norm_dict. apply jwf_dict_Forall. apply jwf_dict_Forall in W.
    eapply Permutation.Permutation_Forall; [apply InquiryP.sort_kvs_perm|].
    unfold InquiryP.norm_kvs. induction kvs as [|[k x] l IHl]; [constructor|].
    inversion IH; inversion W; subst. constructor; [|auto].
    match goal with H : entry_ok (k, x) |- _ => destruct H as [A [B C]] end.
    unfold entry_ok. cbn in *. auto.
Qed.

(* ---------- inquiries: equal exactly when the content is the same, on the domain ---------- *)
Definition inq_wf (q : inquiry) : Prop :=
  jwf (i_resource q) /\ jwf (i_action q) /\ jwf (i_subject q) /\ jwf (i_context q).

Lemma inq_val_wf q : inq_wf q -> jwf (inq_val q).
Proof.
  intros [A [B [C D]]]. unfold inq_val. cbn. unfold valid_str, k_resource, k_action, k_subject, k_context.
  repeat split; try assumption; try reflexivity; repeat constructor; unfold valid_cp; lia.
Qed.

Theorem equal_only_if_same_content a b : inq_wf a -> inq_wf b ->
  inq_eq a b = true -> InquiryP.inq_content_eq a b.
Proof.
  intros Wa Wb E. apply InquiryP.eq_iff_canon in E. unfold canon, canon_val in E.
  apply print_injective in E; try (apply jwf_norm, inq_val_wf; assumption).
  unfold inq_val in E. rewrite !InquiryP.norm_dict in E. cbn in E. injection E as E1 E2 E3 E4.
  unfold InquiryP.inq_content_eq, InquiryP.content_eq. auto.
Qed.

Theorem equal_iff_same_content a b : inq_wf a -> inq_wf b ->
  (inq_eq a b = true <-> InquiryP.inq_content_eq a b).
Proof.
  intros Wa Wb. split; [apply equal_only_if_same_content; assumption|].
  intros H. apply InquiryP.content_eq_equal in H. tauto.
Qed.

(* a JSON round trip (to_json_sorted, then decoding) gives back the normalised content *)
Theorem decode_canon q : inq_wf q -> exists fuel, parse_val fuel (canon q) = Some (norm (inq_val q), []).
Proof.
  intros W. exists (vsize (norm (inq_val q))).
  pose proof (parse_print (norm (inq_val q)) (jwf_norm _ (inq_val_wf q W)) (vsize (norm (inq_val q))) []
                          (le_n _) I) as P.
  rewrite app_nil_r in P. exact P.
Qed.
