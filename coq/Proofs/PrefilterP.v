(* PrefilterP: storage prefilters are supersets of what the checker matches; supersets do not change decisions (C07). *)
From Coq Require Import ZArith NArith List Bool Lia Permutation.
From Vakt Require Import Base.PyMonad Base.PyVal Model.Regex Model.Net Model.Rules Model.Policy Model.Parser
     Model.Checkers Model.Guard Model.Prefilter Proofs.PyValP Proofs.RulesP Proofs.CheckersP Proofs.GuardP.
Import ListNotations.

(* ---------- candidates: any superset of the matching policies gives the same decision ---------- *)
Section candidates.
  Variable fits_ : policy -> pfield -> val -> option inquiry -> res bool.
  Variable q : inquiry.

  Lemma filter_sound_superset (pre : policy -> bool) ps :
    (forall p, In p ps -> matchb fits_ q p = true -> pre p = true) ->
    filter (matchb fits_ q) (filter pre ps) = filter (matchb fits_ q) ps.
  Proof.
    induction ps as [|p ps IH]; intros H; cbn; [reflexivity|].
    destruct (pre p) eqn:Ep; cbn.
    - rewrite IH by (intros p' Hp'; apply H; now right). reflexivity.
    - destruct (matchb fits_ q p) eqn:Em.
      + rewrite (H p (or_introl eq_refl) Em) in Ep. discriminate.
      + apply IH. intros p' Hp'. apply H. now right.
  Qed.

  Lemma clean_filter pre ps : clean fits_ q ps -> clean fits_ q (filter pre ps).
  Proof. intros Hc p Hp. apply filter_In in Hp as [Hp _]. apply Hc, Hp. Qed.

  Theorem prefilter_same_decision (pre : policy -> bool) ps : clean fits_ q ps ->
    (forall p, In p ps -> matchb fits_ q p = true -> pre p = true) ->
    decide fits_ (filter pre ps) q = decide fits_ ps q.
  Proof.
    intros Hc Hs. rewrite (decide_clean _ _ _ Hc), (decide_clean _ _ _ (clean_filter pre ps Hc)).
    unfold decision. rewrite (filter_sound_superset pre ps Hs). reflexivity.
  Qed.

  (* extra, non-matching candidates never change the decision *)
  Theorem extra_candidates_harmless ps extra : clean fits_ q ps -> clean fits_ q extra ->
    (forall p, In p extra -> matchb fits_ q p = false) ->
    decide fits_ (ps ++ extra) q = decide fits_ ps q.
  Proof.
    intros Hc He Hn.
    assert (Hca : clean fits_ q (ps ++ extra)).
    { intros p Hp. apply in_app_or in Hp as [Hp|Hp]; [apply Hc|apply He]; exact Hp. }
    rewrite (decide_clean _ _ _ Hc), (decide_clean _ _ _ Hca). unfold decision. rewrite filter_app.
    replace (filter (matchb fits_ q) extra) with (@nil policy); [rewrite app_nil_r; reflexivity|].
    symmetry. clear -Hn. induction extra as [|p r IH]; [reflexivity|]. cbn. rewrite (Hn p (or_introl eq_refl)).
    apply IH. intros p' Hp'. apply Hn. now right.
  Qed.
End candidates.

(* ---------- LIKE %v% selects every string that contains v, wildcards in v included ---------- *)
Lemma like_percent_unfold ci p s :
  like_match ci (37%N :: p) s =
  like_match ci p s || match s with [] => false | _ :: t => like_match ci (37%N :: p) t end.
Proof. cbn [like_match]. rewrite N.eqb_refl. destruct s; reflexivity. Qed.

Lemma like_percent_skip ci p a s : like_match ci p s = true -> like_match ci (37%N :: p) (a ++ s) = true.
Proof.
  intros H. induction a as [|x a IH]; cbn [app]; rewrite like_percent_unfold.
  - rewrite H. reflexivity.
  - rewrite IH. apply orb_true_r.
Qed.

Lemma char_eq_refl ci c : char_eq ci c c = true.
Proof. unfold char_eq. destruct ci; apply N.eqb_refl. Qed.

Lemma like_literal_prefix ci v : forall p s, like_match ci p s = true -> like_match ci (v ++ p) (v ++ s) = true.
Proof.
  induction v as [|c v IH]; intros p s H; cbn [app]; [exact H|].
  specialize (IH p s H). destruct (N.eqb c 37) eqn:E.
  - (* a '%' inside the value: as a wildcard it also matches the one character it stands for *)
    apply N.eqb_eq in E. subst c. rewrite like_percent_unfold. apply orb_true_iff. right.
    rewrite like_percent_unfold. rewrite IH. reflexivity.
  - cbn [like_match]. rewrite E, char_eq_refl, orb_true_r, IH. reflexivity.
Qed.

Lemma like_percent_all ci s : like_match ci [37%N] s = true.
Proof.
  induction s as [|x s IH]; rewrite like_percent_unfold; [reflexivity|]. rewrite IH. apply orb_true_r.
Qed.

Theorem like_superset ci v e : is_substr v e = true -> like_contains ci v e = true.
Proof.
  intros H. apply is_substr_spec in H as [a [b ->]]. unfold like_contains.
  change ([37%N] ++ v ++ [37%N]) with (37%N :: (v ++ [37%N])).
  apply like_percent_skip. apply like_literal_prefix. apply like_percent_all.
Qed.

(* ---------- exact: the stored string is the value or the value enclosed in the (default) tags ---------- *)
Lemma strip_variants e v : strip_tags [60%N] [62%N] e = v -> e = v \/ e = [60%N] ++ v ++ [62%N].
Proof.
  unfold strip_tags. destruct e as [|c t]; [intros <-; now left|].
  destruct (pstr_eqb [60%N] [c] && pstr_eqb [62%N] [last (c :: t) c]) eqn:E; [|intros <-; now left].
  apply andb_true_iff in E as [E1 E2]. apply pstr_eqb_eq in E1, E2. injection E1 as <-. injection E2 as E2.
  intros <-. right. cbn [tl app].
  destruct t as [|d t']; [cbn in E2; discriminate|].
  f_equal. assert (Hne : d :: t' <> []) by discriminate.
  rewrite (app_removelast_last 60%N Hne) at 1. f_equal. f_equal.
  cbn [last] in E2. rewrite E2. clear. revert d. induction t' as [|x r IH]; intros d; [reflexivity|]. cbn [last]. apply IH.
Qed.

(* ---------- which stored elements a string checker can match ---------- *)
Lemma fits_string_true_has_str cmp p es w : fits_string_loop cmp p es w = Ok true ->
  exists e, In (EStr e) es /\ cmp w (strip_tags (p_start p) (p_end p) e) = Ok true.
Proof.
  induction es as [|x es IH]; cbn; [discriminate|]. destruct x as [item|r|kvs].
  - destruct (cmp w (strip_tags (p_start p) (p_end p) item)) as [b|] eqn:E; cbn; [|discriminate].
    destruct b.
    + intros _. exists item. split; [now left|exact E].
    + intros H. destruct (IH H) as [e [H1 H2]]. exists e. split; [now right|exact H2].
  - intros H. destruct (IH H) as [e [H1 H2]]. exists e. split; [now right|exact H2].
  - intros H. destruct (IH H) as [e [H1 H2]]. exists e. split; [now right|exact H2].
Qed.

Lemma in_stored_strings p f e : In (EStr e) (field_elems p f) -> In e (stored_strings p f).
Proof.
  unfold stored_strings. intros H. apply in_flat_map. exists (EStr e). split; [exact H|now left].
Qed.

Lemma existsM_true_in {X} (c : X -> res bool) xs : existsM c xs = Ok true -> exists x, In x xs /\ c x = Ok true.
Proof.
  induction xs as [|x xs IH]; cbn; [discriminate|]. destruct (c x) as [b|] eqn:E; cbn; [|discriminate].
  destruct b; [intros _; exists x; split; [now left|exact E]|].
  intros H. destruct (IH H) as [y [H1 H2]]. exists y. split; [now right|exact H2].
Qed.

Lemma matches_fits fits_ q p : matches fits_ q p = Ok true ->
  fits_ p Actions (i_action q) (Some q) = Ok true /\ fits_ p Subjects (i_subject q) (Some q) = Ok true /\
  fits_ p Resources (i_resource q) (Some q) = Ok true.
Proof.
  unfold matches, andM.
  destruct (fits_ p Actions (i_action q) (Some q)) as [[|]|]; cbn; try discriminate.
  destruct (fits_ p Subjects (i_subject q) (Some q)) as [[|]|]; cbn; try discriminate.
  destruct (fits_ p Resources (i_resource q) (Some q)) as [[|]|]; cbn; try discriminate.
  intros _. repeat split.
Qed.

Lemma matchb_matches fits_ q p : matchb fits_ q p = true -> matches fits_ q p = Ok true.
Proof. unfold matchb. destruct (matches fits_ q p) as [[|]|]; try discriminate. reflexivity. Qed.

Section sql_soundness.
  Variables (uid eff : val) (su re ac : list elem) (ctx : list (pstr * rule)) (d : val) (p : policy).
  (* policies read back from SQL are plain Policy objects: default tags *)
  Hypothesis Hmk : mk_policy uid eff su re ac ctx d [60%N] [62%N] = Some p.
  Variable q : inquiry.
  Variables a s r : pstr.
  Hypothesis Ha : i_action q = VStr a.
  Hypothesis Hs : i_subject q = VStr s.
  Hypothesis Hr : i_resource q = VStr r.

  Lemma tags_default : p_start p = [60%N] /\ p_end p = [62%N].
  Proof. unfold mk_policy in Hmk. destruct (calc_type _); [|discriminate]. injection Hmk as <-. split; reflexivity. Qed.

  Lemma string_match_type f w cmp : fits_string_loop cmp p (field_elems p f) w = Ok true -> p_type p = StringBased.
  Proof.
    intros H. destruct (fits_string_true_has_str _ _ _ _ H) as [e [Hin _]].
    destruct (p_type p) eqn:Et; [reflexivity|].
    destruct (mk_policy_typed _ _ _ _ _ _ _ _ _ _ Hmk f) as [_ Hn]. specialize (Hn Et).
    unfold no_str_elems in Hn. rewrite Forall_forall in Hn. specialize (Hn _ Hin). discriminate.
  Qed.

  Theorem sql_fuzzy_sound ci : forall rxof, matchb (fits rxof CFuzzy) q p = true -> sql_fuzzy ci a s r p = true.
  Proof.
    intros rxof Hm. apply matchb_matches, matches_fits in Hm as [H1 [H2 H3]]. cbn [fits] in *. unfold fits_fuzzy in *.
    rewrite Ha in H1. rewrite Hs in H2. rewrite Hr in H3.
    unfold sql_fuzzy, is_string_based. rewrite (string_match_type _ _ _ H1). cbn [ptype_eqb andb].
    assert (Hx : forall f v, fits_string_loop compare_fuzzy p (field_elems p f) (VStr v) = Ok true ->
                            existsb (like_contains ci v) (stored_strings p f) = true).
    { intros f v H. destruct (fits_string_true_has_str _ _ _ _ H) as [e [Hin Hc]]. cbn in Hc. injection Hc as Hc.
      apply existsb_exists. exists e. split; [apply in_stored_strings, Hin|]. apply like_superset.
      destruct tags_default as [-> ->] in Hc.
      (* v is a substring of the stripped element, hence of the element *)
      apply is_substr_spec in Hc as [x [y Hc]]. apply is_substr_spec.
      destruct (strip_variants _ _ eq_refl : e = strip_tags [60%N] [62%N] e \/ _) as [E|E].
      - exists x, y. rewrite E. exact Hc.
      - exists (60%N :: x), (y ++ [62%N]). rewrite E, Hc. cbn. rewrite <- !app_assoc. reflexivity. }
    rewrite (Hx Actions a H1), (Hx Resources r H3), (Hx Subjects s H2). reflexivity.
  Qed.

  Theorem sql_exact_sound : forall rxof, matchb (fits rxof CExact) q p = true -> sql_exact a s r p = true.
  Proof.
    intros rxof Hm. apply matchb_matches, matches_fits in Hm as [H1 [H2 H3]]. cbn [fits] in *. unfold fits_exact in *.
    rewrite Ha in H1. rewrite Hs in H2. rewrite Hr in H3.
    unfold sql_exact, is_string_based. rewrite (string_match_type _ _ _ H1). cbn [ptype_eqb andb].
    assert (Hx : forall f v, fits_string_loop compare_exact p (field_elems p f) (VStr v) = Ok true ->
                            existsb (fun e => existsb (pstr_eqb e) (exact_variants v)) (stored_strings p f) = true).
    { intros f v H. apply fits_string_exact_iff in H as [e [Hin Hc]].
      apply existsb_exists. exists e. split; [apply in_stored_strings, Hin|].
      destruct tags_default as [E1 E2]. rewrite E1, E2 in Hc.
      destruct (strip_variants _ _ Hc) as [->| ->]; cbn; rewrite pstr_eqb_refl; [reflexivity|apply orb_true_r]. }
    rewrite (Hx Actions a H1), (Hx Resources r H3), (Hx Subjects s H2). reflexivity.
  Qed.

  Theorem sql_regex_type_sound : forall rxof, matchb (fits rxof CRegex) q p = true -> sql_type_only StringBased p = true.
  Proof.
    intros rxof Hm. apply matchb_matches, matches_fits in Hm as [H1 _]. cbn [fits] in H1. unfold fits_regex in H1.
    unfold sql_type_only. destruct (p_type p) eqn:Et; [reflexivity|].
    destruct (mk_policy_typed _ _ _ _ _ _ _ _ _ _ Hmk Actions) as [_ Hn]. specialize (Hn Et).
    rewrite (fits_regex_no_str _ _ _ _ Hn) in H1. discriminate.
  Qed.

  Theorem sql_rules_type_sound : forall rxof, matchb (fits rxof CRules) q p = true -> sql_type_only RuleBased p = true.
  Proof.
    intros rxof Hm. apply matchb_matches, matches_fits in Hm as [H1 _]. cbn [fits] in H1.
    unfold sql_type_only. destruct (p_type p) eqn:Et; [|reflexivity].
    destruct (mk_policy_typed _ _ _ _ _ _ _ _ _ _ Hmk Actions) as [Hn _]. specialize (Hn Et).
    rewrite (fits_rules_only_str _ _ _ _ Hn) in H1. discriminate.
  Qed.
End sql_soundness.
