(* PyVal: the universe of Python values the model speaks about, and the Python
   operators vakt applies to them (==, <, <=, bool(), in, hashability, str(),
   str.lower()).  Tied to CPython by the correspondence check "pyops" (K). *)
From Coq Require Import ZArith NArith List Bool Lia.
From Vakt Require Import Base.PyMonad.
Import ListNotations.

Definition pstr := list N.      (* a Python str: sequence of Unicode code points *)

Inductive val : Type :=
| VNone
| VBool (b : bool)
| VInt (z : Z)
| VFlt (m : Z) (j : N)          (* the finite float  m / 2^j  (dyadic) *)
| VStr (s : pstr)
| VList (l : list val)
| VTup (l : list val)
| VDict (kvs : list (pstr * val)).   (* insertion ordered; string keys *)

Section val_induction.
  Variable P : val -> Prop.
  Hypothesis HNone : P VNone.
  Hypothesis HBool : forall b, P (VBool b).
  Hypothesis HInt : forall z, P (VInt z).
  Hypothesis HFlt : forall m j, P (VFlt m j).
  Hypothesis HStr : forall s, P (VStr s).
  Hypothesis HList : forall l, Forall P l -> P (VList l).
  Hypothesis HTup : forall l, Forall P l -> P (VTup l).
  Hypothesis HDict : forall kvs, Forall (fun kv => P (snd kv)) kvs -> P (VDict kvs).

  Fixpoint val_ind' (v : val) : P v :=
    match v with
    | VNone => HNone
    | VBool b => HBool b
    | VInt z => HInt z
    | VFlt m j => HFlt m j
    | VStr s => HStr s
    | VList l =>
        HList l ((fix go (l : list val) : Forall P l :=
                    match l with
                    | [] => Forall_nil _
                    | x :: r => Forall_cons _ (val_ind' x) (go r)
                    end) l)
    | VTup l =>
        HTup l ((fix go (l : list val) : Forall P l :=
                   match l with
                   | [] => Forall_nil _
                   | x :: r => Forall_cons _ (val_ind' x) (go r)
                   end) l)
    | VDict kvs =>
        HDict kvs ((fix go (l : list (pstr * val)) : Forall (fun kv => P (snd kv)) l :=
                      match l with
                      | [] => Forall_nil _
                      | kv :: r => Forall_cons _ (val_ind' (snd kv)) (go r)
                      end) kvs)
    end.
End val_induction.

(* ---------- strings ---------- *)

Fixpoint pstr_eqb (a b : pstr) : bool :=
  match a, b with
  | [], [] => true
  | x :: r, y :: s => N.eqb x y && pstr_eqb r s
  | _, _ => false
  end.

Fixpoint pstr_ltb (a b : pstr) : bool :=     (* lexicographic by code point *)
  match a, b with
  | [], [] => false
  | [], _ :: _ => true
  | _ :: _, [] => false
  | x :: r, y :: s => if N.eqb x y then pstr_ltb r s else N.ltb x y
  end.

Fixpoint pstr_leb (a b : pstr) : bool :=
  match a, b with
  | [], _ => true
  | _ :: _, [] => false
  | x :: r, y :: s => if N.eqb x y then pstr_leb r s else N.ltb x y
  end.

Fixpoint is_prefix (p s : pstr) : bool :=      (* s.startswith(p) *)
  match p, s with
  | [], _ => true
  | _ :: _, [] => false
  | x :: r, y :: t => N.eqb x y && is_prefix r t
  end.

Fixpoint is_substr (p s : pstr) : bool :=      (* p in s *)
  is_prefix p s || match s with [] => false | _ :: t => is_substr p t end.

Definition is_suffix (p s : pstr) : bool := is_prefix (rev p) (rev s).

Definition mem_N (x : N) (s : pstr) : bool := existsb (N.eqb x) s.

(* str.lower() restricted to code points whose lower-case mapping is a single
   code point and context free: ASCII, Latin-1, Cyrillic.  Elsewhere identity;
   the generators only emit characters on which this table is CPython's. *)
Definition lower_cp (c : N) : N :=
  if (N.leb 65 c && N.leb c 90)%N then (c + 32)%N
  else if (N.leb 192 c && N.leb c 222 && negb (N.eqb c 215))%N then (c + 32)%N
  else if (N.leb 1040 c && N.leb c 1071)%N then (c + 32)%N
  else if (N.leb 1024 c && N.leb c 1039)%N then (c + 80)%N
  else c.
Definition lower (s : pstr) : pstr := map lower_cp s.

(* ---------- numeric tower ---------- *)

Definition num_of (v : val) : option (Z * N) :=
  match v with
  | VBool b => Some ((if b then 1 else 0)%Z, 0%N)
  | VInt z => Some (z, 0%N)
  | VFlt m j => Some (m, j)
  | _ => None
  end.

Definition pow2 (j : N) : Z := Z.pow 2 (Z.of_N j).

Definition q_eqb (x y : Z * N) : bool :=
  Z.eqb (fst x * pow2 (snd y)) (fst y * pow2 (snd x)).
Definition q_ltb (x y : Z * N) : bool :=
  Z.ltb (fst x * pow2 (snd y)) (fst y * pow2 (snd x)).
Definition q_leb (x y : Z * N) : bool :=
  Z.leb (fst x * pow2 (snd y)) (fst y * pow2 (snd x)).

(* ---------- dict lookup ---------- *)

Fixpoint lookup {A} (k : pstr) (kvs : list (pstr * A)) : option A :=
  match kvs with
  | [] => None
  | (k', v) :: r => if pstr_eqb k k' then Some v else lookup k r
  end.

Definition has_key {A} (k : pstr) (kvs : list (pstr * A)) : bool :=
  match lookup k kvs with Some _ => true | None => false end.

Fixpoint keys_distinct {A} (kvs : list (pstr * A)) : bool :=
  match kvs with
  | [] => true
  | (k, _) :: r => negb (has_key k r) && keys_distinct r
  end.

(* ---------- Python == ---------- *)

Fixpoint py_eq (a b : val) {struct a} : bool :=
  match a with
  | VNone => match b with VNone => true | _ => false end
  | VStr s => match b with VStr t => pstr_eqb s t | _ => false end
  | VList l =>
      match b with
      | VList m =>
          (fix go (l m : list val) {struct l} : bool :=
             match l, m with
             | [], [] => true
             | x :: xs, y :: ys => py_eq x y && go xs ys
             | _, _ => false
             end) l m
      | _ => false
      end
  | VTup l =>
      match b with
      | VTup m =>
          (fix go (l m : list val) {struct l} : bool :=
             match l, m with
             | [], [] => true
             | x :: xs, y :: ys => py_eq x y && go xs ys
             | _, _ => false
             end) l m
      | _ => false
      end
  | VDict k1 =>
      match b with
      | VDict k2 =>
          Nat.eqb (length k1) (length k2) &&
          (fix go (k1 : list (pstr * val)) : bool :=
             match k1 with
             | [] => true
             | (k, v) :: r =>
                 match lookup k k2 with
                 | Some v' => py_eq v v'
                 | None => false
                 end && go r
             end) k1
      | _ => false
      end
  | VBool _ | VInt _ | VFlt _ _ =>
      match num_of a, num_of b with
      | Some x, Some y => q_eqb x y
      | _, _ => false
      end
  end.

Definition seq_eq (l m : list val) : bool :=
  (fix go (l m : list val) {struct l} : bool :=
     match l, m with
     | [], [] => true
     | x :: xs, y :: ys => py_eq x y && go xs ys
     | _, _ => false
     end) l m.

(* ---------- Python < and <= ---------- *)

Fixpoint py_lt (a b : val) {struct a} : res bool :=
  match a with
  | VStr s => match b with VStr t => Ok (pstr_ltb s t) | _ => Raise ETypeError end
  | VList l =>
      match b with
      | VList m =>
          (fix go (l m : list val) {struct l} : res bool :=
             match l, m with
             | [], [] => Ok false
             | [], _ :: _ => Ok true
             | _ :: _, [] => Ok false
             | x :: xs, y :: ys => if py_eq x y then go xs ys else py_lt x y
             end) l m
      | _ => Raise ETypeError
      end
  | VTup l =>
      match b with
      | VTup m =>
          (fix go (l m : list val) {struct l} : res bool :=
             match l, m with
             | [], [] => Ok false
             | [], _ :: _ => Ok true
             | _ :: _, [] => Ok false
             | x :: xs, y :: ys => if py_eq x y then go xs ys else py_lt x y
             end) l m
      | _ => Raise ETypeError
      end
  | VBool _ | VInt _ | VFlt _ _ =>
      match num_of a, num_of b with
      | Some x, Some y => Ok (q_ltb x y)
      | _, _ => Raise ETypeError
      end
  | VNone | VDict _ => Raise ETypeError
  end.

Fixpoint py_le (a b : val) {struct a} : res bool :=
  match a with
  | VStr s => match b with VStr t => Ok (pstr_leb s t) | _ => Raise ETypeError end
  | VList l =>
      match b with
      | VList m =>
          (fix go (l m : list val) {struct l} : res bool :=
             match l, m with
             | [], _ => Ok true
             | _ :: _, [] => Ok false
             | x :: xs, y :: ys => if py_eq x y then go xs ys else py_le x y
             end) l m
      | _ => Raise ETypeError
      end
  | VTup l =>
      match b with
      | VTup m =>
          (fix go (l m : list val) {struct l} : res bool :=
             match l, m with
             | [], _ => Ok true
             | _ :: _, [] => Ok false
             | x :: xs, y :: ys => if py_eq x y then go xs ys else py_le x y
             end) l m
      | _ => Raise ETypeError
      end
  | VBool _ | VInt _ | VFlt _ _ =>
      match num_of a, num_of b with
      | Some x, Some y => Ok (q_leb x y)
      | _, _ => Raise ETypeError
      end
  | VNone | VDict _ => Raise ETypeError
  end.

(* ---------- bool(), hash(), in ---------- *)

Definition truthy (v : val) : bool :=
  match v with
  | VNone => false
  | VBool b => b
  | VInt z => negb (Z.eqb z 0)
  | VFlt m _ => negb (Z.eqb m 0)
  | VStr s => match s with [] => false | _ => true end
  | VList l | VTup l => match l with [] => false | _ => true end
  | VDict k => match k with [] => false | _ => true end
  end.

Fixpoint hashable (v : val) : bool :=
  match v with
  | VNone | VBool _ | VInt _ | VFlt _ _ | VStr _ => true
  | VTup l => (fix go (l : list val) : bool :=
                 match l with [] => true | x :: r => hashable x && go r end) l
  | VList _ | VDict _ => false
  end.

Definition mem_val (x : val) (d : list val) : bool := existsb (py_eq x) d.

(* x in <set built from d> : TypeError iff x is unhashable *)
Definition py_in_set (x : val) (d : list val) : res bool :=
  if hashable x then Ok (mem_val x d) else Raise ETypeError.

(* x in <list l> : uses == only *)
Definition py_in_list (x : val) (l : list val) : bool := mem_val x l.

(* set(l): TypeError iff some element is unhashable *)
Definition to_set (l : list val) : res (list val) :=
  if forallb hashable l then Ok l else Raise ETypeError.

(* ---------- str() on the values for which vakt uses it ---------- *)

Definition digit_cp (d : N) : N := (48 + d)%N.

Fixpoint pos_digits (fuel : nat) (n : N) (acc : pstr) : pstr :=
  match fuel with
  | O => acc
  | S f =>
      let q := N.div n 10 in
      let r := N.modulo n 10 in
      match q with
      | 0%N => digit_cp r :: acc
      | _ => pos_digits f q (digit_cp r :: acc)
      end
  end.

Definition N_digits (n : N) : pstr := pos_digits (S (N.to_nat (N.log2 n))) n [].

Definition Z_str (z : Z) : pstr :=
  match z with
  | Z0 => [48%N]
  | Zpos p => N_digits (Npos p)
  | Zneg p => 45%N :: N_digits (Npos p)
  end.

Definition str_of (v : val) : res pstr :=
  match v with
  | VNone => Ok [78; 111; 110; 101]%N
  | VBool true => Ok [84; 114; 117; 101]%N
  | VBool false => Ok [70; 97; 108; 115; 101]%N
  | VInt z => Ok (Z_str z)
  | VStr s => Ok s
  | _ => Raise EUnmodelled
  end.

Definition is_str (v : val) : bool := match v with VStr _ => true | _ => false end.
Definition is_list (v : val) : bool := match v with VList _ => true | _ => false end.
Definition is_dict (v : val) : bool := match v with VDict _ => true | _ => false end.
Definition is_tuple (v : val) : bool := match v with VTup _ => true | _ => false end.
