(* Show: canonical ASCII rendering of model results for the correspondence
   check.  The harness has the same renderer in Python (harness/show.py). *)
From Coq Require Import ZArith NArith List Bool String Ascii.
From Vakt Require Import Base.PyMonad Base.PyVal.
Import ListNotations.
Open Scope string_scope.

Definition str_of_pstr_ascii (s : pstr) : string :=
  fold_right (fun c acc => String (ascii_of_N c) acc) EmptyString s.

Definition show_N (n : N) : string := str_of_pstr_ascii (N_digits n).
Definition show_Z (z : Z) : string := str_of_pstr_ascii (Z_str z).
Definition show_nat (n : nat) : string := show_N (N.of_nat n).

Fixpoint join (sep : string) (l : list string) : string :=
  match l with
  | [] => ""
  | [x] => x
  | x :: r => x ++ sep ++ join sep r
  end.

Definition lines (l : list string) : string := join (String (ascii_of_N 10) "") l.

(* strings made of [A-Za-z0-9_] only are rendered raw after a quote mark; any other string as
   '.'-separated decimal code points (robust for any Unicode, never contains separators) *)
Definition safe_cp (c : N) : bool :=
  (N.leb 48 c && N.leb c 57) || (N.leb 65 c && N.leb c 90) || (N.leb 97 c && N.leb c 122) || N.eqb c 95.
Definition show_pstr (s : pstr) : string :=
  if forallb safe_cp s then String "'" (str_of_pstr_ascii s) else "s" ++ join "." (map show_N s).

Definition show_bool (b : bool) : string := if b then "T" else "F".

Definition show_exn (e : exn) : string :=
  match e with
  | ETypeError => "E:TypeError" | EKeyError => "E:KeyError" | EValueError => "E:ValueError"
  | EIndexError => "E:IndexError" | EAttributeError => "E:AttributeError"
  | ERuntimeError => "E:RuntimeError" | EPolicyExists => "E:PolicyExistsError"
  | EPolicyCreation => "E:PolicyCreationError" | EInvalidPattern => "E:InvalidPatternError"
  | EIrreversible => "E:Irreversible" | EUnknownChecker => "E:UnknownCheckerType"
  | EException => "E:Exception"
  | ECustom n => "E:Custom" ++ show_N n
  | EBase n => "B:Base" ++ show_N n
  | EUnmodelled => "UNMODELLED"
  end.

Fixpoint show_val (v : val) : string :=
  match v with
  | VNone => "N"
  | VBool b => show_bool b
  | VInt z => "i" ++ show_Z z
  | VFlt m j => "f" ++ show_Z m ++ "/" ++ show_N j
  | VStr s => show_pstr s
  | VList l => "[" ++ join "," ((fix go (l : list val) := match l with [] => [] | x :: r => show_val x :: go r end) l) ++ "]"
  | VTup l => "(" ++ join "," ((fix go (l : list val) := match l with [] => [] | x :: r => show_val x :: go r end) l) ++ ")"
  | VDict k => "{" ++ join "," ((fix go (l : list (pstr * val)) := match l with [] => [] | (k, x) :: r => (show_pstr k ++ ":" ++ show_val x) :: go r end) k) ++ "}"
  end.

Definition show_res {A} (f : A -> string) (r : res A) : string :=
  match r with Ok a => f a | Raise e => show_exn e end.

Definition show_option {A} (f : A -> string) (o : option A) : string :=
  match o with Some a => f a | None => "-" end.

Definition show_list {A} (f : A -> string) (l : list A) : string :=
  "[" ++ join "," (map f l) ++ "]".
