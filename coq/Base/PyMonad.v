(* PyMonad: the meaning given to the Python subset used by vakt's own logic.
   res = value or raised exception; ctl = loop control; combinators for the
   statement forms that occur in the modelled / translated functions.
   No proofs about vakt live here (only generic monad facts). *)
From Coq Require Import List Bool NArith.
Import ListNotations.

(* Exception classes that occur in vakt and in the harness' fault injectors.
   EBase   : a BaseException that is NOT a subclass of Exception.
   EUnmodelled : not a Python exception; marks an input outside the modelled
                 universe.  It is never caught, so it surfaces to the harness,
                 which discards the case (and counts it). *)
Inductive exn : Type :=
| ETypeError | EKeyError | EValueError | EIndexError | EAttributeError
| ERuntimeError | EPolicyExists | EPolicyCreation | EInvalidPattern
| EIrreversible | EUnknownChecker | EException | ECustom (n : N)
| EBase (n : N)
| EUnmodelled.

Definition is_exception (e : exn) : bool :=
  match e with EBase _ | EUnmodelled => false | _ => true end.

Definition exn_eqb (a b : exn) : bool :=
  match a, b with
  | ETypeError, ETypeError | EKeyError, EKeyError | EValueError, EValueError
  | EIndexError, EIndexError | EAttributeError, EAttributeError
  | ERuntimeError, ERuntimeError | EPolicyExists, EPolicyExists
  | EPolicyCreation, EPolicyCreation | EInvalidPattern, EInvalidPattern
  | EIrreversible, EIrreversible | EUnknownChecker, EUnknownChecker
  | EException, EException | EUnmodelled, EUnmodelled => true
  | ECustom n, ECustom m => N.eqb n m
  | EBase n, EBase m => N.eqb n m
  | _, _ => false
  end.

Inductive res (A : Type) : Type :=
| Ok (a : A)
| Raise (e : exn).
Arguments Ok {A} a.
Arguments Raise {A} e.

Definition bind {A B} (m : res A) (f : A -> res B) : res B :=
  match m with Ok a => f a | Raise e => Raise e end.

Notation "x <- m ;; f" := (bind m (fun x => f))
  (at level 61, m at next level, right associativity).

Definition rmap {A B} (f : A -> B) (m : res A) : res B :=
  match m with Ok a => Ok (f a) | Raise e => Raise e end.

(* `a and b` / `a or b` on booleans whose evaluation may raise: short-circuit *)
Definition andM (a : res bool) (b : unit -> res bool) : res bool :=
  x <- a ;; if x then b tt else Ok false.
Definition orM (a : res bool) (b : unit -> res bool) : res bool :=
  x <- a ;; if x then Ok true else b tt.

(* try: m  except <classes in catches>: h e *)
Definition try_except {A} (m : res A) (catches : exn -> bool) (h : exn -> res A) : res A :=
  match m with
  | Ok a => Ok a
  | Raise e => if catches e then h e else Raise e
  end.

(* try: m  except Exception: h        (BaseExceptions propagate) *)
Definition catch_exception {A} (m : res A) (h : res A) : res A :=
  try_except m is_exception (fun _ => h).

(* [x for x in xs if c x] where c may raise *)
Fixpoint filterM {X} (c : X -> res bool) (xs : list X) : res (list X) :=
  match xs with
  | [] => Ok []
  | x :: r =>
      b <- c x ;;
      r' <- filterM c r ;;
      Ok (if b then x :: r' else r')
  end.

(* [f x for x in xs] where f may raise *)
Fixpoint mapM {X Y} (f : X -> res Y) (xs : list X) : res (list Y) :=
  match xs with
  | [] => Ok []
  | x :: r => y <- f x ;; r' <- mapM f r ;; Ok (y :: r')
  end.

(* loop control *)
Inductive ctl (S R : Type) : Type :=
| Normal (s : S) | Ret (r : R) | Brk (s : S) | Cont (s : S).
Arguments Normal {S R} s.
Arguments Ret {S R} r.
Arguments Brk {S R} s.
Arguments Cont {S R} s.

(* for x in xs: body   -- Ret/Raise stop the loop, Brk leaves it with Normal *)
Fixpoint for_each {X S R} (xs : list X) (s : S)
         (body : X -> S -> res (ctl S R)) : res (ctl S R) :=
  match xs with
  | [] => Ok (Normal s)
  | x :: r =>
      match body x s with
      | Raise e => Raise e
      | Ok (Ret v) => Ok (Ret v)
      | Ok (Brk s') => Ok (Normal s')
      | Ok (Normal s') | Ok (Cont s') => for_each r s' body
      end
  end.

(* statement sequencing: the second statement runs only when the first completed normally *)
Definition seqc {S R} (m : res (ctl S R)) (k : S -> res (ctl S R)) : res (ctl S R) :=
  match m with
  | Ok (Normal s) => k s
  | other => other
  end.

(* enumerate(xs) *)
Fixpoint enumerate_from {X} (i : nat) (xs : list X) : list (nat * X) :=
  match xs with
  | [] => []
  | x :: r => (i, x) :: enumerate_from (S i) r
  end.
Definition enumerate {X} (xs : list X) : list (nat * X) := enumerate_from 0 xs.

(* while c: body    with explicit fuel; running out of fuel is outside the model *)
Fixpoint while_loop {S R} (fuel : nat) (s : S) (c : S -> res bool)
         (body : S -> res (ctl S R)) : res (ctl S R) :=
  match fuel with
  | O => Raise EUnmodelled
  | Datatypes.S f =>
      match c s with
      | Raise e => Raise e
      | Ok false => Ok (Normal s)
      | Ok true =>
          match body s with
          | Raise e => Raise e
          | Ok (Ret v) => Ok (Ret v)
          | Ok (Brk s') => Ok (Normal s')
          | Ok (Normal s') | Ok (Cont s') => while_loop f s' c body
          end
      end
  end.

(* ---- x-mode: an exception carries the state reached when it was raised, so that handlers (and callers) see the
        effects of the part of a body that ran: for code that drives an external mutable object (a DB session) ---- *)
Inductive xres (S A : Type) : Type :=
| XOk (a : A)
| XRaise (e : exn) (s : S).
Arguments XOk {S A} a.
Arguments XRaise {S A} e s.

Definition xbind {S A B} (m : xres S A) (f : A -> xres S B) : xres S B :=
  match m with XOk a => f a | XRaise e s => XRaise e s end.

(* a computation that may raise but does not touch the state *)
Definition xlift {S A} (s : S) (m : res A) : xres S A :=
  match m with Ok a => XOk a | Raise e => XRaise e s end.

Definition xseqc {S R} (m : xres S (ctl S R)) (k : S -> xres S (ctl S R)) : xres S (ctl S R) :=
  match m with
  | XOk (Normal s) => k s
  | other => other
  end.

Fixpoint xfor_each {X S R} (xs : list X) (s : S)
         (body : X -> S -> xres S (ctl S R)) : xres S (ctl S R) :=
  match xs with
  | [] => XOk (Normal s)
  | x :: r =>
      match body x s with
      | XRaise e s' => XRaise e s'
      | XOk (Ret v) => XOk (Ret v)
      | XOk (Brk s') => XOk (Normal s')
      | XOk (Normal s') | XOk (Cont s') => xfor_each r s' body
      end
  end.

(* "first x in xs with c x" where c may raise: models  for x in xs: if c x: return ... *)
Fixpoint existsM {X} (c : X -> res bool) (xs : list X) : res bool :=
  match xs with
  | [] => Ok false
  | x :: r => b <- c x ;; if b then Ok true else existsM c r
  end.

(* all(c x for x in xs) with short-circuit *)
Fixpoint forallM {X} (c : X -> res bool) (xs : list X) : res bool :=
  match xs with
  | [] => Ok true
  | x :: r => b <- c x ;; if b then forallM c r else Ok false
  end.

Definition is_ok {A} (m : res A) : bool := match m with Ok _ => true | Raise _ => false end.

(* generic facts *)
Lemma bind_ok {A B} (a : A) (f : A -> res B) : bind (Ok a) f = f a.
Proof. reflexivity. Qed.
Lemma bind_raise {A B} e (f : A -> res B) : bind (Raise e) f = Raise e.
Proof. reflexivity. Qed.
Lemma bind_assoc {A B C} (m : res A) (f : A -> res B) (g : B -> res C) :
  bind (bind m f) g = bind m (fun x => bind (f x) g).
Proof. destruct m; reflexivity. Qed.
Lemma bind_ret {A} (m : res A) : bind m Ok = m.
Proof. destruct m; reflexivity. Qed.
