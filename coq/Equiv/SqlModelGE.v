(* SqlModelGE: a policy element written to its SQL child row by _policy_element_to_db and read back by
   _policy_element_from_db (both generated from vakt/storage/sql/model.py) is the same element, for both policy
   types and for every string element, the empty string included. *)
From Coq Require Import ZArith NArith List Bool.
From Vakt Require Import Base.PyMonad Base.PyVal Model.Regex Model.Rules Model.Policy Model.Parser.
From VaktGen Require Import SqlModelG.
Import ListNotations.

Definition consistent (t : ptype) (el : elem) : Prop :=
  match t with StringBased => is_str_elem el = true | RuleBased => is_str_elem el = false end.

Theorem element_round_trip t st en el rows : consistent t el ->
  element_to_db_g t st en el = Ok rows ->
  exists j s c, rows = [(j, s, c)] /\ element_from_db_g t j s = Ok el.
Proof.
  intros C H. unfold element_to_db_g in H. cbn [seqc et_json_value et_string_value et_compiled et_out] in H.
  destruct t; cbn [ptype_eqb] in H.
  - destruct el as [x|r|kvs]; cbn in C; try discriminate. cbn [elem_text] in H.
    destruct (is_substr st x && is_substr en x); cbn in H.
    + destruct (compile_pattern x st en) as [pat|e]; cbn in H; [|discriminate].
      injection H as <-. eexists _, _, _. split; reflexivity.
    + injection H as <-. eexists _, _, _. split; reflexivity.
  - cbn in H. injection H as <-. eexists _, _, _. split; [reflexivity|]. reflexivity.
Qed.

(* a string element is stored in the string column only, a rule element in the JSON column only *)
Theorem element_columns t st en el j s c : consistent t el ->
  element_to_db_g t st en el = Ok [(j, s, c)] ->
  match t with StringBased => j = None /\ s = Some (elem_text el) | RuleBased => j = Some el /\ s = None /\ c = None end.
Proof.
  intros C H. unfold element_to_db_g in H. cbn [seqc et_json_value et_string_value et_compiled et_out] in H.
  destruct t; cbn [ptype_eqb] in H.
  - destruct (is_substr st (elem_text el) && is_substr en (elem_text el)); cbn in H.
    + destruct (compile_pattern (elem_text el) st en); cbn in H; [|discriminate]. injection H as <- <- _. auto.
    + injection H as <- <- _. auto.
  - cbn in H. injection H as <- <- <-. auto.
Qed.
Print Assumptions element_round_trip.
