(* ParserGE: get_tag_indices and compile_regex generated from vakt/parser.py equal the string functions of
   Model/Parser.v. *)
From Coq Require Import ZArith NArith List Bool Lia.
From Vakt Require Import Base.PyMonad Base.PyVal Model.Regex Model.Parser.
From VaktGen Require Import ParserG.
Import ListNotations.

Local Arguments pstr_eqb : simpl never.
Local Arguments Z.add : simpl never.
Local Arguments Z.sub : simpl never.
Local Arguments Z.eqb : simpl never.
Local Arguments Z.ltb : simpl never.

Lemma get_tag_indices_eq s st en : ParserG.get_tag_indices_g s st en = Parser.get_tag_indices s st en.
Proof.
  unfold ParserG.get_tag_indices_g, Parser.get_tag_indices, enumerate. cbn [seqc].
  match goal with |- context [for_each _ ?s0 ?b] => set (body := b); set (st0 := s0) end.
  assert (L : forall l i stt,
    match seqc (for_each (enumerate_from i l) stt body)
               (fun st1 => seqc (if negb (Z.eqb (gt_level st1) 0) then Raise EInvalidPattern else Ok (Normal st1))
                                (fun st2 => Ok (Ret (st2, gt_indices st2))))
    with
    | Ok (Ret (_, r__)) => Ok r__
    | Ok _ => Raise EUnmodelled
    | Raise e => Raise e
    end =
    (r <- tag_loop st en l i (gt_idx stt) (gt_level stt) (gt_indices stt) ;;
     if Z.eqb (snd r) 0 then Ok (fst r) else Raise EInvalidPattern)).
  { induction l as [|v l IH]; intros i stt.
    - cbn. destruct (Z.eqb (gt_level stt) 0); reflexivity.
    - cbn [enumerate_from for_each tag_loop]. unfold body at 1. cbn.
      Ltac useIH IH := match goal with |- context [for_each (enumerate_from ?j _) ?s1 _] => rewrite (IH j s1) end; cbn.
      destruct (pstr_eqb [v] st); cbn.
      + destruct (Z.eqb (gt_level stt + 1) 1); cbn; useIH IH; reflexivity.
      + destruct (pstr_eqb [v] en); cbn; [|useIH IH; reflexivity].
        destruct (Z.eqb (gt_level stt - 1) 0); cbn.
        * useIH IH. rewrite <- app_assoc. reflexivity.
        * destruct (Z.ltb (gt_level stt - 1) 0); cbn; [reflexivity|useIH IH; reflexivity]. }
  apply (L s 0 st0).
Qed.
Print Assumptions get_tag_indices_eq.

Lemma tag_loop_even st en s : forall i idx level acc r,
  tag_loop st en s i idx level acc = Ok r -> Nat.even (length acc) = true -> Nat.even (length (fst r)) = true.
Proof.
  induction s as [|v s IH]; intros i idx level acc r H E.
  - cbn in H. injection H as <-. exact E.
  - cbn [tag_loop] in H.
    destruct (pstr_eqb [v] st); [eapply IH; eassumption|].
    destruct (pstr_eqb [v] en); [|eapply IH; eassumption].
    destruct (Z.eqb (level - 1) 0).
    + eapply IH; [eassumption|]. rewrite app_length. cbn [length]. rewrite Nat.add_comm. cbn. exact E.
    + destruct (Z.ltb (level - 1) 0); [discriminate|eapply IH; eassumption].
Qed.

Lemma pair_ind {X} (P : list X -> Prop) :
  P [] -> (forall a, P [a]) -> (forall a b l, P l -> P (a :: b :: l)) -> forall l, P l.
Proof.
  intros H0 H1 H2. fix IH 1. intros [|a [|b l]]; [exact H0|apply H1|apply H2, IH].
Qed.

Lemma compile_regex_eq phrase st en : ParserG.compile_regex_g phrase st en = compile_pieces phrase st en.
Proof.
  unfold ParserG.compile_regex_g, compile_pieces, enumerate. cbn [seqc]. rewrite get_tag_indices_eq.
  unfold Parser.get_tag_indices.
  destruct (tag_loop st en phrase 0 0 0%Z []) as [[ix lv]|e] eqn:T; cbn [bind fst snd]; [|reflexivity].
  destruct (Z.eqb lv 0); cbn [bind seqc cr_pattern cr_end cr_indices cr_i cr_idx cr_raw cr_part]; [|reflexivity].
  assert (Hev : Nat.even (length ix) = true).
  { apply (tag_loop_even _ _ _ _ _ _ _ _ T). reflexivity. }
  match goal with |- context [for_each _ ?s0 ?b] => set (body := b); set (st0 := s0) end.
  assert (SK : forall (I : list nat) n a b l, skipn n I = a :: b :: l ->
                 nth_error I (n + 1) = Some b /\ skipn (S (S n)) I = l).
  { clear. induction I as [|x I IH]; intros n a b l H.
    - destruct n; discriminate.
    - destruct n as [|n]; cbn in H.
      + injection H as -> H. destruct I as [|y I]; [discriminate|]. injection H as -> ->. split; reflexivity.
      + apply IH in H. exact H. }
  assert (L : forall l, Nat.even (length l) = true -> forall i0 stt, skipn (2 * i0) (cr_indices stt) = l ->
    match seqc (for_each (enumerate_from i0 (evens l)) stt body)
               (fun st1 => Ok (Ret ({| cr_pattern := cr_pattern st1; cr_end := cr_end st1; cr_indices := cr_indices st1;
                                        cr_i := cr_i st1; cr_idx := cr_idx st1; cr_raw := skipn (cr_end st1) phrase;
                                        cr_part := cr_part st1 |},
                                     cr_pattern st1 ++ [PLit (skipn (cr_end st1) phrase)])))
    with
    | Ok (Ret (_, r__)) => Ok r__
    | Raise e__ => Raise e__
    | _ => Raise EUnmodelled
    end = Ok (cr_pattern stt ++ pieces_loop phrase l (cr_end stt))).
  { induction l as [|a|a b l IH] using pair_ind; intros E i0 stt S0.
    - reflexivity.
    - discriminate.
    - cbn [evens enumerate_from for_each]. unfold body at 1.
      destruct (SK _ _ _ _ _ S0) as [N1 S2]. rewrite N1. cbn [bind seqc cr_pattern cr_end cr_indices cr_i cr_idx cr_raw cr_part].
      match goal with |- context [for_each _ ?s1 body] => rewrite (IH E (S i0) s1) end.
      + cbn [cr_pattern cr_end pieces_loop]. rewrite <- app_assoc. reflexivity.
      + cbn [cr_indices]. replace (2 * S i0) with (S (S (2 * i0))) by lia. exact S2. }
  apply (L ix Hev 0 st0). reflexivity.
Qed.
Print Assumptions compile_regex_eq.
