(* GuardGE: the definitions generated from vakt/guard.py on this run equal the hand-written model
   (Model/Guard.v) the property theorems are about. *)
From Coq Require Import ZArith NArith List Bool.
From Vakt Require Import Base.PyMonad Base.PyVal Model.Rules Model.Policy Model.Guard.
From VaktGen Require Import GuardG.
Import ListNotations.

Lemma check_context_restriction_eq p q :
  GuardG.check_context_restriction p q = context_ok (p_context p) q.
Proof.
  unfold GuardG.check_context_restriction. cbn [seqc].
  generalize ({| check_context_restriction_key := []; check_context_restriction_rule := RAny;
                 check_context_restriction_ctx_value := VNone |}).
  match goal with |- context [for_each _ _ ?b] => set (body := b) end.
  induction (p_context p) as [|[k r] rest IH]; intros st; [reflexivity|].
  cbn [for_each context_ok]. unfold body at 1. unfold ctx_index, ctx_get.
  destruct (i_context q); cbn; try reflexivity.
  destruct (lookup k kvs) as [v|]; cbn; [|reflexivity].
  destruct (sat_b r v (Some q)) as [[|]|e]; cbn; try reflexivity.
  apply IH.
Qed.
Print Assumptions check_context_restriction_eq.

Lemma filterM_ext {X} (c d : X -> res bool) l : (forall x, c x = d x) -> filterM c l = filterM d l.
Proof. intros H. induction l as [|x l IH]; cbn; [reflexivity|]. rewrite H, IH. reflexivity. Qed.

Section guard.
  Variable fits_ : policy -> pfield -> val -> option inquiry -> res bool.
  Variable find_ : inquiry -> res (option (list policy)).

  Definition one_audit (r : bool * audit) : bool * list audit := (fst r, [snd r]).

  Lemma check_policies_allow_eq q ps :
    GuardG.check_policies_allow fits_ q ps = rmap one_audit (Guard.check_policies_allow fits_ q ps).
  Proof.
    unfold GuardG.check_policies_allow, Guard.check_policies_allow. cbn [seqc].
    rewrite (filterM_ext _ (matches fits_ q)).
    2:{ intros x. unfold matches. rewrite check_context_restriction_eq. reflexivity. }
    destruct (filterM (matches fits_ q) ps) as [filtered|e]; [|reflexivity].
    cbn [bind seqc check_policies_allow_filtered rmap].
    destruct filtered as [|p0 rest]; [reflexivity|].
    set (F := p0 :: rest). unfold decide_filtered. fold F.
    change (Nat.eqb (length F) 0) with false. cbn iota. cbn [seqc].
    match goal with |- context [for_each _ _ ?b] => set (body := b) end.
    assert (L : forall l st, check_policies_allow_filtered st = F -> check_policies_allow_audits st = [] ->
      match seqc (for_each l st body)
              (fun st => seqc (let st := {| check_policies_allow_filtered := check_policies_allow_filtered st;
                                              check_policies_allow_p := check_policies_allow_p st;
                                              check_policies_allow_audits := check_policies_allow_audits st ++
                                                [{| a_allow := true; a_candidates := check_policies_allow_filtered st;
                                                    a_deciders := check_policies_allow_filtered st |}] |} in Ok (Normal st))
                              (fun st => Ok (Ret (st, true))))
      with
      | Ok (Ret (st, r__)) => Ok (r__, check_policies_allow_audits st)
      | Ok (Normal _) | Ok (Brk _) | Ok (Cont _) => Raise EUnmodelled
      | Raise e__ => Raise e__
      end =
      Ok (one_audit match find (fun p => negb (allow_access p)) l with
                    | Some p => (false, {| a_allow := false; a_candidates := F; a_deciders := [p] |})
                    | None => (true, {| a_allow := true; a_candidates := F; a_deciders := F |})
                    end)).
    { induction l as [|x l IH]; intros st HF HA.
      - cbn. rewrite HF, HA. reflexivity.
      - cbn [for_each find]. unfold body at 1. cbn.
        destruct (allow_access x); cbn.
        + apply IH; cbn; assumption.
        + rewrite HF, HA. reflexivity. }
    apply L; reflexivity.
  Qed.

  (* what the model's find_result is for a storage that raises, returns None, or returns a list *)
  Definition as_find_result (r : res (option (list policy))) : find_result :=
    match r with
    | Raise e => FRaise e
    | Ok None => FNone
    | Ok (Some ps) => FIter (map inl ps)
    end.

  Lemma filter_lazy_inl c ps : filter_lazy c (map inl ps) = filterM c ps.
  Proof. induction ps as [|p ps IH]; cbn; [reflexivity|]. rewrite IH. reflexivity. Qed.

  Lemma is_allowed_check_eq q :
    GuardG.is_allowed_check fits_ find_ q = Guard.is_allowed_check fits_ (as_find_result (find_ q)) q.
  Proof.
    unfold GuardG.is_allowed_check, Guard.is_allowed_check, catch_exception, try_except. cbn [seqc].
    destruct (find_ q) as [[ps|]|e]; cbn.
    - rewrite check_policies_allow_eq. unfold check_policies_lazy, Guard.check_policies_allow.
      rewrite filter_lazy_inl.
      destruct (filterM (matches fits_ q) ps) as [f|e]; cbn; [reflexivity|].
      destruct (is_exception e); reflexivity.
    - reflexivity.
    - destruct (is_exception e); reflexivity.
  Qed.
End guard.
Print Assumptions check_policies_allow_eq.
Print Assumptions is_allowed_check_eq.
