(* RedisGE: RedisStorage's methods generated from vakt/storage/redis.py equal the insertion-ordered store model. *)
From Coq Require Import ZArith NArith List Bool Lia.
From Vakt Require Import Base.PyMonad Model.Store.
From VaktGen Require Import StorageAbcG RedisG.
Import ListNotations.

Section redis.
  Variables K V : Type.
  Variable keq : K -> K -> bool.
  Variable klt : K -> K -> bool.
  Variable k0 : K.
  Notation smap := (list (K * V)).
  Notation stepI := (step K V keq klt Insertion).

  Lemma redis_add_eq (h : smap) u x bad : redis_add_g K V keq k0 h (u, x) bad = Ok (stepI h (Add u x bad)).
  Proof.
    unfold redis_add_g, step, rhas. cbn [xseqc ra_h ra_uid ra_done fst snd].
    destruct bad; cbn; [reflexivity|].
    destruct (s_get K V keq u h); reflexivity.
  Qed.

  Lemma redis_update_eq (h : smap) u x bad :
    rhas K V keq u h = true \/ bad = false ->
    redis_update_g K V keq k0 h (u, x) bad = Ok (stepI h (Update u x bad)).
  Proof.
    intros H. unfold redis_update_g, step, rhas in *. cbn [xseqc ru_h ru_uid ru_res fst snd].
    destruct bad; cbn.
    - destruct H as [H|H]; [|discriminate]. destruct (s_get K V keq u h); [reflexivity|discriminate].
    - destruct (s_get K V keq u h); reflexivity.
  Qed.

  Lemma redis_delete_eq (h : smap) u : redis_delete_g K V keq h u = Ok (stepI h (Delete u)).
  Proof.
    unfold redis_delete_g, step, rhas. cbn [xseqc rd_h rd_res].
    destruct (s_get K V keq u h); reflexivity.
  Qed.

  Lemma redis_get_eq (h : smap) u : redis_get_g K V keq h u = Ok (s_get K V keq u h).
  Proof. unfold redis_get_g. cbn [seqc rg_ret]. destruct (s_get K V keq u h); reflexivity. Qed.

  Lemma redis_get_all_eq (h : smap) limit offset : redis_get_all_g K V h limit offset = get_all K V h limit offset.
  Proof.
    unfold redis_get_all_g, get_all, check_limit_and_offset_g. cbn [seqc rl_data rl_sliced].
    destruct (Z.ltb limit 0); cbn; [reflexivity|]. destruct (Z.ltb offset 0); reflexivity.
  Qed.

  Lemma redis_find_eq (h : smap) : redis_find_g K V h = Ok h.
  Proof. unfold redis_find_g. cbn [seqc rf_data]. destruct h; reflexivity. Qed.
End redis.
Print Assumptions redis_add_eq.
Print Assumptions redis_update_eq.
