(* StorageAbcGE: Storage._check_limit_and_offset and Storage.retrieve_all generated from vakt/storage/abc.py
   equal the paging model (Model/Store.v). *)
From Coq Require Import ZArith NArith List Bool Lia.
From Vakt Require Import Base.PyMonad Model.Store.
From VaktGen Require Import StorageAbcG.
Import ListNotations.

Arguments ra_limit {K V} _.
Arguments ra_offset {K V} _.
Arguments ra_policies {K V} _.
Arguments ra_out {K V} _.

Section abc.
  Variables K V : Type.

  Lemma check_limit_eq limit offset :
    check_limit_and_offset_g limit offset =
    if Z.ltb limit 0 then Raise EValueError else if Z.ltb offset 0 then Raise EValueError else Ok tt.
  Proof.
    unfold check_limit_and_offset_g. cbn [seqc].
    destruct (Z.ltb limit 0); cbn; [reflexivity|]. destruct (Z.ltb offset 0); reflexivity.
  Qed.

  Lemma retrieve_all_eq (s : list (K * V)) batch :
    retrieve_all_g K V (get_all K V s) (S (length s)) batch =
    match retrieve_all K V s batch with
    | Ok (Some l) => Ok l
    | Ok None => Raise EUnmodelled
    | Raise e => Raise e
    end.
  Proof.
    unfold retrieve_all_g, retrieve_all. cbn [seqc ra_limit ra_offset ra_policies ra_out].
    match goal with |- context [while_loop _ ?s0 ?c ?b] => set (C := c); set (B := b); set (st0 := s0) end.
    assert (APP : forall (l : list (K * V)) st,
               for_each l st (fun policy_ st => Ok (Normal {| ra_limit := ra_limit st; ra_offset := ra_offset st;
                                                               ra_policies := ra_policies st; ra_out := ra_out st ++ [policy_] |}))
               = Ok (Normal {| ra_limit := ra_limit st; ra_offset := ra_offset st; ra_policies := ra_policies st;
                               ra_out := ra_out st ++ l |} : ctl (retrieve_all_g_st K V) (retrieve_all_g_st K V * unit))).
    { induction l as [|x l IH]; intros st; cbn [for_each].
      - rewrite app_nil_r. destruct st; reflexivity.
      - rewrite IH. cbn. rewrite <- app_assoc. reflexivity. }
    assert (L : forall f st, ra_limit st = batch ->
      match while_loop f st C B with
      | Ok (Ret (st', _)) => Ok (ra_out st')
      | Ok _ => Raise EUnmodelled
      | Raise e => Raise e
      end =
      match retrieve_loop K V f s batch (ra_offset st) with
      | Ok (Some l) => Ok (ra_out st ++ l)
      | Ok None => Raise EUnmodelled
      | Raise e => Raise e
      end).
    { induction f as [|f IH]; intros st Hl; [reflexivity|].
      cbn [while_loop retrieve_loop]. unfold C at 1. unfold B at 1. rewrite Hl.
      destruct (get_all K V s batch (ra_offset st)) as [pg|e]; cbn [bind seqc ra_policies]; [|reflexivity].
      destruct pg as [|p pg]; cbn [seqc].
      - cbn. rewrite app_nil_r. reflexivity.
      - cbn [ra_policies]. rewrite APP. cbn [seqc ra_limit ra_offset ra_policies ra_out].
        rewrite IH by reflexivity. cbn [ra_offset ra_out ra_limit]. rewrite ?Hl.
        destruct (retrieve_loop K V f s batch (ra_offset st + batch)) as [[rest|]|e]; try reflexivity.
        rewrite <- app_assoc. reflexivity. }
    specialize (L (S (length s)) st0 eq_refl). cbn [ra_offset ra_out st0] in L. cbn [app] in L.
    etransitivity; [|exact L].
    destruct (while_loop (S (length s)) st0 C B) as [[st|[st u]|st|st]|e]; reflexivity.
  Qed.
End abc.
Print Assumptions check_limit_eq.
Print Assumptions retrieve_all_eq.
