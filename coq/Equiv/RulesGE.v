(* RulesGE: the `satisfied` methods generated from vakt/rules/*.py on this run, tied together by dynamic dispatch,
   define the same function as the hand-written model (Model/Rules.v `sat`):
     - sat_unfold:  sat solves the generated recursive equations  (sat r = <method of r's class> with member
                    rules evaluated by sat);
     - sat_unique:  every solution of those equations is sat (the recursion is on strictly smaller rules).
   User-defined rules (RBroken / RConst / RJunk) have no source in vakt; their behaviour is given. *)
From Coq Require Import ZArith NArith List Bool.
From Vakt Require Import Base.PyMonad Base.PyVal Model.Regex Model.Net Model.Rules.
From VaktGen Require Import RulesG.
Import ListNotations.

Definition dispatch (rec : rule -> val -> option inquiry -> res val)
           (r : rule) (w : val) (i : option inquiry) : res val :=
  match r with
  | REq a => eq_satisfied a w
  | RNotEq a => noteq_satisfied a w
  | RGreater a => greater_satisfied a w
  | RLess a => less_satisfied a w
  | RGreaterOrEqual a => ge_satisfied a w
  | RLessOrEqual a => le_satisfied a w
  | RIn d => in_satisfied d w
  | RNotIn d => notin_satisfied d w
  | RAllIn d => allin_satisfied d w
  | RAllNotIn d => allnotin_satisfied d w
  | RAnyIn d => anyin_satisfied d w
  | RAnyNotIn d => anynotin_satisfied d w
  | RTruthy => boolean_satisfied true w          (* Truthy.val (pinned) *)
  | RFalsy => boolean_satisfied false w          (* Falsy.val (pinned) *)
  | RAnd rs => and_satisfied rec rs w i
  | ROr rs => or_satisfied rec rs w i
  | RNot x => not_satisfied rec x w i
  | RAny => any_satisfied w
  | RNeither => neither_satisfied w
  | REqual s ci => equal_satisfied s ci w
  | RPairsEqual => pairsequal_satisfied w
  | RRegexMatch x => regexmatch_satisfied x w
  | RStartsWith s ci => startswith_satisfied s ci w
  | REndsWith s ci => endswith_satisfied s ci w
  | RContains s ci => contains_satisfied s ci w
  (* a CIDR built from a non-string is outside the modelled domain (the model declines with EUnmodelled) *)
  | RCIDR c => match c with VStr _ => cidr_satisfied c w | _ => sat (RCIDR c) w None end
  | RMatch f attr => inqmatch_satisfied f attr w i
  | RSubjectEqual => subjectequal_satisfied w i
  | RActionEqual => actionequal_satisfied w i
  | RResourceIn => resourcein_satisfied w i
  | RBroken e => Raise e
  | RConst v => Ok v
  | RJunk => Raise EAttributeError
  end.

(* ---------- operator.py ---------- *)
Lemma eq_eq a w i : eq_satisfied a w = sat (REq a) w i.
Proof. destruct a; reflexivity. Qed.
Lemma noteq_eq a w i : noteq_satisfied a w = sat (RNotEq a) w i.
Proof. destruct a; reflexivity. Qed.
Lemma greater_eq a w i : greater_satisfied a w = sat (RGreater a) w i.
Proof. unfold greater_satisfied; cbn. destruct (py_lt a w); reflexivity. Qed.
Lemma less_eq a w i : less_satisfied a w = sat (RLess a) w i.
Proof. unfold less_satisfied; cbn. destruct (py_lt w a); reflexivity. Qed.
Lemma ge_eq a w i : ge_satisfied a w = sat (RGreaterOrEqual a) w i.
Proof. unfold ge_satisfied; cbn. destruct (py_le a w); reflexivity. Qed.
Lemma le_eq a w i : le_satisfied a w = sat (RLessOrEqual a) w i.
Proof. unfold le_satisfied; cbn. destruct (py_le w a); reflexivity. Qed.

(* ---------- list.py ---------- *)
Lemma listrule_init_eq args : listrule_init args = to_set args.
Proof. unfold listrule_init; cbn. destruct (to_set args); reflexivity. Qed.

Lemma in_eq d w i : in_satisfied d w = sat (RIn d) w i.
Proof. unfold in_satisfied, one_in_list; cbn. destruct (py_in_set w d); reflexivity. Qed.
Lemma notin_eq d w i : notin_satisfied d w = sat (RNotIn d) w i.
Proof. unfold notin_satisfied, one_in_list; cbn. destruct (py_in_set w d); reflexivity. Qed.
Lemma allin_eq d w i : allin_satisfied d w = sat (RAllIn d) w i.
Proof. unfold allin_satisfied, all_in_list; destruct w; cbn; try reflexivity. destruct (to_set l); reflexivity. Qed.
Lemma allnotin_eq d w i : allnotin_satisfied d w = sat (RAllNotIn d) w i.
Proof. unfold allnotin_satisfied, all_in_list; destruct w; cbn; try reflexivity. destruct (to_set l); reflexivity. Qed.
Lemma anyin_eq d w i : anyin_satisfied d w = sat (RAnyIn d) w i.
Proof. unfold anyin_satisfied, any_in_list; destruct w; cbn; try reflexivity. destruct (to_set l); reflexivity. Qed.
Lemma anynotin_eq d w i : anynotin_satisfied d w = sat (RAnyNotIn d) w i.
Proof. unfold anynotin_satisfied; destruct w; cbn; try reflexivity. destruct (to_set l); reflexivity. Qed.

(* ---------- logic.py ---------- *)
Lemma truthy_eq w : boolean_satisfied true w = sat RTruthy w None.
Proof. unfold boolean_satisfied; cbn. destruct (truthy w); reflexivity. Qed.
Lemma falsy_eq w : boolean_satisfied false w = sat RFalsy w None.
Proof. unfold boolean_satisfied; cbn. destruct (truthy w); reflexivity. Qed.

(* CompositionRule.__init__: TypeError unless every argument is a Rule; the members are kept as given *)
Lemma composition_init_eq rs :
  composition_init rs = if forallb is_rule rs then Ok rs else Raise ETypeError.
Proof.
  unfold composition_init. cbn [seqc].
  match goal with |- context [for_each rs ?s ?b] => set (body := b); generalize s end.
  assert (L : forall l st, match for_each l st body with
                           | Ok (Normal _) => forallb is_rule l = true
                           | Raise e => e = ETypeError /\ forallb is_rule l = false
                           | _ => False
                           end).
  { induction l as [|r l IH]; intros st; [reflexivity|].
    cbn [for_each forallb]. unfold body at 1. cbn.
    destruct (is_rule r); cbn; [|split; reflexivity].
    specialize (IH {| ci_r := r; ci_self_rules := ci_self_rules st |}).
    destruct (for_each l _ body) as [[s|s|s|[s v]]|e]; cbn in *; auto. }
  intros st. specialize (L rs st).
  destruct (for_each rs st body) as [[s|s|s|[s v]]|e]; cbn; try contradiction.
  - rewrite L. reflexivity.
  - destruct L as [-> ->]. reflexivity.
Qed.

Lemma not_init_eq r : not_init r = if is_rule r then Ok r else Raise ETypeError.
Proof. unfold not_init; cbn. destruct (is_rule r); reflexivity. Qed.

Section with_rec.
  Variable rec : rule -> val -> option inquiry -> res val.

  Lemma and_eq rs w i :
    and_satisfied rec rs w i =
    bind (mapM (fun x => rec x w i) rs) (fun answers => Ok (VBool (negb (is_nil answers) && forallb truthy answers))).
  Proof. unfold and_satisfied; cbn. destruct (mapM _ rs); reflexivity. Qed.

  Fixpoint or_loop (rs : list rule) (w : val) (i : option inquiry) : res val :=
    match rs with
    | [] => Ok (VBool false)
    | x :: t => bind (rec x w i) (fun a => if truthy a then Ok (VBool true) else or_loop t w i)
    end.

  Lemma or_eq rs w i : or_satisfied rec rs w i = or_loop rs w i.
  Proof.
    unfold or_satisfied. cbn [seqc].
    match goal with |- context [for_each rs ?s ?b] => set (body := b); generalize s end.
    induction rs as [|r rs IH]; intros st; [reflexivity|].
    cbn [for_each or_loop]. unfold body at 1. cbn.
    destruct (rec r w i) as [a|e]; cbn; [|reflexivity].
    destruct (truthy a); cbn; [reflexivity|]. apply IH.
  Qed.

  Lemma not_eq x w i : not_satisfied rec x w i = bind (rec x w i) (fun a => Ok (VBool (negb (truthy a)))).
  Proof. unfold not_satisfied; cbn. destruct (rec x w i); reflexivity. Qed.
End with_rec.

(* ---------- string.py ---------- *)
Lemma stringrule_init_eq v ci :
  stringrule_init v ci = match v with VStr s => Ok (s, ci) | _ => Raise ETypeError end.
Proof. destruct v; reflexivity. Qed.

Lemma equal_eq s ci w i : equal_satisfied s ci w = sat (REqual s ci) w i.
Proof. unfold equal_satisfied; destruct w; cbn; try reflexivity. destruct ci; reflexivity. Qed.
Lemma startswith_eq s ci w i : startswith_satisfied s ci w = sat (RStartsWith s ci) w i.
Proof. unfold startswith_satisfied; destruct w; cbn; try reflexivity. destruct ci; reflexivity. Qed.
Lemma endswith_eq s ci w i : endswith_satisfied s ci w = sat (REndsWith s ci) w i.
Proof. unfold endswith_satisfied; destruct w; cbn; try reflexivity. destruct ci; reflexivity. Qed.
Lemma contains_eq s ci w i : contains_satisfied s ci w = sat (RContains s ci) w i.
Proof. unfold contains_satisfied; destruct w; cbn; try reflexivity. destruct ci; reflexivity. Qed.
Lemma regexmatch_eq x w i : regexmatch_satisfied x w = sat (RRegexMatch x) w i.
Proof. unfold regexmatch_satisfied; cbn. destruct (str_of w); reflexivity. Qed.

Lemma pstr1_eqb a b : pstr_eqb [a] [b] = N.eqb a b.
Proof. cbn. destruct (N.eqb a b); reflexivity. Qed.
Lemma pairsequal_eq w i : pairsequal_satisfied w = sat RPairsEqual w i.
Proof.
  unfold pairsequal_satisfied. destruct w as [ | b | z | m e | s | l | l | d]; try reflexivity.
  cbn [is_list negb seqc list_val sat].
  match goal with |- context [for_each l ?s ?b] => set (body := b); generalize s end.
  induction l as [|p l IH]; intros st; [reflexivity|].
  cbn [for_each forallM]. unfold body at 1.
  assert (two : forall (X : Type) (x : list X), (length x =? 2) = true -> exists a b, x = [a; b]).
  { intros X [|a [|b [|c x]]] H; try discriminate. eauto. }
  destruct p as [ | b | z | m e | s | q | q | d]; try reflexivity; cbn [py_len pe_pair rmap bind].
  - (* str *)
    destruct (length s =? 2) eqn:L.
    + destruct (two _ s L) as [a [b ->]]. cbn.
      destruct (N.eqb a b); cbn; [apply IH|reflexivity].
    + destruct s as [|a [|b [|c s]]]; try discriminate; reflexivity.
  - destruct (length q =? 2) eqn:L.
    + destruct (two _ q L) as [a [b ->]]. cbn.
      destruct (is_str a), (is_str b); cbn; try reflexivity; destruct (py_eq a b); cbn; try reflexivity; apply IH.
    + destruct q as [|a [|b [|c q]]]; try discriminate; reflexivity.
  - destruct (length q =? 2) eqn:L.
    + destruct (two _ q L) as [a [b ->]]. cbn.
      destruct (is_str a), (is_str b); cbn; try reflexivity; destruct (py_eq a b); cbn; try reflexivity; apply IH.
    + destruct q as [|a [|b [|c q]]]; try discriminate; reflexivity.
  - destruct (length d =? 2) eqn:L.
    + destruct (two _ d L) as [a [b ->]]. reflexivity.
    + destruct d as [|a [|b [|c d]]]; try discriminate; reflexivity.
Qed.

(* ---------- inquiry.py, net.py ---------- *)
Lemma inqmatch_eq f attr w i : inqmatch_satisfied f attr w i = sat (RMatch f attr) w i.
Proof.
  unfold inqmatch_satisfied. destruct i as [q|]; [|reflexivity].
  destruct attr as [a|]; cbn; [|reflexivity].
  destruct (inq_field f q); cbn; try reflexivity.
  unfold has_key. destruct (lookup a _); reflexivity.
Qed.
Lemma subjectequal_eq w i : subjectequal_satisfied w i = sat RSubjectEqual w i.
Proof. destruct i; reflexivity. Qed.
Lemma actionequal_eq w i : actionequal_satisfied w i = sat RActionEqual w i.
Proof. destruct i; reflexivity. Qed.
Lemma resourcein_eq w i : resourcein_satisfied w i = sat RResourceIn w i.
Proof. destruct i; [|reflexivity]. destruct w; reflexivity. Qed.
Lemma parse_ip_raise s e : parse_ip s = Raise e -> e = EUnmodelled.
Proof.
  unfold parse_ip. destruct (parse_ip4 s); [discriminate|].
  destruct (parse_ip6 s) as [[a|]|]; try discriminate. intros H; injection H; auto.
Qed.
Lemma parse_prefix_raise v s e : parse_prefix v s = Raise e -> e = EUnmodelled.
Proof.
  unfold parse_prefix. destruct s; [discriminate|].
  destruct (forallb is_digit _); [destruct (N.leb _ _)|]; destruct v; try discriminate; intros H; injection H; auto.
Qed.
Lemma parse_net_raise s e : parse_net s = Raise e -> e = EUnmodelled.
Proof.
  unfold parse_net. destruct (split_on 47 s) as [|a [|p [|x l]]]; try discriminate.
  - destruct (parse_ip a) as [[[x|x]|]|e0] eqn:E; try discriminate.
    intros H; injection H as <-. eapply parse_ip_raise, E.
  - destruct (parse_ip a) as [[[x|x]|]|e0] eqn:E; try discriminate.
    + destruct (parse_prefix false p) as [[n|]|e1] eqn:P; try discriminate.
      intros H; injection H as <-. eapply parse_prefix_raise, P.
    + destruct (parse_prefix true p) as [[n|]|e1] eqn:P; try discriminate.
      intros H; injection H as <-. eapply parse_prefix_raise, P.
    + intros H; injection H as <-. eapply parse_ip_raise, E.
Qed.

Lemma cidr_eq cs w i : cidr_satisfied (VStr cs) w = sat (RCIDR (VStr cs)) w i.
Proof.
  unfold cidr_satisfied. destruct w as [ | b | z | m e | s | l | l | d]; try reflexivity.
  cbn [is_str negb seqc str_val sat]. unfold cidr_sat.
  destruct (parse_ip s) as [[a|]|e] eqn:E; cbn; try reflexivity.
  - destruct (parse_net cs) as [[n|]|e] eqn:P; cbn; try reflexivity.
    rewrite (parse_net_raise _ _ P). reflexivity.
  - rewrite (parse_ip_raise _ _ E). reflexivity.
Qed.

(* ---------- the whole evaluator ---------- *)
Lemma sat_and_mapM rs w i :
  sat (RAnd rs) w i =
  bind (mapM (fun x => sat x w i) rs) (fun answers => Ok (VBool (negb (is_nil answers) && forallb truthy answers))).
Proof.
  cbn [sat]. f_equal. induction rs as [|x rs IH]; [reflexivity|].
  cbn [mapM]. destruct (sat x w i); cbn; [|reflexivity]. rewrite IH. reflexivity.
Qed.

Lemma sat_or_loop rs w i : sat (ROr rs) w i = or_loop sat rs w i.
Proof.
  cbn [sat]. induction rs as [|x rs IH]; [reflexivity|].
  cbn [or_loop]. destruct (sat x w i) as [a|e]; cbn; [|reflexivity]. destruct (truthy a); [reflexivity|apply IH].
Qed.

(* the model evaluator solves the generated equations ... *)
Theorem sat_unfold r w i : sat r w i = dispatch sat r w i.
Proof.
  destruct r; cbn [dispatch]; symmetry;
    first [ apply eq_eq | apply noteq_eq | apply greater_eq | apply less_eq | apply ge_eq | apply le_eq
          | apply in_eq | apply notin_eq | apply allin_eq | apply allnotin_eq | apply anyin_eq | apply anynotin_eq
          | apply truthy_eq | apply falsy_eq | apply equal_eq | apply pairsequal_eq | apply regexmatch_eq
          | apply startswith_eq | apply endswith_eq | apply contains_eq | apply inqmatch_eq
          | apply subjectequal_eq | apply actionequal_eq | apply resourcein_eq | idtac ].
  - rewrite and_eq. symmetry. apply sat_and_mapM.
  - rewrite or_eq. symmetry. apply sat_or_loop.
  - rewrite not_eq. cbn [sat]. destruct (sat r w i); reflexivity.
  - reflexivity.
  - reflexivity.
  - destruct c; try reflexivity. apply cidr_eq.
  - reflexivity.
  - reflexivity.
  - reflexivity.
Qed.
Print Assumptions sat_unfold.

(* induction on rules through the member lists of And / Or *)
Section rule_nested_ind.
  Variable P : rule -> Prop.
  Hypothesis H_and : forall rs, Forall P rs -> P (RAnd rs).
  Hypothesis H_or : forall rs, Forall P rs -> P (ROr rs).
  Hypothesis H_not : forall x, P x -> P (RNot x).
  Hypothesis H_leaf : forall r, (forall rs, r <> RAnd rs) -> (forall rs, r <> ROr rs) -> (forall x, r <> RNot x) -> P r.
  Lemma rule_nested_ind : forall r, P r.
  Proof.
    fix IH 1. intros r.
    destruct r; try (apply H_leaf; intros; discriminate).
    - apply H_and. induction rs as [|x rs IHrs]; constructor; [apply IH|exact IHrs].
    - apply H_or. induction rs as [|x rs IHrs]; constructor; [apply IH|exact IHrs].
    - apply H_not. apply IH.
  Qed.
End rule_nested_ind.

(* ... and is their only solution: whatever function the Python methods compute by calling each other, it is sat *)
Theorem sat_unique (f : rule -> val -> option inquiry -> res val) :
  (forall r w i, f r w i = dispatch f r w i) -> forall r w i, f r w i = sat r w i.
Proof.
  intros Hf r. induction r using rule_nested_ind; intros w i; rewrite Hf, sat_unfold.
  - cbn [dispatch]. rewrite !and_eq. f_equal.
    induction H as [|x rs Hx _ IH]; [reflexivity|]. cbn [mapM]. rewrite Hx. destruct (sat x w i); cbn; [|reflexivity].
    rewrite IH. reflexivity.
  - cbn [dispatch]. rewrite !or_eq.
    induction H as [|x rs Hx _ IH]; [reflexivity|]. cbn [or_loop]. rewrite Hx. destruct (sat x w i) as [a|e]; cbn; [|reflexivity].
    destruct (truthy a); [reflexivity|apply IH].
  - cbn [dispatch]. rewrite !not_eq, IHr. reflexivity.
  - destruct r; try reflexivity.
    + exfalso. eapply H; reflexivity.
    + exfalso. eapply H0; reflexivity.
    + exfalso. eapply H1; reflexivity.
Qed.
Print Assumptions sat_unique.
