(* MongoMigGE: the data-migration processors of vakt/storage/mongo.py, MongoMigration._each_doc and
   MongoStorage.__prepare_doc as GENERATED on this run equal the hand-written model (Model/MongoMig.v).
   Dictionaries have distinct keys (a Python dict does): the statements carry that as `NoDup (map fst ...)`. *)
From Coq Require Import ZArith NArith List Bool String Ascii.
From Vakt Require Import Base.PyMonad Base.PyVal Model.Regex Model.Parser Model.MongoMig Proofs.PyValP Proofs.MongoMigP.
From VaktGen Require Import MongoMigG.
Import ListNotations.

(* ---------- generic facts ---------- *)
Lemma ddel_nokey k (d : doc) : has_key k d = false -> ddel k d = d.
Proof.
  unfold has_key. induction d as [|[k' x] r IH]; cbn; [reflexivity|].
  destruct (pstr_eqb k k'); [discriminate|]. intros H. f_equal. apply IH, H.
Qed.

Lemma ddel_comm a b (d : doc) : ddel a (ddel b d) = ddel b (ddel a d).
Proof.
  induction d as [|[k x] r IH]; cbn; [reflexivity|].
  destruct (pstr_eqb b k) eqn:B, (pstr_eqb a k) eqn:A; cbn; rewrite ?A, ?B; try rewrite IH; reflexivity.
Qed.

Lemma keys_eq : compiled_name_g (pstr_of "actions") = compiled_name k_actions /\
                compiled_name_g (pstr_of "subjects") = compiled_name k_subjects /\
                compiled_name_g (pstr_of "resources") = compiled_name k_resources /\
                pstr_of "actions" = k_actions /\ pstr_of "subjects" = k_subjects /\ pstr_of "resources" = k_resources.
Proof. repeat split; reflexivity. Qed.

(* ---------- #4 down ---------- *)
Lemma down4_process_eq d : down4_process d = down4_doc d.
Proof.
  unfold down4_process, down4_doc, condition_fields_g. cbn [map seqc].
  match goal with |- context [for_each _ ?s ?b] => set (body := b); set (s0 := s) end.
  assert (B : forall f st, body f st = Ok (Normal {| d4_doc := ddel f (d4_doc st); d4_field := f |})).
  { intros f st. unfold body. cbn. destruct (has_key f (d4_doc st)) eqn:H; [reflexivity|].
    rewrite (ddel_nokey _ _ H). reflexivity. }
  cbn [for_each]. rewrite !B. cbn [seqc d4_doc]. subst s0. cbn [d4_doc].
  destruct keys_eq as [-> [-> [-> _]]]. f_equal.
  rewrite (ddel_comm (compiled_name k_resources) (compiled_name k_subjects)),
          (ddel_comm (compiled_name k_resources) (compiled_name k_actions)),
          (ddel_comm (compiled_name k_subjects) (compiled_name k_actions)). reflexivity.
Qed.
Print Assumptions down4_process_eq.

(* ---------- MongoStorage.__prepare_doc ---------- *)
Lemma compiled_name_eq f : compiled_name_g f = compiled_name f.
Proof. reflexivity. Qed.

Lemma prepare_doc_eq d uid :
  prepare_doc_g d uid = bind (up4_doc d) (fun d' => Ok (dset k_id uid d')).
Proof.
  unfold prepare_doc_g, up4_doc. cbn [seqc pd_doc].
  destruct (dget k_type d) as [t|e]; cbn [bind]; [|reflexivity].
  destruct (py_eq t (VInt 1)); cbn [bind seqc]; [|reflexivity].
  match goal with |- context [for_each condition_fields_g ?s ?b] => set (fbody := b); set (s0 := s) end.
  (* one field *)
  assert (F : forall f st,
    match add_compiled f (pd_doc st) with
    | Ok d' => exists st', fbody f st = Ok (Normal st') /\ pd_doc st' = d'
    | Raise e => fbody f st = Raise e
    end).
  { intros f st. unfold fbody, add_compiled. cbn [seqc pd_doc pd_field pd_compiled_regexes].
    unfold list_of. destruct (dget f (pd_doc st)) as [v|e]; cbn [bind]; [|reflexivity].
    destruct v as [ | b | z | m ex | s | l | l | kv]; cbn [bind]; try reflexivity.
    match goal with |- context [for_each l ?s ?b] => set (ebody := b); set (s1 := s) end.
    assert (E : forall l st1,
      match mapM compile_el l with
      | Ok c => exists st', for_each l st1 ebody = Ok (Normal st') /\ pd_doc st' = pd_doc st1 /\
                            pd_field st' = pd_field st1 /\ pd_compiled_regexes st' = pd_compiled_regexes st1 ++ c
      | Raise e => for_each l st1 ebody = Raise e
      end).
    { clear.
      assert (S : forall el st1, ebody el st1 =
                 match compile_el el with
                 | Ok c => Ok (Normal {| pd_doc := pd_doc st1; pd_field := pd_field st1;
                                         pd_compiled_regexes := pd_compiled_regexes st1 ++ [c];
                                         pd_el := el; pd_compiled := c |})
                 | Raise e => Raise e
                 end).
      { intros el st1. unfold ebody. cbn [seqc pd_el pd_doc pd_field pd_compiled_regexes pd_compiled].
        destruct el as [ | b | z | m ex | s | q | q | kv]; cbn; try reflexivity.
        destruct (mem_N 60 s); cbn; [destruct (mem_N 62 s); cbn|]; try reflexivity.
        destruct (compile_pattern s [60%N] [62%N]) as [p|e]; reflexivity. }
      induction l as [|el l IH]; intros st1.
      - cbn. exists st1. rewrite app_nil_r. auto.
      - cbn [mapM for_each]. rewrite S. destruct (compile_el el) as [c0|e]; cbn [bind]; [|reflexivity].
        match goal with |- context [for_each l ?s2 ebody] => specialize (IH s2) end.
        destruct (mapM compile_el l) as [c|e]; cbn [bind] in *.
        + destruct IH as [st' [E1 [E2 [E3 E4]]]]. exists st'. rewrite E1, E4. cbn [pd_compiled_regexes].
          rewrite <- app_assoc. auto.
        + exact IH. }
    specialize (E l s1). destruct (mapM compile_el l) as [c|e]; cbn [bind].
    - destruct E as [st' [E1 [E2 [E3 E4]]]]. rewrite E1. cbn [seqc]. eexists. split; [reflexivity|].
      cbn [pd_doc]. rewrite E2, E3, E4. subst s1. cbn [pd_doc pd_field pd_compiled_regexes app].
      rewrite compiled_name_eq. reflexivity.
    - rewrite E. reflexivity. }
  unfold condition_fields_g. destruct keys_eq as [_ [_ [_ [-> [-> ->]]]]]. cbn [for_each].
  pose proof (F k_actions s0) as F1. replace (pd_doc s0) with d in F1 by reflexivity.
  destruct (add_compiled k_actions d) as [d1|e]; cbn [bind]; [|rewrite F1; reflexivity].
  destruct F1 as [st1 [-> D1]]. pose proof (F k_subjects st1) as F2. rewrite D1 in F2.
  destruct (add_compiled k_subjects d1) as [d2|e]; cbn [bind]; [|rewrite F2; reflexivity].
  destruct F2 as [st2 [-> D2]]. pose proof (F k_resources st2) as F3. rewrite D2 in F3.
  destruct (add_compiled k_resources d2) as [d3|e]; cbn [bind]; [|rewrite F3; reflexivity].
  destruct F3 as [st3 [-> D3]]. cbn [seqc pd_doc]. rewrite D3. reflexivity.
Qed.
Print Assumptions prepare_doc_eq.

(* ---------- MongoMigration._each_doc ---------- *)
Lemma each_doc_spec f coll :
  each_doc f coll = (map (fun d => match f d with Ok d' => d' | Raise _ => d end) coll,
                     filter (fun d => match f d with Ok _ => false | Raise _ => true end) coll).
Proof.
  induction coll as [|d r IH]; [reflexivity|]. unfold each_doc in *. cbn [fold_right map filter]. rewrite IH.
  destruct (f d); reflexivity.
Qed.

(* documents are keyed: _id = uid, and no two documents share an _id *)
Definition apart (a b : doc) : Prop :=
  forall u v, lookup k_id a = Some u -> lookup k_id b = Some v -> py_eq u v = false /\ py_eq v u = false.
Inductive keyed : list doc -> Prop :=
| keyed_nil : keyed []
| keyed_cons d l : (exists u, lookup k_id d = Some u /\ lookup k_uid d = Some u /\ py_eq u u = true) ->
                   (forall x, In x l -> apart d x) -> keyed l -> keyed (d :: l).

Lemma keyed_split a d b : keyed (a ++ d :: b) ->
  (forall x, In x a -> apart x d) /\ (exists u, lookup k_id d = Some u /\ lookup k_uid d = Some u /\ py_eq u u = true).
Proof.
  induction a as [|x a IH]; cbn [app]; intros K; inversion K as [|? ? Hu Hap Kl]; subst.
  - split; [intros ? []|exact Hu].
  - destruct (IH Kl) as [H1 H2]. split; [|exact H2].
    intros y [<-|Hy]; [apply Hap, in_or_app; right; left; reflexivity|apply H1, Hy].
Qed.

Lemma replace_here u new pre d post :
  (forall x, In x pre -> forall j, lookup k_id x = Some j -> py_eq j u = false) ->
  (exists j, lookup k_id d = Some j /\ py_eq j u = true) ->
  replace_by_id u new (pre ++ d :: post) = pre ++ new :: post.
Proof.
  intros Hpre [j [Hj Hju]]. induction pre as [|x pre IH]; cbn [app replace_by_id].
  - rewrite Hj, Hju. reflexivity.
  - destruct (lookup k_id x) as [i|] eqn:Ex.
    + rewrite (Hpre x (or_introl eq_refl) i Ex). f_equal. apply IH. intros y Hy. apply Hpre. right. exact Hy.
    + f_equal. apply IH. intros y Hy. apply Hpre. right. exact Hy.
Qed.

Section each_doc_eq.
  Variable f : doc -> res doc.
  Variable P : doc -> Prop.          (* what is known of the stored documents (e.g. dictionaries with distinct keys) *)
  Hypothesis f_exc : forall d e, P d -> f d = Raise e -> is_exception e = true.
  Hypothesis f_uid : forall d d', P d -> f d = Ok d' -> lookup k_uid d' = lookup k_uid d.
  Hypothesis f_id : forall d d', P d -> f d = Ok d' -> lookup k_id d' = lookup k_id d.

  Let proc (d : doc) : doc := match f d with Ok d' => d' | Raise _ => d end.
  Let fails (d : doc) : bool := match f d with Ok _ => false | Raise _ => true end.

  Lemma proc_id d : P d -> lookup k_id (proc d) = lookup k_id d.
  Proof. intros Hp. unfold proc. destruct (f d) eqn:E; [apply (f_id _ _ Hp E)|reflexivity]. Qed.

  Theorem each_doc_g_eq coll : keyed coll -> Forall P coll -> each_doc_g f coll = Ok (each_doc f coll).
  Proof.
    intros K FP. rewrite each_doc_spec. fold proc fails. unfold each_doc_g.
    cbn [xseqc ed_coll ed_failed_policies ed_cur ed_doc ed_new_doc ed_storage ed_msg].
    match goal with |- context [xfor_each coll ?s ?b] => set (body := b); set (s0 := s) end.
    assert (L : forall rest done st, ed_coll st = map proc done ++ rest -> keyed (done ++ rest) -> Forall P (done ++ rest) ->
      exists st', xfor_each rest st body = XOk (Normal st') /\ ed_coll st' = map proc (done ++ rest) /\
                  ed_failed_policies st' = ed_failed_policies st ++ filter fails rest).
    { clear s0 K FP. induction rest as [|d rest IH]; intros done st Hc K FP.
      - exists st. cbn. rewrite !app_nil_r in *. auto.
      - destruct (keyed_split _ _ _ K) as [Hap [u [Hid [Huid Hrefl]]]].
        assert (Pin : forall y, In y (done ++ d :: rest) -> P y) by (apply Forall_forall; exact FP).
        assert (Pd : P d) by (apply Pin, in_or_app; right; left; reflexivity).
        assert (Step : exists st1, body d st = XOk (Normal st1) /\ ed_coll st1 = map proc (done ++ [d]) ++ rest /\
                                   ed_failed_policies st1 = ed_failed_policies st ++ (if fails d then [d] else [])).
        { unfold body. cbn [xseqc xbind xlift ed_coll ed_failed_policies ed_cur ed_doc ed_new_doc ed_storage ed_msg].
          unfold fails, proc. rewrite map_app. cbn [map]. fold proc.
          (* the two logging calls read doc['uid'] *)
          unfold dget at 1. rewrite Huid.
          cbn [xseqc xbind xlift ed_coll ed_failed_policies ed_cur ed_doc ed_new_doc ed_storage ed_msg].
          destruct (f d) as [d'|e] eqn:E; cbn [xseqc xbind xlift ed_new_doc ed_coll ed_doc ed_failed_policies].
          - unfold dget. rewrite (f_uid _ _ Pd E), Huid.
            cbn [xseqc xbind xlift ed_new_doc ed_coll ed_doc ed_failed_policies]. rewrite ?Huid.
            cbn [xseqc xbind xlift ed_new_doc ed_coll ed_doc ed_failed_policies].
            eexists. split; [reflexivity|]. cbn [ed_coll ed_failed_policies]. rewrite Hc, app_nil_r.
            split; [|reflexivity]. rewrite <- app_assoc. cbn [app]. apply replace_here.
            + intros x Hx j Hj. apply in_map_iff in Hx. destruct Hx as [y [<- Hy]].
              rewrite proc_id in Hj by (apply Pin, in_or_app; left; exact Hy).
              apply (Hap y Hy j u Hj Hid).
            + exists u. auto.
          - pose proof (f_exc _ _ Pd E) as Hex.
            destruct (exn_eqb e EIrreversible); cbn [xseqc ed_coll ed_failed_policies ed_doc].
            + eexists. split; [reflexivity|]. cbn [ed_coll ed_failed_policies]. rewrite Hc, <- app_assoc. auto.
            + rewrite Hex. cbn [xseqc ed_coll ed_failed_policies ed_doc].
              eexists. split; [reflexivity|]. cbn [ed_coll ed_failed_policies]. rewrite Hc, <- app_assoc. auto. }
        destruct Step as [st1 [B1 [C1 F1]]]. cbn [xfor_each]. rewrite B1.
        assert (K' : keyed ((done ++ [d]) ++ rest)) by (rewrite <- app_assoc; exact K).
        assert (FP' : Forall P ((done ++ [d]) ++ rest)) by (rewrite <- app_assoc; exact FP).
        destruct (IH (done ++ [d]) st1 C1 K' FP') as [st' [E1 [E2 E3]]].
        exists st'. rewrite E1. split; [reflexivity|]. rewrite <- app_assoc in E2. split; [exact E2|].
        rewrite E3, F1, <- app_assoc. cbn [filter]. destruct (fails d); reflexivity. }
    destruct (L coll [] s0 eq_refl K FP) as [st' [E1 [E2 E3]]]. rewrite E1. cbn [xseqc].
    destruct (match ed_failed_policies st' with [] => false | _ => true end); cbn [xseqc]; rewrite E2, E3; reflexivity.
  Qed.
End each_doc_eq.
Print Assumptions each_doc_g_eq.

(* ---------- #2 up ---------- *)
Lemma lookup_snoc_none k k' (v : val) acc : lookup k acc = None -> k <> k' -> lookup k (acc ++ [(k', v)]) = None.
Proof.
  intros H N. rewrite lookup_app, H. cbn. destruct (pstr_eqb k k') eqn:E; [|reflexivity].
  apply pstr_eqb_eq in E. contradiction.
Qed.

Lemma up2_process_eq d :
  (forall kvs, lookup k_rules d = Some (VDict kvs) -> NoDup (map fst kvs)) -> up2_process d = up2_doc d.
Proof.
  intros Hnd. unfold up2_process, up2_doc, items_of, dget. cbn [seqc u2_doc_to_save u2_rules_to_save].
  destruct (lookup k_rules d) as [rs|] eqn:Er; cbn [bind]; [|reflexivity].
  destruct rs as [ | b | z | m ex | s | l | l | kvs]; cbn [bind]; try reflexivity.
  specialize (Hnd kvs eq_refl).
  match goal with |- context [for_each kvs ?s ?b] => set (body := b); set (s0 := s) end.
  assert (S : forall name r st,
    match up2_rule r with
    | Ok v => exists st', body (name, r) st = Ok (Normal st') /\
                          u2_rules_to_save st' = dset name v (u2_rules_to_save st) /\ u2_doc_to_save st' = u2_doc_to_save st
    | Raise e => body (name, r) st = Raise e
    end).
  { intros name r st. unfold body, up2_rule, json_loads, vget, dict_update.
    cbn [seqc bind u2_doc_to_save u2_rules_to_save u2_name u2_rule_str u2_rule u2_rule_to_save].
    destruct r as [ | b | z | m ex | s | l | l | rk]; cbn [bind seqc u2_rule]; try reflexivity.
    destruct (dget k_type rk) as [t|e]; cbn [bind seqc u2_rule u2_rule_to_save]; [|reflexivity].
    destruct (dget k_contents rk) as [c|e]; cbn [bind seqc]; [|reflexivity].
    destruct c as [ | b | z | m ex | s | l | l | ck]; cbn [bind seqc]; try reflexivity.
    eexists. split; [reflexivity|]. cbn [u2_rules_to_save u2_doc_to_save u2_name u2_rule_to_save]. auto. }
  assert (L : forall kvs st, NoDup (map fst kvs) ->
    (forall k, In k (map fst kvs) -> lookup k (u2_rules_to_save st) = None) ->
    match map_rules up2_rule kvs with
    | Ok kvs' => exists st', for_each kvs st body = Ok (Normal st') /\
                             u2_rules_to_save st' = u2_rules_to_save st ++ kvs' /\ u2_doc_to_save st' = u2_doc_to_save st
    | Raise e => for_each kvs st body = Raise e
    end).
  { clear - S. induction kvs as [|[k r] rest IH]; intros st Hd Hfresh.
    - cbn. exists st. rewrite app_nil_r. auto.
    - cbn [map_rules for_each]. specialize (S k r st). cbn [map fst] in Hd. inversion Hd as [|? ? Hn Hd']; subst.
      destruct (up2_rule r) as [v|e]; cbn [bind]; [|rewrite S; reflexivity].
      destruct S as [st1 [B1 [R1 D1]]]. rewrite B1.
      rewrite (dset_absent k v _ (Hfresh k (or_introl eq_refl))) in R1.
      assert (Hf1 : forall k', In k' (map fst rest) -> lookup k' (u2_rules_to_save st1) = None).
      { intros k' Hk'. rewrite R1. apply lookup_snoc_none; [apply Hfresh; right; exact Hk'|].
        intros ->. contradiction. }
      specialize (IH st1 Hd' Hf1). destruct (map_rules up2_rule rest) as [r'|e]; cbn [bind].
      + destruct IH as [st' [E1 [E2 E3]]]. exists st'. rewrite E1, E2, R1, E3, D1, <- app_assoc. auto.
      + exact IH. }
  specialize (L kvs s0 Hnd (fun _ _ => eq_refl)).
  destruct (map_rules up2_rule kvs) as [kvs'|e]; cbn [bind].
  - destruct L as [st' [E1 [E2 E3]]]. rewrite E1. cbn [seqc u2_doc_to_save u2_rules_to_save]. rewrite E2, E3. reflexivity.
  - rewrite L. reflexivity.
Qed.
Print Assumptions up2_process_eq.

(* ---------- #2 down ---------- *)
Lemma in_keys_ddel k x (d : doc) : In x (map fst (ddel k d)) -> In x (map fst d).
Proof.
  induction d as [|[k' v] r IH]; cbn; [tauto|]. destruct (pstr_eqb k k'); cbn; [auto|]. intros [H|H]; auto.
Qed.
Lemma NoDup_ddel k (d : doc) : NoDup (map fst d) -> NoDup (map fst (ddel k d)).
Proof.
  induction d as [|[k' v] r IH]; cbn; [auto|]. intros H. inversion H as [|? ? Hn Hd]; subst.
  destruct (pstr_eqb k k'); cbn; [auto|]. constructor; [|auto]. intros Hin. apply Hn. eapply in_keys_ddel, Hin.
Qed.
Lemma existsb_map {A B} (g : A -> B) (p : B -> bool) l : existsb p (map g l) = existsb (fun x => p (g x)) l.
Proof. induction l as [|x l IH]; cbn; [reflexivity|]. rewrite IH. reflexivity. Qed.
Lemma has_reserved_dict v : is_dict v && has_reserved v = has_reserved v.
Proof. destruct v; reflexivity. Qed.

Definition d2_setv (st : down2_process_st) (v : val) : down2_process_st :=
  {| d2_doc_to_save := d2_doc_to_save st; d2_rules_to_save := d2_rules_to_save st; d2_name := d2_name st;
     d2_rule := d2_rule st; d2_rule_type := d2_rule_type st; d2_rule_contents := d2_rule_contents st;
     d2_rule_to_save := d2_rule_to_save st; d2_value := v |}.

Lemma down2_process_eq d :
  (forall kvs, lookup k_rules d = Some (VDict kvs) ->
     NoDup (map fst kvs) /\ forall k rk, In (k, VDict rk) kvs -> NoDup (map fst rk)) ->
  down2_process d = down2_doc d.
Proof.
  intros Hnd. unfold down2_process, down2_doc, items_of, dget. cbn [seqc d2_doc_to_save d2_rules_to_save].
  destruct (lookup k_rules d) as [rs|] eqn:Er; cbn [bind]; [|reflexivity].
  destruct rs as [ | b | z | m ex | s | l | l | kvs]; cbn [bind]; try reflexivity.
  destruct (Hnd kvs eq_refl) as [Hd Hin]. clear Hnd.
  match goal with |- context [for_each kvs ?s ?b] => set (body := b); set (s0 := s) end.
  assert (S : forall name r st, (forall rk, r = VDict rk -> NoDup (map fst rk)) ->
    match down2_rule r with
    | Ok v => exists st', body (name, r) st = Ok (Normal st') /\
                          d2_rules_to_save st' = dset name v (d2_rules_to_save st) /\ d2_doc_to_save st' = d2_doc_to_save st
    | Raise e => body (name, r) st = Raise e
    end).
  { intros name r st Hr. unfold body, down2_rule, vget.
    destruct r as [ | b | z | m ex | s | l | l | rk]; try reflexivity.
    specialize (Hr rk eq_refl). cbn [seqc bind d2_rule].
    destruct (dget k_pyobject rk) as [t|e]; [|reflexivity].
    destruct t as [ | b | z | m ex | ts | l | l | tk]; try reflexivity.
    cbn [seqc bind d2_rule d2_rule_type d2_rule_contents d2_rule_to_save d2_doc_to_save d2_rules_to_save d2_name d2_value
         dict_of starts rmap].
    change (pstr_of "vakt.rules.") with vakt_rules_prefix.
    set (contents := ddel k_pyobject rk).
    assert (Hc : NoDup (map fst contents)) by (apply NoDup_ddel, Hr).
    assert (Upd : fold_left (fun acc kv => dset (fst kv) (snd kv) acc) contents [] = contents).
    { rewrite fold_dset_app; [reflexivity| |exact Hc]. intros; reflexivity. }
    assert (Fin : forall st2, d2_rule_contents st2 = contents ->
              d2_rule_to_save st2 = [(k_type, VStr ts); (k_contents, VDict [])] ->
              exists c2, bind (dget k_contents (d2_rule_to_save st2))
                              (fun c_ => bind (dict_update (dict_of c_) (VDict (d2_rule_contents st2)))
                                              (fun c2_ => Ok (dset k_contents (VDict c2_) (d2_rule_to_save st2))))
                         = Ok c2 /\ c2 = [(k_type, VStr ts); (k_contents, VDict contents)]).
    { intros st2 -> ->. eexists. split; [|reflexivity]. unfold dict_update. cbn. rewrite Upd. reflexivity. }
    destruct (is_prefix vakt_rules_prefix ts); cbn [negb bind].
    - (* a vakt rule *)
      unfold str_is. change (pstr_of "vakt.rules.string.RegexMatchRule") with regex_match_rule.
      destruct (pstr_eqb ts regex_match_rule); cbn [seqc]; [reflexivity|].
      match goal with |- context [bind (dget k_contents (d2_rule_to_save ?s2)) _] =>
        destruct (Fin s2 eq_refl eq_refl) as [c2 [-> ->]] end.
      cbn [bind seqc]. eexists. split; [reflexivity|]. cbn. auto.
    - (* a custom rule: every value of its contents is looked at *)
      match goal with |- context [for_each (map snd contents) ?s ?b] => set (vbody := b); set (s1 := s) end.
      assert (V : forall vs st1,
        if existsb has_reserved vs then for_each vs st1 vbody = Raise EIrreversible
        else exists v', for_each vs st1 vbody = Ok (Normal (d2_setv st1 v'))).
      { clear.
        assert (VS : forall v st1, vbody v st1 = if has_reserved v then Raise EIrreversible
                                                 else Ok (Normal (d2_setv st1 v))).
        { intros v st1. unfold vbody. cbn [d2_value]. rewrite has_reserved_dict. destruct (has_reserved v); reflexivity. }
        induction vs as [|v vs IH]; intros st1.
        - cbn. exists (d2_value st1). destruct st1; reflexivity.
        - cbn [existsb for_each]. rewrite VS. destruct (has_reserved v); cbn [orb]; [reflexivity|].
          specialize (IH (d2_setv st1 v)). destruct (existsb has_reserved vs); [exact IH|].
          destruct IH as [v' E]. exists v'. rewrite E. reflexivity. }
      specialize (V (map snd contents) s1). rewrite existsb_map in V.
      destruct (existsb (fun kv => has_reserved (snd kv)) contents).
      + rewrite V. reflexivity.
      + destruct V as [v' ->]. cbn [seqc].
        match goal with |- context [bind (dget k_contents (d2_rule_to_save ?s2)) _] =>
          destruct (Fin s2 eq_refl eq_refl) as [c2 [-> ->]] end.
        cbn [bind seqc]. eexists. split; [reflexivity|]. cbn. auto. }
  assert (L : forall kvs st, NoDup (map fst kvs) -> (forall k rk, In (k, VDict rk) kvs -> NoDup (map fst rk)) ->
    (forall k, In k (map fst kvs) -> lookup k (d2_rules_to_save st) = None) ->
    match map_rules down2_rule kvs with
    | Ok kvs' => exists st', for_each kvs st body = Ok (Normal st') /\
                             d2_rules_to_save st' = d2_rules_to_save st ++ kvs' /\ d2_doc_to_save st' = d2_doc_to_save st
    | Raise e => for_each kvs st body = Raise e
    end).
  { clear - S. induction kvs as [|[k r] rest IH]; intros st Hd Hin Hfresh.
    - cbn. exists st. rewrite app_nil_r. auto.
    - cbn [map_rules for_each].
      assert (Hr : forall rk, r = VDict rk -> NoDup (map fst rk)) by (intros rk ->; eapply Hin; left; reflexivity).
      specialize (S k r st Hr). cbn [map fst] in Hd. inversion Hd as [|? ? Hn Hd']; subst.
      destruct (down2_rule r) as [v|e]; cbn [bind]; [|rewrite S; reflexivity].
      destruct S as [st1 [B1 [R1 D1]]]. rewrite B1.
      rewrite (dset_absent k v _ (Hfresh k (or_introl eq_refl))) in R1.
      assert (Hf1 : forall k', In k' (map fst rest) -> lookup k' (d2_rules_to_save st1) = None).
      { intros k' Hk'. rewrite R1. apply lookup_snoc_none; [apply Hfresh; right; exact Hk'|].
        intros ->. contradiction. }
      assert (Hin' : forall k0 rk, In (k0, VDict rk) rest -> NoDup (map fst rk)) by (intros; eapply Hin; right; eauto).
      specialize (IH st1 Hd' Hin' Hf1). destruct (map_rules down2_rule rest) as [r'|e]; cbn [bind].
      + destruct IH as [st' [E1 [E2 E3]]]. exists st'. rewrite E1, E2, R1, E3, D1, <- app_assoc. auto.
      + exact IH. }
  specialize (L kvs s0 Hd Hin (fun _ _ => eq_refl)).
  destruct (map_rules down2_rule kvs) as [kvs'|e]; cbn [bind].
  - destruct L as [st' [E1 [E2 E3]]]. rewrite E1. cbn [seqc d2_doc_to_save d2_rules_to_save]. rewrite E2, E3. reflexivity.
  - rewrite L. reflexivity.
Qed.
Print Assumptions down2_process_eq.

(* ---------- #3 up / down: rules renamed in place inside the document ---------- *)
Lemma renames_g_eq : renames_g = renames.
Proof. reflexivity. Qed.

Lemma lookup_mid {A} k (v : A) pre post : ~ In k (map fst pre) -> lookup k (pre ++ (k, v) :: post) = Some v.
Proof.
  induction pre as [|[k' x] pre IH]; cbn; intros H.
  - rewrite pstr_eqb_refl. reflexivity.
  - destruct (pstr_eqb k k') eqn:E; [apply pstr_eqb_eq in E; subst; tauto|]. apply IH. tauto.
Qed.
Lemma dset_mid k (v w : val) pre post : ~ In k (map fst pre) -> dset k w (pre ++ (k, v) :: post) = pre ++ (k, w) :: post.
Proof.
  induction pre as [|[k' x] pre IH]; cbn; intros H.
  - rewrite pstr_eqb_refl. reflexivity.
  - destruct (pstr_eqb k k') eqn:E; [apply pstr_eqb_eq in E; subst; tauto|]. f_equal. apply IH. tauto.
Qed.
Lemma NoDup_mid_notin k (v : val) (pre post : list (pstr * val)) :
  NoDup (map fst (pre ++ (k, v) :: post)) -> ~ In k (map fst pre).
Proof.
  rewrite map_app. cbn [map fst]. intros H Hin. apply NoDup_remove_2 in H. apply H, in_or_app. left. exact Hin.
Qed.
Lemma ddel_dset_same k (w : val) (d : doc) : ddel k (dset k w d) = ddel k d.
Proof.
  induction d as [|[k0 x] r IH]; cbn; [rewrite pstr_eqb_refl; reflexivity|].
  destruct (pstr_eqb k k0) eqn:A; cbn; rewrite A; [reflexivity|]. f_equal. exact IH.
Qed.
(* the value stored under k does not matter once k is deleted *)
Lemma ddel_dset_dset k k' (v w : val) (d : doc) : pstr_eqb k k' = false ->
  ddel k (dset k' v (dset k w d)) = ddel k (dset k' v d).
Proof.
  intros N. assert (N' : pstr_eqb k' k = false).
  { destruct (pstr_eqb k' k) eqn:E; [|reflexivity]. apply pstr_eqb_eq in E. subst. rewrite pstr_eqb_refl in N. discriminate. }
  induction d as [|[k0 x] r IH]; cbn.
  - rewrite N'. cbn. rewrite ?pstr_eqb_refl, ?N. cbn. rewrite ?N. reflexivity.
  - destruct (pstr_eqb k k0) eqn:A.
    + apply pstr_eqb_eq in A. subst k0. cbn. rewrite N'. cbn. rewrite ?pstr_eqb_refl. reflexivity.
    + cbn. destruct (pstr_eqb k' k0) eqn:B; cbn; rewrite ?A; [rewrite ddel_dset_same; reflexivity|]. f_equal. exact IH.
Qed.

Definition u3_write (doc : mdoc) (key : pstr) (rule : val) (new : pstr) : mdoc :=
  dset k_rules (VDict (dset key (VDict (dset k_pyobject (VStr new) (dict_of rule)))
                            (dict_of (match lookup k_rules doc with Some r_ => r_ | None => VNone end)))) doc.

Lemma up3_process_eq d :
  (forall kvs, lookup k_rules (dset k_type (VInt 1) d) = Some (VDict kvs) -> NoDup (map fst kvs)) ->
  up3_process d = up3_doc d.
Proof.
  intros Hnd. unfold up3_process, up3_doc, items_of, dget. cbn [seqc u3_doc].
  set (d1 := dset k_type (VInt 1) d) in *.
  destruct (lookup k_rules d1) as [rs|] eqn:Er; cbn [bind]; [|reflexivity].
  destruct rs as [ | b | z | m ex | s | l | l | kvs]; cbn [bind]; try reflexivity.
  specialize (Hnd kvs eq_refl).
  match goal with |- context [for_each kvs ?s ?b] => set (body := b); set (s0 := s) end.
  (* the inner search through the rename table *)
  assert (I : forall rn st, exists st',
    match body with _ => True end /\
    for_each rn st (fun '(old_, new_) st =>
       let st := {| u3_doc := u3_doc st; u3_key := u3_key st; u3_rule := u3_rule st; u3_rule_type := u3_rule_type st;
                    u3_old := old_; u3_new := u3_new st |} in
       let st := {| u3_doc := u3_doc st; u3_key := u3_key st; u3_rule := u3_rule st; u3_rule_type := u3_rule_type st;
                    u3_old := u3_old st; u3_new := new_ |} in
       if str_is (u3_rule_type st) (u3_old st)
       then seqc (let st := {| u3_doc := u3_doc st; u3_key := u3_key st;
                               u3_rule := VDict (dset k_pyobject (VStr (u3_new st)) (dict_of (u3_rule st)));
                               u3_rule_type := u3_rule_type st; u3_old := u3_old st; u3_new := u3_new st |} in
                  let st := {| u3_doc := dset k_rules (VDict (dset (u3_key st) (u3_rule st)
                                           (dict_of (match lookup k_rules (u3_doc st) with Some r_ => r_ | None => VNone end))))
                                           (u3_doc st);
                               u3_key := u3_key st; u3_rule := u3_rule st; u3_rule_type := u3_rule_type st;
                               u3_old := u3_old st; u3_new := u3_new st |} in Ok (Normal st))
                 (fun st => Ok (Brk st))
       else Ok (Normal st)) = Ok (Normal st' : ctl up3_process_st (up3_process_st * mdoc)) /\
    u3_doc st' = match find (fun on => str_is (u3_rule_type st) (fst on)) rn with
                 | Some on => u3_write (u3_doc st) (u3_key st) (u3_rule st) (snd on)
                 | None => u3_doc st
                 end).
  { clear. induction rn as [|[o n] rn IH]; intros st.
    - exists st. cbn. auto.
    - cbn [for_each find fst snd]. cbn [u3_doc u3_key u3_rule u3_rule_type u3_old u3_new].
      destruct (str_is (u3_rule_type st) o) eqn:E; cbn [seqc].
      + eexists. split; [exact I|]. split; [reflexivity|]. reflexivity.
      + match goal with |- context [for_each rn ?s2 _] => destruct (IH s2) as [st' [_ [E1 E2]]] end.
        exists st'. split; [exact I|]. split; [exact E1|]. exact E2. }
  (* one rule of the document *)
  assert (S : forall key r st cur, lookup k_rules (u3_doc st) = Some (VDict cur) -> lookup key cur = Some r ->
    match up3_rule r with
    | Ok v => exists st', body (key, r) st = Ok (Normal st') /\
                          u3_doc st' = dset k_rules (VDict (dset key v cur)) (u3_doc st)
    | Raise e => body (key, r) st = Raise e
    end).
  { intros key r st cur Hcur Hkey. unfold body, up3_rule, vget.
    cbn [seqc bind u3_doc u3_key u3_rule u3_rule_type u3_old u3_new].
    destruct r as [ | b | z | m ex | s | l | l | rk]; cbn [bind seqc]; try reflexivity.
    destruct (dget k_pyobject rk) as [t|e] eqn:Et; cbn [bind seqc u3_rule_type]; [|reflexivity].
    unfold dget in Et. destruct (lookup k_pyobject rk) as [t0|] eqn:Lt; [|discriminate]. injection Et as ->.
    assert (NF : find (fun _ : pstr * pstr => false) renames = None) by reflexivity.
    destruct t as [ | b | z | m ex | ts | l | l | tk];
      (match goal with |- context [for_each renames_g ?s2 ?b] => destruct (I renames_g s2) as [st' [_ [E1 E2]]] end;
       exists st'; split; [exact E1|]; rewrite E2; cbn [u3_doc u3_key u3_rule u3_rule_type str_is];
       rewrite renames_g_eq, ?NF;
       try (rewrite (dset_same key (VDict rk) cur Hkey), (dset_same k_rules (VDict cur) _ Hcur); reflexivity)).
    unfold rename_up, u3_write. rewrite Hcur. cbn [dict_of].
    destruct (find (fun on => pstr_eqb ts (fst on)) renames) as [on|]; [reflexivity|].
    rewrite (dset_same k_pyobject (VStr ts) rk Lt), (dset_same key (VDict rk) cur Hkey),
            (dset_same k_rules (VDict cur) _ Hcur). reflexivity. }
  assert (L : forall rest pre st, NoDup (map fst (pre ++ rest)) ->
    lookup k_rules (u3_doc st) = Some (VDict (pre ++ rest)) ->
    match map_rules up3_rule rest with
    | Ok rest' => exists st', for_each rest st body = Ok (Normal st') /\
                              u3_doc st' = dset k_rules (VDict (pre ++ rest')) (u3_doc st)
    | Raise e => for_each rest st body = Raise e
    end).
  { clear - S. induction rest as [|[k r] rest IH]; intros pre st Hd Hcur.
    - cbn. exists st. split; [reflexivity|]. symmetry. apply dset_same. exact Hcur.
    - cbn [map_rules for_each]. pose proof (NoDup_mid_notin _ _ _ _ Hd) as Hk.
      specialize (S k r st _ Hcur (lookup_mid k r pre rest Hk)).
      destruct (up3_rule r) as [v|e]; cbn [bind]; [|rewrite S; reflexivity].
      destruct S as [st1 [B1 D1]]. rewrite B1. rewrite (dset_mid k r v pre rest Hk) in D1.
      assert (Hd1 : NoDup (map fst ((pre ++ [(k, v)]) ++ rest))).
      { rewrite <- app_assoc. cbn [app]. rewrite map_app in *. exact Hd. }
      assert (Hc1 : lookup k_rules (u3_doc st1) = Some (VDict ((pre ++ [(k, v)]) ++ rest))).
      { rewrite D1, lookup_dset_same, <- app_assoc. reflexivity. }
      specialize (IH (pre ++ [(k, v)]) st1 Hd1 Hc1).
      destruct (map_rules up3_rule rest) as [rest'|e]; cbn [bind].
      + destruct IH as [st' [E1 E2]]. exists st'. split; [exact E1|].
        rewrite E2, D1, dset_dset, <- app_assoc. reflexivity.
      + exact IH. }
  specialize (L kvs [] s0 Hnd Er).
  destruct (map_rules up3_rule kvs) as [kvs'|e]; cbn [bind].
  - destruct L as [st' [E1 E2]]. rewrite E1. cbn [seqc u3_doc app] in *. rewrite E2. subst s0. cbn [u3_doc].
    unfold dget. rewrite lookup_dset_same. cbn [bind seqc u3_doc]. f_equal.
    apply ddel_dset_dset. reflexivity.
  - rewrite L. reflexivity.
Qed.
Print Assumptions up3_process_eq.

Definition d3_write (doc : mdoc) (key : pstr) (rule : val) (old : pstr) : mdoc :=
  dset k_context (VDict (dset key (VDict (dset k_pyobject (VStr old) (dict_of rule)))
                              (dict_of (match lookup k_context doc with Some r_ => r_ | None => VNone end)))) doc.

Lemma only_120_eq ts :
  (is_prefix (pstr_of "vakt.rules.list") ts || (is_prefix (pstr_of "vakt.rules.logic") ts ||
   (is_prefix (pstr_of "vakt.rules.operator") ts ||
    existsb (str_is (VStr ts)) [pstr_of "vakt.rules.string.StartsWith"; pstr_of "vakt.rules.string.EndsWith";
                                pstr_of "vakt.rules.string.Contains"]))) = only_120 ts.
Proof. unfold only_120. rewrite !orb_assoc. reflexivity. Qed.

Lemma down3_process_eq d :
  (forall kvs, lookup k_context d = Some (VDict kvs) -> NoDup (map fst kvs)) ->
  down3_process d = down3_doc d.
Proof.
  intros Hnd. unfold down3_process, down3_doc, items_of, dget. cbn [seqc d3_doc].
  destruct (lookup k_type d) as [t|] eqn:Et; cbn [bind]; [|reflexivity].
  destruct (py_eq t (VInt 1)); cbn [negb bind seqc d3_doc]; [|reflexivity].
  destruct (lookup k_context d) as [rs|] eqn:Er; cbn [bind seqc]; [|reflexivity].
  destruct rs as [ | b | z | m ex | s | l | l | kvs]; cbn [bind seqc]; try reflexivity.
  specialize (Hnd kvs eq_refl).
  match goal with |- context [for_each kvs ?s ?b] => set (body := b); set (s0 := s) end.
  assert (S : forall key r st cur, lookup k_context (d3_doc st) = Some (VDict cur) -> lookup key cur = Some r ->
    match down3_rule r with
    | Ok v => exists st', body (key, r) st = Ok (Normal st') /\
                          d3_doc st' = dset k_context (VDict (dset key v cur)) (d3_doc st)
    | Raise e => body (key, r) st = Raise e
    end).
  { intros key r st cur Hcur Hkey. unfold body, down3_rule, vget.
    cbn [seqc bind d3_doc d3_key d3_rule d3_rule_type d3_old d3_new].
    destruct r as [ | b | z | m ex | s | l | l | rk]; cbn [bind seqc]; try reflexivity.
    destruct (dget k_pyobject rk) as [t0|e] eqn:E0; cbn [bind seqc d3_rule_type]; [|reflexivity].
    unfold dget in E0. destruct (lookup k_pyobject rk) as [t1|] eqn:Lt; [|discriminate]. injection E0 as ->.
    match goal with |- context [for_each renames_g ?s2 ?b] => set (ibody := b); set (s1 := s2) end.
    assert (I : forall rn st1, exists st',
      for_each rn st1 ibody = Ok (Normal st') /\ d3_key st' = d3_key st1 /\ d3_rule_type st' = d3_rule_type st1 /\
      d3_doc st' = match find (fun on => str_is (d3_rule_type st1) (snd on)) rn with
                   | Some on => d3_write (d3_doc st1) (d3_key st1) (d3_rule st1) (fst on)
                   | None => d3_doc st1
                   end).
    { clear. induction rn as [|[o n] rn IH]; intros st1.
      - exists st1. cbn. auto.
      - cbn [for_each find fst snd]. unfold ibody at 1. cbn [d3_doc d3_key d3_rule d3_rule_type d3_old d3_new].
        destruct (str_is (d3_rule_type st1) n) eqn:E; cbn [seqc].
        + eexists. split; [reflexivity|]. cbn. auto.
        + match goal with |- context [for_each rn ?s2 ibody] => destruct (IH s2) as [st' [E1 [E2 [E3 E4]]]] end.
          exists st'. split; [exact E1|]. cbn in E2, E3, E4. auto. }
    destruct (I renames_g s1) as [st' [E1 [E2 [E3 E4]]]]. rewrite E1. cbn [seqc]. rewrite E3. subst s1.
    cbn [d3_doc d3_key d3_rule d3_rule_type] in *.
    destruct t0 as [ | b | z | m ex | ts | l | l | tk]; cbn [starts orM bind]; try reflexivity.
    set (c1 := is_prefix (pstr_of "vakt.rules.list") ts).
    set (c2 := is_prefix (pstr_of "vakt.rules.logic") ts).
    set (c3 := is_prefix (pstr_of "vakt.rules.operator") ts).
    pose proof (only_120_eq ts) as O. fold c1 c2 c3 in O.
    assert (OO : (x <- (x0 <- Ok c1;; (if x0 then Ok true else
                    x1 <- Ok c2;; (if x1 then Ok true else
                    x2 <- Ok c3;; (if x2 then Ok true else
                    Ok (existsb (str_is (VStr ts)) [pstr_of "vakt.rules.string.StartsWith";
                          pstr_of "vakt.rules.string.EndsWith"; pstr_of "vakt.rules.string.Contains"])))));;
                  Ok x) = Ok (only_120 ts)).
    { rewrite <- O. destruct c1, c2, c3; reflexivity. }
    match goal with |- context [bind ?m (fun c__ => if c__ then Raise EIrreversible else _)] =>
      replace m with (Ok (only_120 ts) : res bool) by (symmetry; rewrite <- O; destruct c1, c2, c3; reflexivity) end.
    cbn [bind]. destruct (only_120 ts); [reflexivity|].
    eexists. split; [reflexivity|]. rewrite E4. rewrite renames_g_eq. cbn [str_is].
    unfold rename_down, d3_write. rewrite Hcur. cbn [dict_of].
    destruct (find (fun on => pstr_eqb ts (snd on)) renames) as [on|]; [reflexivity|].
    rewrite (dset_same k_pyobject (VStr ts) rk Lt), (dset_same key (VDict rk) cur Hkey),
            (dset_same k_context (VDict cur) _ Hcur). reflexivity. }
  assert (L : forall rest pre st, NoDup (map fst (pre ++ rest)) ->
    lookup k_context (d3_doc st) = Some (VDict (pre ++ rest)) ->
    match map_rules down3_rule rest with
    | Ok rest' => exists st', for_each rest st body = Ok (Normal st') /\
                              d3_doc st' = dset k_context (VDict (pre ++ rest')) (d3_doc st)
    | Raise e => for_each rest st body = Raise e
    end).
  { clear - S. induction rest as [|[k r] rest IH]; intros pre st Hd Hcur.
    - cbn. exists st. split; [reflexivity|]. symmetry. apply dset_same. exact Hcur.
    - cbn [map_rules for_each]. pose proof (NoDup_mid_notin _ _ _ _ Hd) as Hk.
      specialize (S k r st _ Hcur (lookup_mid k r pre rest Hk)).
      destruct (down3_rule r) as [v|e]; cbn [bind]; [|rewrite S; reflexivity].
      destruct S as [st1 [B1 D1]]. rewrite B1. rewrite (dset_mid k r v pre rest Hk) in D1.
      assert (Hd1 : NoDup (map fst ((pre ++ [(k, v)]) ++ rest))).
      { rewrite <- app_assoc. cbn [app]. rewrite map_app in *. exact Hd. }
      assert (Hc1 : lookup k_context (d3_doc st1) = Some (VDict ((pre ++ [(k, v)]) ++ rest))).
      { rewrite D1, lookup_dset_same, <- app_assoc. reflexivity. }
      specialize (IH (pre ++ [(k, v)]) st1 Hd1 Hc1).
      destruct (map_rules down3_rule rest) as [rest'|e]; cbn [bind].
      + destruct IH as [st' [E1 E2]]. exists st'. split; [exact E1|].
        rewrite E2, D1, dset_dset, <- app_assoc. reflexivity.
      + exact IH. }
  specialize (L kvs [] s0 Hnd Er).
  destruct (map_rules down3_rule kvs) as [kvs'|e]; cbn [bind].
  - destruct L as [st' [E1 E2]]. rewrite E1. cbn [seqc d3_doc app] in *. rewrite E2. subst s0. cbn [d3_doc].
    unfold dget. rewrite lookup_dset_same. cbn [bind seqc d3_doc]. f_equal. f_equal.
    apply ddel_dset_dset. reflexivity.
  - rewrite L. reflexivity.
Qed.
Print Assumptions down3_process_eq.

(* ---------- the migrations' data steps, generated processor through generated _each_doc ---------- *)
Definition gen_fn (s : mstep) : doc -> res doc :=
  match s with
  | Up2 => up2_process | Down2 => down2_process | Up3 => up3_process | Down3 => down3_process
  | Down4 => down4_process
  | Up4 => up4_doc           (* #4 up does not go through _each_doc: see prepare_doc_eq *)
  end.

(* dictionaries have distinct keys, as far as the step looks *)
Definition dicts_ok (s : mstep) (d : doc) : Prop :=
  match s with
  | Up2 => forall kvs, lookup k_rules d = Some (VDict kvs) -> NoDup (map fst kvs)
  | Down2 => forall kvs, lookup k_rules d = Some (VDict kvs) ->
               NoDup (map fst kvs) /\ forall k rk, In (k, VDict rk) kvs -> NoDup (map fst rk)
  | Up3 => forall kvs, lookup k_rules (dset k_type (VInt 1) d) = Some (VDict kvs) -> NoDup (map fst kvs)
  | Down3 => forall kvs, lookup k_context d = Some (VDict kvs) -> NoDup (map fst kvs)
  | Up4 | Down4 => True
  end.

Lemma gen_fn_eq s d : dicts_ok s d -> gen_fn s d = step_fn s d.
Proof.
  destruct s; cbn [gen_fn step_fn dicts_ok]; intros H.
  - apply up2_process_eq, H.
  - apply down2_process_eq, H.
  - apply up3_process_eq, H.
  - apply down3_process_eq, H.
  - reflexivity.
  - apply down4_process_eq.
Qed.

Lemma steps_keep_id s d d' : step_fn s d = Ok d' -> lookup k_id d' = lookup k_id d.
Proof.
  destruct s; cbn [step_fn].
  - unfold up2_doc. destruct (dget k_rules d) as [[]|]; cbn; try discriminate.
    destruct (map_rules up2_rule kvs); cbn; [|discriminate]. intros [= <-]. apply lookup_dset_other. reflexivity.
  - unfold down2_doc. destruct (dget k_rules d) as [[]|]; cbn; try discriminate.
    destruct (map_rules down2_rule kvs); cbn; [|discriminate]. intros [= <-]. apply lookup_dset_other. reflexivity.
  - unfold up3_doc. destruct (dget k_rules (dset k_type (VInt 1) d)) as [[]|]; cbn; try discriminate.
    destruct (map_rules up3_rule kvs); cbn; [|discriminate]. intros [= <-].
    rewrite lookup_ddel_other, lookup_dset_other, lookup_dset_other by reflexivity. reflexivity.
  - unfold down3_doc. destruct (dget k_type d); cbn; [|discriminate].
    destruct (negb (py_eq a (VInt 1))); [discriminate|].
    destruct (dget k_context d) as [[]|]; cbn; try discriminate.
    destruct (map_rules down3_rule kvs); cbn; [|discriminate]. intros [= <-].
    rewrite !lookup_ddel_other, lookup_dset_other by reflexivity. reflexivity.
  - unfold up4_doc. destruct (dget k_type d); cbn [bind]; [|discriminate].
    destruct (py_eq a (VInt 1)); [|intros [= <-]; reflexivity].
    destruct (add_compiled k_actions d) as [d1|] eqn:E1; cbn [bind]; [|discriminate].
    destruct (add_compiled k_subjects d1) as [d2|] eqn:E2; cbn [bind]; [|discriminate].
    intros E3.
    rewrite (add_compiled_lookup _ _ _ k_id E3) by reflexivity.
    rewrite (add_compiled_lookup _ _ _ k_id E2) by reflexivity.
    apply (add_compiled_lookup _ _ _ k_id E1). reflexivity.
  - unfold down4_doc. intros [= <-]. rewrite !lookup_ddel_other by reflexivity. reflexivity.
Qed.

Lemma map_rules_raise f kvs e : map_rules f kvs = Raise e -> exists r, f r = Raise e.
Proof.
  induction kvs as [|[k v] r IH]; cbn; [discriminate|].
  destruct (f v) eqn:E; cbn; [|intros [= <-]; eauto].
  destruct (map_rules f r); cbn; [discriminate|]. intros [= <-]. apply IH. reflexivity.
Qed.
Lemma dget_raise k d e : dget k d = Raise e -> e = EKeyError.
Proof. unfold dget. destruct (lookup k d); [discriminate|]. intros [= <-]. reflexivity. Qed.

Ltac exn_cases :=
  repeat match goal with
         | H : dget _ _ = Raise _ |- _ => apply dget_raise in H; subst
         | H : Raise _ = Raise _ |- _ => injection H as <-
         | H : Ok _ = Raise _ |- _ => discriminate H
         | H : (bind ?m _) = Raise _ |- _ => let E := fresh "E" in destruct m eqn:E; cbn [bind] in H
         | H : (match ?x with _ => _ end) = Raise _ |- _ => let E := fresh "E" in destruct x eqn:E
         | H : (if ?x then _ else _) = Raise _ |- _ => let E := fresh "E" in destruct x eqn:E
         end; try reflexivity.

Lemma step_fn_exception s d e : s <> Up4 -> step_fn s d = Raise e -> is_exception e = true.
Proof.
  intros Hs. destruct s; cbn [step_fn]; try congruence; clear Hs;
    unfold up2_doc, down2_doc, up3_doc, down3_doc, down4_doc; intros H; exn_cases;
    try (match goal with E : map_rules _ _ = Raise _ |- _ => apply map_rules_raise in E; destruct E as [r Hr] end;
         unfold up2_rule, down2_rule, up3_rule, down3_rule in Hr; exn_cases).
Qed.

(* what one data migration does to the collection: generated processor run by generated _each_doc = the model *)
Theorem migration_step_generated s coll : s <> Up4 ->
  keyed coll -> Forall (dicts_ok s) coll ->
  each_doc_g (gen_fn s) coll = Ok (each_doc (step_fn s) coll).
Proof.
  intros Hs K W.
  assert (Ext : each_doc (gen_fn s) coll = each_doc (step_fn s) coll).
  { rewrite !each_doc_spec. clear K. induction W as [|d r Hd _ IH]; [reflexivity|].
    cbn [map filter]. rewrite (gen_fn_eq s d Hd). injection IH as I1 I2. rewrite I1, I2. reflexivity. }
  rewrite <- Ext. apply (each_doc_g_eq (gen_fn s) (dicts_ok s)); try assumption.
  - intros d e Hd H. rewrite (gen_fn_eq s d Hd) in H. eapply step_fn_exception; eassumption.
  - intros d d' Hd H. rewrite (gen_fn_eq s d Hd) in H. apply (steps_keep_uid s d d' H).
  - intros d d' Hd H. rewrite (gen_fn_eq s d Hd) in H. apply (steps_keep_id s d d' H).
Qed.
Print Assumptions migration_step_generated.

(* ---------- C19 on the generated code ---------- *)
(* a data migration run by the generated code neither drops nor adds documents and keeps every uid *)
Theorem C19_no_drop_generated s coll coll' failed : s <> Up4 -> keyed coll -> Forall (dicts_ok s) coll ->
  each_doc_g (gen_fn s) coll = Ok (coll', failed) -> map doc_uid coll' = map doc_uid coll.
Proof.
  intros Hs K W H. rewrite (migration_step_generated s coll Hs K W) in H.
  pose proof (run_steps_no_drop [s] coll) as R. cbn [run_steps] in R.
  destruct (each_doc (step_fn s) coll) as [c f]. injection H as <- <-. exact R.
Qed.

(* a document whose processor raises stays as it is and is reported; only such documents are reported *)
Theorem C19_unconvertible_generated s coll coll' failed d : s <> Up4 -> keyed coll -> Forall (dicts_ok s) coll ->
  each_doc_g (gen_fn s) coll = Ok (coll', failed) ->
  (forall e, In d coll -> gen_fn s d = Raise e -> In d coll' /\ In d failed) /\
  (In d failed -> exists e, gen_fn s d = Raise e /\ In d coll).
Proof.
  intros Hs K W H. rewrite (migration_step_generated s coll Hs K W) in H.
  assert (G : forall x, In x coll -> gen_fn s x = step_fn s x).
  { intros x Hx. apply gen_fn_eq. rewrite Forall_forall in W. apply W, Hx. }
  destruct (each_doc (step_fn s) coll) as [c f] eqn:E. injection H as <- <-. split.
  - intros e Hin Hf. rewrite (G d Hin) in Hf.
    pose proof (each_doc_failed_untouched (step_fn s) coll d e Hin Hf) as R. rewrite E in R. exact R.
  - intros Hin. pose proof (each_doc_reported_only_failures (step_fn s) coll d) as R. rewrite E in R.
    destruct (R Hin) as [e [He Hc]]. exists e. rewrite (G d Hc). auto.
Qed.

(* #4 down as generated removes exactly the three compiled fields *)
Theorem C19_down4_generated d d' : down4_process d = Ok d' ->
  lookup (compiled_name k_actions) d' = None /\ lookup (compiled_name k_subjects) d' = None /\
  lookup (compiled_name k_resources) d' = None /\
  (forall k, pstr_eqb k (compiled_name k_actions) = false -> pstr_eqb k (compiled_name k_subjects) = false ->
             pstr_eqb k (compiled_name k_resources) = false -> lookup k d' = lookup k d).
Proof. rewrite down4_process_eq. apply down4_removes. Qed.

(* the generated rename tables of #3 are inverse to each other on names that are not already new *)
Theorem C19_renames_generated t : is_new_name t = false ->
  (match find (fun on => pstr_eqb (match find (fun on => pstr_eqb t (fst on)) renames_g with
                                     | Some on => snd on | None => t end) (snd on)) renames_g with
   | Some on => fst on
   | None => match find (fun on => pstr_eqb t (fst on)) renames_g with Some on => snd on | None => t end
   end) = t.
Proof. rewrite renames_g_eq. apply (rename_round_trip t). Qed.

Print Assumptions C19_no_drop_generated.
Print Assumptions C19_unconvertible_generated.
Print Assumptions C19_down4_generated.
Print Assumptions C19_renames_generated.
