(* EnfoldGE: EnfoldCache's methods generated from vakt/cache.py equal Model/Store.v's enfold_step. *)
From Coq Require Import ZArith NArith List Bool Lia.
From Vakt Require Import Base.PyMonad Model.Store.
From VaktGen Require Import EnfoldG.
Import ListNotations.

Section enfold.
  Variables K V : Type.
  Variable keq : K -> K -> bool.
  Variable klt : K -> K -> bool.
  Variables ob oc : order_kind.
  Notation estep := (enfold_step K V keq klt ob oc).

  (* every uid the cache store holds, the backend holds: true of every state reached through the wrapper *)
  Definition cache_within (st : enfold K V) : Prop :=
    forall u, s_get K V keq u (e_cache K V st) <> None -> s_get K V keq u (e_backend K V st) <> None.

  (* in particular of every coherent state (EnfoldP.coherent: equal lookups) *)
  Lemma same_gets_within st :
    (forall u, s_get K V keq u (e_cache K V st) = s_get K V keq u (e_backend K V st)) -> cache_within st.
  Proof. intros H u. rewrite H. auto. Qed.

  Lemma enfold_add_eq st fault u x : cache_within st ->
    enfold_add_g K V keq klt ob oc st fault (u, x) = Ok (estep st (Add u x false) fault).
  Proof.
    intros W. unfold enfold_add_g, enfold_step. cbn [seqc ea_backend ea_cache ea_res fst snd].
    destruct st as [b c]. cbn [e_backend e_cache] in *.
    destruct fault; [reflexivity|].
    unfold step. cbn [fst snd].
    destruct (s_get K V keq u b) eqn:B; cbn; rewrite ?B; cbn; [reflexivity|].
    destruct (s_get K V keq u c) eqn:C; cbn; rewrite ?C; cbn; [|reflexivity].
    exfalso. apply (W u); [cbn; rewrite C; discriminate|exact B].
  Qed.

  Lemma enfold_update_eq st fault u x :
    enfold_update_g K V keq klt ob oc st fault (u, x) = Ok (estep st (Update u x false) fault).
  Proof.
    unfold enfold_update_g, enfold_step. cbn [seqc eu_backend eu_cache eu_res fst snd].
    destruct st as [b c]. cbn [e_backend e_cache].
    destruct fault; [reflexivity|].
    unfold step. cbn [fst snd].
    destruct (s_get K V keq u b); cbn; destruct (s_get K V keq u c); reflexivity.
  Qed.

  Lemma enfold_delete_eq st fault u :
    enfold_delete_g K V keq klt ob oc st fault u = Ok (estep st (Delete u) fault).
  Proof.
    unfold enfold_delete_g, enfold_step. cbn [seqc ed_backend ed_cache ed_res fst snd].
    destruct st as [b c]. cbn [e_backend e_cache].
    destruct fault; reflexivity.
  Qed.

  Lemma enfold_get_eq st fault u :
    rmap (fun r => (st, OGet r)) (enfold_get_g K V keq st u) = Ok (estep st (Get u) fault).
  Proof.
    unfold enfold_get_g, enfold_step. cbn [seqc eg_policy].
    destruct (s_get K V keq u (e_cache K V st)); reflexivity.
  Qed.

  Lemma enfold_get_all_eq st fault limit offset :
    match enfold_get_all_g K V st limit offset with
    | Ok l => (st, OList l)
    | Raise _ => (st, OValueError)
    end = estep st (GetAll limit offset) fault.
  Proof.
    unfold enfold_get_all_g, enfold_step, step. cbn [seqc el_result].
    destruct (get_all K V (e_cache K V st) limit offset) as [[|p l]|e]; cbn; try reflexivity.
    destruct (get_all K V (e_backend K V st) limit offset); reflexivity.
  Qed.

  Lemma enfold_find_eq bfind st : enfold_find_g K V bfind st = Ok (enfold_find K V bfind st).
  Proof.
    unfold enfold_find_g, enfold_find. cbn [seqc ef_result]. destruct (e_cache K V st); reflexivity.
  Qed.
End enfold.
Print Assumptions enfold_find_eq.
Print Assumptions enfold_add_eq.
Print Assumptions enfold_get_all_eq.
