(* CheckerGE: the definitions generated from vakt/checker.py on this run equal the hand-written model
   (Model/Checkers.v). *)
From Coq Require Import ZArith NArith List Bool.
From Vakt Require Import Base.PyMonad Base.PyVal Model.Regex Model.Rules Model.Policy Model.Parser Model.Checkers.
From VaktGen Require Import CheckerG.
Import ListNotations.

(* name the loop body and forget where the initial state came from *)
Ltac loop_setup :=
  match goal with
  | |- context [for_each _ ?s ?b] => set (body := b); generalize s
  end.

Lemma regex_fits_eq rxof p f w : CheckerG.regex_fits rxof p f w = fits_regex rxof p f w.
Proof.
  unfold CheckerG.regex_fits, fits_regex. cbn [seqc rf_where].
  loop_setup. intros st. revert st. generalize (field_elems p f) as es.
  induction es as [|e es IH]; intros st; [reflexivity|].
  cbn [for_each fits_regex_loop]. unfold body at 1.
  destruct e as [i|r|kvs]; cbn; try apply IH.
  unfold regex_item.
  destruct (negb (is_substr (p_start p) i) && negb (is_substr (p_end p) i)); cbn.
  - destruct w; cbn; try apply IH.
    match goal with |- context [pstr_eqb i ?t] => destruct (pstr_eqb i t) end; cbn; [reflexivity|apply IH].
  - unfold compile_rx. destruct (compile_pieces i (p_start p) (p_end p)) as [ps|e]; cbn.
    + destruct (pieces_rx rxof ps) as [x|]; cbn; [|reflexivity].
      destruct w; cbn; try reflexivity.
      match goal with |- context [rmatch x ?t] => destruct (rmatch x t) end; cbn; [reflexivity|apply IH].
    + destruct e; cbn; reflexivity.
Qed.
Print Assumptions regex_fits_eq.

Lemma string_fits_eq cmp p f w : CheckerG.string_fits cmp p f w = fits_string_loop cmp p (field_elems p f) w.
Proof.
  unfold CheckerG.string_fits. cbn [seqc sf_where].
  loop_setup. intros st. revert st. generalize (field_elems p f) as es.
  induction es as [|e es IH]; intros st; [reflexivity|].
  cbn [for_each fits_string_loop]. unfold body at 1.
  destruct e as [item|r|kvs]; cbn; try apply IH.
  unfold strip_tags.
  destruct item as [|c item]; cbn.
  - destruct (cmp w []) as [[|]|e]; cbn; try reflexivity. apply IH.
  - match goal with |- context [if (pstr_eqb (p_start p) [c] && ?y) then _ else _] =>
      destruct (pstr_eqb (p_start p) [c] && y) end; cbn.
    + destruct (cmp w (removelast item)) as [[|]|e]; cbn; try reflexivity. apply IH.
    + destruct (cmp w (c :: item)) as [[|]|e]; cbn; try reflexivity. apply IH.
Qed.

Lemma exact_fits_eq p f w : CheckerG.string_fits compare_exact p f w = fits_exact p f w.
Proof. apply string_fits_eq. Qed.
Lemma fuzzy_fits_eq p f w : CheckerG.string_fits compare_fuzzy p f w = fits_fuzzy p f w.
Proof. apply string_fits_eq. Qed.

Lemma check_satisfied_eq r w i : CheckerG.check_satisfied_g r w i = check_satisfied r w i.
Proof.
  unfold CheckerG.check_satisfied_g, check_satisfied, catch_exception, try_except. cbn [seqc].
  destruct (sat_b r w i) as [b|e]; cbn; [reflexivity|]. destruct (is_exception e); reflexivity.
Qed.
Print Assumptions string_fits_eq.
Print Assumptions check_satisfied_eq.

Local Arguments check_satisfied : simpl never.
Local Arguments check_satisfied_g : simpl never.
Definition isdict (w : val) : bool := match w with VDict _ => true | _ => false end.

Lemma rules_fits_eq p f w i : CheckerG.rules_fits p f w i = fits_rules p f w i.
Proof.
  unfold CheckerG.rules_fits, fits_rules. cbn [seqc uf_where_list].
  match goal with |- context [for_each _ ?s ?b] => set (body := b); set (s0 := s) end.
  assert (H0 : uf_is_what_dict s0 = isdict w) by reflexivity.
  clearbody s0. revert s0 H0. generalize (field_elems p f) as es.
  induction es as [|e es IH]; intros st H; [reflexivity|].
  cbn [for_each existsM]. unfold body at 1.
  destruct e as [s|r|kvs].
  - cbn. apply IH. exact H.
  - assert (J : check_satisfied RJunk w i = Ok false) by reflexivity.
    destruct r; cbn; rewrite ?check_satisfied_eq, ?J;
      try (match goal with |- context [check_satisfied ?r w i] => destruct (check_satisfied r w i) as [[|]|?] end;
           cbn; try reflexivity; apply IH, H);
      try (apply IH, H).
  - cbn.
    match goal with |- context [for_each kvs ?s ?b] => set (inner := b); set (s1 := s) end.
    assert (L : forall kvs st1, uf_is_what_dict st1 = isdict w ->
      match dict_item kvs w i (uf_item_result st1) with
      | Raise e => for_each kvs st1 inner = Raise e
      | Ok b => exists st2, for_each kvs st1 inner = Ok (Normal st2) /\ uf_item_result st2 = b /\
                            uf_is_what_dict st2 = isdict w
      end).
    { clear. induction kvs as [|[k r] rest IHk]; intros st1 H1.
      - cbn. exists st1. auto.
      - destruct st1 as [a1 a2 a3 a4 a5 a6 a7]. cbn in H1. subst a2.
        cbn [dict_item for_each]. unfold inner at 1.
        destruct w as [ |? |? |? ? |? |? |? |d]; cbn; try (eexists; split; [reflexivity|split; [reflexivity|reflexivity]]).
        unfold has_key. destruct (lookup k d) as [x|]; cbn.
        + rewrite check_satisfied_eq. destruct (check_satisfied r x i) as [[|]|e]; cbn.
          * match goal with |- context [for_each rest ?s _] => specialize (IHk s eq_refl) end. cbn in IHk. exact IHk.
          * eexists; split; [reflexivity|split; [reflexivity|reflexivity]].
          * reflexivity.
        + eexists; split; [reflexivity|split; [reflexivity|reflexivity]]. }
    specialize (L kvs s1 H). cbn in L.
    destruct (dict_item kvs w i false) as [b|e].
    + destruct L as [st2 [E1 [E2 E3]]]. rewrite E1. cbn. rewrite E2.
      destruct b; cbn; [reflexivity|apply IH, E3].
    + rewrite L. reflexivity.
Qed.
Print Assumptions rules_fits_eq.

(* the dispatch the guard model uses: each checker's fits is the translated one *)
Theorem fits_eq rxof ck p f w i :
  Checkers.fits rxof ck p f w i =
  match ck with
  | CRegex => CheckerG.regex_fits rxof p f w
  | CExact => CheckerG.string_fits compare_exact p f w
  | CFuzzy => CheckerG.string_fits compare_fuzzy p f w
  | CRules => CheckerG.rules_fits p f w i
  end.
Proof.
  destruct ck; cbn [Checkers.fits].
  - symmetry. apply regex_fits_eq.
  - symmetry. apply exact_fits_eq.
  - symmetry. apply fuzzy_fits_eq.
  - symmetry. apply rules_fits_eq.
Qed.
Print Assumptions fits_eq.
