(* SubjectGE: Subject.notify generated from vakt/util.py delivers one update() per listener, each of which
   clears the cache back-end. *)
From Coq Require Import List Bool Lia.
From Vakt Require Import Base.PyMonad Model.Lru.
From VaktGen Require Import SubjectG.
Import ListNotations.

Arguments nf_cache {Q} _.
Arguments nf_delivered {Q} _.

Lemma notify_eq Q (ls : list unit) (c : cache Q bool) :
  notify_g Q ls c = Ok (match ls with [] => c | _ => [] end, length ls).
Proof.
  unfold notify_g. cbn [seqc].
  match goal with |- context [for_each _ ?s0 ?b] => set (body := b); set (st0 := s0) end.
  assert (L : forall l st, exists st', for_each l st body = Ok (Normal st') /\
             nf_cache st' = match l with [] => nf_cache st | _ => [] end /\
             nf_delivered st' = nf_delivered st + length l).
  { induction l as [|x l IH]; intros st.
    - exists st. cbn. repeat split; lia.
    - cbn [for_each]. unfold body at 1. cbn.
      match goal with |- context [for_each l ?s1 body] => destruct (IH s1) as [st' [E [A B]]] end.
      exists st'. rewrite E. cbn in A, B. split; [reflexivity|]. split; [destruct l; exact A|lia]. }
  destruct (L ls st0) as [st' [E [A B]]]. rewrite E. cbn [seqc]. cbn in A, B. rewrite A, B. reflexivity.
Qed.
Print Assumptions notify_eq.
