(* StoresOnGenerated: C08 / C15 statements restated on the storage methods GENERATED from the current source. *)
From Coq Require Import ZArith List Bool Lia.
From Vakt Require Import Base.PyMonad Model.Store Model.SqlSession Proofs.StoreP.
From Vakt Require Props.C08 Props.C15.
From VaktGen Require Import StorageAbcG MemoryG RedisG MongoG SqlG StorageAbcGE MemoryGE RedisGE MongoGE SqlGE.
Import ListNotations.

Section stores.
  Variables K V : Type.
  Variable keq klt : K -> K -> bool.
  Variable k0 : K.
  Notation smap := (list (K * V)).

  (* MemoryStorage.add: an existing uid is refused and nothing changes; a new uid is appended *)
  Theorem memory_add_generated (s : smap) u x :
    add_g K V keq k0 s (u, x) =
    match s_get K V keq u s with Some _ => Raise EPolicyExists | None => Ok (s ++ [(u, x)]) end.
  Proof. rewrite (add_eq K V keq klt). unfold step. destruct (s_get K V keq u s); reflexivity. Qed.

  (* update / delete of an absent uid change nothing (all three non-SQL back-ends) *)
  Theorem absent_unchanged_generated (s : smap) u x : s_get K V keq u s = None ->
    update_g K V keq s (u, x) = Ok s /\ delete_g K V keq s u = Ok s /\
    redis_update_g K V keq k0 s (u, x) false = Ok (s, ODone) /\ redis_delete_g K V keq s u = Ok (s, ODone) /\
    mongo_update_g K V keq k0 s (u, x) false = Ok (s, ODone) /\ mongo_delete_g K V keq s u = Ok (s, ODone).
  Proof.
    intros H.
    destruct (Props.C08.C08_absent_unchanged K V keq klt Insertion s u x false H) as [U D].
    destruct (Props.C08.C08_absent_unchanged K V keq klt SortedByUid s u x false H) as [U' D'].
    rewrite (update_eq K V keq klt), (delete_eq K V keq klt), U, D.
    rewrite (redis_update_eq K V keq klt) by (right; reflexivity). rewrite (redis_delete_eq K V keq klt).
    rewrite (mongo_update_eq K V keq klt) by (right; reflexivity). rewrite (mongo_delete_eq K V keq klt).
    repeat split; try reflexivity.
    - unfold step. rewrite H. reflexivity.
    - f_equal. unfold step in *. cbn in *. rewrite D. reflexivity.
    - unfold step. rewrite H. reflexivity.
    - f_equal. unfold step in *. cbn in *. rewrite D'. reflexivity.
  Qed.

  (* a mutation that raises leaves the store as it was: Redis and Mongo adds *)
  Theorem failed_add_unchanged_generated (s : smap) u x bad s' o :
    (redis_add_g K V keq k0 s (u, x) bad = Ok (s', o) \/ mongo_add_g K V keq klt k0 s (u, x) bad = Ok (s', o)) ->
    raised K V o = true -> s' = s.
  Proof.
    intros [H|H] R.
    - rewrite (redis_add_eq K V keq klt) in H.
      assert (E : step K V keq klt Insertion s (Add u x bad) = (s', o)) by congruence.
      pose proof (Props.C08.C08_failed_mutation_unchanged K V keq klt Insertion s (Add u x bad)) as F.
      rewrite E in F. cbn [fst snd] in F. apply F, R.
    - rewrite (mongo_add_eq K V keq klt) in H.
      assert (E : step K V keq klt SortedByUid s (Add u x bad) = (s', o)) by congruence.
      pose proof (Props.C08.C08_failed_mutation_unchanged K V keq klt SortedByUid s (Add u x bad)) as F.
      rewrite E in F. cbn [fst snd] in F. apply F, R.
  Qed.

  (* full retrieval through the generated paging loop over the model's get_all yields every policy once *)
  Theorem retrieve_all_generated (s : smap) b : (0 < b)%Z ->
    retrieve_all_g K V (get_all K V s) (S (length s)) b = Ok s.
  Proof.
    intros Hb. rewrite retrieve_all_eq. rewrite (Props.C08.C08_retrieve_all K V s b Hb). reflexivity.
  Qed.
End stores.
Print Assumptions absent_unchanged_generated.
Print Assumptions retrieve_all_generated.
