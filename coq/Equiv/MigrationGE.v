(* MigrationGE: the definitions generated from vakt/storage/migration.py on this run equal the hand-written
   driver model (Model/Migration.v). *)
From Coq Require Import ZArith NArith List Bool Lia.
From Vakt Require Import Base.PyMonad Model.Migration.
From VaktGen Require Import MigrationG.
Import ListNotations.

Lemma get_migrations_eq ms number reverse :
  MigrationG.get_migrations_g ms number reverse = Ok (get_migrations ms number reverse).
Proof.
  unfold MigrationG.get_migrations_g, get_migrations. cbn [seqc].
  destruct number as [n|]; cbn; reflexivity.
Qed.

Lemma up_eq ms ver fault number :
  MigrationG.up_g ms ver fault number = Ok (run_request ms ver (RUp number) fault).
Proof.
  unfold MigrationG.up_g, run_request. cbn [seqc]. rewrite get_migrations_eq. cbn [bind].
  match goal with |- context [for_each _ ?s ?b] => set (body := b); set (s0 := s) end.
  assert (L : forall l st,
    match for_each l st body with
    | Ok (Ret (st', _)) | Ok (Normal st') | Ok (Brk st') | Ok (Cont st') => Ok (mu_ver st', mu_events st', mu_raised st')
    | Raise e => Raise e
    end =
    let '(v', es, f) := up_loop l (mu_ver st) fault (mu_k st) in
    Ok (v', mu_events st ++ es, orb (mu_raised st) f)).
  { induction l as [|m l IH]; intros st.
    - cbn. rewrite app_nil_r, orb_false_r. reflexivity.
    - cbn [for_each up_loop]. unfold body at 1. cbn.
      destruct (Z.ltb (mu_ver st) m); cbn.
      + destruct (match fault with Some j => Nat.eqb j (mu_k st) | None => false end); cbn.
        * rewrite orb_true_r. reflexivity.
        * rewrite IH. cbn. destruct (up_loop l m fault (S (mu_k st))) as [[v' es] f]. rewrite <- app_assoc. reflexivity.
      + rewrite IH. cbn. reflexivity. }
  specialize (L (get_migrations ms number false) s0).
  cbn in L.
  destruct (up_loop (get_migrations ms number false) ver fault 0) as [[v' es] f].
  etransitivity; [|exact L].
  destruct (for_each (get_migrations ms number false) s0 body) as [[st|[st u]|st|st]|e]; reflexivity.
Qed.

Lemma down_eq ms ver fault number :
  MigrationG.down_g ms ver fault number = Ok (run_request ms ver (RDown number) fault).
Proof.
  unfold MigrationG.down_g, run_request. cbn [seqc]. rewrite get_migrations_eq. cbn [bind].
  match goal with |- context [for_each _ ?s ?b] => set (body := b); set (s0 := s) end.
  assert (L : forall l st,
    match for_each l st body with
    | Ok (Ret (st', _)) | Ok (Normal st') | Ok (Brk st') | Ok (Cont st') => Ok (md_ver st', md_events st', md_raised st')
    | Raise e => Raise e
    end =
    let '(v', es, f) := down_loop l (md_ver st) fault (md_k st) in
    Ok (v', md_events st ++ es, orb (md_raised st) f)).
  { induction l as [|m l IH]; intros st.
    - cbn. rewrite app_nil_r, orb_false_r. reflexivity.
    - cbn [for_each down_loop]. unfold body at 1. cbn.
      destruct (Z.leb m (md_ver st)); cbn.
      + destruct (match fault with Some j => Nat.eqb j (md_k st) | None => false end); cbn.
        * rewrite orb_true_r. reflexivity.
        * rewrite IH. cbn. destruct (down_loop l (m - 1) fault (S (md_k st))) as [[v' es] f]. rewrite <- app_assoc. reflexivity.
      + rewrite IH. cbn. reflexivity. }
  specialize (L (get_migrations ms number true) s0).
  cbn in L.
  destruct (down_loop (get_migrations ms number true) ver fault 0) as [[v' es] f].
  etransitivity; [|exact L].
  destruct (for_each (get_migrations ms number true) s0 body) as [[st|[st u]|st|st]|e]; reflexivity.
Qed.
Print Assumptions up_eq.
Print Assumptions down_eq.
