(* RulesOnGenerated: the C04/C05 theorems about rule evaluation restated on the code GENERATED from vakt/rules/*.py.
   `f` is any function that solves the generated recursive equations - i.e. what the Python `satisfied` methods
   compute by calling each other through dynamic dispatch; RulesGE.sat_unique says f is the model's sat, so every
   Props theorem about sat holds of f.  generated_nonvacuous: the equations do have a solution. *)
From Coq Require Import ZArith NArith List Bool Permutation.
From Vakt Require Import Base.PyMonad Base.PyVal Model.Regex Model.Net Model.Rules Proofs.RulesP.
From Vakt Require Props.C05.
From VaktGen Require Import RulesG RulesGE.
Import ListNotations.

Section on_generated.
  Variable f : rule -> val -> option inquiry -> res val.
  Hypothesis solves : forall r w i, f r w i = dispatch f r w i.

  Definition f_b (r : rule) (w : val) (i : option inquiry) : res bool := rmap truthy (f r w i).
  Definition f_all (rs : list rule) (w : val) (i : option inquiry) : res (list val) := mapM (fun x => f x w i) rs.

  Lemma f_sat r w i : f r w i = sat r w i.
  Proof. apply sat_unique, solves. Qed.
  Lemma f_b_sat r w i : f_b r w i = sat_b r w i.
  Proof. unfold f_b, sat_b. rewrite f_sat. reflexivity. Qed.
  Lemma f_all_sat rs w i : f_all rs w i = sat_all rs w i.
  Proof.
    unfold f_all, sat_all. induction rs as [|x rs IH]; [reflexivity|]. cbn [mapM]. rewrite f_sat, IH. reflexivity.
  Qed.

  Theorem C05_empty_compositions_generated w i :
    f (RAnd []) w i = Ok (VBool false) /\ f (ROr []) w i = Ok (VBool false).
  Proof. rewrite !f_sat. apply C05.C05_empty_compositions. Qed.

  Theorem C05_not_generated r w i :
    f (RNot r) w i = rmap negv (f r w i) /\ f_b (RNot (RNot r)) w i = f_b r w i.
  Proof. rewrite !f_b_sat, !f_sat. apply C05.C05_not. Qed.

  Theorem C05_and_generated rs w i :
    (forall e, f (RAnd rs) w i = Raise e <-> f_all rs w i = Raise e) /\
    (forall vs, f_all rs w i = Ok vs ->
       (f_b (RAnd rs) w i = Ok true <-> rs <> [] /\ Forall (fun v => truthy v = true) vs)).
  Proof. rewrite f_b_sat, f_sat, f_all_sat. apply C05.C05_and. Qed.

  Theorem C05_de_morgan_generated rs w i vs : rs <> [] -> f_all rs w i = Ok vs ->
    f_b (RNot (RAnd rs)) w i = f_b (ROr (map RNot rs)) w i /\
    f_b (RNot (ROr rs)) w i = f_b (RAnd (map RNot rs)) w i.
  Proof. rewrite !f_b_sat, f_all_sat. apply C05.C05_de_morgan. Qed.

  Theorem C05_order_irrelevant_generated rs rs' w i vs : Permutation rs rs' -> f_all rs w i = Ok vs ->
    f_b (RAnd rs') w i = f_b (RAnd rs) w i /\ f_b (ROr rs') w i = f_b (ROr rs) w i.
  Proof. rewrite !f_b_sat, f_all_sat. apply C05.C05_order_irrelevant. Qed.

  Theorem C05_complements_generated a d w i :
    f (RNotEq a) w i = rmap negv (f (REq a) w i) /\
    f (RNotIn d) w i = rmap negv (f (RIn d) w i) /\
    f (RAllNotIn d) w i = rmap negv (f (RAllIn d) w i) /\
    f RFalsy w i = rmap negv (f RTruthy w i) /\
    f RNeither w i = rmap negv (f RAny w i).
  Proof. rewrite !f_sat. apply C05.C05_complements. Qed.
End on_generated.

(* the generated equations have a solution (the model evaluator), so the section above is about something *)
Theorem generated_nonvacuous : forall r w i, sat r w i = dispatch sat r w i.
Proof. exact sat_unfold. Qed.

Print Assumptions C05_empty_compositions_generated.
Print Assumptions C05_not_generated.
Print Assumptions C05_and_generated.
Print Assumptions C05_de_morgan_generated.
Print Assumptions C05_order_irrelevant_generated.
Print Assumptions C05_complements_generated.
Print Assumptions generated_nonvacuous.
