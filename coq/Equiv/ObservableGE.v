(* ObservableGE: the mutators of ObservableMutationStorage generated from vakt/storage/observable.py, with the
   one listener create_cached_guard registers, equal the mutation step of Model/AllowCache.v. *)
From Coq Require Import List Bool Lia.
From Vakt Require Import Base.PyMonad Model.Lru Model.AllowCache.
From VaktGen Require Import SubjectG ObservableG.
From VaktGen Require Import SubjectGE.
Import ListNotations.

Local Arguments notify_g : simpl never.

Section observable.
  Variables S M Q : Type.
  Variable qeq : Q -> Q -> bool.
  Variable mstep : S -> M -> S * bool.
  Variable dec : S -> Q -> bool.

  Definition mut_view (cap : option nat) (st : cstate S Q) (m : M) : S * cache Q bool * nat :=
    let '(st', o) := cstep S M Q qeq mstep dec cap st (Mut m) in
    (c_store S Q st', c_cache S Q st', match o with OMut _ n => n | _ => 0 end).

  Lemma observable_add_eq cap st m :
    observable_add_g S M Q mstep (c_store S Q st) (c_cache S Q st) [tt] m = Ok (mut_view cap st m).
  Proof.
    unfold observable_add_g, mut_view, cstep. cbn [seqc oa_store oa_cache oa_delivered].
    destruct (mstep (c_store S Q st) m) as [s' r]. destruct r; cbn; [reflexivity|].
    rewrite notify_eq. reflexivity.
  Qed.

  Lemma observable_update_eq cap st m :
    observable_update_g S M Q mstep (c_store S Q st) (c_cache S Q st) [tt] m = Ok (mut_view cap st m).
  Proof.
    unfold observable_update_g, mut_view, cstep. cbn [seqc ou_store ou_cache ou_delivered].
    destruct (mstep (c_store S Q st) m) as [s' r]. destruct r; cbn; [reflexivity|].
    rewrite notify_eq. reflexivity.
  Qed.

  Lemma observable_delete_eq cap st m :
    observable_delete_g S M Q mstep (c_store S Q st) (c_cache S Q st) [tt] m = Ok (mut_view cap st m).
  Proof.
    unfold observable_delete_g, mut_view, cstep. cbn [seqc od_store od_cache od_delivered].
    destruct (mstep (c_store S Q st) m) as [s' r]. destruct r; cbn; [reflexivity|].
    rewrite notify_eq. reflexivity.
  Qed.
End observable.
Print Assumptions observable_add_eq.
