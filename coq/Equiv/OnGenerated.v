(* OnGenerated: headline property theorems restated on the definitions GENERATED from the current source
   (VaktGen.*G), obtained from the Props theorems through the equivalence lemmas of coq/Equiv. *)
From Coq Require Import ZArith NArith List Bool Permutation Sorted.
From Vakt Require Import Base.PyMonad Base.PyVal Model.Regex Model.Rules Model.Policy Model.Parser Model.Checkers
     Model.Guard Model.Migration Proofs.CheckersP Proofs.GuardP Proofs.PolicyP Proofs.MigrationP.
From Vakt Require Props.C01 Props.C02 Props.C10 Props.C18.
From VaktGen Require Import GuardG CheckerG PolicyG MigrationG GuardGE CheckerGE PolicyGE MigrationGE.
Import ListNotations.

(* the checker dispatch over the generated fits functions *)
Definition gen_fits (rxof : pstr -> option rx) (ck : checker) (p : policy) (f : pfield) (w : val)
           (i : option inquiry) : res bool :=
  match ck with
  | CRegex => CheckerG.regex_fits rxof p f w
  | CExact => CheckerG.string_fits compare_exact p f w
  | CFuzzy => CheckerG.string_fits compare_fuzzy p f w
  | CRules => CheckerG.rules_fits p f w i
  end.

(* Guard(MemoryStorage-like storage returning the list ps, checker).is_allowed_check, all generated *)
Definition gen_decide rxof ck (ps : list policy) (q : inquiry) : res bool :=
  rmap fst (GuardG.is_allowed_check (gen_fits rxof ck) (fun _ => Ok (Some ps)) q).

Lemma gen_fits_eq rxof ck p f w i : gen_fits rxof ck p f w i = fits rxof ck p f w i.
Proof. rewrite fits_eq. destruct ck; reflexivity. Qed.

Lemma matches_ext f1 f2 q p : (forall p f w i, f1 p f w i = f2 p f w i) -> matches f1 q p = matches f2 q p.
Proof. intros H. unfold matches. rewrite !H. reflexivity. Qed.

Lemma filter_lazy_ext c d items : (forall x, c x = d x) -> filter_lazy c items = filter_lazy d items.
Proof.
  intros H. induction items as [|[p|e] r IH]; cbn; [reflexivity| |reflexivity]. rewrite H, IH. reflexivity.
Qed.

Lemma is_allowed_check_ext f1 f2 fr q : (forall p f w i, f1 p f w i = f2 p f w i) ->
  Guard.is_allowed_check f1 fr q = Guard.is_allowed_check f2 fr q.
Proof.
  intros H. unfold Guard.is_allowed_check, check_policies_lazy. destruct fr as [e| |items]; try reflexivity.
  rewrite (filter_lazy_ext (matches f1 q) (matches f2 q)) by (intros x; apply matches_ext, H). reflexivity.
Qed.

Theorem gen_decide_eq rxof ck ps q : gen_decide rxof ck ps q = decide (fits rxof ck) ps q.
Proof.
  unfold gen_decide, decide. rewrite is_allowed_check_eq. cbn [as_find_result].
  rewrite (is_allowed_check_ext _ (fits rxof ck)) by (intros; apply gen_fits_eq).
  destruct (Guard.is_allowed_check (fits rxof ck) (FIter (map inl ps)) q); reflexivity.
Qed.

(* ---- C01 on the generated guard and checkers ---- *)
Theorem C01_iff_generated : forall rxof ck q ps, clean (fits rxof ck) q ps ->
  (gen_decide rxof ck ps q = Ok true <->
     (exists p, In p ps /\ matchb (fits rxof ck) q p = true) /\
     (forall p, In p ps -> matchb (fits rxof ck) q p = true -> allow_access p = true)).
Proof. intros. rewrite gen_decide_eq. apply Props.C01.C01_iff. assumption. Qed.

Theorem C01_perm_generated : forall rxof ck q ps ps', benign_all (fits rxof ck) q ps -> Permutation ps ps' ->
  gen_decide rxof ck ps q = gen_decide rxof ck ps' q.
Proof. intros. rewrite !gen_decide_eq. apply Props.C01.C01_perm; assumption. Qed.

(* ---- C02 on the generated is_allowed_check, for ANY checker and storage behaviour ---- *)
Theorem C02_total_generated : forall fits_ find_ q e,
  GuardG.is_allowed_check fits_ find_ q = Raise e -> is_exception e = false.
Proof. intros fits_ find_ q e. rewrite is_allowed_check_eq. apply Props.C02.C02_total. Qed.

Theorem C02_storage_raise_generated : forall fits_ find_ q e, find_ q = Raise e -> is_exception e = true ->
  GuardG.is_allowed_check fits_ find_ q = Ok (false, []).
Proof.
  intros fits_ find_ q e Hf He. rewrite is_allowed_check_eq, Hf. cbn [as_find_result].
  apply Props.C02.C02_storage_raise_denies. exact He.
Qed.

Theorem C02_none_generated : forall fits_ find_ q, find_ q = Ok None ->
  GuardG.is_allowed_check fits_ find_ q = Ok (false, []).
Proof. intros fits_ find_ q Hf. rewrite is_allowed_check_eq, Hf. apply Props.C02.C02_none_denies. Qed.

(* ---- C10 on the generated attribute machine ---- *)
Theorem C10_setattr_generated : forall s n v s', policy_inv s -> PolicyG.setattr_g s n v = Ok s' -> policy_inv s'.
Proof. intros s n v s' I H. rewrite setattr_eq in H. eapply Props.C10.C10_setattr; eassumption. Qed.

Theorem C10_ctor_generated : forall a s,
  PolicyG.ctor_g (c_uid a) (c_subjects a) (c_effect a) (c_resources a) (c_actions a) (c_context a) (c_rules a)
                 (c_description a) = Ok s -> policy_inv s.
Proof. intros a s H. rewrite ctor_eq in H. eapply Props.C10.C10_ctor; eassumption. Qed.

Theorem C10_reject_generated : forall s n v e, PolicyG.setattr_g s n v = Raise e -> try_setattr s (n, v) = s.
Proof. intros s n v e H. rewrite setattr_eq in H. eapply Props.C10.C10_reject_unchanged; eassumption. Qed.

(* ---- C18 on the generated migration driver ---- *)
Theorem C18_idempotent_up_generated : forall ms ver n v' es,
  MigrationG.up_g ms ver None n = Ok (v', es, false) -> MigrationG.up_g ms v' None n = Ok (v', [], false).
Proof.
  intros ms ver n v' es H. rewrite up_eq in *. injection H as H. f_equal.
  eapply Props.C18.C18_idempotent. exact H.
Qed.

Theorem C18_idempotent_down_generated : forall ms ver n v' es,
  MigrationG.down_g ms ver None n = Ok (v', es, false) -> MigrationG.down_g ms v' None n = Ok (v', [], false).
Proof.
  intros ms ver n v' es H. rewrite down_eq in *. injection H as H. f_equal.
  eapply Props.C18.C18_idempotent. exact H.
Qed.

Theorem C18_resume_generated : forall ms ver n fault v1 es1 f1,
  MigrationG.up_g ms ver fault n = Ok (v1, es1, f1) -> req_final ms v1 (RUp n) = req_final ms ver (RUp n).
Proof. intros ms ver n fault v1 es1 f1 H. rewrite up_eq in H. injection H as H. eapply Props.C18.C18_resume. exact H. Qed.

Print Assumptions C01_iff_generated.
Print Assumptions C02_total_generated.
Print Assumptions C10_setattr_generated.
Print Assumptions C18_idempotent_up_generated.
