(* MongoGE: MongoStorage add / update / delete / get / get_all generated from vakt/storage/mongo.py equal the store
   model listed by uid. *)
From Coq Require Import ZArith NArith List Bool Lia.
From Vakt Require Import Base.PyMonad Model.Store.
From VaktGen Require Import StorageAbcG MongoG.
Import ListNotations.

Section mongo.
  Variables K V : Type.
  Variable keq klt : K -> K -> bool.
  Variable k0 : K.
  Notation smap := (list (K * V)).
  Notation stepS := (step K V keq klt SortedByUid).

  Lemma mongo_add_eq (c : smap) u x bad : mongo_add_g K V keq klt k0 c (u, x) bad = Ok (stepS c (Add u x bad)).
  Proof.
    unfold mongo_add_g, step, mhas. cbn [xseqc ga_c ga_uid fst snd].
    destruct bad; cbn; [reflexivity|]. destruct (s_get K V keq u c); reflexivity.
  Qed.

  Lemma mongo_update_eq (c : smap) u x bad : mhas K V keq u c = true \/ bad = false ->
    mongo_update_g K V keq k0 c (u, x) bad = Ok (stepS c (Update u x bad)).
  Proof.
    intros H. unfold mongo_update_g, step, mhas in *. cbn [xseqc gu_c gu_uid fst snd].
    destruct bad; cbn.
    - destruct H as [H|H]; [|discriminate]. destruct (s_get K V keq u c); [reflexivity|discriminate].
    - destruct (s_get K V keq u c); reflexivity.
  Qed.

  Lemma mongo_delete_eq (c : smap) u : mongo_delete_g K V keq c u = Ok (stepS c (Delete u)).
  Proof. reflexivity. Qed.

  Lemma mongo_get_eq (c : smap) u : mongo_get_g K V keq c u = Ok (s_get K V keq u c).
  Proof. unfold mongo_get_g. cbn [seqc gg_ret]. destruct (s_get K V keq u c); reflexivity. Qed.

  Lemma mongo_get_all_eq (c : smap) limit offset : mongo_get_all_g K V c limit offset = get_all K V c limit offset.
  Proof.
    unfold mongo_get_all_g, get_all, check_limit_and_offset_g. cbn [seqc gl_cur].
    destruct (Z.ltb limit 0); cbn; [reflexivity|]. destruct (Z.ltb offset 0); cbn; [reflexivity|].
    destruct (Z.eqb_spec limit 0) as [->|]; reflexivity.
  Qed.
End mongo.
Print Assumptions mongo_add_eq.
Print Assumptions mongo_get_all_eq.
