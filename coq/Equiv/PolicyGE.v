(* PolicyGE: the definitions generated from vakt/policy.py on this run equal the hand-written attribute machine
   (Model/Policy.v section 2). *)
From Coq Require Import ZArith NArith List Bool Lia.
From Vakt Require Import Base.PyMonad Base.PyVal Model.Rules Model.Policy Proofs.PyValP.
From VaktGen Require Import PolicyG.
Import ListNotations.

Lemma check_field_type_eq n v : PolicyG.check_field_type_g n v = check_field_type n v.
Proof.
  unfold PolicyG.check_field_type_g, check_field_type. cbn [seqc].
  destruct (is_def_field n); cbn.
  - destruct (iter_aval v) as [es|e]; cbn; [|reflexivity].
    destruct (forallb elemv_ok es); cbn; [|reflexivity].
    destruct (pstr_eqb n n_context && negb (is_dict_aval v)); reflexivity.
  - destruct (pstr_eqb n n_context && negb (is_dict_aval v)); reflexivity.
Qed.

Lemma calculate_type_eq s n v : PolicyG.calculate_type_g s n v = calculate_type s n v.
Proof.
  unfold PolicyG.calculate_type_g, calculate_type.
  cbn [seqc ct_all_elements ct_rule_elements ct_str_elements ct_self_copy ct_elements ct_e].
  set (c := set_attr n v s).
  match goal with |- context [for_each _ ?s ?b] => set (OB := b); set (s0 := s) end.
  (* the inner loop counts *)
  assert (IN : forall es st, exists st',
             for_each es st
               (fun (e_ : elemv) (st0 : calculate_type_g_st) =>
                  if match e_ with XRule _ | XDict _ => true | _ => false end
                  then Ok (Normal {| ct_all_elements := S (ct_all_elements st0); ct_rule_elements := S (ct_rule_elements st0);
                                     ct_str_elements := ct_str_elements st0; ct_self_copy := ct_self_copy st0;
                                     ct_elements := ct_elements st0; ct_e := e_ |})
                  else if match e_ with XStr _ => true | _ => false end
                  then Ok (Normal {| ct_all_elements := S (ct_all_elements st0); ct_rule_elements := ct_rule_elements st0;
                                     ct_str_elements := S (ct_str_elements st0); ct_self_copy := ct_self_copy st0;
                                     ct_elements := ct_elements st0; ct_e := e_ |})
                  else Ok (Normal {| ct_all_elements := S (ct_all_elements st0); ct_rule_elements := ct_rule_elements st0;
                                     ct_str_elements := ct_str_elements st0; ct_self_copy := ct_self_copy st0;
                                     ct_elements := ct_elements st0; ct_e := e_ |}))
             = Ok (Normal st' : ctl calculate_type_g_st (calculate_type_g_st * Z)) /\
             ct_all_elements st' = ct_all_elements st + length es /\
             ct_rule_elements st' = ct_rule_elements st + count_rule es /\
             ct_str_elements st' = ct_str_elements st + count_str es).
  { clear. induction es as [|e es IH]; intros st.
    - exists st. cbn. repeat split; lia.
    - cbn [for_each]. unfold count_rule, count_str in *.
      destruct e; cbn [filter length];
        match goal with |- context [for_each es ?s _] => destruct (IH s) as [st' [E [A [B C]]]] end;
        exists st'; rewrite E; cbn in A, B, C; repeat split; lia. }
  assert (CR : forall x y, count_rule (x ++ y) = count_rule x + count_rule y).
  { intros. unfold count_rule. rewrite filter_app, app_length. reflexivity. }
  assert (CS : forall x y, count_str (x ++ y) = count_str x + count_str y).
  { intros. unfold count_str. rewrite filter_app, app_length. reflexivity. }
  assert (OUT : forall avs st,
             match mapM iter_aval avs with
             | Raise e => for_each avs st OB = Raise e
             | Ok ls => exists st', for_each avs st OB = Ok (Normal st') /\
                          ct_all_elements st' = ct_all_elements st + length (concat ls) /\
                          ct_rule_elements st' = ct_rule_elements st + count_rule (concat ls) /\
                          ct_str_elements st' = ct_str_elements st + count_str (concat ls)
             end).
  { induction avs as [|a avs IH]; intros st.
    - cbn. exists st. repeat split; lia.
    - cbn [mapM for_each].
      pose proof (eq_refl (OB a st)) as HOB. unfold OB at 2 in HOB.
      destruct (iter_aval a) as [es|e]; cbn [bind] in *; [|rewrite HOB; reflexivity].
      match type of HOB with _ = for_each es ?s _ => destruct (IN es s) as [st1 [E [A [B C]]]] end.
      rewrite E in HOB. rewrite HOB. cbn in A, B, C. specialize (IH st1).
      destruct (mapM iter_aval avs) as [ls|e]; cbn [bind concat].
      + destruct IH as [st2 [E2 [A2 [B2 C2]]]]. exists st2. rewrite E2, app_length, CR, CS. repeat split; lia.
      + exact IH. }
  assert (FI : forall f, field_iter c f = iter_aval match lookup f c with Some a_ => a_ | None => ASeq true [] end).
  { intros f. unfold field_iter. destruct (lookup f c); reflexivity. }
  rewrite !FI. cbn [map].
  match goal with |- context [for_each [?x; ?y; ?z] _ _] => specialize (OUT [x; y; z] s0); set (X := x) in *; set (Y := y) in *; set (Z_ := z) in * end.
  cbn [mapM] in OUT.
  destruct (iter_aval X) as [a|e]; cbn [bind] in *; [|rewrite OUT; reflexivity].
  destruct (iter_aval Y) as [b|e]; cbn [bind] in *; [|rewrite OUT; reflexivity].
  destruct (iter_aval Z_) as [d|e]; cbn [bind] in *; [|rewrite OUT; reflexivity].
  destruct OUT as [st' [E [A [B C]]]]. rewrite E. cbn [seqc concat] in *. rewrite app_nil_r in A, B, C.
  cbn in A, B, C. rewrite A, C.
  destruct ((length (a ++ b ++ d) =? count_str (a ++ b ++ d)) || (length (a ++ b ++ d) =? 0)); cbn; [reflexivity|].
  rewrite A, B.
  destruct (length (a ++ b ++ d) =? count_rule (a ++ b ++ d)); reflexivity.
Qed.

Lemma setattr_eq s n v : PolicyG.setattr_g s n v = setattr s n v.
Proof.
  unfold PolicyG.setattr_g, setattr. cbn [seqc sa_obj].
  rewrite check_field_type_eq. destruct (check_field_type n v) as [[]|e]; cbn [bind seqc sa_obj sa_calculated_type]; [|reflexivity].
  rewrite calculate_type_eq. destruct (calculate_type s n v) as [t|e]; cbn; reflexivity.
Qed.

Ltac ctor_step :=
  rewrite setattr_eq;
  match goal with |- context [bind (setattr ?s ?n ?v) _] => destruct (setattr s n v) end;
  [cbn [bind seqc ci_obj ci_context]|reflexivity].

Lemma ctor_eq a :
  PolicyG.ctor_g (c_uid a) (c_subjects a) (c_effect a) (c_resources a) (c_actions a) (c_context a) (c_rules a)
                 (c_description a) = ctor a.
Proof.
  unfold PolicyG.ctor_g, ctor. cbn [seqc ci_obj ci_context].
  do 5 ctor_step.
  destruct (negb (aval_is_none (c_context a))); cbn [seqc ci_obj ci_context]; [do 3 ctor_step; reflexivity|].
  destruct (aval_truthy (c_rules a)); cbn [seqc ci_obj ci_context]; do 3 ctor_step; reflexivity.
Qed.
Print Assumptions calculate_type_eq.
Print Assumptions ctor_eq.

(* ---------- Policy.from_json after the JSON text was decoded into properties ---------- *)
Lemma del_key_absent n (s : list (pstr * aval)) : lookup n s = None -> del_key n s = s.
Proof.
  induction s as [|[k v] r IH]; cbn; [reflexivity|].
  destruct (pstr_eqb n k); [discriminate|]. intros H. rewrite IH by exact H. reflexivity.
Qed.

Lemma lookup_del_key_other k n (s : list (pstr * aval)) :
  pstr_eqb n k = false -> lookup k (del_key n s) = lookup k s.
Proof.
  intros H. induction s as [|[k' v] r IH]; cbn; [reflexivity|].
  destruct (pstr_eqb n k') eqn:E.
  - rewrite IH. destruct (pstr_eqb k k') eqn:E2; [|reflexivity].
    apply PyValP.pstr_eqb_eq in E, E2. subst. rewrite PyValP.pstr_eqb_refl in H. discriminate.
  - cbn. rewrite IH. reflexivity.
Qed.

Lemma from_json_eq props : PolicyG.from_json_g props = from_props props.
Proof.
  unfold PolicyG.from_json_g, from_props, has_key. cbn [seqc fj_props fj_context_rules].
  destruct (lookup n_uid props) as [uid|] eqn:U; cbn [negb seqc bind fj_props fj_context_rules]; [|reflexivity].
  assert (FIN : forall cr props1 P3, P3 = del_key n_type ((n_context, cr) :: del_key n_context props1) ->
            lookup n_uid props1 = Some uid ->
            call_ctor P3 =
            (let props3 := del_key n_type ((n_context, cr) :: del_key n_context props1) in
             if forallb (fun kv => known_ctor_key (fst kv)) props3
             then ctor {| c_uid := uid; c_subjects := prop_or n_subjects props3 (ASeq true []);
                          c_effect := prop_or n_effect props3 (AV (VStr s_deny));
                          c_resources := prop_or n_resources props3 (ASeq true []);
                          c_actions := prop_or n_actions props3 (ASeq true []);
                          c_context := cr; c_rules := prop_or n_rules props3 (AV VNone);
                          c_description := prop_or n_description props3 (AV VNone) |}
             else Raise ETypeError)).
  { intros cr props1 P3 -> U1. unfold call_ctor. cbn zeta.
    set (props3 := del_key n_type ((n_context, cr) :: del_key n_context props1)).
    destruct (forallb (fun kv => known_ctor_key (fst kv)) props3); [|reflexivity].
    assert (E1 : lookup n_uid props3 = Some uid).
    { unfold props3. rewrite lookup_del_key_other by reflexivity. cbn [lookup].
      change (pstr_eqb n_uid n_context) with false. cbn iota.
      rewrite lookup_del_key_other by reflexivity. exact U1. }
    assert (E2 : prop_or n_context props3 (AV VNone) = cr).
    { unfold prop_or, props3. rewrite lookup_del_key_other by reflexivity. cbn [lookup].
      rewrite PyValP.pstr_eqb_refl. reflexivity. }
    rewrite E1, E2.
    match goal with |- _ = ctor ?a => exact (ctor_eq a) end. }
  assert (WRAP : forall (m : res pstate) (st : from_json_g_st),
            match (v__ <- m ;; Ok (Ret (st, v__)) : res (ctl from_json_g_st (from_json_g_st * pstate))) with
            | Ok (Ret (_, r__)) => Ok r__
            | Raise e__ => Raise e__
            | _ => Raise EUnmodelled
            end = m).
  { intros m st. destruct m; reflexivity. }
  Ltac fin FIN WRAP U :=
    match goal with |- context [lookup n_type ?X] => destruct (lookup n_type X) eqn:T end;
    cbn [seqc bind fj_props fj_context_rules]; rewrite WRAP;
    [apply FIN; [reflexivity|exact U] | apply FIN; [symmetry; apply del_key_absent; assumption|exact U]].
  destruct (lookup n_context props) as [c|] eqn:C; cbn [bind seqc fj_props fj_context_rules].
  - fin FIN WRAP U.
  - destruct (lookup n_rules props) as [r|] eqn:R; cbn [bind seqc fj_props fj_context_rules].
    + assert (U' : lookup n_uid (del_key n_rules props) = Some uid)
        by (rewrite lookup_del_key_other by reflexivity; exact U).
      fin FIN WRAP U'.
    + rewrite (del_key_absent n_rules props R). fin FIN WRAP U.
Qed.
Print Assumptions from_json_eq.

(* ---------- Policy._data ---------- *)
From Vakt Require Import Proofs.PolicyP Proofs.PolicyJsonP.

Lemma lookup_app {A} k (p q : list (pstr * A)) :
  lookup k (p ++ q) = match lookup k p with Some v => Some v | None => lookup k q end.
Proof. induction p as [|[k' a] r IH]; [reflexivity|]. cbn. destruct (pstr_eqb k k'); [reflexivity|exact IH]. Qed.

Lemma distinct_mid_absent {A} (pre : list (pstr * A)) k a r :
  keys_distinct (pre ++ (k, a) :: r) = true -> lookup k pre = None.
Proof.
  induction pre as [|[k' a'] p IH]; [reflexivity|]. cbn [app keys_distinct]. intros H.
  apply andb_true_iff in H as [H1 H2]. cbn [lookup].
  destruct (pstr_eqb k k') eqn:E; [|exact (IH H2)].
  apply PyValP.pstr_eqb_eq in E. subst k'. unfold has_key in H1. rewrite lookup_app in H1.
  destruct (lookup k p); [discriminate H1|]. cbn [lookup] in H1. rewrite PyValP.pstr_eqb_refl in H1. discriminate H1.
Qed.

Lemma set_attr_mid (pre : pstate) k v a r :
  lookup k pre = None -> set_attr k v (pre ++ (k, a) :: r) = pre ++ (k, v) :: r.
Proof.
  induction pre as [|[k' a'] p IH]; intros H.
  - cbn. rewrite PyValP.pstr_eqb_refl. reflexivity.
  - cbn [lookup] in H. cbn [app set_attr]. destruct (pstr_eqb k k'); [discriminate H|]. rewrite (IH H). reflexivity.
Qed.

Lemma data_of_app p q : data_of (p ++ q) = data_of p ++ data_of q.
Proof. unfold data_of. apply map_app. Qed.

Lemma flat_not_tuple a :
  match a with ASeq true _ => true | AV (VTup _) => true | _ => false end = false -> flat a = a.
Proof. destruct a as [[]|[]|]; try reflexivity; discriminate. Qed.

(* the loop: the items not yet visited are as they were, the visited ones are written *)
Lemma data_loop xs : forall pre k0 p0, keys_distinct (pre ++ xs) = true ->
  exists k1 p1,
    for_each xs {| pd_data := data_of pre ++ xs; pd_k := k0; pd_prop := p0 |}
      (fun '(k_, prop_) st =>
         let st := {| pd_data := pd_data st; pd_k := k_; pd_prop := pd_prop st |} in
         let st := {| pd_data := pd_data st; pd_k := pd_k st; pd_prop := prop_ |} in
         if match pd_prop st with ASeq true _ => true | AV (VTup _) => true | _ => false end
         then let st := {| pd_data := set_attr (pd_k st) (flat (pd_prop st)) (pd_data st); pd_k := pd_k st;
                           pd_prop := pd_prop st |} in Ok (Normal st)
         else Ok (Normal st))
    = (Ok (Normal {| pd_data := data_of (pre ++ xs); pd_k := k1; pd_prop := p1 |})
       : res (ctl data_g_st (data_g_st * pstate))).
Proof.
  induction xs as [|[k a] r IH]; intros pre k0 p0 H.
  - exists k0, p0. cbn [for_each]. rewrite !app_nil_r. reflexivity.
  - assert (Hk : lookup k (data_of pre) = None).
    { rewrite lookup_data_of, (distinct_mid_absent pre k a r H). reflexivity. }
    assert (H' : keys_distinct ((pre ++ [(k, a)]) ++ r) = true) by (rewrite <- app_assoc; exact H).
    assert (E : data_of (pre ++ (k, a) :: r) = data_of ((pre ++ [(k, a)]) ++ r)) by (rewrite <- app_assoc; reflexivity).
    cbn [for_each pd_data pd_k pd_prop].
    destruct (match a with ASeq true _ => true | AV (VTup _) => true | _ => false end) eqn:T.
    + rewrite (set_attr_mid (data_of pre) k (flat a) a r Hk).
      destruct (IH (pre ++ [(k, a)]) k a H') as [k1 [p1 L]]. exists k1, p1. rewrite E, <- L.
      rewrite data_of_app. cbn [data_of map fst snd]. rewrite <- app_assoc. reflexivity.
    + destruct (IH (pre ++ [(k, a)]) k a H') as [k1 [p1 L]]. exists k1, p1. rewrite E, <- L.
      rewrite data_of_app. cbn [data_of map fst snd]. rewrite (flat_not_tuple a T), <- app_assoc. reflexivity.
Qed.

(* the generated Policy._data is data_of (the instance dictionary has distinct keys) *)
Lemma data_eq s : keys_distinct s = true -> PolicyG.data_g s = Ok (data_of s).
Proof.
  intros H. destruct (data_loop s [] [] (AV VNone) H) as [k1 [p1 L]]. cbn [app data_of map] in L.
  unfold PolicyG.data_g. cbn [seqc pd_data pd_k pd_prop].
  match goal with
  | |- context [for_each ?xs ?st ?b] =>
      replace (for_each xs st b)
        with (Ok (Normal {| pd_data := data_of s; pd_k := k1; pd_prop := p1 |})
              : res (ctl data_g_st (data_g_st * pstate))) by (symmetry; exact L)
  end.
  reflexivity.
Qed.
Print Assumptions data_eq.

(* a constructed policy, written by the generated _data and read by the generated from_json *)
Lemma written_then_read_generated a s : ctor a = Ok s ->
  (d <- PolicyG.data_g s ;; PolicyG.from_json_g d) = Ok (data_of s).
Proof.
  intros H. assert (K : keys_distinct s = true).
  { rewrite ctor_is_core in H. destruct (ctor_core_shape _ _ _ _ _ _ _ _ H) as [t [-> _]]. reflexivity. }
  rewrite (data_eq s K). cbn [bind]. rewrite from_json_eq. exact (written_then_read a s H).
Qed.
Print Assumptions written_then_read_generated.
