(* SqlGE: SQLStorage.add / update / delete generated from vakt/storage/sql/__init__.py (x-mode: exceptions carry the
   session state) equal the call sequences of Model/SqlSession.v. *)
From Coq Require Import ZArith List Bool.
From Vakt Require Import Base.PyMonad Base.PyVal Model.Regex Model.Rules Model.Policy Model.Checkers Model.Guard
     Model.Store Model.SqlSession Model.Prefilter Proofs.GuardP.
From Vakt Require Props.C07.
From VaktGen Require Import SqlG.
Import ListNotations.

Section sql.
  Variables K V : Type.
  Variable keq klt : K -> K -> bool.

  Lemma sql_add_eq d u x bad : sql_add_g K V keq klt d u x bad = Ok (sql_add K V keq klt d u x bad).
  Proof.
    unfold sql_add_g, sql_add, sess_insert_commit. cbn [xseqc qa_db qa_policy_model].
    destruct (failed K V d); [reflexivity|]. destruct bad; [reflexivity|].
    destruct (s_get K V keq u (work K V d)); reflexivity.
  Qed.

  Lemma sql_update_eq d u x bad : sql_update_g K V keq d u x bad = Ok (sql_update K V keq d u x bad).
  Proof.
    unfold sql_update_g, sql_update, sess_get, sess_update_commit. cbn [xseqc qu_db qu_policy_model].
    destruct (failed K V d) eqn:F; [reflexivity|]. cbn.
    destruct (s_get K V keq u (work K V d)); cbn; [|reflexivity].
    rewrite F. destruct bad; reflexivity.
  Qed.

  Lemma sql_delete_eq d u : sql_delete_g K V keq d u = Ok (sql_delete K V keq d u).
  Proof.
    unfold sql_delete_g, sql_delete, sess_query_delete, sess_commit. cbn [xseqc qd_db xfor_each].
    destruct (failed K V d) eqn:F; repeat (cbn; rewrite ?F); reflexivity.
  Qed.
End sql.
Print Assumptions sql_add_eq.
Print Assumptions sql_update_eq.
Print Assumptions sql_delete_eq.

(* ---------- the candidate query: dispatch on the checker, generated from _get_filtered_cursor ---------- *)
Section prefilter.
  Variable regex_filter_ : policy -> bool.

  (* every policy the checker matches is selected by the query built for that checker (dialects without a regex
     operator, policies as read back from SQL, string inquiry fields) *)
  Theorem sql_prefilter_sound : forall uid eff su re ac ctx d p q a s r ck ci rxof,
    mk_policy uid eff su re ac ctx d [60%N] [62%N] = Some p ->
    i_action q = VStr a -> i_subject q = VStr s -> i_resource q = VStr r ->
    matchb (fits rxof ck) q p = true ->
    exists pre, sql_prefilter_g regex_filter_ (CkKnown ck) false ci a s r = Ok pre /\ pre p = true.
  Proof.
    intros uid eff su re ac ctx d p q a s r ck ci rxof Hmk Ha Hs Hr Hm.
    destruct (Props.C07.C07_sql_sound uid eff su re ac ctx d p q a s r Hmk Ha Hs Hr rxof) as [F [E [R U]]].
    destruct ck; cbn; eexists; (split; [reflexivity|]).
    - apply R, Hm.
    - apply E, Hm.
    - apply F, Hm.
    - apply U, Hm.
  Qed.

  Lemma sql_prefilter_no_checker rd ci a s r p :
    exists pre, sql_prefilter_g regex_filter_ CkNone rd ci a s r = Ok pre /\ pre p = true.
  Proof. eexists. split; reflexivity. Qed.

  Lemma sql_prefilter_unknown rd ci a s r : sql_prefilter_g regex_filter_ CkOther rd ci a s r = Raise EUnknownChecker.
  Proof. reflexivity. Qed.
End prefilter.
Print Assumptions sql_prefilter_sound.
