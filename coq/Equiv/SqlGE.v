(* SqlGE: SQLStorage.add / update / delete generated from vakt/storage/sql/__init__.py (x-mode: exceptions carry the
   session state) equal the call sequences of Model/SqlSession.v. *)
From Coq Require Import ZArith List Bool.
From Vakt Require Import Base.PyMonad Model.Store Model.SqlSession.
From VaktGen Require Import SqlG.
Import ListNotations.

Section sql.
  Variables K V : Type.
  Variable keq klt : K -> K -> bool.

  Lemma sql_add_eq d u x bad : sql_add_g K V keq klt d u x bad = Ok (sql_add K V keq klt d u x bad).
  Proof.
    unfold sql_add_g, sql_add, sess_insert_commit. cbn [xseqc qa_db qa_policy_model].
    destruct (failed K V d); [reflexivity|]. destruct bad; [reflexivity|].
    destruct (s_get K V keq u (work K V d)); reflexivity.
  Qed.

  Lemma sql_update_eq d u x bad : sql_update_g K V keq d u x bad = Ok (sql_update K V keq d u x bad).
  Proof.
    unfold sql_update_g, sql_update, sess_get, sess_update_commit. cbn [xseqc qu_db qu_policy_model].
    destruct (failed K V d) eqn:F; [reflexivity|]. cbn.
    destruct (s_get K V keq u (work K V d)); cbn; [|reflexivity].
    rewrite F. destruct bad; reflexivity.
  Qed.

  Lemma sql_delete_eq d u : sql_delete_g K V keq d u = Ok (sql_delete K V keq d u).
  Proof.
    unfold sql_delete_g, sql_delete, sess_query_delete, sess_commit. cbn [xseqc qd_db xfor_each].
    destruct (failed K V d) eqn:F; repeat (cbn; rewrite ?F); reflexivity.
  Qed.
End sql.
Print Assumptions sql_add_eq.
Print Assumptions sql_update_eq.
Print Assumptions sql_delete_eq.
