(* MemoryGE: MemoryStorage's methods generated from vakt/storage/memory.py equal the insertion-ordered store
   model (Model/Store.v, order kind Insertion). *)
From Coq Require Import ZArith NArith List Bool Lia.
From Vakt Require Import Base.PyMonad Model.Store.
From VaktGen Require Import StorageAbcG MemoryG.
Import ListNotations.

Section memory.
  Variables K V : Type.
  Variable keq : K -> K -> bool.
  Variable klt : K -> K -> bool.
  Variable k0 : K.
  Notation smap := (list (K * V)).
  Notation stepI := (step K V keq klt Insertion).

  Lemma add_eq (s : smap) u x :
    add_g K V keq k0 s (u, x) =
    match stepI s (Add u x false) with
    | (_, OExists) => Raise EPolicyExists
    | (s', _) => Ok s'
    end.
  Proof.
    unfold add_g, step, has_uid, dict_set, has_uid. cbn.
    destruct (s_get K V keq u s) eqn:E; cbn; rewrite ?E; cbn; reflexivity.
  Qed.

  Lemma update_eq (s : smap) u x :
    update_g K V keq s (u, x) = Ok (fst (stepI s (Update u x false))).
  Proof.
    unfold update_g, step, has_uid, dict_set, has_uid. cbn.
    destruct (s_get K V keq u s) eqn:E; cbn; rewrite ?E; cbn; reflexivity.
  Qed.

  Lemma s_remove_absent (s : smap) u : s_get K V keq u s = None -> s_remove K V keq u s = s.
  Proof.
    induction s as [|[k v] r IH]; cbn; [reflexivity|].
    destruct (keq u k); [discriminate|]. intros H. rewrite IH by exact H. reflexivity.
  Qed.

  Lemma delete_eq (s : smap) u :
    delete_g K V keq s u = Ok (fst (stepI s (Delete u))).
  Proof.
    unfold delete_g, step, has_uid. cbn.
    destruct (s_get K V keq u s) eqn:E; cbn; rewrite ?E; cbn; [reflexivity|]. rewrite s_remove_absent by exact E. reflexivity.
  Qed.

  Lemma get_eq (s : smap) u : get_g K V keq s u = Ok (s_get K V keq u s).
  Proof. reflexivity. Qed.

  Lemma find_eq (s : smap) : find_for_inquiry_g K V s = Ok s.
  Proof. reflexivity. Qed.

  Lemma get_all_eq (s : smap) limit offset : get_all_g K V s limit offset = get_all K V s limit offset.
  Proof.
    unfold get_all_g, get_all. cbn [seqc]. unfold check_limit_and_offset_g. cbn [seqc].
    destruct (Z.ltb limit 0) eqn:L; cbn; [reflexivity|].
    destruct (Z.ltb offset 0) eqn:O; cbn; [reflexivity|].
    destruct (Z.ltb (Z.of_nat (length s)) offset) eqn:B; cbn.
    - unfold page. rewrite skipn_all2 by lia. destruct (Z.to_nat limit); reflexivity.
    - destruct (Z.eqb limit 0) eqn:E; cbn; [|reflexivity].
      apply Z.eqb_eq in E. subst limit. reflexivity.
  Qed.
End memory.
Print Assumptions add_eq.
Print Assumptions get_all_eq.
