(* Inquiry: vakt.guard.Inquiry - to_json_sorted (the exact text jsonpickle + json.dumps(sort_keys=True)
   produce for the JSON-like universe), __eq__, __hash__ (CPython's tuple hash over the code points). *)
From Coq Require Import ZArith NArith List Bool.
From Vakt Require Import Base.PyMonad Base.PyVal Model.Rules.
Import ListNotations.

(* ---------- normal form: dictionary entries sorted by key, at every depth ---------- *)
Fixpoint insert_kv {A} (k : pstr) (v : A) (l : list (pstr * A)) : list (pstr * A) :=
  match l with
  | [] => [(k, v)]
  | (k', v') :: r => if pstr_ltb k k' then (k, v) :: l else (k', v') :: insert_kv k v r
  end.
Fixpoint sort_kvs {A} (l : list (pstr * A)) : list (pstr * A) :=
  match l with [] => [] | (k, v) :: r => insert_kv k v (sort_kvs r) end.

Fixpoint norm (v : val) : val :=
  match v with
  | VList l => VList ((fix go (l : list val) := match l with [] => [] | x :: r => norm x :: go r end) l)
  | VTup l => VTup ((fix go (l : list val) := match l with [] => [] | x :: r => norm x :: go r end) l)
  | VDict kvs =>
      VDict (sort_kvs ((fix go (l : list (pstr * val)) :=
                          match l with [] => [] | (k, x) :: r => (k, norm x) :: go r end) kvs))
  | _ => v
  end.

(* ---------- JSON text ---------- *)
Definition hex_digit_cp (d : N) : N := if N.ltb d 10 then (48 + d)%N else (87 + d)%N.   (* lower case *)
Definition u_escape (c : N) : pstr :=        (* \uXXXX for c < 65536 *)
  [92; 117]%N ++ [hex_digit_cp (N.div c 4096); hex_digit_cp (N.modulo (N.div c 256) 16);
                  hex_digit_cp (N.modulo (N.div c 16) 16); hex_digit_cp (N.modulo c 16)].

(* json.dumps string escaping with ensure_ascii=True *)
Definition esc_cp (c : N) : pstr :=
  if N.eqb c 34 then [92; 34]%N
  else if N.eqb c 92 then [92; 92]%N
  else if N.eqb c 10 then [92; 110]%N
  else if N.eqb c 13 then [92; 114]%N
  else if N.eqb c 9 then [92; 116]%N
  else if N.eqb c 8 then [92; 98]%N
  else if N.eqb c 12 then [92; 102]%N
  else if N.ltb c 32 then u_escape c
  else if N.ltb c 127 then [c]
  else if N.ltb c 65536 then u_escape c
  else let c' := (c - 65536)%N in
       u_escape (55296 + N.div c' 1024) ++ u_escape (56320 + N.modulo c' 1024).

Definition json_str (s : pstr) : pstr := [34%N] ++ flat_map esc_cp s ++ [34%N].

(* repr(float) for the dyadic m / 2^j: the exact decimal expansion (generated floats keep it <= 15 digits) *)
Definition pad_left (n : nat) (s : pstr) : pstr := repeat 48%N (n - length s) ++ s.
Fixpoint strip_trailing_zeros_rev (s : pstr) : pstr :=
  match s with
  | 48%N :: r => strip_trailing_zeros_rev r
  | _ => s
  end.
Definition float_repr (m : Z) (j : N) : pstr :=
  let sign := if Z.ltb m 0 then [45%N] else [] in
  let a := Z.abs_N m in
  let scaled := (a * 5 ^ j)%N in                         (* a / 2^j = scaled / 10^j *)
  let ip := N.div scaled (10 ^ j) in
  let fp := N.modulo scaled (10 ^ j) in
  let fdigits := pad_left (N.to_nat j) (if N.eqb fp 0 then [] else N_digits fp) in
  let fstripped := rev (strip_trailing_zeros_rev (rev fdigits)) in
  sign ++ N_digits ip ++ [46%N] ++ (match fstripped with [] => [48%N] | _ => fstripped end).

Definition comma_sp : pstr := [44; 32]%N.
Fixpoint join_p (sep : pstr) (l : list pstr) : pstr :=
  match l with [] => [] | [x] => x | x :: r => x ++ sep ++ join_p sep r end.

(* dictionary keys jsonpickle reserves for its own tags (jsonpickle.tags.RESERVED, 4.1.2): an entry under such a
   key is silently left out of the encoded dictionary (jsonpickle.util.is_picklable) *)
Definition reserved_keys : list pstr := [
  [112; 121; 47; 98; 121; 116; 101; 115]%N;   (* py/bytes *)
  [112; 121; 47; 102; 117; 110; 99; 116; 105; 111; 110]%N;   (* py/function *)
  [112; 121; 47; 105; 100]%N;   (* py/id *)
  [112; 121; 47; 105; 110; 105; 116; 97; 114; 103; 115]%N;   (* py/initargs *)
  [112; 121; 47; 105; 116; 101; 114; 97; 116; 111; 114]%N;   (* py/iterator *)
  [112; 121; 47; 109; 111; 100]%N;   (* py/mod *)
  [112; 121; 47; 110; 101; 119; 97; 114; 103; 115]%N;   (* py/newargs *)
  [112; 121; 47; 110; 101; 119; 97; 114; 103; 115; 101; 120]%N;   (* py/newargsex *)
  [112; 121; 47; 110; 101; 119; 111; 98; 106]%N;   (* py/newobj *)
  [112; 121; 47; 111; 98; 106; 101; 99; 116]%N;   (* py/object *)
  [112; 121; 47; 112; 114; 111; 112; 101; 114; 116; 121]%N;   (* py/property *)
  [112; 121; 47; 114; 101; 100; 117; 99; 101]%N;   (* py/reduce *)
  [112; 121; 47; 114; 101; 102]%N;   (* py/ref *)
  [112; 121; 47; 114; 101; 112; 114]%N;   (* py/repr *)
  [112; 121; 47; 115; 101; 113]%N;   (* py/seq *)
  [112; 121; 47; 115; 101; 116]%N;   (* py/set *)
  [112; 121; 47; 115; 116; 97; 116; 101]%N;   (* py/state *)
  [112; 121; 47; 116; 117; 112; 108; 101]%N;   (* py/tuple *)
  [112; 121; 47; 116; 121; 112; 101]%N   (* py/type *) ].
Definition reserved_key (k : pstr) : bool := existsb (pstr_eqb k) reserved_keys.

(* print a value whose dictionaries are already in the order to print *)
Fixpoint print (v : val) : pstr :=
  match v with
  | VNone => [110; 117; 108; 108]%N
  | VBool true => [116; 114; 117; 101]%N
  | VBool false => [102; 97; 108; 115; 101]%N
  | VInt z => Z_str z
  | VFlt m j => float_repr m j
  | VStr s => json_str s
  | VList l => [91%N] ++ join_p comma_sp ((fix go (l : list val) := match l with [] => [] | x :: r => print x :: go r end) l) ++ [93%N]
  | VTup l =>
      (* {"py/tuple": [...]} *)
      [123; 34; 112; 121; 47; 116; 117; 112; 108; 101; 34; 58; 32; 91]%N ++
      join_p comma_sp ((fix go (l : list val) := match l with [] => [] | x :: r => print x :: go r end) l) ++ [93; 125]%N
  | VDict kvs =>
      [123%N] ++ join_p comma_sp ((fix go (l : list (pstr * val)) :=
                                     match l with
                                     | [] => []
                                     | (k, x) :: r =>
                                         if reserved_key k then go r
                                         else (json_str k ++ [58; 32]%N ++ print x) :: go r
                                     end) kvs)
      ++ [125%N]
  end.

Definition canon_val (v : val) : pstr := print (norm v).

Definition k_action : pstr := [97; 99; 116; 105; 111; 110]%N.
Definition k_context : pstr := [99; 111; 110; 116; 101; 120; 116]%N.
Definition k_resource : pstr := [114; 101; 115; 111; 117; 114; 99; 101]%N.
Definition k_subject : pstr := [115; 117; 98; 106; 101; 99; 116]%N.

Definition inq_val (q : inquiry) : val :=
  VDict [(k_resource, i_resource q); (k_action, i_action q); (k_subject, i_subject q); (k_context, i_context q)].

(* Inquiry.to_json_sorted *)
Definition canon (q : inquiry) : pstr := canon_val (inq_val q).

(* Inquiry.__eq__ *)
Definition inq_eq (a b : inquiry) : bool := pstr_eqb (canon a) (canon b).

(* ---------- CPython tuple hash (64-bit xxHash variant, Objects/tupleobject.c) ---------- *)
Definition two64 : Z := 18446744073709551616%Z.
Definition xxprime1 : Z := 11400714785074694791%Z.
Definition xxprime2 : Z := 14029467366897019727%Z.
Definition xxprime5 : Z := 2870177450012600261%Z.
Definition rotl31 (x : Z) : Z := Z.modulo (Z.lor (Z.shiftl x 31) (Z.shiftr x 33)) two64.

Definition tuple_hash_ints (l : list Z) : Z :=           (* elements are small non-negative ints: hash(n) = n *)
  let acc := fold_left (fun acc lane =>
               let acc := Z.modulo (acc + lane * xxprime2) two64 in
               let acc := rotl31 acc in
               Z.modulo (acc * xxprime1) two64) l xxprime5 in
  let acc := Z.modulo (acc + Z.lxor (Z.of_nat (length l)) (Z.lxor xxprime5 3527539)) two64 in
  if Z.eqb acc (two64 - 1) then 1546275796%Z
  else if Z.ltb acc (two64 / 2) then acc else (acc - two64)%Z.        (* read as a signed 64-bit number *)

(* Inquiry.__hash__ *)
Definition inq_hash (q : inquiry) : Z := tuple_hash_ints (map Z.of_N (canon q)).
