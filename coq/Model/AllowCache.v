(* AllowCache: vakt.cache.create_cached_guard - a Guard whose is_allowed_check is wrapped by a cache back-end
   (default: functools.lru_cache(maxsize)), over an ObservableMutationStorage whose notifications invalidate
   the cache.  Generic in the store S, the mutations M, the inquiry keys Q and the uncached decision `dec`. *)
From Coq Require Import List Bool.
From Vakt Require Import Base.PyMonad Model.Lru.
Import ListNotations.

Section allow_cache.
  Variables S M Q : Type.
  Variable qeq : Q -> Q -> bool.
  Variable mstep : S -> M -> S * bool.          (* storage mutation: new store, raised? *)
  Variable dec : S -> Q -> bool.                (* Guard.is_allowed_check over the store *)

  Inductive cop : Type := Mut (m : M) | Ask (q : Q).

  Inductive cout : Type :=
  | OMut (raised : bool) (notified : nat)
  | OAsk (answer : bool) (hit : bool) (size : nat).

  Record cstate : Type := { c_store : S; c_cache : cache Q bool }.

  Definition cstep (cap : option nat) (st : cstate) (o : cop) : cstate * cout :=
    match o with
    | Mut m =>
        let (s', r) := mstep (c_store st) m in
        if r then ({| c_store := s'; c_cache := c_cache st |}, OMut true 0)
        else ({| c_store := s'; c_cache := [] |}, OMut false 1)       (* notify -> invalidate *)
    | Ask q =>
        let '(c', a, hit) := lru_call qeq cap (c_cache st) q (fun k => Ok (dec (c_store st) k)) in
        ({| c_store := c_store st; c_cache := c' |},
         OAsk (match a with Ok b => b | Raise _ => false end) hit (length c'))
    end.

  Fixpoint crun (cap : option nat) (st : cstate) (ops : list cop) : list cout :=
    match ops with
    | [] => []
    | o :: r => let (st', x) := cstep cap st o in x :: crun cap st' r
    end.

  (* the uncached guard over the same storage *)
  Fixpoint urun (s : S) (ops : list cop) : list (option bool) :=
    match ops with
    | [] => []
    | Mut m :: r => None :: urun (fst (mstep s m)) r
    | Ask q :: r => Some (dec s q) :: urun s r
    end.

  Definition answer_of (x : cout) : option bool :=
    match x with OAsk a _ _ => Some a | OMut _ _ => None end.
End allow_cache.

Arguments Mut {M Q} m.
Arguments Ask {M Q} q.
