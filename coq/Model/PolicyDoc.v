(* PolicyDoc: the JSON document a policy is written as (json.loads (policy.to_json ())): the written attribute state
   (Model.Policy data_of) with every rule in its stored structure (Model.RuleJson), and what jsonpickle.decode rebuilds
   from such a document - the properties Policy.from_json (from_props) is given. *)
From Coq Require Import ZArith NArith List Bool String.
From Vakt Require Import Base.PyMonad Base.PyVal Model.Regex Model.Net Model.Rules Model.Policy Model.RuleJson.
Import ListNotations.

Fixpoint mapO {A B} (f : A -> option B) (l : list A) : option (list B) :=
  match l with
  | [] => Some []
  | x :: r => match f x, mapO f r with Some y, Some ys => Some (y :: ys) | _, _ => None end
  end.

(* ---------- writing ---------- *)
Definition enc_kv (kr : pstr * rule) : option (pstr * val) :=
  match rule_val (snd kr) with Some v => Some (fst kr, v) | None => None end.

Definition enc_elemv (e : elemv) : option val :=
  match e with
  | XStr s => Some (VStr s)
  | XRule r => rule_val r
  | XDict kvs => option_map VDict (mapO enc_kv kvs)
  | XBad v => Some (enc_val v)
  end.

Definition enc_aval (a : aval) : option val :=
  match a with
  | AV v => Some (enc_val v)
  | ASeq false es => option_map VList (mapO enc_elemv es)
  | ASeq true es => option_map (fun l => VDict [(k_tuple, VList l)]) (mapO enc_elemv es)
  | ACtx kvs => option_map VDict (mapO enc_kv kvs)
  end.

Definition enc_attr (na : pstr * aval) : option (pstr * val) :=
  match enc_aval (snd na) with Some v => Some (fst na, v) | None => None end.

Definition policy_doc (s : pstate) : option val := option_map VDict (mapO enc_attr s).

(* ---------- reading ---------- *)
(* a JSON object carrying jsonpickle's object tag first *)
Definition is_obj (v : val) : bool :=
  match v with VDict ((k, VStr _) :: _) => pstr_eqb k k_object | _ => false end.

Definition dec_kv (fuel : nat) (kv : pstr * val) : option (pstr * rule) :=
  match rule_of_val fuel (snd kv) with Some r => Some (fst kv, r) | None => None end.

(* a dictionary all of whose values are rule objects is a dictionary of rules; the empty one too *)
Definition rules_dict (kvs : list (pstr * val)) : bool := forallb (fun kv => is_obj (snd kv)) kvs.

Definition dec_elemv (fuel : nat) (v : val) : option elemv :=
  match v with
  | VStr s => Some (XStr s)
  | VDict kvs =>
      if is_obj v then option_map XRule (rule_of_val fuel v)
      else if rules_dict kvs then option_map XDict (mapO (dec_kv fuel) kvs)
      else Some (XBad (dec_val v))
  | _ => Some (XBad (dec_val v))
  end.

Definition dec_aval (fuel : nat) (v : val) : option aval :=
  match v with
  | VList l => option_map (ASeq false) (mapO (dec_elemv fuel) l)
  | VDict kvs =>
      match kvs with
      | [(k, VList l)] =>
          if pstr_eqb k k_tuple then option_map (ASeq true) (mapO (dec_elemv fuel) l)
          else Some (AV (dec_val v))
      | _ => if rules_dict kvs then option_map ACtx (mapO (dec_kv fuel) kvs) else Some (AV (dec_val v))
      end
  | _ => Some (AV (dec_val v))
  end.

Definition dec_attr (fuel : nat) (kv : pstr * val) : option (pstr * aval) :=
  match dec_aval fuel (snd kv) with Some a => Some (fst kv, a) | None => None end.

Definition props_of_doc (fuel : nat) (v : val) : option (list (pstr * aval)) :=
  match v with VDict kvs => mapO (dec_attr fuel) kvs | _ => None end.

(* ---------- what the codec covers ---------- *)
(* the model's attribute values have one representation per Python value only under these side conditions: a plain value
   is not a sequence and not the empty dictionary (that is ACtx []), an ill-typed element is not a string and not the
   empty dictionary (XStr, XDict []); values stay out of jsonpickle's reserved namespace; rules are within RuleJson *)
Definition plain_scalar (v : val) : bool :=
  plain v && match v with VList _ | VTup _ | VDict [] => false | _ => true end.
Definition canon_bad (v : val) : bool :=
  plain v && match v with VStr _ | VDict [] => false | _ => true end.
Definition canon_kvs (kvs : list (pstr * rule)) : bool := forallb (fun kr => encodable (snd kr)) kvs.
Definition canon_elemv (e : elemv) : bool :=
  match e with
  | XStr _ => true
  | XRule r => encodable r
  | XDict kvs => canon_kvs kvs
  | XBad v => canon_bad v
  end.
Definition canon_aval (a : aval) : bool :=
  match a with
  | AV v => plain_scalar v
  | ASeq _ es => forallb canon_elemv es
  | ACtx kvs => canon_kvs kvs
  end.
Definition canon_state (s : pstate) : bool := forallb (fun na => canon_aval (snd na)) s.

(* nesting depth of the deepest rule of a state *)
Definition kvs_depth (kvs : list (pstr * rule)) : nat := fold_right (fun kr m => Nat.max (rdepth (snd kr)) m) 0 kvs.
Definition elemv_depth (e : elemv) : nat :=
  match e with XRule r => rdepth r | XDict kvs => kvs_depth kvs | _ => 0 end.
Definition aval_depth (a : aval) : nat :=
  match a with
  | ASeq _ es => fold_right (fun e m => Nat.max (elemv_depth e) m) 0 es
  | ACtx kvs => kvs_depth kvs
  | AV _ => 0
  end.
Definition state_depth (s : pstate) : nat := fold_right (fun na m => Nat.max (aval_depth (snd na)) m) 0 s.

(* ---------- Policy.from_json on a document: rebuild the properties (jsonpickle.decode), then from_props ---------- *)
Definition read_doc (fuel : nat) (d : val) : res pstate :=
  match props_of_doc fuel d with Some props => from_props props | None => Raise EUnmodelled end.
