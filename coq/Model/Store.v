(* Store: the storage interface (vakt.storage.abc.Storage) as a uid-keyed map, for every backend.
   The state is an association list in the backend's listing order: insertion order (Memory, Redis) or
   sorted by uid (SQL, Mongo).  `bad` marks a policy the backend rejects (an add/update that raises for a
   reason other than a duplicate uid); the property says such a call changes nothing.
   Also: Storage.retrieve_all (the paging loop) and the wrappers ObservableMutationStorage and EnfoldCache. *)
From Coq Require Import ZArith List Bool.
From Vakt Require Import Base.PyMonad.
Import ListNotations.

Section store.
  Variables K V : Type.
  Variable keq : K -> K -> bool.
  Variable klt : K -> K -> bool.          (* listing order of sorted backends *)

  Inductive order_kind : Type := Insertion | SortedByUid.

  Definition smap := list (K * V).

  Fixpoint s_get (u : K) (s : smap) : option V :=
    match s with
    | [] => None
    | (k, v) :: r => if keq u k then Some v else s_get u r
    end.

  Fixpoint s_replace (u : K) (x : V) (s : smap) : smap :=
    match s with
    | [] => []
    | (k, v) :: r => if keq u k then (k, x) :: r else (k, v) :: s_replace u x r
    end.

  Fixpoint s_remove (u : K) (s : smap) : smap :=
    match s with
    | [] => []
    | (k, v) :: r => if keq u k then r else (k, v) :: s_remove u r
    end.

  Fixpoint s_insert_sorted (u : K) (x : V) (s : smap) : smap :=
    match s with
    | [] => [(u, x)]
    | (k, v) :: r => if klt u k then (u, x) :: s else (k, v) :: s_insert_sorted u x r
    end.

  Definition s_insert (o : order_kind) (u : K) (x : V) (s : smap) : smap :=
    match o with
    | Insertion => s ++ [(u, x)]
    | SortedByUid => s_insert_sorted u x s
    end.

  Inductive op : Type :=
  | Add (u : K) (x : V) (bad : bool)
  | Update (u : K) (x : V) (bad : bool)
  | Delete (u : K)
  | Get (u : K)
  | GetAll (limit offset : Z)
  | RetrieveAll (batch : Z).

  Inductive out : Type :=
  | ODone                         (* mutation returned normally *)
  | OExists                       (* PolicyExistsError *)
  | ORejected                     (* the backend raised something else *)
  | OValueError                   (* negative limit / offset *)
  | OGet (v : option V)
  | OList (l : list (K * V)).

  (* policies[offset : offset+limit] *)
  Definition page (s : smap) (limit offset : Z) : list (K * V) :=
    firstn (Z.to_nat limit) (skipn (Z.to_nat offset) s).

  Definition get_all (s : smap) (limit offset : Z) : res (list (K * V)) :=
    if Z.ltb limit 0 then Raise EValueError
    else if Z.ltb offset 0 then Raise EValueError
    else Ok (page s limit offset).

  (* Storage.retrieve_all: while True: page = get_all(limit, offset); if empty: return; yield...; offset += limit.
     None = out of fuel (excluded by the theorem for positive batch sizes) *)
  Fixpoint retrieve_loop (fuel : nat) (s : smap) (limit offset : Z) : res (option (list (K * V))) :=
    match fuel with
    | O => Ok None
    | S f =>
        match get_all s limit offset with
        | Raise e => Raise e
        | Ok [] => Ok (Some [])
        | Ok pg =>
            match retrieve_loop f s limit (offset + limit)%Z with
            | Ok (Some rest) => Ok (Some (pg ++ rest))
            | other => other
            end
        end
    end.

  Definition retrieve_all (s : smap) (batch : Z) : res (option (list (K * V))) :=
    retrieve_loop (S (length s)) s batch 0%Z.

  Definition step (o : order_kind) (s : smap) (p : op) : smap * out :=
    match p with
    | Add u x bad =>
        if bad then (s, ORejected)
        else match s_get u s with
             | Some _ => (s, OExists)
             | None => (s_insert o u x s, ODone)
             end
    | Update u x bad =>
        match s_get u s with
        | None => (s, ODone)
        | Some _ => if bad then (s, ORejected) else (s_replace u x s, ODone)
        end
    | Delete u => (s_remove u s, ODone)
    | Get u => (s, OGet (s_get u s))
    | GetAll limit offset =>
        match get_all s limit offset with
        | Ok l => (s, OList l)
        | Raise _ => (s, OValueError)
        end
    | RetrieveAll batch =>
        match retrieve_all s batch with
        | Ok (Some l) => (s, OList l)
        | Ok None => (s, OList [])
        | Raise _ => (s, OValueError)
        end
    end.

  Fixpoint run (o : order_kind) (s : smap) (ops : list op) : smap * list out :=
    match ops with
    | [] => (s, [])
    | p :: r => let (s', x) := step o s p in let (s'', xs) := run o s' r in (s'', x :: xs)
    end.

  (* ---------- ObservableMutationStorage: every mutation call that returns notifies, reads never ---------- *)
  Inductive oev : Type := Applied (p : op) | Notified | RaisedEv (p : op).

  Definition is_mutation (p : op) : bool :=
    match p with Add _ _ _ | Update _ _ _ | Delete _ => true | _ => false end.
  Definition raised (x : out) : bool :=
    match x with OExists | ORejected | OValueError => true | _ => false end.

  Definition observable_step (o : order_kind) (s : smap) (p : op) : smap * out * list oev :=
    let (s', x) := step o s p in
    (s', x, if is_mutation p then (if raised x then [RaisedEv p] else [Applied p; Notified]) else []).

  (* ---------- EnfoldCache: backend + cache store; `fault` = the backend call raises ---------- *)
  Record enfold : Type := { e_backend : smap; e_cache : smap }.

  Definition enfold_step (ob oc : order_kind) (st : enfold) (p : op) (fault : bool) : enfold * out :=
    match p with
    | Add _ _ _ | Update _ _ _ | Delete _ =>
        if fault then (st, ORejected)
        else
          let (b', x) := step ob (e_backend st) p in
          if raised x then ({| e_backend := b'; e_cache := e_cache st |}, x)
          else let (c', _) := step oc (e_cache st) p in ({| e_backend := b'; e_cache := c' |}, x)
    | Get u =>
        match s_get u (e_cache st) with
        | Some v => (st, OGet (Some v))
        | None => (st, OGet (s_get u (e_backend st)))
        end
    | GetAll limit offset =>
        match get_all (e_cache st) limit offset with
        | Raise _ => (st, OValueError)
        | Ok [] => (st, snd (step ob (e_backend st) p))
        | Ok l => (st, OList l)
        end
    | RetrieveAll batch =>
        match retrieve_all (e_cache st) batch with
        | Raise _ => (st, OValueError)
        | Ok (Some (x :: l)) => (st, OList (x :: l))
        | _ => (st, snd (step ob (e_backend st) p))
        end
    end.

  (* EnfoldCache.find_for_inquiry: the candidates of the in-memory cache store (all it holds), or - when that is
     empty - what the backend offers.  `bfind` = the backend's own candidate search (any pre-filter it applies). *)
  Definition enfold_find (bfind : smap -> smap) (st : enfold) : smap :=
    match e_cache st with
    | [] => bfind (e_backend st)
    | c => c
    end.

  (* EnfoldCache.populate: for p in storage.retrieve_all(step): cache.add(p) *)
  Definition populate (oc : order_kind) (st : enfold) (batch : Z) : enfold :=
    match retrieve_all (e_backend st) batch with
    | Ok (Some l) =>
        {| e_backend := e_backend st;
           e_cache := fold_left (fun c kv => fst (step oc c (Add (fst kv) (snd kv) false))) l (e_cache st) |}
    | _ => st
    end.
End store.

Arguments Add {K V} u x bad.
Arguments Update {K V} u x bad.
Arguments Delete {K V} u.
Arguments Get {K V} u.
Arguments GetAll {K V} limit offset.
Arguments RetrieveAll {K V} batch.
Arguments ODone {K V}.
Arguments OExists {K V}.
Arguments ORejected {K V}.
Arguments OValueError {K V}.
Arguments OGet {K V} v.
Arguments OList {K V} l.

(* does a read issued through the enfolding cache consult the backend? *)
Definition enfold_reads_backend {K V} (keq : K -> K -> bool) (st : enfold K V) (p : op K V) : bool :=
  match p with
  | Get u => match s_get K V keq u (e_cache K V st) with Some _ => false | None => true end
  | GetAll limit offset =>
      match get_all K V (e_cache K V st) limit offset with Ok (_ :: _) => false | Ok [] => true | Raise _ => false end
  | RetrieveAll batch =>
      match retrieve_all K V (e_cache K V st) batch with Ok (Some (_ :: _)) => false | Raise _ => false | _ => true end
  | _ => false
  end.
