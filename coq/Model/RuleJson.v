(* RuleJson: the JSON structure a rule is stored as (jsonpickle.encode of the rule object, read with json.loads) and
   its decoder (what jsonpickle.decode rebuilds, without running __init__).
     {"py/object": "<module>.<Class>", <attribute>: <value>, ...}
   Attribute values are JSON-like values in which a tuple is tagged {"py/tuple": [...]}; the argument set of a list
   rule is {"py/set": [...]} (in the order of the model's argument list: a set has no order, the correspondence
   compares it as a set); the members of And / Or are a tuple of rule objects.  RegexMatch (a compiled pattern, stored
   through a jsonpickle handler) and user-defined rules are outside this codec (rule_val gives None). *)
From Coq Require Import ZArith NArith List Bool String Ascii.
From Vakt Require Import Base.PyMonad Base.PyVal Model.Regex Model.Net Model.Rules.
Import ListNotations.
Local Open Scope string_scope.

Fixpoint pstr_of (s : string) : pstr :=
  match s with EmptyString => [] | String c r => N_of_ascii c :: pstr_of r end.

Definition k_object : pstr := pstr_of "py/object".
Definition k_tuple : pstr := pstr_of "py/tuple".
Definition k_set : pstr := pstr_of "py/set".

(* ---------- attribute values ---------- *)
Fixpoint enc_val (v : val) : val :=
  match v with
  | VList l => VList ((fix go (l : list val) : list val :=
                         match l with [] => [] | x :: r => enc_val x :: go r end) l)
  | VTup l => VDict [(k_tuple, VList ((fix go (l : list val) : list val :=
                                         match l with [] => [] | x :: r => enc_val x :: go r end) l))]
  | VDict kvs => VDict ((fix go (l : list (pstr * val)) : list (pstr * val) :=
                           match l with [] => [] | (k, x) :: r => (k, enc_val x) :: go r end) kvs)
  | _ => v
  end.

Fixpoint dec_val (v : val) : val :=
  match v with
  | VList l => VList ((fix go (l : list val) : list val :=
                         match l with [] => [] | x :: r => dec_val x :: go r end) l)
  | VDict kvs =>
      let items := (fix go (l : list (pstr * val)) : list (pstr * val) :=
                      match l with [] => [] | (k, x) :: r => (k, dec_val x) :: go r end) kvs in
      match items with
      | [(k, VList l)] => if pstr_eqb k k_tuple then VTup l else VDict items
      | _ => VDict items
      end
  | _ => v
  end.

(* values jsonpickle round-trips: no dictionary has a key in jsonpickle's reserved "py/" namespace (py/tuple, py/set,
   py/object, py/id, ...: on reading it takes such a dictionary for one of its own tags) *)
Definition reserved (k : pstr) : bool :=
  match k with 112%N :: 121%N :: 47%N :: _ => true | _ => false end.
Fixpoint plain (v : val) : bool :=
  match v with
  | VList l | VTup l => (fix go (l : list val) : bool := match l with [] => true | x :: r => plain x && go r end) l
  | VDict kvs => (fix go (l : list (pstr * val)) : bool :=
                    match l with [] => true | (k, x) :: r => negb (reserved k) && plain x && go r end) kvs
  | _ => true
  end.

(* ---------- rules ---------- *)
Definition obj (cls : string) (attrs : list (pstr * val)) : val :=
  VDict ((k_object, VStr (pstr_of cls)) :: attrs).

Definition field_name (f : ifield) : string :=
  match f with FSubject => "SubjectMatch" | FAction => "ActionMatch" | FResource => "ResourceMatch" end.

Definition opt_str (o : option pstr) : val := match o with Some s => VStr s | None => VNone end.

Fixpoint rule_val (r : rule) : option val :=
  let op c a := Some (obj ("vakt.rules.operator." ++ c) [(pstr_of "val", enc_val a)]) in
  let li c d := Some (obj ("vakt.rules.list." ++ c) [(pstr_of "data", VDict [(k_set, VList (map enc_val d))])]) in
  let st c s ci := Some (obj ("vakt.rules.string." ++ c) [(pstr_of "val", VStr s); (pstr_of "ci", VBool ci)]) in
  let members := (fix go (rs : list rule) : option (list val) :=
                    match rs with
                    | [] => Some []
                    | x :: t => match rule_val x, go t with Some v, Some vs => Some (v :: vs) | _, _ => None end
                    end) in
  match r with
  | REq a => op "Eq" a | RNotEq a => op "NotEq" a | RGreater a => op "Greater" a | RLess a => op "Less" a
  | RGreaterOrEqual a => op "GreaterOrEqual" a | RLessOrEqual a => op "LessOrEqual" a
  | RIn d => li "In" d | RNotIn d => li "NotIn" d | RAllIn d => li "AllIn" d | RAllNotIn d => li "AllNotIn" d
  | RAnyIn d => li "AnyIn" d | RAnyNotIn d => li "AnyNotIn" d
  | RTruthy => Some (obj "vakt.rules.logic.Truthy" []) | RFalsy => Some (obj "vakt.rules.logic.Falsy" [])
  | RAny => Some (obj "vakt.rules.logic.Any" []) | RNeither => Some (obj "vakt.rules.logic.Neither" [])
  | RAnd rs => match members rs with
               | Some vs => Some (obj "vakt.rules.logic.And" [(pstr_of "rules", VDict [(k_tuple, VList vs)])])
               | None => None
               end
  | ROr rs => match members rs with
              | Some vs => Some (obj "vakt.rules.logic.Or" [(pstr_of "rules", VDict [(k_tuple, VList vs)])])
              | None => None
              end
  | RNot x => match rule_val x with
              | Some v => Some (obj "vakt.rules.logic.Not" [(pstr_of "rule", v)])
              | None => None
              end
  | REqual s ci => st "Equal" s ci | RStartsWith s ci => st "StartsWith" s ci
  | REndsWith s ci => st "EndsWith" s ci | RContains s ci => st "Contains" s ci
  | RPairsEqual => Some (obj "vakt.rules.string.PairsEqual" [])
  | RCIDR c => Some (obj "vakt.rules.net.CIDR" [(pstr_of "cidr", enc_val c)])
  | RMatch f attr => Some (obj ("vakt.rules.inquiry." ++ field_name f) [(pstr_of "attribute", opt_str attr)])
  | RSubjectEqual => Some (obj "vakt.rules.inquiry.SubjectEqual" [])
  | RActionEqual => Some (obj "vakt.rules.inquiry.ActionEqual" [])
  | RResourceIn => Some (obj "vakt.rules.inquiry.ResourceIn" [])
  | RRegexMatch _ | RBroken _ | RConst _ | RJunk => None
  end.

(* ---------- decoding ---------- *)
Definition is_cls (name : pstr) (c : string) : bool := pstr_eqb name (pstr_of c).

Definition get1 (k : string) (attrs : list (pstr * val)) : option val :=
  match attrs with [(k', v)] => if pstr_eqb k' (pstr_of k) then Some v else None | _ => None end.

Definition set_items (v : val) : option (list val) :=
  match v with
  | VDict [(k, VList l)] => if pstr_eqb k k_set then Some (map dec_val l) else None
  | _ => None
  end.
Definition tuple_items (v : val) : option (list val) :=
  match v with
  | VDict [(k, VList l)] => if pstr_eqb k k_tuple then Some l else None
  | _ => None
  end.

(* the operator / list / string families share their attribute layout *)
Definition dec_op (name : pstr) (attrs : list (pstr * val)) : option rule :=
  match get1 "val" attrs with
  | Some v =>
      let a := dec_val v in
      if is_cls name "vakt.rules.operator.Eq" then Some (REq a)
      else if is_cls name "vakt.rules.operator.NotEq" then Some (RNotEq a)
      else if is_cls name "vakt.rules.operator.Greater" then Some (RGreater a)
      else if is_cls name "vakt.rules.operator.Less" then Some (RLess a)
      else if is_cls name "vakt.rules.operator.GreaterOrEqual" then Some (RGreaterOrEqual a)
      else if is_cls name "vakt.rules.operator.LessOrEqual" then Some (RLessOrEqual a)
      else None
  | None => None
  end.
Definition dec_list (name : pstr) (attrs : list (pstr * val)) : option rule :=
  match get1 "data" attrs with
  | Some v =>
      match set_items v with
      | Some d =>
          if is_cls name "vakt.rules.list.In" then Some (RIn d)
          else if is_cls name "vakt.rules.list.NotIn" then Some (RNotIn d)
          else if is_cls name "vakt.rules.list.AllIn" then Some (RAllIn d)
          else if is_cls name "vakt.rules.list.AllNotIn" then Some (RAllNotIn d)
          else if is_cls name "vakt.rules.list.AnyIn" then Some (RAnyIn d)
          else if is_cls name "vakt.rules.list.AnyNotIn" then Some (RAnyNotIn d)
          else None
      | None => None
      end
  | None => None
  end.
Definition dec_string (name : pstr) (attrs : list (pstr * val)) : option rule :=
  match attrs with
  | [(k1, VStr s); (k2, VBool ci)] =>
      if pstr_eqb k1 (pstr_of "val") && pstr_eqb k2 (pstr_of "ci") then
        if is_cls name "vakt.rules.string.Equal" then Some (REqual s ci)
        else if is_cls name "vakt.rules.string.StartsWith" then Some (RStartsWith s ci)
        else if is_cls name "vakt.rules.string.EndsWith" then Some (REndsWith s ci)
        else if is_cls name "vakt.rules.string.Contains" then Some (RContains s ci)
        else None
      else None
  | [(k2, VBool ci); (k1, VStr s)] =>          (* the attributes of an object are unordered *)
      if pstr_eqb k1 (pstr_of "val") && pstr_eqb k2 (pstr_of "ci") then
        if is_cls name "vakt.rules.string.Equal" then Some (REqual s ci)
        else if is_cls name "vakt.rules.string.StartsWith" then Some (RStartsWith s ci)
        else if is_cls name "vakt.rules.string.EndsWith" then Some (REndsWith s ci)
        else if is_cls name "vakt.rules.string.Contains" then Some (RContains s ci)
        else None
      else None
  | _ => None
  end.
Definition dec_bare (name : pstr) : option rule :=
  if is_cls name "vakt.rules.logic.Truthy" then Some RTruthy
  else if is_cls name "vakt.rules.logic.Falsy" then Some RFalsy
  else if is_cls name "vakt.rules.logic.Any" then Some RAny
  else if is_cls name "vakt.rules.logic.Neither" then Some RNeither
  else if is_cls name "vakt.rules.string.PairsEqual" then Some RPairsEqual
  else if is_cls name "vakt.rules.inquiry.SubjectEqual" then Some RSubjectEqual
  else if is_cls name "vakt.rules.inquiry.ActionEqual" then Some RActionEqual
  else if is_cls name "vakt.rules.inquiry.ResourceIn" then Some RResourceIn
  else None.
Definition dec_match (name : pstr) (attrs : list (pstr * val)) : option rule :=
  match get1 "attribute" attrs with
  | Some v =>
      let attr := match v with VStr s => Some (Some s) | VNone => Some None | _ => None end in
      match attr with
      | Some a =>
          if is_cls name "vakt.rules.inquiry.SubjectMatch" then Some (RMatch FSubject a)
          else if is_cls name "vakt.rules.inquiry.ActionMatch" then Some (RMatch FAction a)
          else if is_cls name "vakt.rules.inquiry.ResourceMatch" then Some (RMatch FResource a)
          else None
      | None => None
      end
  | None => None
  end.

(* fuel: the nesting depth of the structure (the members of a composition are decoded with one unit less) *)
Fixpoint rule_of_val (fuel : nat) (v : val) : option rule :=
  match fuel with
  | O => None
  | S f =>
      match v with
      | VDict ((k, VStr name) :: attrs) =>
          if negb (pstr_eqb k k_object) then None
          else if is_cls name "vakt.rules.logic.And" || is_cls name "vakt.rules.logic.Or" then
            match get1 "rules" attrs with
            | Some t =>
                match tuple_items t with
                | Some vs =>
                    let members := (fix go (l : list val) : option (list rule) :=
                                      match l with
                                      | [] => Some []
                                      | x :: r => match rule_of_val f x, go r with
                                                  | Some a, Some b => Some (a :: b) | _, _ => None end
                                      end) vs in
                    match members with
                    | Some rs => Some (if is_cls name "vakt.rules.logic.And" then RAnd rs else ROr rs)
                    | None => None
                    end
                | None => None
                end
            | None => None
            end
          else if is_cls name "vakt.rules.logic.Not" then
            match get1 "rule" attrs with
            | Some x => match rule_of_val f x with Some r => Some (RNot r) | None => None end
            | None => None
            end
          else if is_cls name "vakt.rules.net.CIDR" then
            match get1 "cidr" attrs with Some c => Some (RCIDR (dec_val c)) | None => None end
          else
            match attrs with
            | [] => dec_bare name
            | _ =>
                match dec_op name attrs with
                | Some r => Some r
                | None =>
                    match dec_list name attrs with
                    | Some r => Some r
                    | None =>
                        match dec_string name attrs with
                        | Some r => Some r
                        | None => dec_match name attrs
                        end
                    end
                end
            end
      | _ => None
      end
  end.

(* nesting depth of a rule (And / Or / Not) *)
Fixpoint rdepth (r : rule) : nat :=
  match r with
  | RAnd rs | ROr rs => S ((fix go (l : list rule) : nat := match l with [] => 0 | x :: t => Nat.max (rdepth x) (go t) end) rs)
  | RNot x => S (rdepth x)
  | _ => 1
  end.

(* what the codec covers: no RegexMatch / user-defined rules anywhere, attribute values without a "py/tuple" key *)
Fixpoint encodable (r : rule) : bool :=
  match r with
  | REq a | RNotEq a | RGreater a | RLess a | RGreaterOrEqual a | RLessOrEqual a | RCIDR a => plain a
  | RIn d | RNotIn d | RAllIn d | RAllNotIn d | RAnyIn d | RAnyNotIn d => forallb plain d
  | RAnd rs | ROr rs => (fix go (l : list rule) : bool := match l with [] => true | x :: t => encodable x && go t end) rs
  | RNot x => encodable x
  | RRegexMatch _ | RBroken _ | RConst _ | RJunk => false
  | _ => true
  end.
