(* Rules: vakt.rules.* — one constructor per built-in rule class and the value
   `satisfied` returns (a Python value, not always a bool). *)
From Coq Require Import ZArith NArith List Bool.
From Vakt Require Import Base.PyMonad Base.PyVal Model.Regex Model.Net.
Import ListNotations.

Record inquiry : Type := {
  i_resource : val; i_action : val; i_subject : val; i_context : val }.

(* Inquiry.__init__: `x or ''`, `context or {}` *)
Definition or_default (x d : val) : val := if truthy x then x else d.
Definition mk_inquiry (resource action subject context : val) : inquiry :=
  {| i_resource := or_default resource (VStr []);
     i_action := or_default action (VStr []);
     i_subject := or_default subject (VStr []);
     i_context := or_default context (VDict []) |}.

Inductive ifield : Type := FSubject | FAction | FResource.
Definition inq_field (f : ifield) (q : inquiry) : val :=
  match f with FSubject => i_subject q | FAction => i_action q | FResource => i_resource q end.

Inductive rule : Type :=
(* operator *)
| REq (a : val) | RNotEq (a : val) | RGreater (a : val) | RLess (a : val)
| RGreaterOrEqual (a : val) | RLessOrEqual (a : val)
(* list: d = the constructor arguments (hashable), viewed as a set *)
| RIn (d : list val) | RNotIn (d : list val) | RAllIn (d : list val)
| RAllNotIn (d : list val) | RAnyIn (d : list val) | RAnyNotIn (d : list val)
(* logic *)
| RTruthy | RFalsy | RAnd (rs : list rule) | ROr (rs : list rule) | RNot (r : rule)
| RAny | RNeither
(* string *)
| REqual (s : pstr) (ci : bool) | RPairsEqual | RRegexMatch (r : rx)
| RStartsWith (s : pstr) (ci : bool) | REndsWith (s : pstr) (ci : bool)
| RContains (s : pstr) (ci : bool)
(* net *)
| RCIDR (c : val)
(* inquiry *)
| RMatch (f : ifield) (attr : option pstr)      (* SubjectMatch / ActionMatch / ResourceMatch *)
| RSubjectEqual | RActionEqual | RResourceIn
(* user-defined rules and non-rules, for the error clauses *)
| RBroken (e : exn)        (* a Rule subclass whose satisfied raises e *)
| RConst (v : val)         (* a Rule subclass whose satisfied returns v *)
| RJunk.                   (* an object without `satisfied` (AttributeError when called) *)

Definition tup2list (a : val) : val := match a with VTup l => VList l | _ => a end.

Definition fold_ci (ci : bool) (s : pstr) : pstr := if ci then lower s else s.

(* one step of PairsEqual's loop: Ok true = continue, Ok false = return False *)
Definition pair_ok (p : val) : res bool :=
  match p with
  | VList [a; b] | VTup [a; b] =>
      if negb (is_str a) && negb (is_str b) then Ok false else Ok (py_eq a b)
  | VList _ | VTup _ => Ok false
  | VStr [a; b] => Ok (N.eqb a b)
  | VStr _ => Ok false
  | VDict [_; _] => Raise EKeyError
  | VDict _ => Ok false
  | VNone | VBool _ | VInt _ | VFlt _ _ => Raise ETypeError     (* len() of a non-sized object *)
  end.

Definition inq_match (f : ifield) (attr : option pstr) (w : val) (i : option inquiry) : res val :=
  match i with
  | None => Ok (VBool false)
  | Some q =>
      let v := inq_field f q in
      match attr with
      | None => Ok (VBool (py_eq w v))
      | Some a =>
          match v with
          | VDict kvs =>
              match lookup a kvs with
              | Some x => Ok (VBool (py_eq w x))
              | None => Ok (VBool false)
              end
          | _ => Ok (VBool false)
          end
      end
  end.

Fixpoint sat (r : rule) (w : val) (i : option inquiry) {struct r} : res val :=
  match r with
  | REq a => Ok (VBool (py_eq (tup2list a) w))
  | RNotEq a => Ok (VBool (negb (py_eq (tup2list a) w)))
  | RGreater a => b <- py_lt a w ;; Ok (VBool b)
  | RLess a => b <- py_lt w a ;; Ok (VBool b)
  | RGreaterOrEqual a => b <- py_le a w ;; Ok (VBool b)
  | RLessOrEqual a => b <- py_le w a ;; Ok (VBool b)
  | RIn d => b <- py_in_set w d ;; Ok (VBool b)
  | RNotIn d => b <- py_in_set w d ;; Ok (VBool (negb b))
  | RAllIn d =>
      match w with
      | VList l => s <- to_set l ;; Ok (VBool (forallb (fun x => mem_val x d) s))
      | _ => Raise ETypeError
      end
  | RAllNotIn d =>
      match w with
      | VList l => s <- to_set l ;; Ok (VBool (negb (forallb (fun x => mem_val x d) s)))
      | _ => Raise ETypeError
      end
  | RAnyIn d =>
      match w with
      | VList l => s <- to_set l ;; Ok (VBool (existsb (fun x => mem_val x d) s))
      | _ => Raise ETypeError
      end
  | RAnyNotIn d =>
      match w with
      | VList l => s <- to_set l ;; Ok (VBool (existsb (fun x => negb (mem_val x d)) s))
      | _ => Raise ETypeError
      end
  | RTruthy => Ok (VBool (truthy w))
  | RFalsy => Ok (VBool (negb (truthy w)))
  | RAnd rs =>
      answers <- (fix go (rs : list rule) : res (list val) :=
                    match rs with
                    | [] => Ok []
                    | x :: t => a <- sat x w i ;; r' <- go t ;; Ok (a :: r')
                    end) rs ;;
      Ok (VBool (negb (is_nil answers) && forallb truthy answers))
  | ROr rs =>
      (fix go (rs : list rule) : res val :=
         match rs with
         | [] => Ok (VBool false)
         | x :: t => a <- sat x w i ;; if truthy a then Ok (VBool true) else go t
         end) rs
  | RNot x => a <- sat x w i ;; Ok (VBool (negb (truthy a)))
  | RAny => Ok (VBool true)
  | RNeither => Ok (VBool false)
  | REqual s ci =>
      match w with
      | VStr t => Ok (VBool (pstr_eqb (fold_ci ci t) (fold_ci ci s)))
      | _ => Ok (VBool false)
      end
  | RPairsEqual =>
      match w with
      | VList l => b <- forallM pair_ok l ;; Ok (VBool b)
      | _ => Ok (VBool false)
      end
  | RRegexMatch x => s <- str_of w ;; Ok (VBool (rmatch_prefix x s))
  | RStartsWith s ci =>
      match w with
      | VStr t => Ok (VBool (is_prefix (fold_ci ci s) (fold_ci ci t)))
      | _ => Ok (VBool false)
      end
  | REndsWith s ci =>
      match w with
      | VStr t => Ok (VBool (is_suffix (fold_ci ci s) (fold_ci ci t)))
      | _ => Ok (VBool false)
      end
  | RContains s ci =>
      match w with
      | VStr t => Ok (VBool (is_substr (fold_ci ci s) (fold_ci ci t)))
      | _ => Ok (VBool false)
      end
  | RCIDR c =>
      match w with
      | VStr t =>
          match c with
          | VStr cs => b <- cidr_sat cs t ;; Ok (VBool b)
          | _ => Raise EUnmodelled
          end
      | _ => Ok (VBool false)
      end
  | RMatch f attr => inq_match f attr w i
  | RSubjectEqual =>
      match i with
      | None => Ok VNone
      | Some q => Ok (VBool (is_str w && py_eq w (i_subject q)))
      end
  | RActionEqual =>
      match i with
      | None => Ok VNone
      | Some q => Ok (VBool (is_str w && py_eq w (i_action q)))
      end
  | RResourceIn =>
      match i with
      | None => Ok VNone
      | Some q => match w with
                  | VList l => Ok (VBool (mem_val (i_resource q) l))
                  | _ => Ok (VBool false)
                  end
      end
  | RBroken e => Raise e
  | RConst v => Ok v
  | RJunk => Raise EAttributeError
  end.

Definition sat_all (rs : list rule) (w : val) (i : option inquiry) : res (list val) :=
  mapM (fun x => sat x w i) rs.

(* truthiness of the answer: what every consumer of `satisfied` looks at *)
Definition sat_b (r : rule) (w : val) (i : option inquiry) : res bool :=
  rmap truthy (sat r w i).

(* is the object an instance of vakt.rules.base.Rule ? *)
Definition is_rule (r : rule) : bool := match r with RJunk => false | _ => true end.
