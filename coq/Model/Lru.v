(* Lru: functools.lru_cache(maxsize) as a pure state machine.
   cache = association list, most recently used first.  cap: None = unbounded,
   Some 0 = caching disabled (every call is a miss), Some n = at most n entries.
   A call whose function raises stores nothing (lru_cache caches results only). *)
From Coq Require Import List Bool Arith.
From Vakt Require Import Base.PyMonad.
Import ListNotations.

Section lru.
  Variables K V : Type.
  Variable keq : K -> K -> bool.

  Definition cache := list (K * V).

  Fixpoint lru_find (k : K) (c : cache) : option V :=
    match c with
    | [] => None
    | (k', v) :: r => if keq k k' then Some v else lru_find k r
    end.

  Fixpoint lru_remove (k : K) (c : cache) : cache :=
    match c with
    | [] => []
    | (k', v) :: r => if keq k k' then r else (k', v) :: lru_remove k r
    end.

  Definition lru_insert (cap : option nat) (k : K) (v : V) (c : cache) : cache :=
    match cap with
    | None => (k, v) :: c
    | Some n => firstn n ((k, v) :: c)
    end.

  (* one call through the cached wrapper: new cache, result, hit? *)
  Definition lru_call (cap : option nat) (c : cache) (k : K) (f : K -> res V) : cache * res V * bool :=
    match lru_find k c with
    | Some v => ((k, v) :: lru_remove k c, Ok v, true)
    | None =>
        match f k with
        | Ok v => (lru_insert cap k v c, Ok v, false)
        | Raise e => (c, Raise e, false)
        end
    end.

  Definition lru_clear (c : cache) : cache := [].
End lru.

Arguments lru_find {K V} keq k c.
Arguments lru_remove {K V} keq k c.
Arguments lru_insert {K V} cap k v c.
Arguments lru_call {K V} keq cap c k f.
