(* JsonParse: a decoder for the JSON text Model/Inquiry.v prints (json.loads + jsonpickle's py/tuple tag), used to
   state and prove that the canonical text determines the content (Proofs/JsonParseP.v).
   Numbers: integers only (floats are outside the proved domain).  Strings: the escapes json.dumps(ensure_ascii)
   produces, surrogate pairs recombined.  Characters are tested with N.eqb (no literal patterns), which keeps the
   case analysis of the proofs small. *)
From Coq Require Import ZArith NArith List Bool.
From Vakt Require Import Base.PyMonad Base.PyVal Model.Rules Model.Inquiry.
Import ListNotations.

(* ---------- digits ---------- *)
Definition is_digit (c : N) : bool := N.leb 48 c && N.leb c 57.

(* reads the maximal run of digits, most significant first *)
Fixpoint read_digits (s : pstr) (a : N) : N * pstr :=
  match s with
  | c :: r => if is_digit c then read_digits r (10 * a + (c - 48))%N else (a, s)
  | [] => (a, [])
  end.

Definition parse_nat (s : pstr) : option (N * pstr) :=
  match s with
  | c :: _ => if is_digit c then Some (read_digits s 0) else None
  | [] => None
  end.

Definition parse_int (s : pstr) : option (Z * pstr) :=
  match s with
  | c :: r =>
      if N.eqb c 45 then
        match parse_nat r with Some (n, rest) => Some (Z.opp (Z.of_N n), rest) | None => None end
      else
        match parse_nat s with Some (n, rest) => Some (Z.of_N n, rest) | None => None end
  | [] => None
  end.

(* ---------- strings ---------- *)
Definition unhex (c : N) : option N :=
  if N.leb 48 c && N.leb c 57 then Some (c - 48)%N
  else if N.leb 97 c && N.leb c 102 then Some (c - 87)%N
  else None.

Definition unhex4 (a b c d : N) : option N :=
  match unhex a, unhex b, unhex c, unhex d with
  | Some x, Some y, Some z, Some w => Some (4096 * x + 256 * y + 16 * z + w)%N
  | _, _, _, _ => None
  end.

(* \uXXXX at the head of s *)
Definition parse_u (s : pstr) : option (N * pstr) :=
  match s with
  | a :: b :: c :: d :: r => match unhex4 a b c d with Some h => Some (h, r) | None => None end
  | _ => None
  end.

Definition simple_escape (e : N) : option N :=
  if N.eqb e 34 then Some 34%N else if N.eqb e 92 then Some 92%N
  else if N.eqb e 110 then Some 10%N else if N.eqb e 114 then Some 13%N
  else if N.eqb e 116 then Some 9%N else if N.eqb e 98 then Some 8%N
  else if N.eqb e 102 then Some 12%N else None.

(* one code point of a string body: None = closing quote or malformed; Some (c, rest) *)
Definition parse_cp (s : pstr) : option (N * pstr) :=
  match s with
  | [] => None
  | c :: r =>
      if N.eqb c 92 then
        match r with
        | [] => None
        | e :: r1 =>
            if N.eqb e 117 then
              match parse_u r1 with
              | None => None
              | Some (h, r2) =>
                  if N.leb 55296 h && N.leb h 56319 then
                    (* a high surrogate must be followed by a low one: one code point *)
                    match r2 with
                    | b1 :: b2 :: r3 =>
                        if N.eqb b1 92 && N.eqb b2 117 then
                          match parse_u r3 with
                          | Some (l, r4) =>
                              if N.leb 56320 l && N.leb l 57343
                              then Some ((65536 + (h - 55296) * 1024 + (l - 56320))%N, r4)
                              else None
                          | None => None
                          end
                        else None
                    | _ => None
                    end
                  else Some (h, r2)
              end
            else
              match simple_escape e with Some x => Some (x, r1) | None => None end
        end
      else Some (c, r)
  end.

(* the body of a string literal up to the closing quote *)
Fixpoint parse_str (fuel : nat) (s : pstr) : option (pstr * pstr) :=
  match fuel with
  | O => None
  | S f =>
      match s with
      | [] => None
      | c :: r =>
          if N.eqb c 34 then Some ([], r)
          else
            match parse_cp s with
            | Some (x, r') =>
                match parse_str f r' with
                | Some (t, rest) => Some (x :: t, rest)
                | None => None
                end
            | None => None
            end
      end
  end.

(* ---------- values ---------- *)
Fixpoint strip_prefix (p s : pstr) : option pstr :=
  match p, s with
  | [], _ => Some s
  | a :: p', b :: s' => if N.eqb a b then strip_prefix p' s' else None
  | _ :: _, [] => None
  end.

Definition kw_ull : pstr := [117; 108; 108]%N.
Definition kw_rue : pstr := [114; 117; 101]%N.
Definition kw_alse : pstr := [97; 108; 115; 101]%N.
Definition tuple_tag : pstr := [34; 112; 121; 47; 116; 117; 112; 108; 101; 34; 58; 32; 91]%N.   (* "py/tuple": [ *)

(* what may follow a value inside a sequence / member list *)
Inductive follow : Type := FComma (rest : pstr) | FClose (rest : pstr) | FBad.
Definition seq_follow (closer : N) (s : pstr) : follow :=
  match s with
  | c :: r =>
      if N.eqb c closer then FClose r
      else if N.eqb c 44 then match r with sp :: r' => if N.eqb sp 32 then FComma r' else FBad | [] => FBad end
      else FBad
  | [] => FBad
  end.

Fixpoint parse_val (fuel : nat) (s : pstr) : option (val * pstr) :=
  match fuel with
  | O => None
  | S f =>
      match s with
      | [] => None
      | c :: r =>
          if N.eqb c 110 then match strip_prefix kw_ull r with Some r' => Some (VNone, r') | None => None end
          else if N.eqb c 116 then match strip_prefix kw_rue r with Some r' => Some (VBool true, r') | None => None end
          else if N.eqb c 102 then match strip_prefix kw_alse r with Some r' => Some (VBool false, r') | None => None end
          else if N.eqb c 34 then
            match parse_str (S (length r)) r with Some (t, rest) => Some (VStr t, rest) | None => None end
          else if N.eqb c 91 then
            match r with
            | c2 :: r2 =>
                if N.eqb c2 93 then Some (VList [], r2)
                else match parse_seq f r with Some (vs, rest) => Some (VList vs, rest) | None => None end
            | [] => None
            end
          else if N.eqb c 123 then
            match r with
            | c2 :: r2 =>
                if N.eqb c2 125 then Some (VDict [], r2)
                else
                  match strip_prefix tuple_tag r with
                  | Some r1 =>
                      (* {"py/tuple": [ ... ]} *)
                      match r1 with
                      | c3 :: r3 =>
                          if N.eqb c3 93 then
                            match r3 with
                            | c4 :: r4 => if N.eqb c4 125 then Some (VTup [], r4) else None
                            | [] => None
                            end
                          else
                            match parse_seq f r1 with
                            | Some (vs, c4 :: r4) => if N.eqb c4 125 then Some (VTup vs, r4) else None
                            | _ => None
                            end
                      | [] => None
                      end
                  | None =>
                      match parse_mems f r with Some (kvs, rest) => Some (VDict kvs, rest) | None => None end
                  end
            | [] => None
            end
          else match parse_int s with Some (z, rest) => Some (VInt z, rest) | None => None end
      end
  end
(* elements after '[' up to and including ']' (at least one element) *)
with parse_seq (fuel : nat) (s : pstr) : option (list val * pstr) :=
  match fuel with
  | O => None
  | S f =>
      match parse_val f s with
      | Some (v, r0) =>
          match seq_follow 93 r0 with
          | FComma r =>
              match parse_seq f r with Some (vs, rest) => Some (v :: vs, rest) | None => None end
          | FClose r => Some ([v], r)
          | FBad => None
          end
      | None => None
      end
  end
(* members after '{' up to and including '}' (at least one member) *)
with parse_mems (fuel : nat) (s : pstr) : option (list (pstr * val) * pstr) :=
  match fuel with
  | O => None
  | S f =>
      match s with
      | q :: r0 =>
          if N.eqb q 34 then
            match parse_str (S (length r0)) r0 with
            | Some (k, c1 :: c2 :: r1) =>
                if N.eqb c1 58 && N.eqb c2 32 then
                  match parse_val f r1 with
                  | Some (v, r2) =>
                      match seq_follow 125 r2 with
                      | FComma r =>
                          match parse_mems f r with Some (kvs, rest) => Some ((k, v) :: kvs, rest) | None => None end
                      | FClose r => Some ([(k, v)], r)
                      | FBad => None
                      end
                  | None => None
                  end
                else None
            | _ => None
            end
          else None
      | [] => None
      end
  end.

(* json.loads + jsonpickle decode of a whole text *)
Definition decode (s : pstr) : option val :=
  match parse_val (S (length s)) s with
  | Some (v, []) => Some v
  | _ => None
  end.
