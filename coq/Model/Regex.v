(* Regex: regular expressions (the subset of Python `re` the theorems speak
   about), their language, a derivative matcher, and a printer into Python
   syntax.  "Python re accepts exactly In_lang on printed patterns" is tied by
   the correspondence check (C03/C05), not proved. *)
From Coq Require Import NArith List Bool.
From Vakt Require Import Base.PyVal.
Import ListNotations.

Inductive rx : Type :=
| Emp                       (* matches nothing; printed as [^\s\S] *)
| Eps
| Chr (c : N)
| Cls (neg : bool) (ranges : list (N * N))
| Dot                       (* any code point except \n *)
| Cat (a b : rx)
| Alt (a b : rx)
| Star (a : rx)
| Plus (a : rx)
| Opt (a : rx).

Definition in_ranges (rs : list (N * N)) (c : N) : bool :=
  existsb (fun r => N.leb (fst r) c && N.leb c (snd r)) rs.
Definition cls_mem (neg : bool) (rs : list (N * N)) (c : N) : bool :=
  xorb neg (in_ranges rs c).

Inductive In_lang : rx -> pstr -> Prop :=
| L_Eps : In_lang Eps []
| L_Chr c : In_lang (Chr c) [c]
| L_Cls neg rs c : cls_mem neg rs c = true -> In_lang (Cls neg rs) [c]
| L_Dot c : N.eqb c 10 = false -> In_lang Dot [c]
| L_Cat a b s t : In_lang a s -> In_lang b t -> In_lang (Cat a b) (s ++ t)
| L_AltL a b s : In_lang a s -> In_lang (Alt a b) s
| L_AltR a b s : In_lang b s -> In_lang (Alt a b) s
| L_Star0 a : In_lang (Star a) []
| L_StarS a s t : In_lang a s -> In_lang (Star a) t -> In_lang (Star a) (s ++ t)
| L_Plus a s t : In_lang a s -> In_lang (Star a) t -> In_lang (Plus a) (s ++ t)
| L_Opt0 a : In_lang (Opt a) []
| L_OptS a s : In_lang a s -> In_lang (Opt a) s.

Fixpoint nullable (r : rx) : bool :=
  match r with
  | Emp | Chr _ | Cls _ _ | Dot => false
  | Eps | Star _ | Opt _ => true
  | Cat a b => nullable a && nullable b
  | Alt a b => nullable a || nullable b
  | Plus a => nullable a
  end.

(* smart constructors keep derivatives small; they preserve the language *)
Definition cat' (a b : rx) : rx :=
  match a, b with
  | Emp, _ => Emp
  | _, Emp => Emp
  | Eps, _ => b
  | _, _ => Cat a b
  end.
(* structural equality, and "x is one of the alternatives a already offers" *)
Fixpoint ranges_eqb (a b : list (N * N)) : bool :=
  match a, b with
  | [], [] => true
  | (x1, y1) :: r, (x2, y2) :: s => N.eqb x1 x2 && N.eqb y1 y2 && ranges_eqb r s
  | _, _ => false
  end.
Fixpoint rx_eqb (a b : rx) : bool :=
  match a, b with
  | Emp, Emp | Eps, Eps | Dot, Dot => true
  | Chr c, Chr d => N.eqb c d
  | Cls n rs, Cls m ss => Bool.eqb n m && ranges_eqb rs ss
  | Cat a1 a2, Cat b1 b2 | Alt a1 a2, Alt b1 b2 => rx_eqb a1 b1 && rx_eqb a2 b2
  | Star x, Star y | Plus x, Plus y | Opt x, Opt y => rx_eqb x y
  | _, _ => false
  end.
Fixpoint alt_mem (x a : rx) : bool :=
  match a with
  | Alt l r => alt_mem x l || alt_mem x r
  | _ => rx_eqb x a
  end.
(* alternatives are kept as a duplicate-free left-nested list (associativity and idempotence of |): an alternative
   that is already there is not added again, which keeps the derivatives of nested repetitions from doubling *)
Fixpoint alt_add (a b : rx) : rx :=
  match b with
  | Alt l r => alt_add (alt_add a l) r
  | Emp => a
  | _ => if alt_mem b a then a else match a with Emp => b | _ => Alt a b end
  end.
Definition alt' (a b : rx) : rx := alt_add a b.

Fixpoint deriv (c : N) (r : rx) : rx :=
  match r with
  | Emp | Eps => Emp
  | Chr d => if N.eqb c d then Eps else Emp
  | Cls neg rs => if cls_mem neg rs c then Eps else Emp
  | Dot => if N.eqb c 10 then Emp else Eps
  | Cat a b =>
      if nullable a then alt' (cat' (deriv c a) b) (deriv c b)
      else cat' (deriv c a) b
  | Alt a b => alt' (deriv c a) (deriv c b)
  | Star a => cat' (deriv c a) (Star a)
  | Plus a => cat' (deriv c a) (Star a)
  | Opt a => deriv c a
  end.

Fixpoint rmatch (r : rx) (s : pstr) : bool :=      (* re.fullmatch *)
  match s with
  | [] => nullable r
  | c :: t => rmatch (deriv c r) t
  end.

Definition is_emp (r : rx) : bool :=                 (* sound emptiness test on smart-constructed terms *)
  match r with Emp => true | _ => false end.

Fixpoint rmatch_prefix (r : rx) (s : pstr) : bool := (* bool(re.match): some prefix is in the language *)
  nullable r ||
  match s with
  | [] => false
  | c :: t => rmatch_prefix (deriv c r) t
  end.

(* ---------- printing into Python syntax ---------- *)

(* CPython's re.escape special set: ()[]{}?*+-|^$\.&~# \t\n\r\v\f *)
Definition re_special (c : N) : bool :=
  existsb (N.eqb c)
    [40; 41; 91; 93; 123; 125; 63; 42; 43; 45; 124; 94; 36; 92; 46; 38; 126; 35; 32; 9; 10; 13; 11; 12]%N.

Definition re_escape (s : pstr) : pstr :=
  flat_map (fun c => if re_special c then [92%N; c] else [c]) s.

Definition show_range (r : N * N) : pstr :=
  if N.eqb (fst r) (snd r) then re_escape [fst r]
  else re_escape [fst r] ++ [45%N] ++ re_escape [snd r].

Fixpoint show_py (r : rx) : pstr :=
  match r with
  | Emp => [91; 94; 92; 115; 92; 83; 93]%N                         (* [^\s\S] *)
  | Eps => [40; 63; 58; 41]%N                                       (* (?:) *)
  | Chr c => re_escape [c]
  | Cls neg rs => [91%N] ++ (if neg then [94%N] else []) ++ flat_map show_range rs ++ [93%N]
  | Dot => [46%N]
  | Cat a b => show_py a ++ show_py b
  | Alt a b => [40; 63; 58]%N ++ show_py a ++ [124%N] ++ show_py b ++ [41%N]
  | Star a => [40; 63; 58]%N ++ show_py a ++ [41; 42]%N
  | Plus a => [40; 63; 58]%N ++ show_py a ++ [41; 43]%N
  | Opt a => [40; 63; 58]%N ++ show_py a ++ [41; 63]%N
  end.

(* the regex denoted by a literal string *)
Fixpoint rx_lit (s : pstr) : rx :=
  match s with
  | [] => Eps
  | c :: t => Cat (Chr c) (rx_lit t)
  end.
