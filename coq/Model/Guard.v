(* Guard: vakt.guard.Guard — check_context_restriction, check_policies_allow,
   is_allowed_check, is_allowed, with the audit / decision-log events they emit. *)
From Coq Require Import ZArith NArith List Bool.
From Vakt Require Import Base.PyMonad Base.PyVal Model.Regex Model.Rules Model.Policy Model.Checkers.
Import ListNotations.

(* inquiry.context[key] *)
Definition ctx_get (q : inquiry) (k : pstr) : res (option val) :=
  match i_context q with
  | VDict kvs => Ok (lookup k kvs)            (* None = KeyError *)
  | _ => Raise ETypeError                     (* a non-dict context indexed by a str key *)
  end.

(* Guard.check_context_restriction *)
Fixpoint context_ok (ctx : list (pstr * rule)) (q : inquiry) : res bool :=
  match ctx with
  | [] => Ok true
  | (k, r) :: rest =>
      o <- ctx_get q k ;;
      match o with
      | None => Ok false
      | Some v =>
          b <- sat_b r v (Some q) ;;
          if b then context_ok rest q else Ok false
      end
  end.

(* the filter condition of check_policies_allow *)
Definition matches (fits_ : policy -> pfield -> val -> option inquiry -> res bool)
           (q : inquiry) (p : policy) : res bool :=
  andM (fits_ p Actions (i_action q) (Some q)) (fun _ =>
  andM (fits_ p Subjects (i_subject q) (Some q)) (fun _ =>
  andM (fits_ p Resources (i_resource q) (Some q)) (fun _ =>
  context_ok (p_context p) q))).

Record audit : Type := {
  a_allow : bool;                 (* effect: allow / deny *)
  a_candidates : list policy;
  a_deciders : list policy }.

(* the scan over the already filtered policies *)
Definition decide_filtered (filtered : list policy) : bool * audit :=
  match filtered with
  | [] => (false, {| a_allow := false; a_candidates := []; a_deciders := [] |})
  | _ =>
      match find (fun p => negb (allow_access p)) filtered with
      | Some p => (false, {| a_allow := false; a_candidates := filtered; a_deciders := [p] |})
      | None => (true, {| a_allow := true; a_candidates := filtered; a_deciders := filtered |})
      end
  end.

(* what a storage's find_for_inquiry hands to the guard: it raises at once,
   returns None, or yields items lazily, the n-th `next` possibly raising *)
Inductive find_result : Type :=
| FRaise (e : exn)
| FNone
| FIter (items : list (policy + exn)).

(* [p for p in policies if cond p] over a lazily raising iterable *)
Fixpoint filter_lazy (c : policy -> res bool) (items : list (policy + exn)) : res (list policy) :=
  match items with
  | [] => Ok []
  | inr e :: _ => Raise e
  | inl p :: r =>
      b <- c p ;;
      r' <- filter_lazy c r ;;
      Ok (if b then p :: r' else r')
  end.

Section guard.
  Variable fits_ : policy -> pfield -> val -> option inquiry -> res bool.

  (* Guard.check_policies_allow on an already materialised list *)
  Definition check_policies_allow (q : inquiry) (ps : list policy) : res (bool * audit) :=
    filtered <- filterM (matches fits_ q) ps ;;
    Ok (decide_filtered filtered).

  Definition check_policies_lazy (q : inquiry) (items : list (policy + exn)) : res (bool * audit) :=
    filtered <- filter_lazy (matches fits_ q) items ;;
    Ok (decide_filtered filtered).

  (* Guard.is_allowed_check: answer plus the audit records emitted *)
  Definition is_allowed_check (fr : find_result) (q : inquiry) : res (bool * list audit) :=
    catch_exception
      (match fr with
       | FRaise e => Raise e
       | FNone => Ok (false, [])
       | FIter items => r <- check_policies_lazy q items ;; Ok (fst r, [snd r])
       end)
      (Ok (false, [])).

  (* Guard.is_allowed: additionally one decision-log record *)
  Definition is_allowed (fr : find_result) (q : inquiry) : res (bool * list audit * bool) :=
    r <- is_allowed_check fr q ;;
    Ok (fst r, snd r, fst r).
End guard.

(* the decision over a plain list of stored policies (MemoryStorage: every policy is a candidate) *)
Definition decide (fits_ : policy -> pfield -> val -> option inquiry -> res bool)
           (ps : list policy) (q : inquiry) : res bool :=
  r <- is_allowed_check fits_ (FIter (map inl ps)) q ;; Ok (fst r).
