(* SqlSession: SQLStorage.add / update / delete as sequences of SQLAlchemy session calls, over a small
   model of a session's unit of work: `committed` is what every other session, process and a later restart
   see; `work` is this session's transactional view; `failed` = a flush failed and the transaction has not
   been rolled back (every call raises PendingRollbackError until rollback()). *)
From Coq Require Import ZArith List Bool.
From Vakt Require Import Base.PyMonad Model.Store.
Import ListNotations.

Section sql.
  Variables K V : Type.
  Variable keq klt : K -> K -> bool.

  Record db : Type := { committed : smap K V; work : smap K V; failed : bool }.

  Inductive serr : Type := EIntegrity | EOther | EPendingRollback.

  (* --- session primitives --- *)
  (* session.add(model); session.commit(): the INSERT is flushed at commit *)
  Definition sess_insert_commit (d : db) (u : K) (x : V) (bad : bool) : db * option serr :=
    if failed d then (d, Some EPendingRollback)
    else if bad then ({| committed := committed d; work := work d; failed := true |}, Some EOther)
    else match s_get K V keq u (work d) with
         | Some _ => ({| committed := committed d; work := work d; failed := true |}, Some EIntegrity)
         | None => let w := s_insert K V klt SortedByUid u x (work d) in
                   ({| committed := w; work := w; failed := false |}, None)
         end.

  Definition sess_get (d : db) (u : K) : option V * option serr :=
    if failed d then (None, Some EPendingRollback) else (s_get K V keq u (work d), None).

  (* modify a loaded row; session.commit() *)
  Definition sess_update_commit (d : db) (u : K) (x : V) (bad : bool) : db * option serr :=
    if failed d then (d, Some EPendingRollback)
    else if bad then ({| committed := committed d; work := work d; failed := true |}, Some EOther)
    else let w := s_replace K V keq u x (work d) in ({| committed := w; work := w; failed := false |}, None).

  (* session.query(...).filter(uid == u).delete(): executed at once inside the transaction *)
  Definition sess_query_delete (d : db) (u : K) : db * option serr :=
    if failed d then (d, Some EPendingRollback)
    else ({| committed := committed d; work := s_remove K V keq u (work d); failed := false |}, None).

  Definition sess_commit (d : db) : db * option serr :=
    if failed d then (d, Some EPendingRollback)
    else ({| committed := work d; work := work d; failed := false |}, None).

  Definition sess_rollback (d : db) : db := {| committed := committed d; work := committed d; failed := false |}.

  (* --- SQLStorage methods (call sequences and except clauses of vakt/storage/sql/__init__.py) --- *)
  Definition sql_add (d : db) (u : K) (x : V) (bad : bool) : db * out K V :=
    match sess_insert_commit d u x bad with
    | (d', None) => (d', ODone)
    | (d', Some EIntegrity) => (sess_rollback d', OExists)        (* except IntegrityError: rollback; raise PolicyExistsError *)
    | (d', Some _) => (sess_rollback d', ORejected)               (* except Exception: rollback; raise *)
    end.

  Definition sql_update (d : db) (u : K) (x : V) (bad : bool) : db * out K V :=
    match sess_get d u with
    | (_, Some _) => (sess_rollback d, ORejected)
    | (None, None) => (d, ODone)
    | (Some _, None) =>
        match sess_update_commit d u x bad with
        | (d', None) => (d', ODone)
        | (d', Some _) => (sess_rollback d', ORejected)            (* except Exception: rollback; raise *)
        end
    end.

  Definition sql_delete (d : db) (u : K) : db * out K V :=
    match sess_query_delete d u with                               (* child rows, then the policy row *)
    | (d', Some _) => (d', ORejected)
    | (d', None) =>
        match sess_commit d' with
        | (d'', None) => (d'', ODone)
        | (d'', Some _) => (d'', ORejected)
        end
    end.

  Definition sql_step (d : db) (p : op K V) : db * out K V :=
    match p with
    | Add u x bad => sql_add d u x bad
    | Update u x bad => sql_update d u x bad
    | Delete u => sql_delete d u
    | _ => (d, snd (step K V keq klt SortedByUid (work d) p))
    end.

  (* crash: the session is discarded without commit / the engine disposed / the process killed *)
  Definition crash (d : db) : db := {| committed := committed d; work := committed d; failed := false |}.
  (* what a second, independent session reads *)
  Definition other_session_view (d : db) : smap K V := committed d.

  Fixpoint sql_run (d : db) (ops : list (op K V)) : db * list (out K V) :=
    match ops with
    | [] => (d, [])
    | p :: r => let (d', x) := sql_step d p in let (d'', xs) := sql_run d' r in (d'', x :: xs)
    end.
End sql.
