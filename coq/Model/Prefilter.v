(* Prefilter: what the queries built by SQLStorage.find_for_inquiry select (per checker), as predicates on a
   stored policy; the SQL LIKE operator. *)
From Coq Require Import NArith List Bool.
From Vakt Require Import Base.PyMonad Base.PyVal Model.Regex Model.Rules Model.Policy Model.Checkers.
Import ListNotations.

Definition ascii_fold (c : N) : N := if (N.leb 65 c && N.leb c 90)%bool then (c + 32)%N else c.
Definition char_eq (ci : bool) (c d : N) : bool :=
  if ci then N.eqb (ascii_fold c) (ascii_fold d) else N.eqb c d.

(* SQL LIKE without an escape character: % = any sequence, _ = any one character; ci = ASCII case-insensitive
   (SQLite's default) *)
Fixpoint like_match (ci : bool) (pat s : pstr) {struct pat} : bool :=
  match pat with
  | [] => match s with [] => true | _ => false end
  | c :: p =>
      if N.eqb c 37 then
        (fix any (s : pstr) : bool :=
           like_match ci p s || match s with [] => false | _ :: t => any t end) s
      else match s with
           | [] => false
           | d :: t => (N.eqb c 95 || char_eq ci c d) && like_match ci p t
           end
  end.

Definition like_contains (ci : bool) (v s : pstr) : bool := like_match ci ([37%N] ++ v ++ [37%N]) s.

Definition stored_strings (p : policy) (f : pfield) : list pstr :=
  flat_map (fun e => match e with EStr s => [s] | _ => [] end) (field_elems p f).

Definition is_string_based (p : policy) : bool := ptype_eqb (p_type p) StringBased.

(* WHERE type = string AND EXISTS action LIKE %v% AND ... *)
Definition sql_fuzzy (ci : bool) (a s r : pstr) (p : policy) : bool :=
  is_string_based p && existsb (like_contains ci a) (stored_strings p Actions) &&
  existsb (like_contains ci r) (stored_strings p Resources) && existsb (like_contains ci s) (stored_strings p Subjects).

(* WHERE type = string AND EXISTS action IN (v, <v>) AND ... *)
Definition exact_variants (v : pstr) : list pstr := [v; [60%N] ++ v ++ [62%N]].
Definition sql_exact (a s r : pstr) (p : policy) : bool :=
  is_string_based p &&
  existsb (fun e => existsb (pstr_eqb e) (exact_variants a)) (stored_strings p Actions) &&
  existsb (fun e => existsb (pstr_eqb e) (exact_variants r)) (stored_strings p Resources) &&
  existsb (fun e => existsb (pstr_eqb e) (exact_variants s)) (stored_strings p Subjects).

(* dialects without a regex operator: WHERE type = string;  rules checker: WHERE type = rule *)
Definition sql_type_only (t : ptype) (p : policy) : bool := ptype_eqb (p_type p) t.
