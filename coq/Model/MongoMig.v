(* MongoMig: the data migrations of vakt.storage.mongo (orders 2, 3, 4) as functions on documents.
   A document is a `val` dictionary.  1.1.0 documents keep each rule as a JSON *string*; here such an entry is
   represented already parsed, as {"type": T, "contents": {...}} (the harness parses / prints the string), and
   an unparsable string stays a VStr.  Irreversible = the processor raised vakt.exceptions.Irreversible;
   any other exception is EException.  `each_doc` keeps the stored document whenever the processor raises. *)
From Coq Require Import ZArith NArith List Bool.
From Vakt Require Import Base.PyMonad Base.PyVal Model.Regex Model.Parser.
Import ListNotations.

Definition doc := list (pstr * val).

Definition mks (l : list N) : pstr := l.
Definition k_rules := mks [114; 117; 108; 101; 115]%N.
Definition k_context := mks [99; 111; 110; 116; 101; 120; 116]%N.
Definition k_type := mks [116; 121; 112; 101]%N.
Definition k_contents := mks [99; 111; 110; 116; 101; 110; 116; 115]%N.
Definition k_pyobject := mks [112; 121; 47; 111; 98; 106; 101; 99; 116]%N.
Definition k_uid := mks [117; 105; 100]%N.
Definition k_actions := mks [97; 99; 116; 105; 111; 110; 115]%N.
Definition k_subjects := mks [115; 117; 98; 106; 101; 99; 116; 115]%N.
Definition k_resources := mks [114; 101; 115; 111; 117; 114; 99; 101; 115]%N.
Definition suffix_compiled := mks [95; 99; 111; 109; 112; 105; 108; 101; 100; 95; 114; 101; 103; 101; 120]%N.

Fixpoint dset (k : pstr) (v : val) (d : doc) : doc :=
  match d with
  | [] => [(k, v)]
  | (k', x) :: r => if pstr_eqb k k' then (k', v) :: r else (k', x) :: dset k v r
  end.
Fixpoint ddel (k : pstr) (d : doc) : doc :=
  match d with
  | [] => []
  | (k', x) :: r => if pstr_eqb k k' then ddel k r else (k', x) :: ddel k r
  end.
(* d[k]: KeyError when absent *)
Definition dget (k : pstr) (d : doc) : res val :=
  match lookup k d with Some v => Ok v | None => Raise EKeyError end.

(* class renames of migration #3 (old name, new name), as (module suffix) strings *)
Definition renames : list (pstr * pstr) :=
  let v := [118; 97; 107; 116; 46; 114; 117; 108; 101; 115; 46]%N in   (* vakt.rules. *)
  [ (v ++ [115;116;114;105;110;103;46;83;116;114;105;110;103;69;113;117;97;108;82;117;108;101]%N,
     v ++ [115;116;114;105;110;103;46;69;113;117;97;108]%N);
    (v ++ [115;116;114;105;110;103;46;82;101;103;101;120;77;97;116;99;104;82;117;108;101]%N,
     v ++ [115;116;114;105;110;103;46;82;101;103;101;120;77;97;116;99;104]%N);
    (v ++ [115;116;114;105;110;103;46;83;116;114;105;110;103;80;97;105;114;115;69;113;117;97;108;82;117;108;101]%N,
     v ++ [115;116;114;105;110;103;46;80;97;105;114;115;69;113;117;97;108]%N);
    (v ++ [110;101;116;46;67;73;68;82;82;117;108;101]%N, v ++ [110;101;116;46;67;73;68;82]%N);
    (v ++ [105;110;113;117;105;114;121;46;83;117;98;106;101;99;116;69;113;117;97;108;82;117;108;101]%N,
     v ++ [105;110;113;117;105;114;121;46;83;117;98;106;101;99;116;69;113;117;97;108]%N);
    (v ++ [105;110;113;117;105;114;121;46;65;99;116;105;111;110;69;113;117;97;108;82;117;108;101]%N,
     v ++ [105;110;113;117;105;114;121;46;65;99;116;105;111;110;69;113;117;97;108]%N);
    (v ++ [105;110;113;117;105;114;121;46;82;101;115;111;117;114;99;101;73;110;82;117;108;101]%N,
     v ++ [105;110;113;117;105;114;121;46;82;101;115;111;117;114;99;101;73;110]%N) ].

Definition rename_up (t : pstr) : pstr :=
  match find (fun on => pstr_eqb t (fst on)) renames with Some on => snd on | None => t end.
Definition rename_down (t : pstr) : pstr :=
  match find (fun on => pstr_eqb t (snd on)) renames with Some on => fst on | None => t end.

Definition vakt_rules_prefix : pstr := [118; 97; 107; 116; 46; 114; 117; 108; 101; 115; 46]%N.
Definition regex_match_rule : pstr :=
  vakt_rules_prefix ++ [115;116;114;105;110;103;46;82;101;103;101;120;77;97;116;99;104;82;117;108;101]%N.

(* keys reserved by jsonpickle (the ones the generators use) *)
Definition reserved_keys : list pstr :=
  [ k_pyobject; mks [112;121;47;105;100]%N; mks [112;121;47;116;117;112;108;101]%N; mks [112;121;47;115;101;116]%N;
    mks [112;121;47;116;121;112;101]%N; mks [112;121;47;114;101;102]%N; mks [112;121;47;115;116;97;116;101]%N ].
Definition has_reserved (v : val) : bool :=
  match v with VDict kvs => existsb (fun kv => existsb (pstr_eqb (fst kv)) reserved_keys) kvs | _ => false end.

(* ---- #2: 1.1.0 <-> 1.1.1 ---- *)
Definition up2_rule (r : val) : res val :=
  match r with
  | VDict kvs =>
      t <- dget k_type kvs ;;
      c <- dget k_contents kvs ;;
      match c with
      | VDict ckvs => Ok (VDict (fold_left (fun acc kv => dset (fst kv) (snd kv) acc) ckvs [(k_pyobject, t)]))
      | _ => Raise EException
      end
  | _ => Raise EException                 (* the stored string is not JSON / not an object *)
  end.

Fixpoint map_rules (f : val -> res val) (kvs : list (pstr * val)) : res (list (pstr * val)) :=
  match kvs with
  | [] => Ok []
  | (k, v) :: r => v' <- f v ;; r' <- map_rules f r ;; Ok ((k, v') :: r')
  end.

Definition up2_doc (d : doc) : res doc :=
  rs <- dget k_rules d ;;
  match rs with
  | VDict kvs => kvs' <- map_rules up2_rule kvs ;; Ok (dset k_rules (VDict kvs') d)
  | _ => Raise EException
  end.

Definition down2_rule (r : val) : res val :=
  match r with
  | VDict kvs =>
      t <- dget k_pyobject kvs ;;
      match t with
      | VStr ts =>
          let contents := ddel k_pyobject kvs in
          if negb (is_prefix vakt_rules_prefix ts) then
            if existsb (fun kv => has_reserved (snd kv)) contents then Raise EIrreversible
            else Ok (VDict [(k_type, t); (k_contents, VDict contents)])
          else if pstr_eqb ts regex_match_rule then Raise EIrreversible
          else Ok (VDict [(k_type, t); (k_contents, VDict contents)])
      | _ => Raise EException
      end
  | _ => Raise EException
  end.

Definition down2_doc (d : doc) : res doc :=
  rs <- dget k_rules d ;;
  match rs with
  | VDict kvs => kvs' <- map_rules down2_rule kvs ;; Ok (dset k_rules (VDict kvs') d)
  | _ => Raise EException
  end.

(* ---- #3: 1.1.1 <-> 1.2.0 ---- *)
Definition up3_rule (r : val) : res val :=
  match r with
  | VDict kvs =>
      t <- dget k_pyobject kvs ;;
      match t with
      | VStr ts => Ok (VDict (dset k_pyobject (VStr (rename_up ts)) kvs))
      | _ => Ok r
      end
  | _ => Raise EException
  end.

Definition up3_doc (d : doc) : res doc :=
  let d1 := dset k_type (VInt 1) d in
  rs <- dget k_rules d1 ;;
  match rs with
  | VDict kvs =>
      kvs' <- map_rules up3_rule kvs ;;
      Ok (ddel k_rules (dset k_context (VDict kvs') d1))
  | _ => Raise EException
  end.

Definition only_120 (ts : pstr) : bool :=
  let v := vakt_rules_prefix in
  is_prefix (v ++ [108;105;115;116]%N) ts || is_prefix (v ++ [108;111;103;105;99]%N) ts ||
  is_prefix (v ++ [111;112;101;114;97;116;111;114]%N) ts ||
  existsb (pstr_eqb ts)
    [ v ++ [115;116;114;105;110;103;46;83;116;97;114;116;115;87;105;116;104]%N;
      v ++ [115;116;114;105;110;103;46;69;110;100;115;87;105;116;104]%N;
      v ++ [115;116;114;105;110;103;46;67;111;110;116;97;105;110;115]%N ].

Definition down3_rule (r : val) : res val :=
  match r with
  | VDict kvs =>
      t <- dget k_pyobject kvs ;;
      match t with
      | VStr ts =>
          if only_120 ts then Raise EIrreversible
          else Ok (VDict (dset k_pyobject (VStr (rename_down ts)) kvs))
      | _ => Raise EException
      end
  | _ => Raise EException
  end.

Definition down3_doc (d : doc) : res doc :=
  t <- dget k_type d ;;
  if negb (py_eq t (VInt 1)) then Raise EIrreversible
  else
    cs <- dget k_context d ;;
    match cs with
    | VDict kvs =>
        kvs' <- map_rules down3_rule kvs ;;
        Ok (ddel k_type (ddel k_context (dset k_rules (VDict kvs') d)))
    | _ => Raise EException
    end.

(* ---- #4: 1.2.0 <-> 1.4.0 ---- *)
Definition compiled_name (f : pstr) : pstr := f ++ suffix_compiled.

Definition compile_el (e : val) : res val :=
  match e with
  | VStr s =>
      if mem_N 60 s && mem_N 62 s
      then p <- compile_pattern s [60%N] [62%N] ;; Ok (VStr p)
      else Ok e
  | _ => Raise EException
  end.

Definition add_compiled (f : pstr) (d : doc) : res doc :=
  v <- dget f d ;;
  match v with
  | VList l => c <- mapM compile_el l ;; Ok (dset (compiled_name f) (VList c) d)
  | _ => Raise EException
  end.

(* up #4 re-saves every policy through the storage: string-based documents gain the three compiled fields *)
Definition up4_doc (d : doc) : res doc :=
  t <- dget k_type d ;;
  if py_eq t (VInt 1) then
    d1 <- add_compiled k_actions d ;; d2 <- add_compiled k_subjects d1 ;; add_compiled k_resources d2
  else Ok d.

Definition down4_doc (d : doc) : res doc :=
  Ok (ddel (compiled_name k_actions) (ddel (compiled_name k_subjects) (ddel (compiled_name k_resources) d))).

(* ---- MongoMigration._each_doc ---- *)
Definition each_doc (f : doc -> res doc) (coll : list doc) : list doc * list doc :=
  fold_right (fun d acc =>
                match f d with
                | Ok d' => (d' :: fst acc, snd acc)
                | Raise _ => (d :: fst acc, d :: snd acc)          (* left as it is, reported *)
                end) ([], []) coll.

Inductive mstep : Type := Up2 | Down2 | Up3 | Down3 | Up4 | Down4.
Definition step_fn (s : mstep) : doc -> res doc :=
  match s with Up2 => up2_doc | Down2 => down2_doc | Up3 => up3_doc | Down3 => down3_doc
             | Up4 => up4_doc | Down4 => down4_doc end.

Fixpoint run_steps (coll : list doc) (steps : list mstep) : list doc * list (list doc) :=
  match steps with
  | [] => (coll, [])
  | s :: r =>
      let (c', failed) := each_doc (step_fn s) coll in
      let (c'', fs) := run_steps c' r in (c'', failed :: fs)
  end.
