(* Parser: vakt.parser — get_tag_indices and compile_regex, as string functions.
   The compiled object is represented by its pieces; `pattern_src` is the text
   of `.pattern`. *)
From Coq Require Import ZArith NArith List Bool.
From Vakt Require Import Base.PyMonad Base.PyVal Model.Regex.
Import ListNotations.

(* for i, v in enumerate(string): ...   state = (idx, level, indices) *)
Fixpoint tag_loop (st en : pstr) (s : pstr) (i : nat) (idx : nat) (level : Z)
         (acc : list nat) : res (list nat * Z) :=
  match s with
  | [] => Ok (acc, level)
  | v :: t =>
      if pstr_eqb [v] st then
        let level' := (level + 1)%Z in
        tag_loop st en t (S i) (if Z.eqb level' 1 then i else idx) level' acc
      else if pstr_eqb [v] en then
        let level' := (level - 1)%Z in
        if Z.eqb level' 0 then tag_loop st en t (S i) idx level' (acc ++ [idx; S i])
        else if Z.ltb level' 0 then Raise EInvalidPattern
        else tag_loop st en t (S i) idx level' acc
      else tag_loop st en t (S i) idx level acc
  end.

Definition get_tag_indices (s st en : pstr) : res (list nat) :=
  r <- tag_loop st en s 0 0 0%Z [] ;;
  if Z.eqb (snd r) 0 then Ok (fst r) else Raise EInvalidPattern.

Definition slice (s : pstr) (a b : nat) : pstr := firstn (b - a) (skipn a s).   (* s[a:b], 0 <= a *)

Inductive piece : Type := PLit (s : pstr) | PSeg (s : pstr).

(* indices = [s0; e0; s1; e1; ...]; loop of compile_regex over indices[::2] with
   end_k = indices[2k+1] *)
Fixpoint pieces_loop (phrase : pstr) (indices : list nat) (end_ : nat) : list piece :=
  match indices with
  | idx :: e :: rest =>
      PLit (slice phrase end_ idx) :: PSeg (slice phrase (S idx) (e - 1)) ::
      pieces_loop phrase rest e
  | _ => [PLit (skipn end_ phrase)]
  end.

Definition compile_pieces (phrase st en : pstr) : res (list piece) :=
  ix <- get_tag_indices phrase st en ;;
  Ok (pieces_loop phrase ix 0).

Definition piece_src (p : piece) : pstr :=
  match p with
  | PLit s => re_escape s
  | PSeg s => [40%N] ++ s ++ [41%N]
  end.

(* text of compile_regex(phrase, st, en).pattern *)
Definition pattern_src (ps : list piece) : pstr :=
  [94%N] ++ flat_map piece_src ps ++ [36%N].

Definition compile_pattern (phrase st en : pstr) : res pstr :=
  ps <- compile_pieces phrase st en ;;
  Ok (pattern_src ps).

(* the regular expression the compiled pattern denotes, given the regex each
   segment source denotes (rxof); None = a segment source outside the table *)
Fixpoint pieces_rx (rxof : pstr -> option rx) (ps : list piece) : option rx :=
  match ps with
  | [] => Some Eps
  | PLit s :: r =>
      match pieces_rx rxof r with Some x => Some (Cat (rx_lit s) x) | None => None end
  | PSeg s :: r =>
      match rxof s, pieces_rx rxof r with
      | Some a, Some x => Some (Cat a x)
      | _, _ => None
      end
  end.
