(* Migration: vakt.storage.migration.MigrationSet.up / down / _get_migrations as a state machine.
   A migration set is the list of its `order` numbers in declaration order.  The state is the recorded
   version; every step invocation is logged together with the version recorded at that moment.  A fault plan
   says which step invocation of a request raises (inside m.up()/m.down(), i.e. before the version is saved). *)
From Coq Require Import ZArith List Bool.
From Vakt Require Import Base.PyMonad.
Import ListNotations.

Inductive ev : Type :=
| EvUp (n v : Z)          (* m.up() of order n ran to completion when the recorded version was v *)
| EvDown (n v : Z)
| EvFailUp (n v : Z)      (* m.up() of order n was invoked at version v and raised *)
| EvFailDown (n v : Z).

Inductive request : Type :=
| RUp (number : option Z)
| RDown (number : option Z).

(* sorted(ms, key=order, reverse=False/True): stable insertion sort *)
Fixpoint insert_asc (x : Z) (l : list Z) : list Z :=
  match l with
  | [] => [x]
  | y :: r => if Z.ltb x y then x :: l else y :: insert_asc x r
  end.
Fixpoint sort_asc (l : list Z) : list Z :=
  match l with [] => [] | x :: r => insert_asc x (sort_asc r) end.

Fixpoint insert_desc (x : Z) (l : list Z) : list Z :=
  match l with
  | [] => [x]
  | y :: r => if Z.ltb y x then x :: l else y :: insert_desc x r
  end.
Fixpoint sort_desc (l : list Z) : list Z :=
  match l with [] => [] | x :: r => insert_desc x (sort_desc r) end.

(* MigrationSet._get_migrations *)
Definition get_migrations (ms : list Z) (number : option Z) (reverse : bool) : list Z :=
  match number with
  | None => if reverse then sort_desc ms else sort_asc ms
  | Some n => filter (Z.eqb n) ms
  end.

(* the loop of MigrationSet.up: k counts step invocations of this request; fault = Some j makes the j-th
   invocation raise.  Result: version, events (oldest first), raised? *)
Fixpoint up_loop (l : list Z) (ver : Z) (fault : option nat) (k : nat) : Z * list ev * bool :=
  match l with
  | [] => (ver, [], false)
  | m :: r =>
      if Z.ltb ver m then
        if match fault with Some j => Nat.eqb j k | None => false end
        then (ver, [EvFailUp m ver], true)
        else let '(v', es, f) := up_loop r m fault (S k) in (v', EvUp m ver :: es, f)
      else up_loop r ver fault k
  end.

Fixpoint down_loop (l : list Z) (ver : Z) (fault : option nat) (k : nat) : Z * list ev * bool :=
  match l with
  | [] => (ver, [], false)
  | m :: r =>
      if Z.leb m ver then
        if match fault with Some j => Nat.eqb j k | None => false end
        then (ver, [EvFailDown m ver], true)
        else let '(v', es, f) := down_loop r (m - 1)%Z fault (S k) in (v', EvDown m ver :: es, f)
      else down_loop r ver fault k
  end.

Definition run_request (ms : list Z) (ver : Z) (rq : request) (fault : option nat) : Z * list ev * bool :=
  match rq with
  | RUp n => up_loop (get_migrations ms n false) ver fault 0
  | RDown n => down_loop (get_migrations ms n true) ver fault 0
  end.

(* a history of requests, each with its fault plan *)
Fixpoint run_history (ms : list Z) (ver : Z) (h : list (request * option nat)) : Z * list ev :=
  match h with
  | [] => (ver, [])
  | (rq, fault) :: r =>
      let '(v', es, _) := run_request ms ver rq fault in
      let (v'', es') := run_history ms v' r in (v'', es ++ es')
  end.

(* the set of migrations whose up step has completed and has not been undone, from the log *)
Fixpoint applied_after (es : list ev) (acc : list Z) : list Z :=
  match es with
  | [] => acc
  | EvUp n _ :: r => applied_after r (n :: acc)
  | EvDown n _ :: r => applied_after r (filter (fun x => negb (Z.eqb x n)) acc)
  | _ :: r => applied_after r acc
  end.
