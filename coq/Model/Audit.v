(* Audit: vakt.audit message classes - how candidates / deciders are rendered. *)
From Coq Require Import ZArith NArith List Bool.
From Vakt Require Import Base.PyMonad Base.PyVal Model.Rules Model.Policy.
Import ListNotations.

Inductive msgcls : Type := MsgNop | MsgUid | MsgDescription | MsgCount.

Fixpoint pjoin (sep : pstr) (l : list pstr) : pstr :=
  match l with
  | [] => []
  | [x] => x
  | x :: r => x ++ sep ++ pjoin sep r
  end.

Definition comma_space : pstr := [44; 32]%N.

(* str(msg) *)
Definition render (m : msgcls) (ps : list policy) : res pstr :=
  match m with
  | MsgNop => Ok []
  | MsgUid =>
      uids <- mapM (fun p => str_of (p_uid p)) ps ;;
      Ok ([91%N] ++ pjoin comma_space uids ++ [93%N])
  | MsgDescription =>
      ds <- mapM (fun p => str_of (p_description p)) ps ;;
      Ok ([91%N] ++ pjoin comma_space (map (fun d => [39%N] ++ d ++ [39%N]) ds) ++ [93%N])
  | MsgCount =>
      Ok ([99; 111; 117; 110; 116; 32; 61; 32]%N ++ Z_str (Z.of_nat (length ps)))
  end.
