(* Policy: (1) the typed policy record the checkers and the guard read;
   (2) the attribute state machine of vakt.policy.Policy (__init__,
   __setattr__, _check_field_type, _calculate_type) for property C10. *)
From Coq Require Import ZArith NArith List Bool.
From Vakt Require Import Base.PyMonad Base.PyVal Model.Rules.
Import ListNotations.

(* ------------------------------------------------------------------ *)
(* 1. typed view                                                        *)

Inductive elem : Type :=
| EStr (s : pstr)
| ERule (r : rule)
| EDict (kvs : list (pstr * rule)).

Inductive ptype : Type := StringBased | RuleBased.
Definition ptype_eqb (a b : ptype) : bool :=
  match a, b with StringBased, StringBased | RuleBased, RuleBased => true | _, _ => false end.

Inductive pfield : Type := Subjects | Resources | Actions.

Record policy : Type := {
  p_uid : val;
  p_effect : val;
  p_subjects : list elem;
  p_resources : list elem;
  p_actions : list elem;
  p_context : list (pstr * rule);
  p_description : val;
  p_type : ptype;
  p_start : pstr;          (* start_tag / end_tag properties (class level) *)
  p_end : pstr }.

Definition field_elems (p : policy) (f : pfield) : list elem :=
  match f with Subjects => p_subjects p | Resources => p_resources p | Actions => p_actions p end.

Definition s_allow : pstr := [97; 108; 108; 111; 119]%N.
Definition s_deny : pstr := [100; 101; 110; 121]%N.

(* Policy.allow_access: self.effect == ALLOW_ACCESS *)
Definition allow_access (p : policy) : bool := py_eq (p_effect p) (VStr s_allow).

Definition is_str_elem (e : elem) : bool := match e with EStr _ => true | _ => false end.

(* _calculate_type over the three definition fields *)
Definition calc_type (es : list elem) : option ptype :=
  if forallb is_str_elem es then Some StringBased
  else if forallb (fun e => negb (is_str_elem e)) es then Some RuleBased
  else None.

(* Policy(...) seen from outside, for policies whose arguments are well typed *)
Definition mk_policy (uid effect : val) (subjects resources actions : list elem)
           (context : list (pstr * rule)) (description : val) (st en : pstr) : option policy :=
  match calc_type (subjects ++ resources ++ actions) with
  | Some t =>
      Some {| p_uid := uid;
              p_effect := if truthy effect then effect else VStr s_deny;
              p_subjects := subjects; p_resources := resources; p_actions := actions;
              p_context := context; p_description := description; p_type := t;
              p_start := st; p_end := en |}
  | None => None
  end.

(* ------------------------------------------------------------------ *)
(* 2. attribute state machine                                           *)

Inductive elemv : Type :=
| XStr (s : pstr)
| XRule (r : rule)                       (* an instance of Rule *)
| XDict (kvs : list (pstr * rule))       (* any dict *)
| XBad (v : val).                        (* anything else: int, None, list, ... *)

Inductive aval : Type :=
| AV (v : val)                           (* a plain value (not list/tuple) *)
| ASeq (tup : bool) (es : list elemv)    (* a list (false) or tuple (true) *)
| ACtx (kvs : list (pstr * rule)).       (* a dict *)

Definition pstate := list (pstr * aval).         (* the instance __dict__, insertion ordered *)

Definition n_uid : pstr := [117; 105; 100]%N.
Definition n_subjects : pstr := [115; 117; 98; 106; 101; 99; 116; 115]%N.
Definition n_effect : pstr := [101; 102; 102; 101; 99; 116]%N.
Definition n_resources : pstr := [114; 101; 115; 111; 117; 114; 99; 101; 115]%N.
Definition n_actions : pstr := [97; 99; 116; 105; 111; 110; 115]%N.
Definition n_context : pstr := [99; 111; 110; 116; 101; 120; 116]%N.
Definition n_description : pstr := [100; 101; 115; 99; 114; 105; 112; 116; 105; 111; 110]%N.
Definition n_type : pstr := [116; 121; 112; 101]%N.

Definition is_def_field (n : pstr) : bool :=
  pstr_eqb n n_subjects || pstr_eqb n n_resources || pstr_eqb n n_actions.

Fixpoint set_attr (n : pstr) (v : aval) (s : pstate) : pstate :=
  match s with
  | [] => [(n, v)]
  | (k, x) :: r => if pstr_eqb n k then (k, v) :: r else (k, x) :: set_attr n v r
  end.

(* iterating an attribute value: Ok (the elements) | TypeError | unmodelled *)
Definition iter_aval (a : aval) : res (list elemv) :=
  match a with
  | ASeq _ es => Ok es
  | AV (VStr s) => Ok (map (fun c => XStr [c]) s)
  | AV (VNone) | AV (VBool _) | AV (VInt _) | AV (VFlt _ _) => Raise ETypeError
  | AV _ | ACtx _ => Raise EUnmodelled
  end.

Definition elemv_ok (e : elemv) : bool := match e with XBad _ => false | _ => true end.
Definition is_dict_aval (a : aval) : bool :=
  match a with ACtx _ => true | AV (VDict _) => true | _ => false end.

(* Policy._check_field_type *)
Definition check_field_type (n : pstr) (v : aval) : res unit :=
  r1 <- (if is_def_field n
         then es <- iter_aval v ;;
              if forallb elemv_ok es then Ok tt else Raise EPolicyCreation
         else Ok tt) ;;
  if pstr_eqb n n_context && negb (is_dict_aval v) then Raise EPolicyCreation else Ok tt.

(* getattr(self_copy, f, ()) then iterate *)
Definition field_iter (s : pstate) (f : pstr) : res (list elemv) :=
  match lookup f s with
  | None => Ok []
  | Some a => iter_aval a
  end.

Definition count_str (es : list elemv) : nat :=
  length (filter (fun e => match e with XStr _ => true | _ => false end) es).
Definition count_rule (es : list elemv) : nat :=
  length (filter (fun e => match e with XRule _ | XDict _ => true | _ => false end) es).

(* Policy._calculate_type *)
Definition calculate_type (s : pstate) (n : pstr) (v : aval) : res Z :=
  let c := set_attr n v s in
  a <- field_iter c n_subjects ;;
  b <- field_iter c n_resources ;;
  d <- field_iter c n_actions ;;
  let es := a ++ b ++ d in
  if Nat.eqb (length es) (count_str es) || Nat.eqb (length es) 0 then Ok 1%Z
  else if Nat.eqb (length es) (count_rule es) then Ok 2%Z
  else Raise EPolicyCreation.

(* Policy.__setattr__ *)
Definition setattr (s : pstate) (n : pstr) (v : aval) : res pstate :=
  _ <- check_field_type n v ;;
  t <- calculate_type s n v ;;
  Ok (set_attr n_type (AV (VInt t)) (set_attr n v s)).

Definition aval_truthy (a : aval) : bool :=
  match a with
  | AV v => truthy v
  | ASeq _ es => negb (match es with [] => true | _ => false end)
  | ACtx kvs => negb (match kvs with [] => true | _ => false end)
  end.
Definition aval_is_none (a : aval) : bool := match a with AV VNone => true | _ => false end.

Record ctor_args : Type := {
  c_uid : aval; c_subjects : aval; c_effect : aval; c_resources : aval;
  c_actions : aval; c_context : aval; c_rules : aval; c_description : aval }.

(* Policy.__init__ *)
Definition ctor (a : ctor_args) : res pstate :=
  s <- setattr [] n_uid (c_uid a) ;;
  s <- setattr s n_subjects (c_subjects a) ;;
  s <- setattr s n_effect (if aval_truthy (c_effect a) then c_effect a else AV (VStr s_deny)) ;;
  s <- setattr s n_resources (c_resources a) ;;
  s <- setattr s n_actions (c_actions a) ;;
  let context :=
    if negb (aval_is_none (c_context a)) then c_context a
    else if aval_truthy (c_rules a) then c_rules a
    else ACtx [] in
  s <- setattr s n_context context ;;
  s <- setattr s n_description (c_description a) ;;
  setattr s n_type (AV VNone).

(* an assignment attempted from outside: on an exception the object is what it was *)
Definition try_setattr (s : pstate) (nv : pstr * aval) : pstate :=
  match setattr s (fst nv) (snd nv) with Ok s' => s' | Raise _ => s end.

(* the type the current elements imply, read off a state *)
Definition implied_type (s : pstate) : res Z :=
  a <- field_iter s n_subjects ;;
  b <- field_iter s n_resources ;;
  d <- field_iter s n_actions ;;
  let es := a ++ b ++ d in
  if Nat.eqb (length es) (count_str es) || Nat.eqb (length es) 0 then Ok 1%Z
  else if Nat.eqb (length es) (count_rule es) then Ok 2%Z
  else Raise EPolicyCreation.

(* ------------------------------------------------------------------ *)
(* 3. Policy.from_json, after the JSON text has been parsed into properties *)

Definition n_rules : pstr := [114; 117; 108; 101; 115]%N.

Fixpoint del_key (k : pstr) (l : list (pstr * aval)) : list (pstr * aval) :=
  match l with
  | [] => []
  | (k', v) :: r => if pstr_eqb k k' then del_key k r else (k', v) :: del_key k r
  end.

Definition known_ctor_key (k : pstr) : bool :=
  pstr_eqb k n_uid || pstr_eqb k n_subjects || pstr_eqb k n_effect || pstr_eqb k n_resources ||
  pstr_eqb k n_actions || pstr_eqb k n_context || pstr_eqb k n_rules || pstr_eqb k n_description.

Definition prop_or (k : pstr) (props : list (pstr * aval)) (d : aval) : aval :=
  match lookup k props with Some v => v | None => d end.

(* Policy.from_json: uid is required; context <- context | rules | {}; a stored type is dropped; then the constructor is called with the remaining properties *)
Definition from_props (props : list (pstr * aval)) : res pstate :=
  match lookup n_uid props with
  | None => Raise EPolicyCreation
  | Some uid =>
      let context_rules :=
        match lookup n_context props with
        | Some c => c
        | None => match lookup n_rules props with Some r => r | None => ACtx [] end
        end in
      let props1 := if has_key n_context props then props
                    else del_key n_rules props in          (* `del props['rules']` only in the elif branch *)
      let props2 := (n_context, context_rules) :: del_key n_context props1 in
      let props3 := del_key n_type props2 in
      if forallb (fun kv => known_ctor_key (fst kv)) props3 then
        ctor {| c_uid := uid;
                c_subjects := prop_or n_subjects props3 (ASeq true []);
                c_effect := prop_or n_effect props3 (AV (VStr s_deny));
                c_resources := prop_or n_resources props3 (ASeq true []);
                c_actions := prop_or n_actions props3 (ASeq true []);
                c_context := context_rules;
                c_rules := prop_or n_rules props3 (AV VNone);
                c_description := prop_or n_description props3 (AV VNone) |}
      else Raise ETypeError                                   (* unexpected keyword argument *)
  end.

(* ------------------------------------------------------------------ *)
(* 4. Policy._data: what to_json writes - the attribute dictionary with every tuple turned into a list
      (done in place, not through __setattr__: nothing else changes) *)
Definition flat (a : aval) : aval :=
  match a with ASeq _ es => ASeq false es | AV (VTup l) => AV (VList l) | _ => a end.
Definition data_of (s : pstate) : pstate := map (fun kv => (fst kv, flat (snd kv))) s.
