(* Checkers: vakt.checker — RegexChecker, StringExactChecker,
   StringFuzzyChecker, RulesChecker, following the source statement by
   statement. *)
From Coq Require Import ZArith NArith List Bool.
From Vakt Require Import Base.PyMonad Base.PyVal Model.Regex Model.Rules Model.Policy Model.Parser.
Import ListNotations.

Inductive checker : Type := CRegex | CExact | CFuzzy | CRules.

(* ---------- RegexChecker ---------- *)

(* one iteration of the loop: Some b = `return b`, None = go on *)
Definition regex_item (rxof : pstr -> option rx) (p : policy) (i : pstr) (w : val)
  : res (option bool) :=
  if negb (is_substr (p_start p) i) && negb (is_substr (p_end p) i) then
    match w with
    | VStr t => if pstr_eqb i t then Ok (Some true) else Ok None
    | _ => Ok None
    end
  else
    match compile_pieces i (p_start p) (p_end p) with
    | Raise EInvalidPattern => Ok (Some false)
    | Raise e => Raise e
    | Ok ps =>
        match pieces_rx rxof ps with
        | None => Raise EUnmodelled
        | Some x =>
            match w with
            | VStr t => if rmatch x t then Ok (Some true) else Ok None
            | _ => Raise ETypeError           (* re: expected string or bytes-like object *)
            end
        end
    end.

Fixpoint fits_regex_loop (rxof : pstr -> option rx) (p : policy) (es : list elem) (w : val)
  : res bool :=
  match es with
  | [] => Ok false
  | EStr i :: r =>
      o <- regex_item rxof p i w ;;
      match o with Some b => Ok b | None => fits_regex_loop rxof p r w end
  | _ :: r => fits_regex_loop rxof p r w
  end.

Definition fits_regex (rxof : pstr -> option rx) (p : policy) (f : pfield) (w : val) : res bool :=
  fits_regex_loop rxof p (field_elems p f) w.

(* ---------- StringChecker ---------- *)

Definition strip_tags (st en : pstr) (item : pstr) : pstr :=
  match item with
  | [] => []
  | c :: _ =>
      if pstr_eqb st [c] && pstr_eqb en [last item c] then removelast (tl item) else item
  end.

Definition compare_exact (w : val) (item : pstr) : res bool :=
  Ok (py_eq w (VStr item)).
Definition compare_fuzzy (w : val) (item : pstr) : res bool :=
  match w with
  | VStr t => Ok (is_substr t item)
  | _ => Raise ETypeError                     (* 'in <string>' requires string as left operand *)
  end.

Fixpoint fits_string_loop (cmp : val -> pstr -> res bool) (p : policy) (es : list elem) (w : val)
  : res bool :=
  match es with
  | [] => Ok false
  | EStr item :: r =>
      b <- cmp w (strip_tags (p_start p) (p_end p) item) ;;
      if b then Ok true else fits_string_loop cmp p r w
  | _ :: r => fits_string_loop cmp p r w
  end.

Definition fits_exact (p : policy) (f : pfield) (w : val) : res bool :=
  fits_string_loop compare_exact p (field_elems p f) w.
Definition fits_fuzzy (p : policy) (f : pfield) (w : val) : res bool :=
  fits_string_loop compare_fuzzy p (field_elems p f) w.

(* ---------- RulesChecker ---------- *)

(* _check_satisfied: any Exception -> no match.  Result: truthiness of the answer. *)
Definition check_satisfied (r : rule) (w : val) (i : option inquiry) : res bool :=
  catch_exception (sat_b r w i) (Ok false).

(* the inner loop over an attribute dictionary; acc = item_result so far *)
Fixpoint dict_item (kvs : list (pstr * rule)) (w : val) (i : option inquiry) (acc : bool)
  : res bool :=
  match kvs with
  | [] => Ok acc
  | (k, r) :: rest =>
      b <- match w with
           | VDict d =>
               match lookup k d with
               | None => Ok false
               | Some x => check_satisfied r x i
               end
           | _ => Ok false
           end ;;
      if b then dict_item rest w i b else Ok false
  end.

Definition rules_item (e : elem) (w : val) (i : option inquiry) : res bool :=
  match e with
  | EDict kvs => dict_item kvs w i false
  | ERule r => check_satisfied r w i
  | EStr _ => Ok false
  end.

Definition fits_rules (p : policy) (f : pfield) (w : val) (i : option inquiry) : res bool :=
  existsM (fun e => rules_item e w i) (field_elems p f).

(* ---------- dispatch ---------- *)

Definition fits (rxof : pstr -> option rx) (ck : checker) (p : policy) (f : pfield)
           (w : val) (i : option inquiry) : res bool :=
  match ck with
  | CRegex => fits_regex rxof p f w
  | CExact => fits_exact p f w
  | CFuzzy => fits_fuzzy p f w
  | CRules => fits_rules p f w i
  end.
