(* Conc: threads interleaving decisions and in-memory storage mutations (C14).
   Shared state: the policy store (MemoryStorage under its lock) and, for a cached guard, the decision cache.
   Each thread runs a list of atomic actions.  A plain decision takes its snapshot of the candidates and
   computes on it: one shared access (ADecide).  A cached ask is three shared accesses with thread-local state
   in between: cache lookup, snapshot+compute on a miss, cache insert (functools.lru_cache calls the wrapped
   function outside its own lock).  A mutation through the observable storage is two: apply, then invalidate.
   AAsk is a cached ask through a back-end that is atomic (one shared access). *)
From Coq Require Import List Bool Arith.
From Vakt Require Import Base.PyMonad Model.Lru.
Import ListNotations.

Section conc.
  Variables S M Q : Type.
  Variable qeq : Q -> Q -> bool.
  Variable mstep : S -> M -> S * bool.           (* atomic storage mutation: new store, raised? *)
  Variable dec : S -> Q -> bool.
  Variable cap : option nat.

  Inductive act : Type :=
  | ADecide (q : Q)        (* plain guard: snapshot and decision *)
  | AMut (m : M)           (* storage mutation (atomic under the lock) *)
  | AInval                 (* notify -> cache invalidate *)
  | ALookup (q : Q)        (* cached ask, step 1 *)
  | ASnap (q : Q)          (* cached ask, step 2: only after a miss *)
  | AInsert (q : Q)        (* cached ask, step 3: store the computed answer; return *)
  | AAsk (q : Q).          (* cached ask through a back-end that looks up, computes and stores under ONE lock (a
                              user-supplied back-end may do that; functools.lru_cache does not) *)

  Inductive local : Type := Idle | Hit (a : bool) | Miss | Computed (a : bool).

  Inductive output : Type := OAnswer (a : bool) | OMutated (raised : bool).

  Record shared : Type := { sh_store : S; sh_cache : cache Q bool }.

  (* one action of a thread *)
  Definition astep (sh : shared) (lo : local) (a : act) : shared * local * option output :=
    match a with
    | ADecide q => (sh, lo, Some (OAnswer (dec (sh_store sh) q)))
    | AMut m => let (s', r) := mstep (sh_store sh) m in
                ({| sh_store := s'; sh_cache := sh_cache sh |}, lo, Some (OMutated r))
    | AInval => ({| sh_store := sh_store sh; sh_cache := [] |}, lo, None)
    | ALookup q =>
        match lru_find qeq q (sh_cache sh) with
        | Some v => ({| sh_store := sh_store sh; sh_cache := (q, v) :: lru_remove qeq q (sh_cache sh) |}, Hit v, None)
        | None => (sh, Miss, None)
        end
    | ASnap q => match lo with Miss => (sh, Computed (dec (sh_store sh) q), None) | _ => (sh, lo, None) end
    | AInsert q =>
        match lo with
        | Computed v => ({| sh_store := sh_store sh; sh_cache := lru_insert cap q v (sh_cache sh) |}, Idle, Some (OAnswer v))
        | Hit v => (sh, Idle, Some (OAnswer v))
        | _ => (sh, Idle, None)
        end
    | AAsk q =>
        match lru_find qeq q (sh_cache sh) with
        | Some v => ({| sh_store := sh_store sh; sh_cache := (q, v) :: lru_remove qeq q (sh_cache sh) |}, lo,
                     Some (OAnswer v))
        | None => let v := dec (sh_store sh) q in
                  ({| sh_store := sh_store sh; sh_cache := lru_insert cap q v (sh_cache sh) |}, lo, Some (OAnswer v))
        end
    end.

  (* a schedule is a list of thread indices; each entry runs the next action of that thread *)
  Definition tstate := (list act * local * list output)%type.       (* remaining program, local, outputs (reversed) *)

  Fixpoint upd_nth {A} (n : nat) (x : A) (l : list A) : list A :=
    match l, n with
    | [], _ => []
    | _ :: r, O => x :: r
    | y :: r, Datatypes.S k => y :: upd_nth k x r
    end.

  Fixpoint exec (sched : list nat) (sh : shared) (ts : list tstate) : shared * list tstate :=
    match sched with
    | [] => (sh, ts)
    | t :: r =>
        match nth_error ts t with
        | Some (a :: prog, lo, outs) =>
            let '(sh', lo', o) := astep sh lo a in
            exec r sh' (upd_nth t (prog, lo', match o with Some x => x :: outs | None => outs end) ts)
        | _ => exec r sh ts                 (* thread finished or unknown: the entry is skipped *)
        end
    end.

  (* all complete interleavings of the threads' programs (as schedules) *)
  Fixpoint interleave_fuel (fuel : nat) (rem : list nat) : list (list nat) :=
    match fuel with
    | O => [[]]
    | Datatypes.S f =>
        if forallb (Nat.eqb 0) rem then [[]]
        else flat_map (fun t =>
               match nth_error rem t with
               | Some (Datatypes.S k) => map (cons t) (interleave_fuel f (upd_nth t k rem))
               | _ => []
               end) (seq 0 (length rem))
    end.

  Definition schedules (progs : list (list act)) : list (list nat) :=
    let lens := map (@length act) progs in
    interleave_fuel (Datatypes.S (fold_right plus 0 lens)) lens.

  Definition init_threads (progs : list (list act)) : list tstate := map (fun p => (p, Idle, [])) progs.
End conc.
