(* Net: the part of Python's `ipaddress` that vakt's CIDR rule relies on,
   written in Gallina: IPv4 dotted quads, IPv6 hex groups with at most one
   "::", networks "addr/len" (strict: no host bits), containment.
   Forms outside (netmask notation, embedded IPv4 in IPv6, zone ids, integer
   or bytes arguments) yield EUnmodelled. *)
From Coq Require Import ZArith NArith List Bool.
From Vakt Require Import Base.PyMonad Base.PyVal.
Import ListNotations.

Definition is_digit (c : N) : bool := N.leb 48 c && N.leb c 57.

Fixpoint split_on (sep : N) (s : pstr) : list pstr :=
  match s with
  | [] => [[]]
  | c :: t =>
      if N.eqb c sep then [] :: split_on sep t
      else match split_on sep t with
           | [] => [[c]]
           | h :: r => (c :: h) :: r
           end
  end.

Fixpoint dec_value (s : pstr) (acc : N) : N :=
  match s with
  | [] => acc
  | c :: t => dec_value t (acc * 10 + (c - 48))%N
  end.

(* one IPv4 octet: 1-3 ASCII digits, no leading zero unless "0", <= 255 *)
Definition parse_octet (s : pstr) : option N :=
  match s with
  | [] => None
  | c :: t =>
      if forallb is_digit s && Nat.leb (length s) 3 &&
         negb (N.eqb c 48 && negb (match t with [] => true | _ => false end))
      then let v := dec_value s 0 in if N.leb v 255 then Some v else None
      else None
  end.

Definition parse_ip4 (s : pstr) : option N :=
  match split_on 46 s with
  | [a; b; c; d] =>
      match parse_octet a, parse_octet b, parse_octet c, parse_octet d with
      | Some a, Some b, Some c, Some d => Some (((a * 256 + b) * 256 + c) * 256 + d)%N
      | _, _, _, _ => None
      end
  | _ => None
  end.

Definition hex_digit (c : N) : option N :=
  if is_digit c then Some (c - 48)%N
  else if N.leb 97 c && N.leb c 102 then Some (c - 87)%N
  else if N.leb 65 c && N.leb c 70 then Some (c - 55)%N
  else None.

Fixpoint hex_value (s : pstr) (acc : N) : option N :=
  match s with
  | [] => Some acc
  | c :: t => match hex_digit c with Some d => hex_value t (acc * 16 + d)%N | None => None end
  end.

Definition parse_hextet (s : pstr) : option N :=
  match s with
  | [] => None
  | _ => if Nat.leb (length s) 4 then hex_value s 0 else None
  end.

Fixpoint parse_hextets (l : list pstr) : option (list N) :=
  match l with
  | [] => Some []
  | h :: r => match parse_hextet h, parse_hextets r with
              | Some v, Some vs => Some (v :: vs)
              | _, _ => None
              end
  end.

Definition fold_hextets (l : list N) : N := fold_left (fun acc h => (acc * 65536 + h)%N) l 0%N.

Definition is_nil {A} (l : list A) : bool := match l with [] => true | _ => false end.

(* split a list of parts at the first empty part *)
Fixpoint split_at_empty (l : list pstr) : option (list pstr * list pstr) :=
  match l with
  | [] => None
  | h :: r =>
      if is_nil h then Some ([], r)
      else match split_at_empty r with
           | Some (a, b) => Some (h :: a, b)
           | None => None
           end
  end.

(* IPv6 text -> 128-bit integer, following ipaddress._ip_int_from_string.
   Returns None for a ValueError, Some None for "unmodelled form". *)
Definition parse_ip6 (s : pstr) : option (option N) :=
    let parts := split_on 58 s in
    let n := length parts in
    if Nat.ltb n 3 then None
    else if mem_N 37 s || mem_N 46 s then Some None                (* zone id / embedded IPv4 *)
    else if Nat.ltb 9 n then None
    else
      (* strip a leading / trailing empty part that belongs to a "::" at the edge *)
      let lead_empty := match parts with h :: _ => is_nil h | [] => false end in
      let trail_empty := is_nil (last parts [1%N]) in
      let inner := removelast (tl parts) in                       (* parts[1:-1] *)
      let n_empty_inner := length (filter is_nil inner) in
      if Nat.ltb 1 n_empty_inner then None                         (* two "::" *)
      else if Nat.eqb n_empty_inner 1 then
        (* there is a "::" ; work on the full list *)
        let body := (if lead_empty then tl parts else parts) in
        let body := (if trail_empty then removelast body else body) in
        (* after removing edge empties, body has exactly one empty part unless "::" at an edge *)
        match split_at_empty body with
        | None => None
        | Some (hi, lo) =>
            (* a leading empty is only legal if the "::" is at the start, similarly trailing *)
            if lead_empty && negb (is_nil hi) then None
            else if trail_empty && negb (is_nil lo) then None
            else if existsb is_nil lo then None
            else
              let k := (length hi + length lo)%nat in
              if Nat.ltb 7 k then None
              else match parse_hextets hi, parse_hextets lo with
                   | Some a, Some b =>
                       Some (Some (fold_hextets (a ++ repeat 0%N (8 - k) ++ b)))
                   | _, _ => None
                   end
        end
      else
        if lead_empty || trail_empty then None
        else if negb (Nat.eqb n 8) then None
        else match parse_hextets parts with
             | Some a => Some (Some (fold_hextets a))
             | None => None
             end.

Inductive ipaddr : Type := IP4 (a : N) | IP6 (a : N).

(* ipaddress.ip_address(str): ValueError -> None *)
Definition parse_ip (s : pstr) : res (option ipaddr) :=
  match parse_ip4 s with
  | Some a => Ok (Some (IP4 a))
  | None =>
      match parse_ip6 s with
      | None => Ok None
      | Some None => Raise EUnmodelled
      | Some (Some a) => Ok (Some (IP6 a))
      end
  end.

Record ipnet : Type := { net_v6 : bool; net_addr : N; net_len : N }.

Definition bits_of (v6 : bool) : N := if v6 then 128%N else 32%N.

(* prefix length text: ASCII digits only; anything else (netmask forms, empty) is unmodelled *)
Definition parse_prefix (v6 : bool) (s : pstr) : res (option N) :=
  match s with
  | [] => Ok None
  | _ =>
      if forallb is_digit s then
        let v := dec_value s 0 in
        if N.leb v (bits_of v6) then Ok (Some v) else
          (if v6 then Ok None else Raise EUnmodelled)      (* v4: falls back to netmask parsing *)
      else (if v6 then Ok None else Raise EUnmodelled)
  end.

Definition mk_net (v6 : bool) (a : N) (len : N) : option ipnet :=
  let host_bits := (bits_of v6 - len)%N in
  if N.eqb (N.modulo a (2 ^ host_bits)) 0
  then Some {| net_v6 := v6; net_addr := a; net_len := len |}
  else None.                                                   (* strict=True: host bits set *)

(* ipaddress.ip_network(str): ValueError -> None *)
Definition parse_net (s : pstr) : res (option ipnet) :=
  match split_on 47 s with
  | [a] =>
      match parse_ip a with
      | Raise e => Raise e
      | Ok None => Ok None
      | Ok (Some (IP4 x)) => Ok (mk_net false x 32)
      | Ok (Some (IP6 x)) => Ok (mk_net true x 128)
      end
  | [a; p] =>
      match parse_ip a with
      | Raise e => Raise e
      | Ok None => Ok None
      | Ok (Some (IP4 x)) =>
          match parse_prefix false p with
          | Raise e => Raise e
          | Ok None => Ok None
          | Ok (Some len) => Ok (mk_net false x len)
          end
      | Ok (Some (IP6 x)) =>
          match parse_prefix true p with
          | Raise e => Raise e
          | Ok None => Ok None
          | Ok (Some len) => Ok (mk_net true x len)
          end
      end
  | _ => Ok None
  end.

Definition in_net (a : ipaddr) (n : ipnet) : bool :=
  match a with
  | IP4 x => negb (net_v6 n) &&
             N.eqb (N.div x (2 ^ (32 - net_len n))) (N.div (net_addr n) (2 ^ (32 - net_len n)))
  | IP6 x => net_v6 n &&
             N.eqb (N.div x (2 ^ (128 - net_len n))) (N.div (net_addr n) (2 ^ (128 - net_len n)))
  end.

(* CIDR(cidr).satisfied(what) for string `what` and string `cidr` *)
Definition cidr_sat (cidr what : pstr) : res bool :=
  ip <- parse_ip what ;;
  match ip with
  | None => Ok false
  | Some a =>
      n <- parse_net cidr ;;
      match n with
      | None => Ok false
      | Some n => Ok (in_net a n)
      end
  end.
