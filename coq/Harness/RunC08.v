(* RunC08: glue for the storage correspondence (C08, C11 notification clause, C12). *)
From Coq Require Import ZArith NArith List Bool String.
From Vakt Require Import Base.PyMonad Base.PyVal Base.Show Model.Store.
Import ListNotations.
Open Scope string_scope.

Definition kop := op pstr N.
Definition kmap := smap pstr N.

Definition show_kv (kv : pstr * N) : string := show_pstr (fst kv) ++ "=" ++ show_N (snd kv).
Definition show_kmap (s : list (pstr * N)) : string := "[" ++ join "," (map show_kv s) ++ "]".

Definition show_out (x : out pstr N) : string :=
  match x with
  | ODone => "ok"
  | OExists => "exists"
  | ORejected => "rejected"
  | OValueError => "valueerror"
  | OGet None => "get:-"
  | OGet (Some v) => "get:" ++ show_N v
  | OList l => "list:" ++ show_kmap l
  end.

Record scase : Type := { s_order : order_kind; s_ops : list kop }.

Fixpoint run_store (o : order_kind) (s : kmap) (ops : list kop) : list string :=
  match ops with
  | [] => []
  | p :: r =>
      let (s', x) := step pstr N pstr_eqb pstr_ltb o s p in
      (show_out x ++ " " ++ show_kmap s') :: run_store o s' r
  end.
Definition run_scase (c : scase) : string := join " | " (run_store (s_order c) [] (s_ops c)).

(* observable wrapper: number of notifications per op *)
Fixpoint run_obs (o : order_kind) (s : kmap) (ops : list kop) : list string :=
  match ops with
  | [] => []
  | p :: r =>
      let '(s', x, evs) := observable_step pstr N pstr_eqb pstr_ltb o s p in
      let n := List.length (filter (fun e => match e with Notified _ _ => true | _ => false end) evs) in
      (show_out x ++ " n=" ++ show_nat n ++ " " ++ show_kmap s') :: run_obs o s' r
  end.
Definition run_ocase (c : scase) : string := join " | " (run_obs (s_order c) [] (s_ops c)).

(* enfold cache: initial backend content, populate (or not), then ops with fault flags *)
(* a candidate search (find_for_inquiry without a checker) is shown as the key-sorted list: backends differ in the order
   in which they hand out candidates *)
Fixpoint insert_kv (kv : pstr * N) (l : list (pstr * N)) : list (pstr * N) :=
  match l with
  | [] => [kv]
  | x :: r => if pstr_ltb (fst kv) (fst x) then kv :: l else x :: insert_kv kv r
  end.
Definition sort_kv (l : list (pstr * N)) : list (pstr * N) := fold_right insert_kv [] l.
Definition show_find (x : out pstr N) : string :=
  match x with OList l => "find:" ++ show_kmap (sort_kv l) | _ => show_out x end.

Record ecase : Type := {
  e_ob : order_kind; e_init : list (pstr * N); e_populate : option Z; e_ops : list (kop * bool * bool) }.

Fixpoint run_enf (ob : order_kind) (st : enfold pstr N) (ops : list (kop * bool * bool)) : list string :=
  match ops with
  | [] => []
  | (p, fault, as_find) :: r =>
      let (st', x) := enfold_step pstr N pstr_eqb pstr_ltb ob Insertion st p fault in
      ((if as_find then show_find x else show_out x) ++ " r=" ++ show_bool (enfold_reads_backend pstr_eqb st p) ++
       " b=" ++ show_kmap (e_backend pstr N st') ++ " c=" ++ show_kmap (e_cache pstr N st'))
        :: run_enf ob st' r
  end.

Definition init_backend (ob : order_kind) (l : list (pstr * N)) : kmap :=
  fold_left (fun s kv => fst (step pstr N pstr_eqb pstr_ltb ob s (Add (fst kv) (snd kv) false))) l [].

Definition run_ecase (c : ecase) : string :=
  let st0 := {| e_backend := init_backend (e_ob c) (e_init c); e_cache := [] |} in
  let st1 := match e_populate c with
             | Some b => populate pstr N pstr_eqb pstr_ltb Insertion st0 b
             | None => st0
             end in
  join " | " (("init b=" ++ show_kmap (e_backend pstr N st1) ++ " c=" ++ show_kmap (e_cache pstr N st1))
                :: run_enf (e_ob c) st1 (e_ops c)).
