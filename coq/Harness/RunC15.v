(* RunC15: SQL storage with a second session and a crash point. *)
From Coq Require Import ZArith NArith List Bool String.
From Vakt Require Import Base.PyMonad Base.PyVal Base.Show Model.Store Model.SqlSession Harness.RunC08.
Import ListNotations.
Open Scope string_scope.

Record qcase : Type := { q_ops : list kop; q_crash_after : nat }.

Fixpoint run_sql (d : db pstr N) (ops : list kop) (k crash_at : nat) : list string :=
  match ops with
  | [] => []
  | p :: r =>
      let (d', x) := sql_step pstr N pstr_eqb pstr_ltb d p in
      let line := show_out x ++ " other=" ++ show_kmap (other_session_view pstr N d') in
      if Nat.eqb k crash_at
      then [line ++ " crashed=" ++ show_kmap (committed pstr N (crash pstr N d'))]
      else line :: run_sql d' r (S k) crash_at
  end.

Definition run_qcase (c : qcase) : string :=
  join " | " (run_sql {| committed := []; work := []; failed := false |} (q_ops c) 0 (q_crash_after c)).
