(* RunC18: glue for the migration driver correspondence. *)
From Coq Require Import ZArith NArith List Bool String.
From Vakt Require Import Base.PyMonad Base.PyVal Base.Show Model.Migration.
Import ListNotations.
Open Scope string_scope.

Definition show_ev (e : ev) : string :=
  match e with
  | EvUp n v => "up" ++ show_Z n ++ "@" ++ show_Z v
  | EvDown n v => "down" ++ show_Z n ++ "@" ++ show_Z v
  | EvFailUp n v => "failup" ++ show_Z n ++ "@" ++ show_Z v
  | EvFailDown n v => "faildown" ++ show_Z n ++ "@" ++ show_Z v
  end.

Record mcase : Type := { m_set : list Z; m_ver : Z; m_hist : list (request * option nat) }.

Fixpoint run_steps (ms : list Z) (ver : Z) (h : list (request * option nat)) : list string :=
  match h with
  | [] => []
  | (rq, fault) :: r =>
      let '(v', es, failed) := run_request ms ver rq fault in
      ((if failed then "raised " else "ok ") ++ "v=" ++ show_Z v' ++ " " ++ join "," (map show_ev es))
        :: run_steps ms v' r
  end.

Definition run_mig (c : mcase) : string := join " | " (run_steps (m_set c) (m_ver c) (m_hist c)).
