(* RunGuard: glue evaluated by the correspondence checks of C01 C02 C04 C06 C16 C17. *)
From Coq Require Import ZArith NArith List Bool String.
From Vakt Require Import Base.PyMonad Base.PyVal Base.Show Model.Regex Model.Rules Model.Policy
     Model.Parser Model.Checkers Model.Guard Model.Audit Harness.ShowModel.
Import ListNotations.
Open Scope string_scope.

Definition mkp (uid effect : val) (subjects resources actions : list elem)
           (context : list (pstr * rule)) (description : val) (st en : pstr) : option policy :=
  mk_policy uid effect subjects resources actions context description st en.

Fixpoint all_some {A} (l : list (option A)) : option (list A) :=
  match l with
  | [] => Some []
  | None :: _ => None
  | Some x :: r => match all_some r with Some r' => Some (x :: r') | None => None end
  end.

Definition rxof_table (t : list (pstr * rx)) (s : pstr) : option rx := lookup s t.

Record gcase : Type := {
  g_ck : checker; g_table : list (pstr * rx); g_pols : list (option policy); g_inq : inquiry }.

Definition g_fits (c : gcase) := fits (rxof_table (g_table c)) (g_ck c).

(* C01: the decision over an in-memory store *)
Definition run_decide (c : gcase) : string :=
  match all_some (g_pols c) with
  | None => "UNMODELLED"
  | Some ps => show_res show_bool (decide (g_fits c) ps (g_inq c))
  end.

(* per-policy match vector, for the spec oracles *)
Definition run_matches (c : gcase) : string :=
  match all_some (g_pols c) with
  | None => "UNMODELLED"
  | Some ps => join "," (map (fun p => show_res show_bool (matches (g_fits c) (g_inq c) p)) ps)
  end.

(* C17: answer, decision-log kind, audit records rendered with a message class *)
Definition show_audit (m : msgcls) (a : audit) : string :=
  (if a_allow a then "allow" else "deny") ++ " c=" ++
  show_res show_pstr (render m (a_candidates a)) ++ " d=" ++ show_res show_pstr (render m (a_deciders a)).

Definition run_audit (mc : msgcls * gcase) : string :=
  let (m, c) := mc in
  match all_some (g_pols c) with
  | None => "UNMODELLED"
  | Some ps =>
      match is_allowed (g_fits c) (FIter (map inl ps)) (g_inq c) with
      | Raise e => show_exn e
      | Ok (ans, audits, logkind) =>
          show_bool ans ++ " log=" ++ (if logkind then "allowed" else "rejected") ++ " audits=" ++
          join "|" (map (show_audit m) audits)
      end
  end.

(* C04 / C06 / C03: one call of checker.fits *)
Record fcase : Type := {
  f_ck : checker; f_table : list (pstr * rx); f_pol : option policy; f_field : pfield;
  f_what : val; f_inq : option inquiry }.

Definition run_fits (c : fcase) : string :=
  match f_pol c with
  | None => "UNMODELLED"
  | Some p => show_res show_bool (fits (rxof_table (f_table c)) (f_ck c) p (f_field c) (f_what c) (f_inq c))
  end.

(* C02: decisions under injected faults *)
Inductive sitem : Type := SPol (p : option policy) | SExc (e : exn).
Inductive fres : Type := XRaise (e : exn) | XNone | XIter (items : list sitem).

Fixpoint items_of (l : list sitem) : option (list (policy + exn)) :=
  match l with
  | [] => Some []
  | SPol None :: _ => None
  | SPol (Some p) :: r => match items_of r with Some r' => Some (inl p :: r') | None => None end
  | SExc e :: r => match items_of r with Some r' => Some (inr e :: r') | None => None end
  end.

Record xcase : Type := { x_ck : checker; x_table : list (pstr * rx); x_find : fres; x_inq : inquiry }.

Definition run_faulty (c : xcase) : string :=
  let f := fits (rxof_table (x_table c)) (x_ck c) in
  let fr := match x_find c with
            | XRaise e => Some (FRaise e)
            | XNone => Some FNone
            | XIter l => match items_of l with Some it => Some (FIter it) | None => None end
            end in
  match fr with
  | None => "UNMODELLED"
  | Some fr =>
      match is_allowed f fr (x_inq c) with
      | Raise e => show_exn e
      | Ok (ans, audits, _) => show_bool ans ++ " audits=" ++ show_nat (List.length audits)
      end
  end.

(* C16: a sequence of inquiries against one store *)
Record hcase : Type := {
  h_ck : checker; h_table : list (pstr * rx); h_pols : list (option policy); h_inqs : list inquiry }.

Definition run_history (c : hcase) : string :=
  match all_some (h_pols c) with
  | None => "UNMODELLED"
  | Some ps =>
      join "," (map (fun q => show_res show_bool (decide (fits (rxof_table (h_table c)) (h_ck c)) ps q)) (h_inqs c))
  end.

(* several fits calls answered by one checker instance (the model has no state: each is answered alone) *)
Definition run_fits_seq (l : list fcase) : string := join "," (map run_fits l).
