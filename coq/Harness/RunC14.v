(* RunC14: the set of outcomes of all interleavings of a small concurrent scenario. *)
From Coq Require Import ZArith NArith List Bool String.
From Vakt Require Import Base.PyMonad Base.PyVal Base.Show Model.Regex Model.Rules Model.Policy Model.Checkers
     Model.Guard Model.Store Model.Lru Model.AllowCache Model.Conc Harness.RunGuard Harness.RunC08 Harness.RunC11.
Import ListNotations.
Open Scope string_scope.

Definition kact := act (op pstr policy) N.

Record ncase : Type := {
  n_ck : checker; n_table : list (pstr * rx); n_qs : list (N * inquiry); n_cap : option nat;
  n_init : list (op pstr (option policy)); n_progs : list (list (act pmut N)) }.

Definition strip_act (a : act pmut N) : option kact :=
  match a with
  | AMut _ _ m => match strip_op m with Some m' => Some (AMut _ _ m') | None => None end
  | ADecide _ _ q => Some (ADecide _ _ q) | AInval _ _ => Some (AInval _ _)
  | ALookup _ _ q => Some (ALookup _ _ q) | ASnap _ _ q => Some (ASnap _ _ q) | AInsert _ _ q => Some (AInsert _ _ q)
  | AAsk _ _ q => Some (AAsk _ _ q)
  end.

Fixpoint strip_prog (p : list (act pmut N)) : option (list kact) :=
  match p with
  | [] => Some []
  | a :: r => match strip_act a, strip_prog r with Some a', Some r' => Some (a' :: r') | _, _ => None end
  end.
Fixpoint strip_progs (ps : list (list (act pmut N))) : option (list (list kact)) :=
  match ps with
  | [] => Some []
  | p :: r => match strip_prog p, strip_progs r with Some p', Some r' => Some (p' :: r') | _, _ => None end
  end.
Fixpoint strip_inits (l : list (op pstr (option policy))) : option (list (op pstr policy)) :=
  match l with
  | [] => Some []
  | m :: r => match strip_op m, strip_inits r with Some m', Some r' => Some (m' :: r') | _, _ => None end
  end.

Definition n_dec (c : ncase) (s : pstore) (q : N) : bool :=
  match nlookup q (n_qs c) with
  | Some inq => match decide (fits (rxof_table (n_table c)) (n_ck c)) (map snd s) inq with Ok b => b | Raise _ => false end
  | None => false
  end.

Definition show_output (o : output) : string :=
  match o with OAnswer a => show_bool a | OMutated r => if r then "raised" else "ok" end.

Definition show_store (s : pstore) : string :=
  "[" ++ join "," (map (fun kv => show_pstr (fst kv)) s) ++ "]".

Fixpoint sinsert (x : string) (l : list string) : list string :=
  match l with
  | [] => [x]
  | y :: r => if String.eqb x y then l else if String.ltb x y then x :: l else y :: sinsert x r
  end.

Definition run_ncase (c : ncase) : string :=
  match strip_inits (n_init c), strip_progs (n_progs c) with
  | Some inits, Some progs =>
      let s0 := fold_left (fun s m => fst (c_mstep Insertion s m)) inits [] in
      let sh0 := {| sh_store := s0; sh_cache := [] |} in
      let outs := map (fun sched =>
                    let (sh, ts) := exec pstore (op pstr policy) N N.eqb (c_mstep Insertion) (n_dec c) (n_cap c)
                                         sched sh0 (init_threads (op pstr policy) N progs) in
                    join ";" (map (fun t => join "," (map show_output (rev (snd t)))) ts) ++ " " ++
                    show_store (sh_store pstore N sh))
                  (schedules (op pstr policy) N progs) in
      join " ## " (fold_right sinsert [] outs)
  | _, _ => "UNMODELLED"
  end.
