(* RunC03: glue for the parser / regex-checker correspondence. *)
From Coq Require Import ZArith NArith List Bool String.
From Vakt Require Import Base.PyMonad Base.PyVal Base.Show Model.Regex Model.Parser.
Import ListNotations.
Open Scope string_scope.

Definition run_compile (c : pstr * pstr * pstr) : string :=
  let '(ph, st, en) := c in
  show_res (show_list show_nat) (get_tag_indices ph st en) ++ " " ++
  show_res show_pstr (compile_pattern ph st en).
