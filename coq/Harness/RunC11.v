(* RunC11: the cached guard over a concrete store of policies. *)
From Coq Require Import ZArith NArith List Bool String.
From Vakt Require Import Base.PyMonad Base.PyVal Base.Show Model.Regex Model.Rules Model.Policy Model.Checkers
     Model.Guard Model.Store Model.Lru Model.AllowCache Harness.RunGuard.
Import ListNotations.
Open Scope string_scope.

Definition pstore := smap pstr policy.
Definition pmut := op pstr (option policy).

Record ccase : Type := {
  cc_ck : checker; cc_table : list (pstr * rx); cc_order : order_kind;
  cc_qs : list (N * inquiry); cc_cap : option nat; cc_ops : list (cop pmut N) }.

(* a mutation carrying a policy the model cannot build (None) is marked unmodelled by the runner *)
Definition strip_op (m : pmut) : option (op pstr policy) :=
  match m with
  | Add u (Some p) b => Some (Add u p b)
  | Update u (Some p) b => Some (Update u p b)
  | Add _ None _ | Update _ None _ => None
  | Delete u => Some (Delete u)
  | Get u => Some (Get u)
  | GetAll l o => Some (GetAll l o)
  | RetrieveAll b => Some (RetrieveAll b)
  end.

Definition c_mstep (o : order_kind) (s : pstore) (m : op pstr policy) : pstore * bool :=
  let (s', x) := step pstr policy pstr_eqb pstr_ltb o s m in (s', raised pstr policy x).

Fixpoint nlookup {A} (k : N) (l : list (N * A)) : option A :=
  match l with [] => None | (k', v) :: r => if N.eqb k k' then Some v else nlookup k r end.

Definition c_dec (c : ccase) (s : pstore) (q : N) : bool :=
  match nlookup q (cc_qs c) with
  | Some inq =>
      match decide (fits (rxof_table (cc_table c)) (cc_ck c)) (map snd s) inq with Ok b => b | Raise _ => false end
  | None => false
  end.

Definition show_cout (x : cout) : string :=
  match x with
  | OMut r n => "mut raised=" ++ show_bool r ++ " n=" ++ show_nat n
  | OAsk a h sz => "ask " ++ show_bool a ++ " hit=" ++ show_bool h ++ " size=" ++ show_nat sz
  end.

Fixpoint strip_ops (l : list (cop pmut N)) : option (list (cop (op pstr policy) N)) :=
  match l with
  | [] => Some []
  | Mut m :: r => match strip_op m, strip_ops r with Some m', Some r' => Some (Mut m' :: r') | _, _ => None end
  | Ask q :: r => match strip_ops r with Some r' => Some (Ask q :: r') | None => None end
  end.

(* does some ask along the history leave the modelled universe? *)
Fixpoint unmodelled_ask (c : ccase) (s : pstore) (ops : list (cop (op pstr policy) N)) : bool :=
  match ops with
  | [] => false
  | Mut m :: r => unmodelled_ask c (fst (c_mstep (cc_order c) s m)) r
  | Ask q :: r =>
      match nlookup q (cc_qs c) with
      | Some inq =>
          match decide (fits (rxof_table (cc_table c)) (cc_ck c)) (map snd s) inq with
          | Raise EUnmodelled => true
          | _ => unmodelled_ask c s r
          end
      | None => true
      end
  end.

Definition run_ccase (c : ccase) : string :=
  match strip_ops (cc_ops c) with
  | None => "UNMODELLED"
  | Some ops =>
      if unmodelled_ask c [] ops then "UNMODELLED" else
      join " | " (map show_cout
        (crun pstore (op pstr policy) N N.eqb (c_mstep (cc_order c)) (c_dec c) (cc_cap c)
              {| c_store := []; c_cache := [] |} ops))
  end.
