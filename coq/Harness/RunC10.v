(* RunC10: glue evaluated by the correspondence check of C10. *)
From Coq Require Import ZArith NArith List Bool String.
From Vakt Require Import Base.PyMonad Base.PyVal Base.Show Model.Rules Model.Policy Harness.ShowModel.
Import ListNotations.
Open Scope string_scope.

Record case : Type := { cargs : ctor_args; ops : list (pstr * aval) }.

(* the pseudo-attribute "@json": the policy is serialised (to_json) at this point of the history *)
Definition n_json : pstr := [64; 106; 115; 111; 110]%N.

Fixpoint run_ops (s : pstate) (ops : list (pstr * aval)) : list string :=
  match ops with
  | [] => []
  | (n, v) :: r =>
      if pstr_eqb n n_json then ("ok " ++ show_pstate (data_of s)) :: run_ops (data_of s) r else
      match setattr s n v with
      | Ok s' => ("ok " ++ show_pstate s') :: run_ops s' r
      | Raise e => (show_exn e ++ " " ++ show_pstate s) :: run_ops s r
      end
  end.

Definition run (c : case) : string :=
  match ctor (cargs c) with
  | Raise e => show_exn e
  | Ok s => join " | " (("ok " ++ show_pstate s) :: run_ops s (ops c))
  end.
