(* RunC05: glue evaluated by the correspondence checks of C05 (operators, rules, regexes). *)
From Coq Require Import ZArith NArith List Bool String.
From Vakt Require Import Base.PyMonad Base.PyVal Base.Show Model.Regex Model.Net Model.Rules Harness.ShowModel.
Import ListNotations.
Open Scope string_scope.

(* ---- Python operators ---- *)
Definition run_ops (ab : val * val) : string :=
  let (a, b) := ab in
  join " " [ show_bool (py_eq a b); show_bool (py_eq b a);
             show_res show_bool (py_lt a b); show_res show_bool (py_le a b);
             show_res show_bool (py_lt b a); show_res show_bool (py_le b a);
             show_bool (truthy a); show_bool (hashable a);
             match a with VStr s => show_pstr (lower s) | _ => "-" end;
             match str_of a with Ok s => show_pstr s | Raise _ => "-" end;
             show_res show_bool (py_in_set a [b; VInt 1%Z; VStr [97%N]]);
             match b with VList l => show_bool (py_in_list a l) | _ => "-" end ].

(* ---- rules ---- *)
Record rcase : Type := { rc_rule : rule; rc_what : val; rc_inq : option inquiry }.
Definition run_rule (c : rcase) : string :=
  show_res show_val (sat (rc_rule c) (rc_what c) (rc_inq c)).

(* ---- regexes: printer, full match, prefix match ---- *)
Definition run_rx (c : rx * pstr) : string :=
  let (r, s) := c in
  join " " [ show_pstr (show_py r); show_bool (rmatch r s); show_bool (rmatch_prefix r s) ].

(* ---- ip parsing ---- *)
Definition show_ip (a : ipaddr) : string :=
  match a with IP4 x => "4:" ++ show_N x | IP6 x => "6:" ++ show_N x end.
Definition show_net (n : ipnet) : string :=
  (if net_v6 n then "6:" else "4:") ++ show_N (net_addr n) ++ "/" ++ show_N (net_len n).
Definition run_ip (s : pstr) : string :=
  join " " [ show_res (show_option show_ip) (parse_ip s); show_res (show_option show_net) (parse_net s) ].

(* one rule object evaluated on a sequence of operands *)
Record rscase : Type := { rs_rule : rule; rs_whats : list val; rs_inq : option inquiry }.
Definition run_rule_seq (c : rscase) : string :=
  join "," (map (fun w => show_res show_val (sat (rs_rule c) w (rs_inq c))) (rs_whats c)).
