(* RunC19: Mongo data migrations on collections of documents. *)
From Coq Require Import ZArith NArith List Bool String.
From Vakt Require Import Base.PyMonad Base.PyVal Base.Show Model.Inquiry Model.MongoMig.
Import ListNotations.
Open Scope string_scope.

Record mgcase : Type := { mg_coll : list (list (pstr * val)); mg_steps : list mstep }.

Definition show_doc (d : doc) : string := show_val (norm (VDict d)).
Definition show_uid (d : doc) : string := show_option show_val (lookup k_uid d).

Definition run_mg (c : mgcase) : string :=
  let (coll', failed) := run_steps (mg_coll c) (mg_steps c) in
  join " | " (map (fun f => "failed=[" ++ join "," (map show_uid f) ++ "]") failed) ++
  " || " ++ join " ;; " (map show_doc coll').
