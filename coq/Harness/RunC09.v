(* RunC09: probes of one policy under the four checkers; Policy.from_json on parsed properties. *)
From Coq Require Import ZArith NArith List Bool String.
From Vakt Require Import Base.PyMonad Base.PyVal Base.Show Model.Regex Model.Rules Model.Policy Model.Checkers
     Model.Guard Harness.ShowModel Harness.RunGuard.
Import ListNotations.
Open Scope string_scope.

Record pcase : Type := { pc_table : list (pstr * rx); pc_pol : option policy; pc_probes : list inquiry }.

Definition show_ptype (t : ptype) : string := match t with StringBased => "1" | RuleBased => "2" end.

Definition run_pcase (c : pcase) : string :=
  match pc_pol c with
  | None => "UNMODELLED"
  | Some p =>
      "uid=" ++ show_val (p_uid p) ++ " allow=" ++ show_bool (allow_access p) ++
      " desc=" ++ show_val (p_description p) ++ " type=" ++ show_ptype (p_type p) ++
      " ctx=" ++ join "," (map (fun kr => show_pstr (fst kr)) (p_context p)) ++ " | " ++
      join " | " (map (fun ck =>
        join "," (map (fun q => show_res show_bool (matches (fits (rxof_table (pc_table c)) ck) q p)) (pc_probes c)))
        [CRegex; CExact; CFuzzy; CRules])
  end.

Definition run_doc (props : list (pstr * aval)) : string :=
  match from_props props with
  | Ok s => "ok " ++ show_pstate s
  | Raise e => show_exn e
  end.
