(* RunC09: probes of one policy under the four checkers; Policy.from_json on parsed properties. *)
From Coq Require Import ZArith NArith List Bool String.
From Vakt Require Import Base.PyMonad Base.PyVal Base.Show Model.Regex Model.Rules Model.Policy Model.Checkers
     Model.Guard Model.RuleJson Model.PolicyDoc Harness.ShowModel Harness.RunGuard Harness.RunC10.
Import ListNotations.
Open Scope string_scope.

Record pcase : Type := { pc_table : list (pstr * rx); pc_pol : option policy; pc_probes : list inquiry }.

Definition show_ptype (t : ptype) : string := match t with StringBased => "1" | RuleBased => "2" end.

Definition run_pcase (c : pcase) : string :=
  match pc_pol c with
  | None => "UNMODELLED"
  | Some p =>
      "uid=" ++ show_val (p_uid p) ++ " allow=" ++ show_bool (allow_access p) ++
      " desc=" ++ show_val (p_description p) ++ " type=" ++ show_ptype (p_type p) ++
      " ctx=" ++ join "," (map (fun kr => show_pstr (fst kr)) (p_context p)) ++ " | " ++
      join " | " (map (fun ck =>
        join "," (map (fun q => show_res show_bool (matches (fits (rxof_table (pc_table c)) ck) q p)) (pc_probes c)))
        [CRegex; CExact; CFuzzy; CRules])
  end.

Definition run_doc (props : list (pstr * aval)) : string :=
  match from_props props with
  | Ok s => "ok " ++ show_pstate s
  | Raise e => show_exn e
  end.

(* ---- the stored structure of a rule (Model.RuleJson) ---- *)
Fixpoint show_rule_full (r : rule) : string :=
  let vals d := "[" ++ join "," (map show_val d) ++ "]" in
  let members := (fix go (l : list rule) : list string :=
                    match l with [] => [] | x :: t => show_rule_full x :: go t end) in
  match r with
  | REq a | RNotEq a | RGreater a | RLess a | RGreaterOrEqual a | RLessOrEqual a =>
      rule_name r ++ "(val=" ++ show_val a ++ ")"
  | RIn d | RNotIn d | RAllIn d | RAllNotIn d | RAnyIn d | RAnyNotIn d => rule_name r ++ "(data=" ++ vals d ++ ")"
  | RAnd rs | ROr rs => rule_name r ++ "(rules=" ++ join ";" (members rs) ++ ")"
  | RNot x => "Not(rule=" ++ show_rule_full x ++ ")"
  | REqual s ci | RStartsWith s ci | REndsWith s ci | RContains s ci =>
      rule_name r ++ "(ci=" ++ show_bool ci ++ ";val=" ++ show_pstr s ++ ")"
  | RCIDR c => "CIDR(cidr=" ++ show_val c ++ ")"
  | RMatch _ a => rule_name r ++ "(attribute=" ++ match a with Some s => show_pstr s | None => "N" end ++ ")"
  | _ => rule_name r ++ "()"
  end.

Inductive ccase : Type :=
| CEnc (r : rule)                (* encode, then decode what was encoded *)
| CDec (fuel : nat) (v : val).   (* decode a given structure *)

Definition run_codec (c : ccase) : string :=
  match c with
  | CEnc r =>
      match rule_val r with
      | None => "UNMODELLED"
      | Some v => show_val v ++ " => " ++
                  match rule_of_val (rdepth r) v with Some r' => show_rule_full r' | None => "NONE" end
      end
  | CDec f v => match rule_of_val f v with Some r => show_rule_full r | None => "UNMODELLED" end
  end.

(* ---- a policy written with to_json (Policy._data) and read with Policy.from_json ---- *)
Definition run_pjson (c : RunC10.case) : string :=
  match ctor (cargs c) with
  | Raise e => show_exn e
  | Ok s =>
      let s' := fold_left try_setattr (RunC10.ops c) s in
      show_pstate (data_of s') ++ " / " ++ show_res show_pstate (from_props (data_of s'))
  end.

(* ---- the JSON document of a written policy (Model.PolicyDoc) ---- *)
Definition run_pdoc (c : RunC10.case) : string :=
  match ctor (cargs c) with
  | Raise e => show_exn e
  | Ok s =>
      let w := data_of (fold_left try_setattr (RunC10.ops c) s) in
      if canon_state w then
        match policy_doc w with
        | Some d => show_val d ++ " => " ++ show_res show_pstate (read_doc (state_depth w) d)
        | None => "UNMODELLED"
        end
      else "UNMODELLED"
  end.
