(* ShowModel: canonical rendering of model objects (rules, policies, states). *)
From Coq Require Import ZArith NArith List Bool String.
From Vakt Require Import Base.PyMonad Base.PyVal Base.Show Model.Regex Model.Rules Model.Policy.
Import ListNotations.
Open Scope string_scope.

Definition rule_name (r : rule) : string :=
  match r with
  | REq _ => "Eq" | RNotEq _ => "NotEq" | RGreater _ => "Greater" | RLess _ => "Less"
  | RGreaterOrEqual _ => "GreaterOrEqual" | RLessOrEqual _ => "LessOrEqual"
  | RIn _ => "In" | RNotIn _ => "NotIn" | RAllIn _ => "AllIn" | RAllNotIn _ => "AllNotIn"
  | RAnyIn _ => "AnyIn" | RAnyNotIn _ => "AnyNotIn"
  | RTruthy => "Truthy" | RFalsy => "Falsy" | RAnd _ => "And" | ROr _ => "Or" | RNot _ => "Not"
  | RAny => "Any" | RNeither => "Neither"
  | REqual _ _ => "Equal" | RPairsEqual => "PairsEqual" | RRegexMatch _ => "RegexMatch"
  | RStartsWith _ _ => "StartsWith" | REndsWith _ _ => "EndsWith" | RContains _ _ => "Contains"
  | RCIDR _ => "CIDR"
  | RMatch FSubject _ => "SubjectMatch" | RMatch FAction _ => "ActionMatch"
  | RMatch FResource _ => "ResourceMatch"
  | RSubjectEqual => "SubjectEqual" | RActionEqual => "ActionEqual" | RResourceIn => "ResourceIn"
  | RBroken _ => "Broken" | RConst _ => "Const" | RJunk => "J"
  end.

Definition show_kvs_names (kvs : list (pstr * rule)) : string :=
  "{" ++ join "," (map (fun kr => show_pstr (fst kr) ++ ":" ++ rule_name (snd kr)) kvs) ++ "}".

Definition show_elemv (e : elemv) : string :=
  match e with
  | XStr s => show_pstr s
  | XRule r => "R:" ++ rule_name r
  | XDict kvs => "D" ++ show_kvs_names kvs
  | XBad v => "B:" ++ show_val v
  end.

Definition show_aval (a : aval) : string :=
  match a with
  | AV v => show_val v
  | ASeq false es => "[" ++ join "," (map show_elemv es) ++ "]"
  | ASeq true es => "(" ++ join "," (map show_elemv es) ++ ")"
  | ACtx kvs => "C" ++ show_kvs_names kvs
  end.

Definition show_pstate (s : pstate) : string :=
  join ";" (map (fun na => show_pstr (fst na) ++ "=" ++ show_aval (snd na)) s).

Definition show_elem (e : elem) : string :=
  match e with
  | EStr s => show_pstr s
  | ERule r => "R:" ++ rule_name r
  | EDict kvs => "D" ++ show_kvs_names kvs
  end.
