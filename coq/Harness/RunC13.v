(* RunC13: glue for the Inquiry equality / hash correspondence. *)
From Coq Require Import ZArith NArith List Bool String.
From Vakt Require Import Base.PyMonad Base.PyVal Base.Show Model.Rules Model.Inquiry.
Import ListNotations.
Open Scope string_scope.

Definition run_pair (ab : inquiry * inquiry) : string :=
  let (a, b) := ab in
  join " " [ show_bool (inq_eq a b); show_Z (inq_hash a); show_Z (inq_hash b);
             str_of_pstr_ascii (canon a); "##"; str_of_pstr_ascii (canon b) ].
