"""Seeded structured generators (all randomness comes from the rng passed in)."""
from .specs import jv

ASCII_LOW = 'abcxyz'
ASCII_UP = 'ABCXYZ'
DIGITS = '0123456789'
PUNCT = ' .:-_/%\\\'"+*?()[]{}|^$<>#&~,;=@!'
# non-ASCII characters on which Base/PyVal.v `lower_cp` is CPython's str.lower (checked at import)
UNI = ['é', 'É', 'ß', '×', '÷', 'Ж', 'ж', 'Ё', 'ё', '中',
       '\U0001f600', 'ÿ', 'Þ', 'þ', 'А', 'я', 'Я',
       # combining marks: text that is not in a Unicode normal form (code points are what is compared, never a
       # normalised form)
       '\u0301', '\u0308']


def _model_lower(c):
    o = ord(c)
    if 65 <= o <= 90:
        return chr(o + 32)
    if 192 <= o <= 222 and o != 215:
        return chr(o + 32)
    if 1040 <= o <= 1071:
        return chr(o + 32)
    if 1024 <= o <= 1039:
        return chr(o + 80)
    return c


for _c in list(ASCII_LOW + ASCII_UP + DIGITS + PUNCT) + UNI + ['\n', '\t']:
    assert _c.lower() == _model_lower(_c), repr(_c)


def model_safe(t):
    return all(c.lower() == _model_lower(c) and len(c.lower()) == 1 for c in t)


def up(t):
    u = t.upper()
    return u if model_safe(u) else t


def char(rng, alphabet=None):
    if alphabet:
        return rng.choice(alphabet)
    r = rng.random()
    if r < 0.45:
        return rng.choice(ASCII_LOW)
    if r < 0.6:
        return rng.choice(ASCII_UP)
    if r < 0.7:
        return rng.choice(DIGITS)
    if r < 0.85:
        return rng.choice(PUNCT)
    if r < 0.9:
        return rng.choice('\n\t')
    return rng.choice(UNI)


def string(rng, maxlen=6, alphabet=None):
    n = rng.choice([0, 1, 1, 2, 2, 3, 3, 4, maxlen])
    return ''.join(char(rng, alphabet) for _ in range(n))


WORDS = ['', 'a', 'b', 'ab', 'abc', 'Abc', 'ABC', 'get', 'Get', 'post', 'Max', 'max', 'admin', 'x', '1', '10',
         'books:1', 'Жук', 'жук', 'café', 'CAFÉ', 'a b', 'a\n', '%', '_', 'a%', 'a_c', 'a+b',
         # letters whose case FOLDING differs from their lower case (ß -> ss, ſ -> s, ς -> σ): lower() is what is compared
         'ß', 'straße', 'Maß', 'ſt', 'ς']
assert all(model_safe(w) for w in WORDS)


def word(rng):
    if rng.random() < 0.7:
        return rng.choice(WORDS)
    return string(rng)


def number(rng):
    r = rng.random()
    if r < 0.5:
        return rng.choice([0, 1, -1, 2, 3, 5, 10, 50, 100, -7, 255, 2 ** 40, -2 ** 70])
    if r < 0.6:
        return rng.choice([True, False])
    return rng.choice([0.0, 1.0, -1.0, 0.5, 1.5, 2.25, 50.0, 50.125, -0.75, 100.0, 3.0, 1e10, 2.0 ** -5])


def scalar(rng):
    r = rng.random()
    if r < 0.08:
        return None
    if r < 0.5:
        return number(rng)
    return word(rng)


def hashable(rng, depth=1):
    if depth > 0 and rng.random() < 0.15:
        return tuple(hashable(rng, depth - 1) for _ in range(rng.randint(0, 3)))
    return scalar(rng)


def value(rng, depth=2):
    """python value of the modelled universe"""
    r = rng.random()
    if depth <= 0 or r < 0.55:
        return scalar(rng)
    if r < 0.75:
        return [value(rng, depth - 1) for _ in range(rng.randint(0, 3))]
    if r < 0.85:
        return tuple(value(rng, depth - 1) for _ in range(rng.randint(0, 3)))
    d = {}
    for _ in range(rng.randint(0, 3)):
        d[rng.choice(['a', 'b', 'name', 'role', 'id', 'k', 'ip', 'ж'])] = value(rng, depth - 1)
    return d


def related(rng, v, depth=2):
    """a value likely to be ==, <, or almost equal to v"""
    r = rng.random()
    if r < 0.35:
        return v
    if isinstance(v, bool):
        return rng.choice([int(v), float(v), not v])
    if isinstance(v, int):
        return rng.choice([v + 1, v - 1, float(v) if abs(v) < 2 ** 50 else v, v, -v])
    if isinstance(v, float):
        return rng.choice([v + 0.5, v - 0.25, int(v) if v == int(v) else v, v])
    if isinstance(v, str):
        return rng.choice([v + 'a', v[:-1], up(v), v.lower(), v, 'a' + v])
    if isinstance(v, list):
        if v and rng.random() < 0.5:
            w = list(v)
            i = rng.randrange(len(w))
            w[i] = related(rng, w[i], depth - 1)
            return w
        return rng.choice([v + [scalar(rng)], v[:-1], tuple(v)])
    if isinstance(v, tuple):
        return rng.choice([v + (scalar(rng),), v[:-1], list(v)])
    if isinstance(v, dict):
        w = dict(v)
        if w and rng.random() < 0.5:
            k = rng.choice(list(w))
            w[k] = related(rng, w[k], depth - 1)
        elif w:
            items = list(w.items())
            rng.shuffle(items)
            w = dict(items)
        else:
            w['a'] = 1
        return w
    return value(rng, depth)


# ---------------- regexes ----------------

def rx(rng, depth=2, alphabet='abc<>\n.é'):
    r = rng.random()
    if depth <= 0 or r < 0.35:
        k = rng.random()
        if k < 0.6:
            return ['chr', ord(rng.choice(alphabet))]
        if k < 0.75:
            return ['dot']
        if k < 0.95:
            lo = ord(rng.choice('abc0'))
            return ['cls', rng.random() < 0.25, [[lo, lo + rng.randint(0, 3)]]]
        return ['eps']
    if r < 0.6:
        return ['cat', rx(rng, depth - 1, alphabet), rx(rng, depth - 1, alphabet)]
    if r < 0.75:
        return ['alt', rx(rng, depth - 1, alphabet), rx(rng, depth - 1, alphabet)]
    return [rng.choice(['star', 'plus', 'opt']), rx(rng, depth - 1, alphabet)]


def rx_sample(rng, r, limit=4):
    """a string in (or near) the language of r"""
    k = r[0]
    if k == 'emp':
        return 'x'
    if k == 'eps':
        return ''
    if k == 'chr':
        return chr(r[1])
    if k == 'dot':
        return rng.choice('abz<')
    if k == 'cls':
        lo, hi = r[2][0]
        c = chr(rng.randint(lo, hi))
        return c if not r[1] else rng.choice('zq\n')
    if k == 'cat':
        return rx_sample(rng, r[1], limit) + rx_sample(rng, r[2], limit)
    if k == 'alt':
        return rx_sample(rng, rng.choice([r[1], r[2]]), limit)
    if k == 'star':
        return ''.join(rx_sample(rng, r[1], limit) for _ in range(rng.randint(0, 2)))
    if k == 'plus':
        return ''.join(rx_sample(rng, r[1], limit) for _ in range(rng.randint(1, 2)))
    if k == 'opt':
        return rx_sample(rng, r[1], limit) if rng.random() < 0.5 else ''
    raise ValueError(r)


def mutate_str(rng, s, alphabet='abc<>\n'):
    r = rng.random()
    if r < 0.3:
        return s
    if r < 0.45:
        return s + '\n'
    if r < 0.6:
        return s + rng.choice(alphabet)
    if r < 0.7:
        return rng.choice(alphabet) + s
    if r < 0.85 and s:
        i = rng.randrange(len(s))
        return s[:i] + s[i + 1:]
    if s:
        i = rng.randrange(len(s))
        return s[:i] + rng.choice(alphabet) + s[i + 1:]
    return rng.choice(alphabet)


# ---------------- rules ----------------

IPS = ['192.168.2.56', '192.168.2.0', '10.0.0.1', '255.255.255.255', '0.0.0.0', '1.2.3', '1.2.3.4.5', '256.1.1.1',
       '01.2.3.4', '1.2.3.04', ' 1.2.3.4', '::1', '::', '2001:db8::1', '2001:db8:0:0:0:0:0:1', 'fe80::1:2',
       '1::2::3', ':1:2', '12345::', 'g::1', '1:2:3:4:5:6:7:8', '1:2:3:4:5:6:7', '1:2:3:4:5:6:7:8:9', '::ffff:1',
       'abc', '', '1:2:3:4:5:6:7::', '::2:3:4:5:6:7:8', '1::8', 'A:b::C']
NETS = ['192.168.2.0/24', '192.168.2.0/28', '0.0.0.0/0', '10.0.0.0/8', '192.168.2.56/32', '192.168.2.56',
        '192.168.2.56/24', '10.0.0.1/33', '2', '::/0', '2001:db8::/32', '2001:db8::1/128', '2001:db8::1/64',
        '::1', 'fe80::/10', '1.2.3.4/5/6', '1.2.3.0/024', '2001:db8::/129', 'x/8', '/8', '10.0.0.0/08']


def rule(rng, depth=2, inquiry_rules=True, raising=True):
    """rule spec tree"""
    r = rng.random()
    if depth > 0 and r < 0.3:
        k = rng.choice(['And', 'Or', 'Not', 'And', 'Or'])
        if k == 'Not':
            return ['Not', rule(rng, depth - 1, inquiry_rules, raising)]
        return [k, [rule(rng, depth - 1, inquiry_rules, raising) for _ in range(rng.choice([0, 1, 2, 2, 3]))]]
    kinds = ['op'] * 6 + ['list'] * 5 + ['logic'] * 3 + ['str'] * 5 + ['regex', 'cidr', 'pairs']
    if inquiry_rules:
        kinds += ['inq'] * 4
    if raising:
        kinds += ['custom']
    k = rng.choice(kinds)
    if k == 'op':
        name = rng.choice(['Eq', 'NotEq', 'Greater', 'Less', 'GreaterOrEqual', 'LessOrEqual'])
        return [name, jv(value(rng, 1))]
    if k == 'list':
        name = rng.choice(['In', 'NotIn', 'AllIn', 'AllNotIn', 'AnyIn', 'AnyNotIn'])
        return [name, [jv(hashable(rng)) for _ in range(rng.randint(0, 4))]]
    if k == 'logic':
        return [rng.choice(['Truthy', 'Falsy', 'Any', 'Neither'])]
    if k == 'str':
        name = rng.choice(['Equal', 'StartsWith', 'EndsWith', 'Contains', 'StringEqualRule'])
        return [name, word(rng), rng.random() < 0.5]
    if k == 'regex':
        return [rng.choice(['RegexMatch', 'RegexMatch', 'RegexMatchRule']), rx(rng, 2, 'abc1.')]
    if k == 'cidr':
        return [rng.choice(['CIDR', 'CIDR', 'CIDRRule']), rng.choice(NETS)]
    if k == 'pairs':
        return [rng.choice(['PairsEqual', 'StringPairsEqualRule'])]
    if k == 'inq':
        name = rng.choice(['SubjectMatch', 'ActionMatch', 'ResourceMatch', 'SubjectEqual', 'ActionEqual',
                           'ResourceIn'])
        if name.endswith('Match'):
            return [name, rng.choice([None, None, 'a', 'name', 'id'])]
        return [name]
    if k == 'custom':
        if rng.random() < 0.5:
            return ['Broken', rng.choice(['ValueError', 'KeyError', 'Exception', 'Custom1', 'TypeError', 'StopIteration',
                                           'LookupError', 'ZeroDivisionError', 'RecursionError', 'MemoryError',
                                           'OSError', 'AssertionError', 'NotImplementedError', 'UnicodeError'])]
        return ['Const', jv(rng.choice([None, 0, 1, '', 'x', [], [0], True, False]))]
    raise AssertionError(k)


def operand_for(rng, r):
    """an operand value that exercises rule spec r"""
    k = r[0]
    if k in ('Eq', 'NotEq', 'Greater', 'Less', 'GreaterOrEqual', 'LessOrEqual'):
        from .specs import py
        return related(rng, py(r[1]))
    if k in ('In', 'NotIn'):
        from .specs import py
        if r[1] and rng.random() < 0.6:
            return related(rng, py(rng.choice(r[1])))
        return value(rng, 1)
    if k in ('AllIn', 'AllNotIn', 'AnyIn', 'AnyNotIn'):
        from .specs import py
        if rng.random() < 0.85:
            pool = [py(x) for x in r[1]] + [scalar(rng), scalar(rng)]
            out = [rng.choice(pool) for _ in range(rng.randint(0, 3))]
            if rng.random() < 0.1:
                out.append([1])
            return out
        return value(rng, 1)
    if k in ('Equal', 'StartsWith', 'EndsWith', 'Contains', 'StringEqualRule'):
        s = r[1]
        if rng.random() < 0.85:
            t = rng.choice([s, up(s), s.lower(), s + word(rng), word(rng) + s, word(rng) + s + word(rng), s[:-1]])
            return t
        return value(rng, 1)
    if k in ('RegexMatch', 'RegexMatchRule'):
        if rng.random() < 0.85:
            return mutate_str(rng, rx_sample(rng, r[1]), 'abc1\n')
        return rng.choice([None, True, 12, 'abc'])
    if k in ('CIDR', 'CIDRRule'):
        if rng.random() < 0.9:
            return rng.choice(IPS)
        return value(rng, 1)
    if k in ('PairsEqual', 'StringPairsEqualRule'):
        if rng.random() < 0.8:
            out = []
            for _ in range(rng.randint(0, 3)):
                a = word(rng)
                p = rng.choice([[a, a], (a, a), [a, word(rng)], [a, a, a], [1, 1], ['1', 1], 'aa', 'ab', [a],
                                [scalar(rng), scalar(rng)]])
                out.append(p)
            return out
        return value(rng, 2)
    if k in ('And', 'Or'):
        if r[1]:
            return operand_for(rng, rng.choice(r[1]))
        return value(rng, 1)
    if k == 'Not':
        return operand_for(rng, r[1])
    return value(rng, 2)


# ---------------- policies / inquiries / scenarios ----------------

EFFECTS = ['allow'] * 12 + ['deny'] * 4 + ['ALLOW', None, '', 0, 'Allow ', 'allow\n', 1, True, 'a', 'all', 'low', 'allo', 'llo']
LIT_ALPHA = 'ab:/.+$ xée\u0301'     # e + U+0301: decomposed text must stay as written


def str_element(rng, tags=('<', '>'), max_segs=2, unbalanced=True):
    """-> (element text, [(segment source, rx)], a value that should match (or None))"""
    st, en = tags
    r = rng.random()
    if unbalanced and r < 0.06:
        e = rng.choice([st + 'a', 'a' + en, st + st + 'a' + en, 'a' + en + st, st, en, en + st,
                        en + 'a' + st, 'a' + en + 'b' + st, en + 'get' + st, en + en + 'a' + st + st,
                        en + 'a' + st + st + 'a' + en])
        # the value aimed at it is its own text: what a scanner that lets the element through would match literally
        return e, [], (e if rng.random() < 0.7 else None)
    nseg = rng.choice([0, 0, 0, 1, 1, 2][:3 + 3 * (max_segs > 0)] if max_segs < 2 else [0, 0, 0, 1, 1, 1, 2, 2, 3])
    nseg = min(nseg, max_segs)
    text, table, sample = '', [], ''
    for k in range(nseg + 1):
        lit = ''.join(rng.choice(LIT_ALPHA) for _ in range(rng.choice([0, 0, 1, 2, 3])))
        if nseg == 0 and not lit:
            lit = rng.choice(['get', 'a', 'Max', 'x', ''])
        text += lit
        sample += lit
        if k < nseg:
            x = rx(rng, rng.choice([0, 1, 2]), 'abc1')
            src = _rx_show(x)
            if rng.random() < 0.15:
                # nested delimiters inside a segment (balanced): a char class containing both tags
                x = ['cat', x, ['opt', ['cat', ['chr', ord(st)], ['chr', ord(en)]]]] if len(st) == 1 and len(en) == 1 and st != en else x
                src = _rx_show(x)
            text += st + src + en
            table.append([src, x])
            sample += rx_sample(rng, x)
    return text, table, sample


def _rx_show(x):
    from .specs import rx_show
    return rx_show(x)


def string_policy(rng, uid, tags=('<', '>'), max_segs=2, wrapped=True, unbalanced=True, raising=True):
    table = []
    samples = {}
    fields = {}
    for f in ('subjects', 'resources', 'actions'):
        els = []
        smp = []
        for _ in range(rng.choice([0] + [1] * 12 + [2] * 5 + [3])):
            if wrapped and rng.random() < 0.12:
                w = rng.choice(['a', 'get', 'Max', ''])
                e, t, s = tags[0] + w + tags[1], [[w, rx_of_literal(w)]], w
            else:
                e, t, s = str_element(rng, tags, max_segs, unbalanced)
            els.append(['s', e])
            table += t
            stripped = e[1:-1] if (e and e[0] == tags[0] and e[-1] == tags[1]) else e
            i0 = rng.randint(0, len(stripped))
            smp.append({'CRegex': s, 'CExact': stripped, 'CFuzzy': stripped[i0:rng.randint(i0, len(stripped))],
                        'CRules': s})
        fields[f] = els
        samples[f] = smp
    ctx, ctx_samples = context_spec(rng, raising)
    p = {'uid': uid, 'effect': rng.choice(EFFECTS), 'subjects': fields['subjects'], 'resources': fields['resources'],
         'actions': fields['actions'], 'context': ctx, 'description': rng.choice([None, 'd%s' % uid, 'é']),
         'tags': list(tags)}
    return p, table, samples, ctx_samples


def rx_of_literal(w):
    """regex AST denoting exactly the literal w, the way re reads the source text w (no metacharacters in w)"""
    if not w:
        return ['eps']
    out = ['chr', ord(w[-1])]
    for c in reversed(w[:-1]):
        out = ['cat', ['chr', ord(c)], out]
    return out


def sat_rule(rng, depth, raising=True, inquiry_rules=True):
    """(rule spec, operand) where the operand most likely satisfies the rule"""
    from .specs import mk_rule
    r = v = None
    for _ in range(4):
        r = rule(rng, depth, inquiry_rules=inquiry_rules, raising=raising)
        v = satisfying_operand(rng, r)
        try:
            if mk_rule(r).satisfied(v, None):
                return r, v
        except Exception:  # noqa
            pass
        if rng.random() < 0.25:
            break
    return r, v


def satisfying_operand(rng, r, tries=8):
    """an operand on which the real rule is (likely) satisfied; falls back to any related operand"""
    from .specs import mk_rule, jv as _jv
    try:
        obj = mk_rule(r)
    except Exception:  # noqa
        return operand_for(rng, r)
    v = None
    for _ in range(tries):
        v = operand_for(rng, r)
        try:
            _jv(v)
            if obj.satisfied(v, None):
                return v
        except Exception:  # noqa
            pass
    return v


def context_spec(rng, raising=True):
    ctx = []
    smp = {}
    for k in rng.sample(['ip', 'k', 'name', 'ж'], rng.choice([0, 0, 0, 0, 0, 1, 1, 2])):
        if rng.random() < 0.25:
            # a key that is present with a falsy value (None, 0, '', [], False) and a rule such a value satisfies:
            # "present" must not be confused with "truthy" or "not None"
            v = rng.choice([None, None, 0, '', [], False])
            r = rng.choice([['Falsy'], ['Not', ['Truthy']], ['NotEq', 1], ['Eq', jv(v)], ['Any'],
                            ['In', [None, 0, '', False]], ['Or', [['Falsy'], ['Eq', 5]]],
                            # an attribute the inquiry's element most likely lacks, compared with a falsy value
                            [rng.choice(['SubjectMatch', 'ActionMatch', 'ResourceMatch']), rng.choice(['id', 'zz'])]])
            if isinstance(v, list) and r[0] == 'In':
                r = ['Falsy']
        else:
            r, v = sat_rule(rng, rng.choice([0, 0, 1]), raising)
        ctx.append([k, r])
        smp[k] = v
    return ctx, smp


def rule_policy(rng, uid, raising=True):
    fields = {}
    samples = {}
    for f in ('subjects', 'resources', 'actions'):
        els = []
        smp = []
        for _ in range(rng.choice([0] + [1] * 12 + [2] * 5)):
            if rng.random() < 0.5:
                r, v = sat_rule(rng, rng.choice([0, 1, 1, 2]), raising)
                els.append(['r', r])
                smp.append(v)
            else:
                kvs = []
                d = {}
                for k in rng.sample(['a', 'name', 'id', 'role'], rng.choice([0, 1, 1, 1, 1, 2, 2, 2, 3])):
                    if raising and rng.random() < 0.06:
                        kvs.append([k, ['Junk', rng.choice([1, 'x', None])]])
                        d[k] = 1
                    else:
                        r, v = sat_rule(rng, rng.choice([0, 0, 1]), raising)
                        kvs.append([k, r])
                        d[k] = v
                els.append(['d', kvs])
                if rng.random() < 0.07 and d:
                    d.pop(rng.choice(list(d)))
                if rng.random() < 0.2:
                    d['extra'] = 1
                smp.append(d if rng.random() < 0.96 else scalar(rng))
        fields[f] = els
        samples[f] = smp
    ctx, ctx_samples = context_spec(rng, raising)
    p = {'uid': uid, 'effect': rng.choice(EFFECTS), 'subjects': fields['subjects'], 'resources': fields['resources'],
         'actions': fields['actions'], 'context': ctx, 'description': rng.choice([None, 'd%s' % uid]),
         'tags': ['<', '>']}
    return p, [], samples, ctx_samples


def scenario(rng, ck, n_policies=None, tags=('<', '>'), max_segs=2, illtyped=0.03, raising=True, easy=None,
             unbalanced=True):
    """-> dict(checker, policies, inquiry, rxtable) with roughly half of (policy, inquiry) pairs matching"""
    n = n_policies if n_policies is not None else rng.choice([0, 1, 2, 2, 3, 3, 4, 5, 6])
    if easy is None:
        easy = rng.random() < 0.45
    pols, table, smps, csmps = [], [], [], []
    for k in range(n):
        rule_kind = (ck == 'CRules')
        if rng.random() < 0.15:
            rule_kind = not rule_kind
        uid = rng.choice([k + 1, 'p%d' % (k + 1)])
        if rule_kind:
            p, t, s, c = rule_policy(rng, uid, raising)
        else:
            p, t, s, c = string_policy(rng, uid, tags, max_segs, unbalanced=unbalanced, raising=raising)
        if easy:
            if rng.random() < 0.8:
                p['effect'] = 'allow'
            if rng.random() < 0.7:
                p['context'], c = [], {}
        pols.append(p)
        table += t
        smps.append(s)
        csmps.append(c)
    # siblings: copies of a policy with another effect / uid, so that several policies match at once
    if pols and rng.random() < 0.5:
        k = rng.randrange(len(pols))
        q = dict(pols[k])
        q['uid'] = 'sib%d' % len(pols)
        q['effect'] = rng.choice(EFFECTS) if not easy or rng.random() < 0.4 else 'allow'
        pols.append(q)
        smps.append(smps[k])
        csmps.append(csmps[k])
    inq = {}
    target = rng.randrange(len(pols)) if pols else None
    if pols:
        def is_rule_kind(p):
            return any(e[0] != 's' for f in ('subjects', 'resources', 'actions') for e in p[f])
        good = [i for i, p in enumerate(pols) if is_rule_kind(p) == (ck == 'CRules')]
        if good:
            target = rng.choice(good)
    for f, name in (('subjects', 'subject'), ('resources', 'resource'), ('actions', 'action')):
        v = None
        if target is not None and smps[target][f] and rng.random() < (0.99 if easy else 0.93):
            v = rng.choice(smps[target][f])
            if isinstance(v, dict) and 'CRegex' in v and 'CExact' in v:
                v = v[ck]
            if v is None:
                v = word(rng)
            if isinstance(v, str) and rng.random() < (0.02 if easy else 0.08):
                v = mutate_str(rng, v)
        elif rng.random() < 0.5:
            v = word(rng)
        else:
            v = value(rng, 1)
        if target is not None and rng.random() < 0.05:
            # the raw text of one of the policy's own string elements (delimiters included) offered as the value
            raw = [e[1] for e in pols[target][f] if e[0] == 's' and len(e[1]) <= 14]
            if raw:
                v = rng.choice(raw)
        if rng.random() < (illtyped / 4 if easy else illtyped):
            v = rng.choice([None, 5, ['a'], {'a': 1}, 2.5])
        inq[name] = jv(v)
    ctx = {}
    if target is not None:
        for k, v in csmps[target].items():
            if rng.random() < 0.93:
                ctx[k] = v
    if rng.random() < 0.3:
        ctx['extra'] = 1
    if rng.random() < 0.03:
        ctx = rng.choice([None, ['ip'], 'ctx', 7])
    inq['context'] = jv(ctx)
    return {'checker': ck, 'policies': pols, 'inquiry': inq, 'rxtable': table}
