"""Storage back-ends for the checks C07-C09, C11, C12, C15: factories, op execution, canonical rendering."""
from . import specs
from .core import s_pstr, e_pstr, e_N, e_Z, e_bool, e_list

BACKENDS = {
    'memory': 'Insertion', 'sqlite': 'SortedByUid', 'redis_pickle': 'Insertion', 'redis_json': 'Insertion',
    'mongo': 'SortedByUid',
}
INT_UIDS = {'memory', 'redis_pickle', 'redis_json'}
BAD_ADD = {'memory', 'sqlite', 'redis_pickle', 'mongo'}
BAD_UPDATE = {'sqlite', 'redis_pickle'}
COPYING = {'sqlite', 'redis_pickle', 'redis_json', 'mongo'}      # get() hands out a fresh object


class Handle:
    """a storage plus what is needed to dispose of it"""

    def __init__(self, storage, closers=(), extra=None):
        self.storage = storage
        self.closers = list(closers)
        self.extra = extra or {}

    def close(self):
        for c in self.closers:
            try:
                c()
            except Exception:  # noqa
                pass


def make_sqlite(url='sqlite://', on_connect=None):
    from sqlalchemy import create_engine, event
    from sqlalchemy.orm import sessionmaker, scoped_session
    from vakt.storage.sql import SQLStorage
    from vakt.storage.sql.model import Base
    eng = create_engine(url)
    if on_connect is not None:
        # registered before the first connection is made: an in-memory database lives in its connection
        event.listens_for(eng, 'connect')(on_connect)
    Base.metadata.create_all(eng)
    ses = scoped_session(sessionmaker(bind=eng))
    st = SQLStorage(ses)
    return Handle(st, [ses.remove, eng.dispose], {'engine': eng, 'session': ses})


def make_backend(name, mongo_version='4.2.0'):
    if name == 'memory':
        from vakt.storage.memory import MemoryStorage
        return Handle(MemoryStorage())
    if name == 'sqlite':
        return make_sqlite()
    if name in ('redis_pickle', 'redis_json'):
        from vakt.storage.redis import RedisStorage, JSONSerializer, PickleSerializer
        from .fakes.redis_fake import FakeRedis
        cl = FakeRedis()
        sr = JSONSerializer() if name == 'redis_json' else PickleSerializer()
        return Handle(RedisStorage(cl, serializer=sr), extra={'client': cl})
    if name == 'mongo':
        from vakt.storage.mongo import MongoStorage
        from .fakes.mongo_fake import FakeMongoClient
        cl = FakeMongoClient(mongo_version)
        return Handle(MongoStorage(cl, 'vakt_db'), extra={'client': cl})
    raise ValueError(name)


def uid_of(key):
    return key[1:] if key[0] == 's' else int(key[1:])


def key_of(uid):
    return 's' + uid if isinstance(uid, str) else 'i%d' % uid


def tagged_policy(key, tag, bad=None, fixed_desc=False, empty_elem=False, ctx_rule=False, no_resources=False,
                  rule_kind=False):
    from vakt.policy import Policy
    # fixed_desc: every policy of the history carries the same description, so that an update changes nothing
    # but the elements (the tag is then read off the action)
    desc = 'tX' if fixed_desc else 't%d' % tag
    if bad == 'dict_description':
        desc = {'x': 1}
    elif bad == 'lambda_description':
        desc = lambda: 0  # noqa
    uid = uid_of(key)
    if bad == 'unhashable_uid':
        uid = [uid]
    resources = ['r']
    if bad == 'unbalanced_element':
        resources = ['r', '<<r>']          # compile_regex raises InvalidPatternError while the row is being built
    # empty_elem: the empty string is a legal string element (it matches the empty value)
    subjects = ['s', ''] if empty_elem else ['s']
    if no_resources and bad != 'unbalanced_element':
        resources = []                    # an empty definition field is legal
    if bad == 'surrogate_child':
        subjects = subjects + ['x\udce9']  # a lone surrogate: the driver cannot bind it
    context = None
    if ctx_rule:
        from vakt.rules.operator import Eq
        context = {'k': Eq(tag)}          # a Rule object inside the policy (must stay one wherever the policy is kept)
    actions = ['a%d' % tag]
    if rule_kind and bad is None:
        # the same policy defined with rules instead of strings: an update may turn a string-based policy into a
        # rule-based one and back (the storage has to follow with everything it derives from the kind)
        from vakt.rules.operator import Eq
        subjects, resources, actions = [Eq(x) for x in subjects], [Eq(x) for x in resources], [Eq('a%d' % tag)]
    return Policy(uid, actions=actions, subjects=subjects, resources=resources, effect='allow', description=desc,
                  context=context)


def bad_kind(backend, op):
    if backend == 'memory':
        return 'unhashable_uid'
    if backend == 'sqlite':
        # fails when the parent row is bound / while the rows are being built / when a CHILD row is bound (the parent
        # row's INSERT has gone through by then: only a rollback removes it)
        return ('dict_description', 'unbalanced_element', 'surrogate_child')[op[2] % 3]
    if backend == 'mongo':
        return 'unbalanced_element'
    if backend == 'redis_pickle':
        return 'lambda_description'
    return None


def _ctx_ok(ctx, tagtext):
    from vakt.rules.operator import Eq
    ctx = dict(ctx)
    if ctx == {}:
        return True
    return list(ctx) == ['k'] and type(ctx['k']) is Eq and str(ctx['k'].val) == tagtext


class _View:
    """a rule-kind tagged policy seen through its Eq arguments"""

    def __init__(self, p):
        self.__dict__.update(uid=p.uid, description=p.description, effect=p.effect, context=p.context,
                             subjects=[e.val for e in p.subjects], resources=[e.val for e in p.resources],
                             actions=[e.val for e in p.actions])


def render_policy(p):
    try:
        from vakt.rules.operator import Eq
        els = list(p.subjects) + list(p.resources) + list(p.actions)
        if els and all(type(e) is Eq for e in els) and p.type == 2:
            p = _View(p)
        key = key_of(p.uid)
        d = p.description
        if d == 'tX' and len(list(p.actions)) == 1 and isinstance(p.actions[0], str) and \
                p.actions[0][:1] == 'a' and p.actions[0][1:].isdigit():
            d = 't' + p.actions[0][1:]
        if isinstance(d, str) and d.startswith('t') and list(p.actions) == ['a' + d[1:]] and \
                sorted(p.subjects) in (['s'], ['', 's']) and list(p.resources) in (['r'], []) and \
                p.effect == 'allow' and _ctx_ok(p.context, d[1:]):
            return '%s=%s' % (s_pstr(key), d[1:])
        return '%s=CORRUPT(%r,%r)' % (s_pstr(key), d, list(p.actions))
    except Exception as e:  # noqa
        return 'UNRENDERABLE(%s)' % type(e).__name__


def render_list(ps):
    return '[' + ','.join(render_policy(p) for p in ps) + ']'


def dump(st):
    try:
        return render_list(list(st.get_all(10 ** 6, 0)))
    except Exception as e:  # noqa
        return 'DUMP-FAILED(%s)' % type(e).__name__


def do_op(st, backend, op):
    """op = ['add', key, tag, bad] | ['update', key, tag, bad] | ['delete', key] | ['get', key]
            | ['get_all', limit, offset] | ['retrieve_all', batch]  -> canonical result token"""
    from vakt.exceptions import PolicyExistsError
    kind = op[0]
    fixed = len(op) > 4 and 'X' in op[4]
    empty = len(op) > 4 and 'E' in op[4]
    ctxr = len(op) > 4 and 'R' in op[4]
    nores = len(op) > 4 and 'N' in op[4]
    rkind = len(op) > 4 and 'K' in op[4]
    try:
        objs = st.__dict__.setdefault('_vf_objs', {})
    except Exception:  # noqa
        objs = {}
    try:
        if kind == 'add':
            p = tagged_policy(op[1], op[2], bad_kind(backend, op) if op[3] else None, fixed, empty, ctxr, nores, rkind)
            st.add(p)
            objs[op[1]] = p
            return 'ok'
        if kind == 'readd':
            # add the very Policy object that was handed to the last successful add/update of this key
            st.add(objs[op[1]])
            return 'ok'
        if kind == 'update':
            p = tagged_policy(op[1], op[2], bad_kind(backend, op) if op[3] else None, fixed, empty, ctxr, nores, rkind)
            st.update(p)
            objs[op[1]] = p
            return 'ok'
        if kind == 'delete':
            st.delete(uid_of(op[1]))
            return 'ok'
        if kind == 'poke':
            # read a policy and modify the object we were given, in place: a storage that hands out copies must
            # not be affected (the model treats this as a read)
            from vakt.rules.logic import Any
            p = st.get(uid_of(op[1]))
            if p is None:
                return 'get:-'
            r = render_policy(p)
            p.context['poked'] = Any()
            try:
                p.actions.append('poked')
                p.resources[0:0] = ['poked']
            except Exception:  # noqa
                pass
            return 'get:' + r.split('=', 1)[1] if r.startswith(s_pstr(op[1]) + '=') else 'get:WRONG(%s)' % r
        if kind == 'get':
            p = st.get(uid_of(op[1]))
            if p is None:
                return 'get:-'
            r = render_policy(p)
            return 'get:' + r.split('=', 1)[1] if r.startswith(s_pstr(op[1]) + '=') else 'get:WRONG(%s)' % r
        if kind == 'get_all':
            return 'list:' + render_list(list(st.get_all(op[1], op[2])))
        if kind == 'retrieve_all':
            return 'list:' + render_list(list(st.retrieve_all(op[1])))
        if kind == 'find':
            from vakt.guard import Inquiry
            found = list(st.find_for_inquiry(Inquiry(subject='s', resource='r', action='a1'), None))
            return 'find:' + render_list(sorted(found, key=lambda p: key_of(p.uid)))
    except PolicyExistsError:
        if (kind == 'add' and not op[3]) or kind == 'readd':
            return 'exists'
        return 'rejected'
    except ValueError:
        if kind in ('get_all', 'retrieve_all'):
            return 'valueerror'
        return 'rejected'
    except Exception as e:  # noqa
        if kind in ('add', 'update') and op[3]:
            return 'rejected'
        return 'E:' + type(e).__name__
    raise ValueError(op)


def e_op(op):
    kind = op[0]
    if kind == 'add':
        return '(Add %s %s %s)' % (e_pstr(op[1]), e_N(op[2]), e_bool(op[3]))
    if kind == 'readd':
        return '(Add %s %s false)' % (e_pstr(op[1]), e_N(op[2]))
    if kind == 'update':
        return '(Update %s %s %s)' % (e_pstr(op[1]), e_N(op[2]), e_bool(op[3]))
    if kind == 'delete':
        return '(Delete %s)' % e_pstr(op[1])
    if kind in ('get', 'poke'):
        return '(Get %s)' % e_pstr(op[1])
    if kind == 'get_all':
        return '(GetAll %s %s)' % (e_Z(op[1]), e_Z(op[2]))
    if kind == 'retrieve_all':
        return '(RetrieveAll %s)' % e_Z(op[1])
    if kind == 'find':
        # candidate search without a checker: everything the store holds (shown key-sorted, see RunC08.show_find)
        return '(RetrieveAll 2000)'
    raise ValueError(op)


def kind_flag(rng, flags):
    """per operation: K = the policy is handed over in its rule-based form (string-based otherwise)"""
    f = flags + ('K' if rng.random() < 0.25 else '')
    return [f] if f else []


def gen_ops(rng, backend, n, keys, allow_bad=True, mut_share=0.6, readd=True):
    """a history; returns ops; tags are unique per generated policy"""
    ops = []
    tag = 0
    present = set()
    obj = {}                       # key -> tag of the Policy object last handed to an add/update that returned
    flags = ('X' if rng.random() < 0.25 else '') + ('E' if rng.random() < 0.2 else '') + \
        ('R' if rng.random() < 0.3 else '') + ('N' if rng.random() < 0.2 else '')
    # X: a history whose updates change nothing but the elements; E: policies with an empty-string element;
    # R: policies with a Rule object in the context; N: policies with an empty resources field
    fixed = [flags] if flags else []
    for _ in range(n):
        r = rng.random()
        k = rng.choice(keys)
        if readd and obj and rng.random() < 0.07:
            k2 = rng.choice(sorted(obj))
            ops.append(['readd', k2, obj[k2]])          # the same object again
            present.add(k2)
        elif r < mut_share * 0.45:
            tag += 1
            bad = allow_bad and backend in BAD_ADD and k not in present and rng.random() < 0.15
            ops.append(['add', k, tag, bad] + kind_flag(rng, flags))
            if not bad:
                if k not in present:
                    obj[k] = tag
                present.add(k)
        elif r < mut_share * 0.75:
            tag += 1
            bad = allow_bad and backend in BAD_UPDATE and k in present and rng.random() < 0.2
            ops.append(['update', k, tag, bad] + kind_flag(rng, flags))
            if not bad:
                obj[k] = tag
        elif r < mut_share:
            ops.append(['delete', k])
            present.discard(k)
        elif r < mut_share + 0.12:
            ops.append(['poke' if (backend in COPYING and rng.random() < 0.5) else 'get', k])
        elif r < mut_share + 0.3:
            ops.append(['get_all', rng.randint(-1, len(keys) + 1), rng.randint(-1, len(keys) + 1)])
        else:
            ops.append(['retrieve_all', rng.choice([1, 1, 2, 3, 50, len(keys), 0, -1])])
    return ops


# ---------------------------------------------------------------------------------------------
# C07: all configurations a decision can be made over
# ---------------------------------------------------------------------------------------------
CONFIGS = ['memory', 'sqlite', 'sqlite_regexp', 'redis_pickle', 'redis_json', 'mongo40', 'mongo42',
           'enfold_sqlite', 'enfold_mongo42', 'observable_memory', 'observable_sqlite']


def make_config(name):
    """-> Handle whose .storage is the object a Guard is built on; .extra['direct'] the underlying backend"""
    if name in ('memory', 'sqlite', 'redis_pickle', 'redis_json'):
        h = make_backend(name)
        h.extra['direct'] = h.storage
        return h
    if name == 'sqlite_regexp':
        # "SQL storage with a regex-capable dialect": SQLite with a REGEXP function backed by Python re.search,
        # the storage told its dialect is mysql.  Exercises vakt's query construction and the stored *_regex
        # columns, not MySQL's regex engine.
        import re

        def _reg(dbapi_con, _rec):
            dbapi_con.create_function('REGEXP', 2, lambda pattern, value: value is not None and pattern is not None
                                      and re.search(pattern, value) is not None)
        h = make_sqlite(on_connect=_reg)
        h.storage.dialect = 'mysql'
        h.extra['direct'] = h.storage
        return h
    if name in ('mongo40', 'mongo42'):
        h = make_backend('mongo', '4.0.9' if name == 'mongo40' else '4.2.1')
        h.extra['direct'] = h.storage
        return h
    if name.startswith('enfold_'):
        from vakt.cache import EnfoldCache
        from vakt.storage.memory import MemoryStorage
        inner = make_config(name[len('enfold_'):])
        inner.extra['direct'] = inner.storage
        inner.extra['enfold_pending'] = True
        inner.storage_factory = lambda: EnfoldCache(inner.extra['direct'], MemoryStorage(), populate=True)
        return inner
    if name.startswith('observable_'):
        from vakt.storage.observable import ObservableMutationStorage
        inner = make_config(name[len('observable_'):])
        inner.extra['direct'] = inner.storage
        inner.storage = ObservableMutationStorage(inner.storage)
        return inner
    raise ValueError(name)


def predecessor(pol):
    """an unrelated policy of the OTHER kind under the same uid (what the uid held before an update)"""
    from vakt.policy import Policy
    from vakt.rules.operator import Eq
    strings = all(isinstance(e, str) for f in ('subjects', 'resources', 'actions') for e in getattr(pol, f))
    return Policy(pol.uid, effect='deny', description='predecessor',
                  subjects=[Eq('old-s')] if strings else ['old-s', '<old.*>'],
                  resources=[Eq('old-r'), Eq(1)] if strings else ['old-r'],
                  actions=[{'k': Eq('old-a')}] if strings else ['old-a'], context={'old': Eq(1)})


def load_policies(h, pols, via_update=False):
    """store policies in the underlying backend, then finish wrappers that populate at construction.
    via_update: every uid first holds a predecessor of the other kind and is then written with update()"""
    for p in pols:
        if via_update:
            h.extra['direct'].add(predecessor(p))
            h.extra['direct'].update(p)
        else:
            h.extra['direct'].add(p)
    if h.extra.get('enfold_pending'):
        h.storage = h.storage_factory()
        h.extra['enfold_pending'] = False
