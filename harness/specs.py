"""JSON-safe specifications of values, regexes, rules, policy elements,
policies and inquiries; builders of the real vakt objects and emitters of the
corresponding Gallina literals."""
import re as _re

from .core import e_pstr, e_val, e_list, e_bool, e_option, e_N, s_val

# ----------------------------------------------------------------------------
# values:  None | bool | int | str | [..] | {"T":[..]} | {"D":[[k,v]..]} | {"F": hex}
# ----------------------------------------------------------------------------


def jv(v):
    """python value -> JSON-safe"""
    if v is None or isinstance(v, (bool, int, str)):
        return v
    if isinstance(v, float):
        return {'F': v.hex()}
    if isinstance(v, list):
        return [jv(x) for x in v]
    if isinstance(v, tuple):
        return {'T': [jv(x) for x in v]}
    if isinstance(v, dict):
        return {'D': [[k, jv(x)] for k, x in v.items()]}
    raise TypeError(v)


def py(j):
    """JSON-safe -> python value (fresh objects)"""
    if j is None or isinstance(j, (bool, int, str, float)):
        return j
    if isinstance(j, (list, tuple)):
        return [py(x) for x in j]
    if isinstance(j, dict):
        if 'F' in j:
            return float.fromhex(j['F'])
        if 'T' in j:
            return tuple(py(x) for x in j['T'])
        if 'D' in j:
            return {k: py(x) for k, x in j['D']}
    raise TypeError(j)


def ev(j):
    return e_val(py(j))


# ----------------------------------------------------------------------------
# regexes
# ----------------------------------------------------------------------------

RE_SPECIAL = set(b'()[]{}?*+-|^$\\.&~# \t\n\r\v\f')


def re_escape_model(s):
    return ''.join('\\' + c if ord(c) in RE_SPECIAL else c for c in s)


def rx_show(r):
    """mirror of Model/Regex.v show_py"""
    k = r[0]
    if k == 'emp':
        return '[^\\s\\S]'
    if k == 'eps':
        return '(?:)'
    if k == 'chr':
        return re_escape_model(chr(r[1]))
    if k == 'cls':
        out = '[' + ('^' if r[1] else '')
        for lo, hi in r[2]:
            if lo == hi:
                out += re_escape_model(chr(lo))
            else:
                out += re_escape_model(chr(lo)) + '-' + re_escape_model(chr(hi))
        return out + ']'
    if k == 'dot':
        return '.'
    if k == 'cat':
        return rx_show(r[1]) + rx_show(r[2])
    if k == 'alt':
        return '(?:' + rx_show(r[1]) + '|' + rx_show(r[2]) + ')'
    if k == 'star':
        return '(?:' + rx_show(r[1]) + ')*'
    if k == 'plus':
        return '(?:' + rx_show(r[1]) + ')+'
    if k == 'opt':
        return '(?:' + rx_show(r[1]) + ')?'
    raise ValueError(r)


def e_rx(r):
    k = r[0]
    if k == 'emp':
        return 'Emp'
    if k == 'eps':
        return 'Eps'
    if k == 'chr':
        return '(Chr %s)' % e_N(r[1])
    if k == 'cls':
        return '(Cls %s %s)' % (e_bool(r[1]), e_list(['(%s, %s)' % (e_N(a), e_N(b)) for a, b in r[2]], '(N * N)'))
    if k == 'dot':
        return 'Dot'
    if k in ('cat', 'alt'):
        return '(%s %s %s)' % (k.capitalize(), e_rx(r[1]), e_rx(r[2]))
    if k in ('star', 'plus', 'opt'):
        return '(%s %s)' % (k.capitalize(), e_rx(r[1]))
    raise ValueError(r)


# ----------------------------------------------------------------------------
# rules
# ----------------------------------------------------------------------------

class _CustomExcs:
    cache = {}


def exc_class(name):
    """exception class for a token name: builtin, vakt, Custom<n> (Exception) or Base<n> (BaseException)"""
    import builtins
    import vakt.exceptions as vx
    if hasattr(vx, name):
        return getattr(vx, name)
    if hasattr(builtins, name):
        return getattr(builtins, name)
    if name not in _CustomExcs.cache:
        base = BaseException if name.startswith('Base') else Exception
        _CustomExcs.cache[name] = type(name, (base,), {})
    return _CustomExcs.cache[name]


def e_exn(name):
    m = _re.fullmatch(r'Custom(\d+)', name)
    if m:
        return '(ECustom %s)' % e_N(int(m.group(1)))
    m = _re.fullmatch(r'Base(\d+)', name)
    if m:
        return '(EBase %s)' % e_N(int(m.group(1)))
    extra = {'StopIteration': 901, 'StopAsyncIteration': 902, 'ArithmeticError': 903, 'ZeroDivisionError': 904,
             'LookupError': 905, 'OSError': 906, 'AssertionError': 907, 'RecursionError': 908, 'UnicodeError': 909,
             'NotImplementedError': 910, 'BufferError': 911, 'EOFError': 912, 'MemoryError': 913}
    if name in extra:
        return '(ECustom %s)' % e_N(extra[name])
    if name in ('GeneratorExit', 'KeyboardInterrupt', 'SystemExit'):
        return '(EBase %s)' % e_N({'GeneratorExit': 901, 'KeyboardInterrupt': 902, 'SystemExit': 903}[name])
    return {'TypeError': 'ETypeError', 'KeyError': 'EKeyError', 'ValueError': 'EValueError',
            'IndexError': 'EIndexError', 'AttributeError': 'EAttributeError', 'RuntimeError': 'ERuntimeError',
            'PolicyExistsError': 'EPolicyExists', 'PolicyCreationError': 'EPolicyCreation',
            'InvalidPatternError': 'EInvalidPattern', 'Irreversible': 'EIrreversible',
            'UnknownCheckerType': 'EUnknownChecker', 'Exception': 'EException'}[name]


_rule_classes = {}


def _custom_rule_classes():
    if not _rule_classes:
        from . import customrules
        _rule_classes['Broken'] = customrules.BrokenRule
        _rule_classes['Const'] = customrules.ConstRule
    return _rule_classes


OPERATOR = ['Eq', 'NotEq', 'Greater', 'Less', 'GreaterOrEqual', 'LessOrEqual']
LISTR = ['In', 'NotIn', 'AllIn', 'AllNotIn', 'AnyIn', 'AnyNotIn']
STRR = ['Equal', 'StartsWith', 'EndsWith', 'Contains']
MATCH = {'SubjectMatch': 'FSubject', 'ActionMatch': 'FAction', 'ResourceMatch': 'FResource'}
ALIASES = {'StringEqualRule': 'Equal', 'RegexMatchRule': 'RegexMatch', 'StringPairsEqualRule': 'PairsEqual',
           'CIDRRule': 'CIDR'}


def mk_rule(s):
    """spec -> real vakt object"""
    import warnings
    import vakt.rules.operator as op
    import vakt.rules.list as li
    import vakt.rules.logic as lo
    import vakt.rules.string as st
    import vakt.rules.net as net
    import vakt.rules.inquiry as iq
    k = s[0]
    if k in OPERATOR:
        return getattr(op, k)(py(s[1]))
    if k in LISTR:
        return getattr(li, k)(*[py(x) for x in s[1]])
    if k in ('Truthy', 'Falsy', 'Any', 'Neither'):
        return getattr(lo, k)()
    if k in ('And', 'Or'):
        return getattr(lo, k)(*[mk_rule(x) for x in s[1]])
    if k == 'Not':
        return lo.Not(mk_rule(s[1]))
    if k in STRR:
        return getattr(st, k)(s[1], s[2])
    if k == 'PairsEqual':
        return st.PairsEqual()
    if k == 'RegexMatch':
        return st.RegexMatch(rx_show(s[1]))
    if k == 'CIDR':
        return net.CIDR(py(s[1]))
    if k in MATCH:
        return getattr(iq, k)(s[1])
    if k in ('SubjectEqual', 'ActionEqual', 'ResourceIn'):
        return getattr(iq, k)()
    if k in ALIASES:
        with warnings.catch_warnings():
            warnings.simplefilter('ignore')
            if k == 'StringEqualRule':
                return st.StringEqualRule(s[1], s[2])
            if k == 'RegexMatchRule':
                return st.RegexMatchRule(rx_show(s[1]))
            if k == 'StringPairsEqualRule':
                return st.StringPairsEqualRule()
            if k == 'CIDRRule':
                return net.CIDRRule(py(s[1]))
    if k == 'Broken':
        return _custom_rule_classes()['Broken'](s[1])
    if k == 'Const':
        return _custom_rule_classes()['Const'](py(s[1]))
    if k == 'Junk':
        return py(s[1])
    raise ValueError(s)


def e_rule(s):
    k = ALIASES.get(s[0], s[0])
    if k in OPERATOR:
        return '(R%s %s)' % (k, ev(s[1]))
    if k in LISTR:
        return '(R%s %s)' % (k, e_list([ev(x) for x in s[1]], 'val'))
    if k in ('Truthy', 'Falsy', 'Any', 'Neither', 'PairsEqual', 'SubjectEqual', 'ActionEqual', 'ResourceIn'):
        return 'R' + k
    if k in ('And', 'Or'):
        return '(R%s %s)' % (k, e_list([e_rule(x) for x in s[1]], 'rule'))
    if k == 'Not':
        return '(RNot %s)' % e_rule(s[1])
    if k in STRR:
        return '(R%s %s %s)' % (k, e_pstr(s[1]), e_bool(s[2]))
    if k == 'RegexMatch':
        return '(RRegexMatch %s)' % e_rx(s[1])
    if k == 'CIDR':
        return '(RCIDR %s)' % ev(s[1])
    if k in MATCH:
        return '(RMatch %s %s)' % (MATCH[k], e_option(s[1], e_pstr, 'pstr'))
    if k == 'Broken':
        return '(RBroken %s)' % e_exn(s[1])
    if k == 'Const':
        return '(RConst %s)' % ev(s[1])
    if k == 'Junk':
        return 'RJunk'
    raise ValueError(s)


def s_rule(r):
    """canonical rendering of a real rule object (for snapshots): class name + vars"""
    from vakt.rules.base import Rule
    if not isinstance(r, Rule):
        return 'J'
    d = vars(r)
    parts = []
    for k in sorted(d):
        v = d[k]
        parts.append('%s=%s' % (k, s_any(v)))
    return type(r).__name__ + '(' + ';'.join(parts) + ')'


def s_any(v):
    """canonical rendering of an arbitrary attribute value, types included"""
    from vakt.rules.base import Rule
    if isinstance(v, Rule):
        return s_rule(v)
    if isinstance(v, set):
        return 'set{' + ','.join(sorted(s_any(x) for x in v)) + '}'
    if isinstance(v, (list, tuple)):
        o, c = ('[', ']') if isinstance(v, list) else ('(', ')')
        return o + ','.join(s_any(x) for x in v) + c
    if isinstance(v, dict):
        return '{' + ','.join('%s:%s' % (s_any(k), s_any(x)) for k, x in v.items()) + '}'
    if isinstance(v, _re.Pattern):
        return 're<%s>' % s_val(v.pattern)
    try:
        return s_val(v)
    except TypeError:
        return '<%s>' % type(v).__name__


# ----------------------------------------------------------------------------
# policy elements, policies, inquiries
# ----------------------------------------------------------------------------
# element spec: ["s", str] | ["r", rulespec] | ["d", [[key, rulespec]..]]

def mk_elem(e):
    if e[0] == 's':
        return e[1]
    if e[0] == 'r':
        return mk_rule(e[1])
    if e[0] == 'd':
        return {k: mk_rule(r) for k, r in e[1]}
    raise ValueError(e)


def e_ctx(kvs):
    return e_list(['(%s, %s)' % (e_pstr(k), e_rule(r)) for k, r in kvs], '(pstr * rule)')


def e_elem(e):
    if e[0] == 's':
        return '(EStr %s)' % e_pstr(e[1])
    if e[0] == 'r':
        return '(ERule %s)' % e_rule(e[1])
    if e[0] == 'd':
        return '(EDict %s)' % e_ctx(e[1])
    raise ValueError(e)


_policy_classes = {}


def policy_class(st, en):
    """Policy subclass with custom tags"""
    from vakt.policy import Policy
    if (st, en) == ('<', '>'):
        return Policy
    key = (st, en)
    if key not in _policy_classes:
        class TaggedPolicy(Policy):
            _st, _en = st, en

            @property
            def start_tag(self):
                return self._st

            @property
            def end_tag(self):
                return self._en
        TaggedPolicy.__name__ = 'TaggedPolicy'
        _policy_classes[key] = TaggedPolicy
    return _policy_classes[key]


# policy spec: dict(uid, effect, subjects, resources, actions, context=[[k, rule]..], description, tags=[st,en])

def mk_policy(p):
    cls = policy_class(*p.get('tags', ['<', '>']))
    return cls(py(p['uid']), subjects=[mk_elem(e) for e in p['subjects']], effect=py(p['effect']),
               resources=[mk_elem(e) for e in p['resources']], actions=[mk_elem(e) for e in p['actions']],
               context={k: mk_rule(r) for k, r in p['context']}, description=py(p.get('description')))


def e_policy(p):
    st, en = p.get('tags', ['<', '>'])
    return ('(mkp %s %s %s %s %s %s %s %s %s)' % (
        ev(p['uid']), ev(p['effect']),
        e_list([e_elem(e) for e in p['subjects']], 'elem'),
        e_list([e_elem(e) for e in p['resources']], 'elem'),
        e_list([e_elem(e) for e in p['actions']], 'elem'),
        e_ctx(p['context']), ev(p.get('description')), e_pstr(st), e_pstr(en)))


# inquiry spec: dict(resource, action, subject, context)  (values as passed to Inquiry(...))

def mk_inquiry(q):
    from vakt.guard import Inquiry
    return Inquiry(resource=py(q['resource']), action=py(q['action']), subject=py(q['subject']),
                   context=py(q['context']))


def e_inquiry(q):
    return '(mk_inquiry %s %s %s %s)' % (ev(q['resource']), ev(q['action']), ev(q['subject']), ev(q['context']))


CHECKERS = ['CRegex', 'CExact', 'CFuzzy', 'CRules']


def mk_checker(name, cache_size=1024):
    import vakt.checker as ck
    if name == 'CRegex':
        return ck.RegexChecker(cache_size)
    return {'CExact': ck.StringExactChecker, 'CFuzzy': ck.StringFuzzyChecker, 'CRules': ck.RulesChecker}[name]()
