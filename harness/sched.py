"""Deterministic scheduler for real threads running vakt code (C14).

Every worker thread runs under sys.settrace.  At each line event in the traced vakt files (and at each bytecode
inside vakt/storage/memory.py) the worker hands control back to the controller and waits to be granted the next
step; the controller follows an explicit schedule (a list of thread indices), so an interleaving can be
enumerated, recorded and replayed.  MemoryStorage.lock is replaced from outside by a scheduler-aware lock: a
thread that would block is reported "not enabled" instead of dead-locking the controller."""
import os
import sys
import threading

VAKT_DIR = None


def _vakt_dir():
    global VAKT_DIR
    if VAKT_DIR is None:
        import vakt
        VAKT_DIR = os.path.dirname(os.path.abspath(vakt.__file__))
    return VAKT_DIR


LINE_FILES = ('guard.py', 'cache.py', 'util.py', os.path.join('storage', 'observable.py'),
              os.path.join('storage', 'memory.py'))
OPCODE_FILES = (os.path.join('storage', 'memory.py'),)


class Deadlock(Exception):
    pass


class SchedLock:
    """replacement for threading.Lock inside MemoryStorage, cooperating with the controller"""

    def __init__(self, sched):
        self.sched = sched
        self.owner = None

    def acquire(self, blocking=True, timeout=-1):
        me = self.sched.current_worker()
        while self.owner is not None:
            if me is None:
                raise RuntimeError('lock contended outside the scheduler')
            me.blocked_on = self
            me.yield_to_controller()
        if me is not None:
            me.blocked_on = None
        self.owner = me if me is not None else 'main'
        return True

    def release(self):
        self.owner = None

    def __enter__(self):
        self.acquire()
        return self

    def __exit__(self, *a):
        self.release()
        return False

    def locked(self):
        return self.owner is not None


class Worker:
    def __init__(self, sched, idx, body):
        self.sched = sched
        self.idx = idx
        self.body = body
        self.go = threading.Semaphore(0)
        self.back = threading.Semaphore(0)
        self.done = False
        self.result = None
        self.error = None
        self.blocked_on = None
        self.steps = 0
        self.where = None
        self.thread = threading.Thread(target=self._run, daemon=True)

    def _run(self):
        self.go.acquire()
        self.sched._tls.worker = self
        sys.settrace(self._trace_call)
        try:
            self.result = self.body()
        except BaseException as e:  # noqa
            self.error = e
        finally:
            sys.settrace(None)
            self.done = True
            self.back.release()

    def _trace_call(self, frame, event, arg):
        fn = frame.f_code.co_filename
        d = _vakt_dir()
        if not fn.startswith(d):
            return None
        rel = fn[len(d) + 1:]
        if rel in LINE_FILES:
            if rel in OPCODE_FILES:
                frame.f_trace_opcodes = True
            return self._trace_local
        return None

    def _trace_local(self, frame, event, arg):
        if event == 'line' or event == 'opcode':
            self.where = (os.path.basename(frame.f_code.co_filename), frame.f_lineno, event)
            self.yield_to_controller()
        return self._trace_local

    def yield_to_controller(self):
        self.steps += 1
        self.back.release()
        self.go.acquire()

    def enabled(self):
        if self.done:
            return False
        if self.blocked_on is not None and self.blocked_on.owner is not None and self.blocked_on.owner is not self:
            return False
        return True


class Sched:
    """run `bodies` (callables) as threads under an explicit schedule"""

    def __init__(self):
        self._tls = threading.local()
        self.workers = []

    def current_worker(self):
        return getattr(self._tls, 'worker', None)

    def lock(self):
        return SchedLock(self)

    def run(self, bodies, choices, observe=None, max_steps=5000):
        """choices: list of thread indices consumed one per step while they are enabled; afterwards the default
        policy is non-preemptive (keep the running thread while it is enabled, else the lowest enabled index).
        Returns the trace: list of dict(step, chosen, enabled, where) and the workers."""
        self.workers = [Worker(self, i, b) for i, b in enumerate(bodies)]
        for w in self.workers:
            w.thread.start()
        trace = []
        current = None
        k = 0
        started = set()
        ended = {}
        while True:
            alive = [w for w in self.workers if not w.done]
            if not alive:
                break
            en = [w.idx for w in alive if w.enabled()]
            if not en:
                raise Deadlock('all live threads are blocked')
            if k < len(choices) and choices[k] in en:
                pick = choices[k]
            elif current is not None and current in en:
                pick = current
            else:
                pick = en[0]
            w = self.workers[pick]
            first = pick not in started
            started.add(pick)
            w.go.release()
            w.back.acquire()
            if w.done:
                ended[pick] = k
            trace.append({'step': k, 'chosen': pick, 'enabled': en, 'where': w.where, 'first': first,
                          'done': w.done, 'obs': observe() if observe else None})
            current = pick
            k += 1
            if k > max_steps:
                raise Deadlock('step bound exceeded')
        for w in self.workers:
            w.thread.join(timeout=5)
        return trace, self.workers


def explore(make_run, preemption_bound=2, max_runs=4000):
    """enumerate schedules by depth-first search over the choices of `make_run(choices) -> (trace, outcome)`,
    bounding the number of preemptions (switching away from a thread that is still enabled)"""
    # warm-up: the first traced execution of a code object in a process may deliver fewer events (opcode tracing is
    # switched on lazily), which would give the root of the search a coarser trace than every later run has
    make_run([])
    seen = 0
    stack = [[]]
    visited = set()
    while stack and seen < max_runs:
        prefix = stack.pop()
        trace, outcome = make_run(prefix)
        seen += 1
        yield prefix, trace, outcome
        chosen = [t['chosen'] for t in trace]
        # count preemptions along the executed schedule
        pre = [0] * (len(trace) + 1)
        for i, t in enumerate(trace):
            p = 0
            if i > 0 and chosen[i] != chosen[i - 1] and chosen[i - 1] in t['enabled']:
                p = 1
            pre[i + 1] = pre[i] + p
        for i in range(len(trace) - 1, len(prefix) - 1, -1):
            t = trace[i]
            for alt in t['enabled']:
                if alt == chosen[i]:
                    continue
                extra = 1 if (i > 0 and chosen[i - 1] in t['enabled'] and alt != chosen[i - 1]) else 0
                if pre[i] + extra > preemption_bound:
                    continue
                new = chosen[:i] + [alt]
                key = tuple(new)
                if key not in visited:
                    visited.add(key)
                    stack.append(new)
