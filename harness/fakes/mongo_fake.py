"""A client double for the part of pymongo that vakt.storage.mongo uses.  Documents are kept as deep copies in
insertion order; queries implement the documented MongoDB semantics of the operators vakt emits:
  find filters:    {field: value}, {'$and': [...]}, {field: {'$elemMatch': {'$eq': v}}},
                   {field: {'$elemMatch': {'$regex': pattern}}}   ($regex = unanchored search, PCRE ~ Python re)
  aggregate:       [{'$match': {'$expr': {'$and': [ {'$eq': [..]}, {'$anyElementTrue': [{'$map': ...}]} ]}}}]
                   with $or, $eq, $regexMatch inside $map.in
Anything else raises NotImplementedError (the run fails closed)."""
import copy
import re

from pymongo.errors import DuplicateKeyError, OperationFailure


def _type_rank(v):
    if v is None:
        return 1
    if isinstance(v, bool):
        return 8
    if isinstance(v, (int, float)):
        return 2
    if isinstance(v, str):
        return 3
    if isinstance(v, dict):
        return 4
    if isinstance(v, list):
        return 5
    return 9


def _sort_key(v):
    r = _type_rank(v)
    if r in (2, 3, 8):
        return (r, v)
    return (r, repr(v))


class Cursor:
    def __init__(self, docs):
        self.docs = docs

    def __iter__(self):
        return iter(self.docs)


class FakeCollection:
    def __init__(self, db, name):
        self.db = db
        self.name = name
        self.docs = []
        self.indexes = {'_id_': {'key': [('_id', 1)]}}
        self.calls = []

    # ---- helpers
    def _find_id(self, _id):
        for i, d in enumerate(self.docs):
            if d['_id'] == _id and type(d['_id']) is type(_id):
                return i
            if d['_id'] == _id and isinstance(_id, (int, float)) and not isinstance(_id, bool):
                return i
        return None

    def _check_id(self, _id):
        if isinstance(_id, list):
            raise OperationFailure("The '_id' value cannot be of type array")
        try:
            hash(_id) if not isinstance(_id, dict) else None
        except TypeError:
            raise OperationFailure('unsupported _id')

    def _match(self, doc, flt):
        if not flt:
            return True
        for k, cond in flt.items():
            if k == '$and':
                if not all(self._match(doc, c) for c in cond):
                    return False
            elif k == '$or':
                if not any(self._match(doc, c) for c in cond):
                    return False
            elif k.startswith('$'):
                raise NotImplementedError('query operator %s' % k)
            else:
                if not self._match_field(doc.get(k, _MISSING), cond):
                    return False
        return True

    def _match_field(self, value, cond):
        if isinstance(cond, dict) and any(str(k).startswith('$') for k in cond):
            for op, arg in cond.items():
                if op == '$elemMatch':
                    if not isinstance(value, list):
                        return False
                    if not any(self._match_elem(x, arg) for x in value):
                        return False
                elif op == '$eq':
                    if not _eq(value, arg):
                        return False
                else:
                    raise NotImplementedError('field operator %s' % op)
            return True
        if value is _MISSING:
            return cond is None
        if isinstance(value, list) and not isinstance(cond, list):
            return any(_eq(x, cond) for x in value) or _eq(value, cond)
        return _eq(value, cond)

    def _match_elem(self, x, arg):
        for op, a in arg.items():
            if op == '$eq':
                if not _eq(x, a):
                    return False
            elif op == '$regex':
                if not isinstance(a, str):
                    raise OperationFailure('$regex has to be a string')
                if not isinstance(x, str):
                    return False
                try:
                    if re.search(a, x) is None:
                        return False
                except re.error as e:
                    raise OperationFailure('Regular expression is invalid: %s' % e)
            else:
                raise NotImplementedError('$elemMatch operator %s' % op)
        return True

    # ---- pymongo surface
    def insert_one(self, doc):
        self.calls.append(('insert_one', doc.get('_id')))
        doc = copy.deepcopy(doc)
        self._check_id(doc.get('_id'))
        if self._find_id(doc['_id']) is not None:
            raise DuplicateKeyError('E11000 duplicate key error collection: %s' % self.name)
        self.docs.append(doc)

    def find_one(self, flt=None):
        self.calls.append(('find_one', flt))
        if flt is not None and not isinstance(flt, dict):
            flt = {'_id': flt}
        for d in self.docs:
            if self._match(d, flt or {}):
                return copy.deepcopy(d)
        return None

    def find(self, flt=None, limit=0, skip=0, sort=None):
        self.calls.append(('find', flt, limit, skip))
        docs = [d for d in self.docs if self._match(d, flt or {})]
        if sort:
            for key, direction in reversed(sort):
                docs.sort(key=lambda d: _sort_key(d.get(key)), reverse=(direction < 0))
        if skip:
            docs = docs[skip:]
        if limit:
            docs = docs[:limit]
        return Cursor([copy.deepcopy(d) for d in docs])

    def aggregate(self, pipeline):
        self.calls.append(('aggregate', pipeline))
        docs = list(self.docs)
        for stage in pipeline:
            if list(stage) != ['$match'] or list(stage['$match']) != ['$expr']:
                raise NotImplementedError('aggregate stage %r' % stage)
            expr = stage['$match']['$expr']
            docs = [d for d in docs if _truth(_eval(expr, d, {}))]
        return Cursor([copy.deepcopy(d) for d in docs])

    def update_one(self, flt, update, upsert=False):
        self.calls.append(('update_one', flt))
        if list(update) != ['$set']:
            raise NotImplementedError('update %r' % update)
        for d in self.docs:
            if self._match(d, flt):
                for k, v in update['$set'].items():
                    if k == '_id' and not _eq(v, d['_id']):
                        raise OperationFailure("Performing an update on the path '_id' would modify the immutable field '_id'")
                    d[k] = copy.deepcopy(v)
                return
        if upsert:
            doc = {k: v for k, v in flt.items() if not k.startswith('$')}
            doc.update(copy.deepcopy(update['$set']))
            if '_id' not in doc:
                doc['_id'] = 'oid%d' % len(self.docs)
            self.docs.append(doc)

    def replace_one(self, flt, doc, upsert=False):
        self.calls.append(('replace_one', flt))
        for i, d in enumerate(self.docs):
            if self._match(d, flt):
                new = copy.deepcopy(doc)
                if '_id' in new and not _eq(new['_id'], d['_id']):
                    raise OperationFailure("the (immutable) field '_id' was found to have been altered")
                new['_id'] = d['_id']
                self.docs[i] = new
                return

    def delete_one(self, flt):
        self.calls.append(('delete_one', flt))
        for i, d in enumerate(self.docs):
            if self._match(d, flt):
                del self.docs[i]
                return

    def delete_many(self, flt):
        self.docs = [d for d in self.docs if not self._match(d, flt)]

    def create_index(self, keys, name=None, **kw):
        name = name or ('%s_1' % keys)
        self.indexes[name] = {'key': [(keys, 1)] if isinstance(keys, str) else list(keys)}
        return name

    def drop_index(self, name):
        if name not in self.indexes:
            raise OperationFailure('index not found with name [%s]' % name)
        del self.indexes[name]

    def index_information(self):
        return copy.deepcopy(self.indexes)


class _Missing:
    def __repr__(self):
        return '<missing>'


_MISSING = _Missing()


def _eq(a, b):
    if isinstance(a, bool) != isinstance(b, bool):
        return False
    if isinstance(a, (int, float)) and isinstance(b, (int, float)):
        return a == b
    if type(a) is not type(b):
        return False
    return a == b


def _truth(v):
    return not (v is None or v is False or v == 0 or v is _MISSING)


def _eval(e, doc, env):
    """aggregation expression evaluation for the operators vakt emits"""
    if isinstance(e, str):
        if e.startswith('$$'):
            return env[e[2:]]
        if e.startswith('$'):
            return doc.get(e[1:], _MISSING)
        return e
    if isinstance(e, list):
        return [_eval(x, doc, env) for x in e]
    if isinstance(e, dict):
        if len(e) == 1:
            (op, arg), = e.items()
            if op == '$and':
                return all(_truth(_eval(x, doc, env)) for x in arg)
            if op == '$or':
                return any(_truth(_eval(x, doc, env)) for x in arg)
            if op == '$eq':
                a, b = (_eval(x, doc, env) for x in arg)
                return _eq(a, b)
            if op == '$anyElementTrue':
                (arr,) = arg
                v = _eval(arr, doc, env)
                if v is _MISSING or v is None:
                    raise OperationFailure("$anyElementTrue's argument must be an array, but is missing")
                if not isinstance(v, list):
                    raise OperationFailure("$anyElementTrue's argument must be an array")
                return any(_truth(x) for x in v)
            if op == '$map':
                inp = _eval(arg['input'], doc, env)
                if inp is _MISSING or inp is None:
                    return None
                if not isinstance(inp, list):
                    raise OperationFailure('input to $map must be an array')
                out = []
                for x in inp:
                    env2 = dict(env)
                    env2[arg['as']] = x
                    out.append(_eval(arg['in'], doc, env2))
                return out
            if op == '$regexMatch':
                inp = _eval(arg['input'], doc, env)
                rgx = _eval(arg['regex'], doc, env)
                if inp is None or inp is _MISSING or rgx is None or rgx is _MISSING:
                    return False
                if not isinstance(inp, str):
                    raise OperationFailure("$regexMatch needs 'input' to be of type string")
                if not isinstance(rgx, str):
                    raise OperationFailure("$regexMatch needs 'regex' to be of type string or regex")
                try:
                    return re.search(rgx, inp) is not None
                except re.error as ex:
                    raise OperationFailure('Invalid Regex in $regexMatch: %s' % ex)
            if op.startswith('$'):
                raise NotImplementedError('aggregation operator %s' % op)
        return {k: _eval(v, doc, env) for k, v in e.items()}
    return e


class FakeDatabase:
    def __init__(self, client, name):
        self.client = client
        self.name = name
        self.collections = {}

    def __getitem__(self, name):
        if name not in self.collections:
            self.collections[name] = FakeCollection(self, name)
        return self.collections[name]


class FakeMongoClient:
    def __init__(self, version='4.2.0'):
        self.version = version
        self.dbs = {}

    def server_info(self):
        return {'version': self.version}

    def __getitem__(self, name):
        if name not in self.dbs:
            self.dbs[name] = FakeDatabase(self, name)
        return self.dbs[name]

    def close(self):
        pass
