"""A client double for the part of redis-py that vakt.storage.redis uses.
Hashes are dicts of bytes -> bytes in insertion order (real Redis promises no order; vakt's paging relies on
HGETALL returning a stable order between calls, which this double provides)."""

VAKT_UPDATER = ("local exists = redis.call('HEXISTS', KEYS[1], ARGV[1]) if exists == 1 then "
                "return redis.call('HSET', KEYS[1], ARGV[1], ARGV[2]) end return 0")


def _b(x):
    if isinstance(x, bytes):
        return x
    if isinstance(x, str):
        return x.encode('utf-8')
    if isinstance(x, bool):
        raise TypeError("Invalid input of type: 'bool'. Convert to a bytes, string, int or float first.")
    if isinstance(x, (int, float)):
        return repr(x).encode()
    raise TypeError("Invalid input of type: %r. Convert to a bytes, string, int or float first." % type(x).__name__)


class FakeRedis:
    def __init__(self):
        self.data = {}
        self.calls = []

    def _h(self, name):
        return self.data.setdefault(name, {})

    def hsetnx(self, name, key, value):
        self.calls.append(('hsetnx', key))
        h = self._h(name)
        k, v = _b(key), _b(value)
        if k in h:
            return 0
        h[k] = v
        return 1

    def hget(self, name, key):
        self.calls.append(('hget', key))
        return self._h(name).get(_b(key))

    def hgetall(self, name):
        self.calls.append(('hgetall',))
        return dict(self._h(name))

    def hdel(self, name, *keys):
        self.calls.append(('hdel', keys))
        h = self._h(name)
        n = 0
        for k in keys:
            if _b(k) in h:
                del h[_b(k)]
                n += 1
        return n

    def register_script(self, script):
        if ' '.join(script.split()) != VAKT_UPDATER:
            raise NotImplementedError('FakeRedis only knows the Lua script vakt ships: %r' % script)
        client = self

        def run(keys=(), args=()):
            client.calls.append(('script', args[0]))
            h = client._h(keys[0])
            k, v = _b(args[0]), _b(args[1])
            if k in h:
                h[k] = v
                return 0          # HSET on an existing field returns 0
            return 0
        return run

    def flushdb(self):
        self.data.clear()

    def close(self):
        pass
