"""Generic driver of one property check (DESIGN.md section 2.5)."""
import json
import os
import random
import sys
import time
import traceback

from . import core


class Stream:
    """One correspondence stream: a generator of cases, the implementation
    driver, the Gallina emitter and the name of the model's run function."""
    name = 'stream'
    imports = ''            # extra `From Vakt Require Import ...` lines
    case_type = ''
    run_fn = ''
    prelude = ''
    rule = ''               # how cases are generated; what makes one non-trivial

    def corpus(self):
        return []

    def generate(self, rng, tier):
        raise NotImplementedError

    def emit(self, case):
        raise NotImplementedError

    def impl(self, case):
        """run the real vakt code; returns the canonical observation string"""
        raise NotImplementedError

    def oracle(self, case, obs):
        """spec oracle, independent of the Coq model: returns None when `obs`
        satisfies the property statement on this case (or the oracle has no
        opinion), else a string naming the violated clause"""
        return None

    def nontrivial(self, case, obs):
        return True

    def same(self, impl_obs, model_obs):
        """do the two observations agree?  (equality, unless a stream compares sets of outcomes)"""
        return impl_obs == model_obs

    def unmodelled(self, impl_obs, model_obs):
        """is the case outside what the model covers (skipped and counted)?  A stream whose observation is a sequence may
        override this together with `same` to compare the modelled positions only"""
        return (model_obs is not None and 'UNMODELLED' in model_obs) or impl_obs.startswith('SKIP')

    def key(self, case):
        return core.digest(case)

    def classify(self, case, impl_obs, model_obs):
        """id of the known finding this disagreement is an instance of, or None"""
        return None

    def describe(self, case):
        """self-contained python snippet / description for the replay file"""
        return None

    def shrink(self, case):
        """yield strictly smaller variants of a failing case"""
        return []


class CaseTimeout(BaseException):
    """raised by the watchdog inside a driver / oracle call that does not come back"""


CASE_TIMEOUT = float(os.environ.get('VERIF_CASE_TIMEOUT', '300'))
_TIMEOUTS = [0]      # after three calls that did not come back the limit drops to 5 s for the rest of the run


REDOS_SKIP = 'SKIP the regex engine did not come back (catastrophic backtracking on a generated pattern with nested quantifiers)'
_QUANT = ('star', 'plus', 'opt')


def _has_quant(x):
    # a repetition, or an alternation (whose branches may overlap: (.|.)* backtracks like (.*)* does)
    return isinstance(x, list) and ((len(x) == 2 and x[0] in ('star', 'plus')) or (len(x) == 3 and x[0] == 'alt')
                                    or any(_has_quant(y) for y in x))


def redos_prone(x):
    """does the case hold a regex AST with a quantifier over something that itself repeats or branches ((a*)+, ((.)+)*,
    (a?)*, (.|.)*)?
    Python's backtracking matcher can take exponential time on those - on the unchanged code as well.  Such a case that
    does not come back is no observation about vakt (the model's derivative matcher always terminates)"""
    if isinstance(x, dict):
        return any(redos_prone(y) for y in x.values())
    if isinstance(x, list):
        if len(x) == 2 and x[0] in _QUANT and isinstance(x[1], list) and _has_quant(x[1]):
            return True
        return any(redos_prone(y) for y in x)
    return False


def _watchdog(fn, *args, limit=None):
    """run fn(*args) under a wall-clock limit (main thread only): a changed implementation may loop for ever - e.g. a
    pagination window that never empties - and the check must come back with that case as its finding"""
    import signal
    import threading
    if threading.current_thread() is not threading.main_thread() or CASE_TIMEOUT <= 0:
        return fn(*args)

    def on_alarm(signum, frame):
        if limit is None:
            _TIMEOUTS[0] += 1
        raise CaseTimeout()
    old = signal.signal(signal.SIGALRM, on_alarm)
    # repeating: a driver that swallows the exception (it records whatever the implementation raises) is hit again
    first = limit if limit is not None else (CASE_TIMEOUT if _TIMEOUTS[0] < 3 else 5.0)
    signal.setitimer(signal.ITIMER_REAL, first, 2.0)
    try:
        return fn(*args)
    finally:
        signal.setitimer(signal.ITIMER_REAL, 0)
        signal.signal(signal.SIGALRM, old)


def safe_impl(stream, case):
    """the implementation driver must not crash the check: an exception escaping it is an observation"""
    prone = redos_prone(case)
    try:
        obs = _watchdog(stream.impl, case, limit=30.0 if prone else None)
        if prone and isinstance(obs, str) and 'CaseTimeout' in obs:
            return REDOS_SKIP          # the driver recorded the interruption as one of its answers
        return obs
    except CaseTimeout:
        if prone:
            return REDOS_SKIP
        return 'IMPL-TIMEOUT no answer within %ds' % CASE_TIMEOUT
    except BaseException as e:  # noqa
        if core.fatal(e):
            raise
        return 'IMPL-RAISED %s: %s' % (type(e).__name__, str(e)[:200])


def safe_oracle(stream, case, obs):
    if obs == REDOS_SKIP:
        return None
    prone = redos_prone(case)
    try:
        return _watchdog(stream.oracle, case, obs, limit=30.0 if prone else None)
    except CaseTimeout:
        if prone:
            return None
        return 'the implementation did not come back within %ds while the oracle was asking it' % CASE_TIMEOUT


SHRINK_SECONDS = float(os.environ.get('VERIF_SHRINK_SECONDS', '240'))
_SHRINK_SPENT = [0.0]      # seconds spent minimising failing cases in this run (all streams)


def shrink_case(stream, case, fails, budget=200):
    """greedy shrinking; `fails(list of cases) -> list of bool`.  Minimising is a courtesy to the reader of the replay
    file: once the run has spent SHRINK_SECONDS on it, failing cases are reported as they were generated"""
    cur = case
    steps = 0
    t0 = time.time()
    try:
        return _shrink_case(stream, case, fails, budget)
    finally:
        _SHRINK_SPENT[0] += time.time() - t0


def _shrink_case(stream, case, fails, budget):
    cur = case
    steps = 0
    t0 = time.time()
    while steps < budget and _SHRINK_SPENT[0] + (time.time() - t0) < SHRINK_SECONDS:
        cands = list(stream.shrink(cur))[:64]
        # keep one evaluation small: a multi-megabyte literal takes the assistant minutes to read
        size, keep = 0, []
        for c in cands:
            size += len(json.dumps(c, default=str))
            if keep and size > 300000:
                break
            keep.append(c)
        cands = keep
        if not cands:
            break
        steps += len(cands)
        try:
            res = fails(cands)
        except Exception:  # noqa
            break
        nxt = None
        for c, f in zip(cands, res):
            if f:
                nxt = c
                break
        if nxt is None:
            break
        cur = nxt
    return cur


class Result:
    def __init__(self):
        self.violations = []      # (replay_path, suffix)
        self.known = []           # strings
        self.stats = {}


def run_check(prop, streams, argv, level_text='', trusted_base=(), assumptions=(), extra_obligations=None,
              translated=()):
    t0 = time.time()
    tier = os.environ.get('VERIF_TIER', 'quick')
    replay = None
    args = list(argv)
    while args:
        a = args.pop(0)
        if a == '--tier':
            tier = args.pop(0)
        elif a == '--replay':
            replay = args.pop(0)
    if tier not in ('quick', 'thorough'):
        tier = 'quick'
    seed = int(os.environ.get('VERIF_SEED', '0') or 0)
    known = [k for k in core.load_known() if k.get('property') == prop]
    known_open = {k['id']: k for k in known if k.get('status') == 'known'}

    violations = []       # (path, suffix)
    known_lines = {}
    broken = []           # broken obligations (strings)
    obligations = discharged = 0
    props_info = {}
    translation_info = {}

    # every log record vakt emits is formatted (as any configured handler would do): printing a policy, a rule or an
    # inquiry must not change it.  (Not under the deterministic scheduler of C14: it would only lengthen schedules.)
    if prop != 'C14':
        import logging

        class _FormatAll(logging.Handler):
            def emit(self, record):
                try:
                    record.getMessage()
                except Exception:  # noqa
                    pass
        lg = logging.getLogger('vakt')
        if not any(type(h).__name__ == '_FormatAll' for h in lg.handlers):
            lg.setLevel(logging.DEBUG)
            lg.addHandler(_FormatAll())

    # ---- 1. proof obligations
    try:
        bad = core.forbidden_scan()
        if bad:
            broken.append('forbidden tokens in development: %r' % bad[:5])
        core.ensure_built()
        props_info = core.check_props(prop)
        obligations += props_info['obligations']
        discharged += props_info['discharged']
        if not props_info['ok']:
            broken.append('Props/%s.v does not check: %s' % (prop, props_info['log'][-1500:]))
        if extra_obligations:
            o, d, msgs = extra_obligations()
            obligations += o
            discharged += d
            broken.extend(msgs)
        if translated and not os.environ.get('VERIF_SKIP_T'):      # VERIF_SKIP_T: development knob of bin/seedtest
            # the translator tie: regenerate the Gallina definitions of the listed source modules from the current
            # source, type-check them and re-check the lemmas equating them with the hand-written model
            from py2v import run as py2v_run
            o, d, msgs = py2v_run.obligations(list(translated), core.REPO)
            obligations += o
            discharged += d
            broken.extend(msgs)
            translation_info = {'modules': list(translated), 'obligations': o, 'discharged': d}
    except core.BuildError as e:
        broken.append('%s: %s' % (e.what, e.log[-1500:]))
        obligations = max(obligations, 1)

    # ---- 2. correspondence
    cov = {'streams': {}}
    samples = []
    total_eval = 0
    total_nontrivial = 0
    total_unmodelled = 0
    disagreements = 0
    model_ok = True
    # a broken obligation does not by itself show a violation: search harder for a failing input
    search_tier = 'thorough' if (broken and not replay) else tier
    if search_tier != tier:
        core.log('%s: %d broken obligation(s); searching for a failing input at the thorough tier' % (prop, len(broken)))
        for st in streams:
            if hasattr(st, '_tier'):
                st._tier = search_tier
    transient = []
    for st in streams:
        rng = random.Random('%s/%s/%d' % (prop, st.name, seed))
        if replay:
            payload = json.load(open(replay))
            if payload.get('stream') != st.name:
                continue
            cases = [payload['case']]
        else:
            cases = list(st.corpus()) + list(st.generate(rng, search_tier))
        # de-duplicate
        seen = set()
        uniq = []
        for c in cases:
            k = st.key(c)
            if k not in seen:
                seen.add(k)
                uniq.append(c)
        cases = uniq
        if hasattr(st, 'prepare'):
            st.prepare(cases)           # e.g. run the expensive implementation side of all cases in parallel
        impl_obs = [safe_impl(st, c) for c in cases]
        oracle_only = bool(getattr(st, 'oracle_only', False))
        try:
            if oracle_only:
                # inputs outside the model's value domain: only the statement's own clause (spec oracle) is checked
                model_obs = [None] * len(cases)
            else:
                lits = [st.emit(c) for c in cases]
                model_obs = core.run_model('%s-%s' % (prop, st.name), st.imports, st.case_type, st.run_fn, lits,
                                           prelude=st.prelude, shard=getattr(st, 'shard', 250))
        except core.BuildError as e:
            broken.append('model evaluation (%s): %s %s' % (st.name, e.what, e.log[-1500:]))
            model_obs = [None] * len(cases)
            model_ok = False
        nontriv = set()
        n_unmod = 0
        dist = {}
        st_dis = 0
        for c, io, mo in zip(cases, impl_obs, model_obs):
            oc = None
            try:
                oc = safe_oracle(st, c, io)
            except Exception:  # noqa
                oc = 'oracle crashed: ' + traceback.format_exc()[-500:]
            unmod = io == REDOS_SKIP or st.unmodelled(io, mo)
            if unmod:
                n_unmod += 1
            bucket = (io or '')[:1] if not io.startswith(('E:', 'B:')) else io.split(' ')[0][:24]
            dist[bucket] = dist.get(bucket, 0) + 1
            differ = (mo is not None) and (not unmod) and (not st.same(io, mo))
            if oc is None and not differ:
                if st.nontrivial(c, io) and not unmod:
                    nontriv.add(st.key(c))
                continue
            # ---- a failure: classify, shrink, report
            st_dis += 1
            kid = st.classify(c, io, mo)
            if kid and kid in known_open:
                known_lines[kid] = known_open[kid]['what']
                continue
            if len(violations) >= 5:
                continue

            def fails(cands, st=st):
                ios = [safe_impl(st, x) for x in cands]
                try:
                    if getattr(st, 'oracle_only', False):
                        mos = [None] * len(cands)
                    else:
                        mos = core.run_model('%s-%s-shrink' % (prop, st.name), st.imports, st.case_type, st.run_fn,
                                             [st.emit(x) for x in cands], prelude=st.prelude)
                except core.BuildError:
                    mos = [None] * len(cands)
                out = []
                for x, a, b in zip(cands, ios, mos):
                    try:
                        o = safe_oracle(st, x, a)
                    except Exception:  # noqa
                        o = None
                    d = b is not None and a != REDOS_SKIP and not st.unmodelled(a, b) and not st.same(a, b)
                    k2 = st.classify(x, a, b)
                    out.append((o is not None or d) and not (k2 and k2 in known_open))
                return out
            small = shrink_case(st, c, fails) if not replay else c
            io2 = safe_impl(st, small)
            try:
                mo2 = None if oracle_only else core.run_model(
                    '%s-%s-min' % (prop, st.name), st.imports, st.case_type, st.run_fn,
                    [st.emit(small)], prelude=st.prelude)[0]
            except core.BuildError:
                mo2 = None
            try:
                oc2 = safe_oracle(st, small, io2)
            except Exception:  # noqa
                oc2 = oc
            def still_fails(x, a, b, o):
                d_ = b is not None and a != REDOS_SKIP and not st.unmodelled(a, b) and not st.same(a, b)
                return o is not None or d_
            if not replay and not still_fails(small, io2, mo2, oc2):
                # the minimised case does not fail when evaluated again: fall back to the case as generated, and
                # confirm THAT once more.  A disagreement that does not reproduce is no replay at all (observed
                # once, on a machine under heavy load, in the SQLite crash-point stream): it is counted and named in
                # the evidence, not raised.
                io3 = safe_impl(st, c)
                try:
                    oc3 = safe_oracle(st, c, io3)
                except Exception:  # noqa
                    oc3 = None
                if still_fails(c, io3, mo, oc3):
                    small, io2, mo2, oc2 = c, io3, mo, oc3
                else:
                    st_dis -= 1
                    transient.append({'stream': st.name, 'case': c, 'first_observation': io, 'model_observation': mo,
                                      'oracle_then': oc, 'again': io3})
                    print('NOTE: stream %s: one disagreement did not reproduce when its case was evaluated again '
                          '(recorded under coverage.transient in the evidence file)' % st.name)
                    continue
            impl_violates = oc2 is not None or not hasattr(st, 'oracle_complete') or not st.oracle_complete
            payload = {
                'property': prop, 'kind': 'violation', 'stream': st.name, 'seed': seed, 'tier': tier,
                'case': small, 'impl_observation': io2, 'model_observation': mo2,
                'oracle': {'verdict': oc2, 'complete': bool(getattr(st, 'oracle_complete', False))},
                'python': st.describe(small),
            }
            path = core.write_replay(prop, payload)
            # the implementation is shown wrong by the oracle, or (no complete oracle) deviates from
            # the proved model on this input: a failing input.  If a complete oracle accepts the
            # implementation's behaviour, only the correspondence is broken.
            suffix = '' if impl_violates else ' no-failing-input-found'
            violations.append((path, suffix))
        disagreements += st_dis
        total_eval += len(cases)
        total_nontrivial += len(nontriv)
        total_unmodelled += n_unmod
        if cases and n_unmod * 20 > len(cases):
            # more than 5% of a stream skipped: say so where it is seen (a configuration that never runs is a hole, not
            # a pass - the sqlite_regexp configuration of C07 was silently skipped this way for a while)
            print('NOTE: stream %s: %d of %d cases were skipped as unmodelled / rejected by the set-up'
                  % (st.name, n_unmod, len(cases)))
        cov['streams'][st.name] = {
            'evaluations': len(cases), 'distinct_nontrivial': len(nontriv), 'unmodelled_skipped': n_unmod,
            'disagreements': st_dis, 'rule': st.rule, 'observation_distribution': dist,
        }
        if oracle_only:
            cov['streams'][st.name]['oracle_only'] = ('no model evaluation: the inputs lie outside the model\'s value '
                                                      'domain; only the spec oracle (the statement\'s own clause) judges')
        for c, io in list(zip(cases, impl_obs))[:2]:
            samples.append({'stream': st.name, 'case': c, 'observation': io})

    # ---- 3. broken obligations with no failing input
    if broken and not violations:
        payload = {'property': prop, 'kind': 'broken-obligation', 'seed': seed, 'tier': tier,
                   'obligation': broken}
        path = core.write_replay(prop, payload)
        violations.append((path, ' no-failing-input-found'))

    # ---- 4. evidence
    wall = time.time() - t0
    ev = {
        'property_id': prop, 'tier': tier, 'seed': seed, 'level': 'proof',
        'coverage': {
            'obligations': max(obligations, 1), 'discharged': discharged,
            'checker_cmd': 'make -C coq (coqc 8.16.1, full .vo) ; coqc Props/%s.v with Print Assumptions' % prop,
            'trusted_base': list(trusted_base) + ([
                'translator tie: py2v/core.py (meaning given to Python control statements through Base/PyMonad.v) and the '
                'leaf tables / pinned texts of py2v/schemas.py, py2v/pins.json for [%s]; the generated definitions are '
                'type-checked and proved equal to the model (coq/Equiv) on this run' % ', '.join(translated)]
                if translated else []),
            'theorems': props_info.get('theorems', []),
            'axioms_reported': props_info.get('axioms', []),
            'evaluations': total_eval, 'distinct_nontrivial': total_nontrivial,
            'unmodelled_skipped': total_unmodelled,
            'rule': ' | '.join('%s: %s' % (s.name, s.rule) for s in streams),
            'samples': samples[:6],
            'correspondence': cov['streams'],
            'disagreements': disagreements,
            'broken_obligations': broken,
            'translation': translation_info,
            'known_findings_seen': sorted(known_lines),
            'transient': transient[:5],
        },
        'assumptions': list(assumptions),
        'wall_s': round(wall, 2),
        'violations': len(violations),
    }
    core.write_evidence(prop, ev)

    for kid, what in sorted(known_lines.items()):
        print('KNOWN-FINDING: property=%s %s: %s' % (prop, kid, what))
    for path, suffix in violations:
        print('VIOLATION property=%s replay=%s%s' % (prop, path, suffix))
    core.log('%s tier=%s seed=%d obligations=%d/%d evaluations=%d nontrivial=%d disagreements=%d wall=%.1fs'
             % (prop, tier, seed, discharged, obligations, total_eval, total_nontrivial, disagreements, wall))
    return 1 if violations else 0
