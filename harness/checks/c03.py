"""C03 - Regex policy language: literal text, tagged segments, whole-string match."""
import re
import sys

from .. import gen, specs, guardlib
from ..check import Stream, run_check
from ..core import e_pstr, e_list, s_pstr, s_bool, s_exc  # noqa

TAGS = [('<', '>'), ('<', '>'), ('<', '>'), ('{', '}'), ('[', ']'), ('(', ')'), ('|', '|'), ('<<', '>>'),
        ('é', 'ж'), ('<', '\n')]


def e_fcase(c):
    inq = '(@None inquiry)'
    return ('{| f_ck := %s; f_table := %s; f_pol := %s; f_field := %s; f_what := %s; f_inq := %s |}' % (
        c['checker'], guardlib.e_table(c['rxtable']), specs.e_policy(c['policy']),
        {'subjects': 'Subjects', 'resources': 'Resources', 'actions': 'Actions'}[c['field']],
        specs.ev(c['what']), inq))


def top_level_pieces(e, st, en):
    """independent scanner: -> list of ('lit', text) / ('seg', text), or None if unbalanced"""
    if len(st) != 1 or len(en) != 1 or st == en:
        return None if (st in e or en in e) and (len(st) == 1 and len(en) == 1) else [('lit', e)]
    pieces, level, cur, start = [], 0, '', None
    for ch in e:
        if ch == st:
            level += 1
            if level == 1:
                pieces.append(('lit', cur))
                cur = ''
                continue
        elif ch == en:
            level -= 1
            if level < 0:
                return None
            if level == 0:
                pieces.append(('seg', cur))
                cur = ''
                continue
        cur += ch
    if level != 0:
        return None
    pieces.append(('lit', cur))
    return pieces


def split_matches(pieces, v):
    """does v split, in order, into parts equal to the literals and fully matching the segments?"""
    if not pieces:
        return v == ''
    kind, text = pieces[0]
    if kind == 'lit':
        return v.startswith(text) and split_matches(pieces[1:], v[len(text):])
    for k in range(len(v) + 1):
        if re.fullmatch(text, v[:k], 0) is not None and split_matches(pieces[1:], v[k:]):
            return True
    return False


def spec_fits(elements, st, en, v):
    """the property statement for one field under the regex checker (string value v)"""
    for e in elements:
        if st not in e and en not in e:
            if e == v:
                return True
            continue
        pieces = top_level_pieces(e, st, en)
        if pieces is None:
            return False            # unbalanced: vakt stops and answers False for the field
        if split_matches(pieces, v):
            return True
    return False


class CompileStream(Stream):
    name = 'tag_scanner_and_pattern'
    imports = 'From Vakt Require Import Model.Regex Model.Parser Harness.RunC03.'
    case_type = 'pstr * pstr * pstr'
    run_fn = 'run_compile'
    rule = ('phrases over alphabets containing both delimiters, regex metacharacters, newline and non-ASCII text '
            'with 0-3 structured segments (nested delimiters inside segments), plus random strings over the tag '
            'alphabet; ten delimiter pairs incl. equal and multi-character ones; compared: get_tag_indices and the '
            'exact text of compile_regex(...).pattern. non-trivial = phrase containing a delimiter')

    def corpus(self):
        return [{'phrase': 'a<b>c<d>e', 'st': '<', 'en': '>'}, {'phrase': '<a><b><c>', 'st': '<', 'en': '>'},
                {'phrase': 'x{a{1,2}}y{b}', 'st': '{', 'en': '}'}]

    def generate(self, rng, tier):
        n = 1500 if tier == 'quick' else 20000
        for _ in range(n):
            st, en = rng.choice(TAGS)
            if rng.random() < 0.6 and len(st) == 1 and len(en) == 1 and st != en:
                e, _, _ = gen.str_element(rng, (st, en), 3)
            else:
                e = gen.string(rng, 8, 'ab' + st[0] + en[0] + st[0] + en[0] + '.\\n')
            yield {'phrase': e, 'st': st, 'en': en}

    def emit(self, c):
        return '(%s, %s, %s)' % (e_pstr(c['phrase']), e_pstr(c['st']), e_pstr(c['en']))

    def impl(self, c):
        from vakt.parser import compile_regex, get_tag_indices
        try:
            ix = '[' + ','.join(str(i) for i in get_tag_indices(c['phrase'], c['st'], c['en'])) + ']'
        except Exception as e:  # noqa
            ix = s_exc(e)
        try:
            pat = s_pstr(compile_regex(c['phrase'], c['st'], c['en']).pattern)
        except re.error:
            return 'SKIP re.error'
        except Exception as e:  # noqa
            pat = s_exc(e)
        return ix + ' ' + pat

    def oracle(self, c, obs):
        """independent statement of the compiled text: ^ escaped literals and parenthesised segments $"""
        if obs.startswith('SKIP'):
            return None
        pieces = top_level_pieces(c['phrase'], c['st'], c['en'])
        pat = obs.split(' ', 1)[1]
        if pieces is None:
            if len(c['st']) == 1 and len(c['en']) == 1 and pat != 'E:InvalidPatternError':
                return 'unbalanced delimiters accepted'
            return None
        want = '^' + ''.join(re.escape(t) if k == 'lit' else '(' + t + ')' for k, t in pieces) + '$'
        if pat != s_pstr(want):
            return 'compiled pattern is not ^literals-escaped (segments)$: want %r' % want
        return None

    def nontrivial(self, c, obs):
        return c['st'] in c['phrase'] or c['en'] in c['phrase']


class FitsStream(Stream):
    name = 'regex_checker_fits'
    imports = guardlib.GUARD_IMPORTS
    case_type = 'fcase'
    run_fn = 'run_fits'
    rule = ('one policy field of 1-3 string elements (0-3 segments each, nested delimiters, metacharacters, '
            'unbalanced ones), custom delimiter pairs through Policy subclasses; value derived from an element '
            '(matching by construction) then one-point mutated (extra leading/trailing char, trailing newline, '
            'dropped/replaced char) so that about half match; oracle = brute-force split with re.fullmatch per '
            'segment, also asked with compile-cache sizes None/0/1/2. non-trivial = element with >= 1 segment and '
            'a value within edit distance 1 of a match')

    def corpus(self):
        def pol(els, tags=('<', '>')):
            return {'uid': 1, 'effect': 'allow', 'subjects': [], 'resources': [], 'actions': [['s', e] for e in els],
                    'context': [], 'description': None, 'tags': list(tags)}
        a = ['chr', 97]
        b = ['chr', 98]
        d = ['chr', 100]
        return [
            {'checker': 'CRegex', 'policy': pol(['a<b>c<d>e']), 'field': 'actions', 'what': 'abcde',
             'rxtable': [['b', b], ['d', d]]},
            {'checker': 'CRegex', 'policy': pol(['<abc>']), 'field': 'actions', 'what': 'abc\n',
             'rxtable': [['abc', gen.rx_of_literal('abc')]]},
            {'checker': 'CRegex', 'policy': pol(['a<b>c<d>e']), 'field': 'actions', 'what': 'abc<d>e',
             'rxtable': [['b', b], ['d', d]]},
            {'checker': 'CRegex', 'policy': pol(['<a']), 'field': 'actions', 'what': '<a', 'rxtable': []},
        ]

    def generate(self, rng, tier):
        n = 2500 if tier == 'quick' else 30000
        for _ in range(n):
            tags = rng.choice(TAGS[:6]) if rng.random() < 0.9 else rng.choice(TAGS)
            els, table, samples = [], [], []
            single = len(tags[0]) == 1 and len(tags[1]) == 1 and tags[0] != tags[1]
            for _k in range(rng.choice([1, 1, 1, 2, 3])):
                if single:
                    e, t, s = gen.str_element(rng, tags, 3)
                else:
                    e, t, s = gen.string(rng, 6, 'ab' + tags[0][0] + tags[1][0]), [], None
                    s = e
                els.append(e)
                table += t
                if s is not None:
                    samples.append(s)
            v = rng.choice(samples) if samples and rng.random() < 0.9 else gen.word(rng)
            v = gen.mutate_str(rng, v, 'ab\n' + tags[0][0] + tags[1][0])
            if rng.random() < 0.07:
                v = rng.choice(els)           # the element's own text, delimiters included, offered as the value
            if single and rng.random() < 0.04:
                # segments that are no regular expressions on their own but would be once wrapped in a group
                bad = rng.choice(['x' + tags[0] + 'a)|(.*' + tags[1], tags[0] + 'a)(b' + tags[1],
                                  tags[0] + 'a(' + tags[1] + 'x' + tags[0] + 'b)' + tags[1]])
                els = els + [bad] if rng.random() < 0.5 else [bad] + els
                v = rng.choice(['xa', 'ab', 'zzz', 'axb', v])
            what = v if rng.random() < 0.97 else rng.choice([None, 5, ['a']])
            pol = {'uid': 1, 'effect': 'allow', 'subjects': [], 'resources': [],
                   'actions': [['s', e] for e in els], 'context': [], 'description': None, 'tags': list(tags)}
            yield {'checker': 'CRegex', 'policy': pol, 'field': 'actions', 'what': what, 'rxtable': table}

    def emit(self, c):
        return e_fcase(c)

    def _fits(self, c, cache_size=1024):
        ck = specs.mk_checker('CRegex', cache_size)
        p = specs.mk_policy(c['policy'])
        try:
            r = ck.fits(p, c['field'], specs.py(c['what']))
        except re.error:
            return 'SKIP re.error'
        except Exception as e:  # noqa
            return s_exc(e)
        return s_bool(r) if isinstance(r, bool) else '<%r>' % (r,)

    def impl(self, c):
        return self._fits(c)

    def oracle(self, c, obs):
        if obs.startswith('SKIP'):
            return None
        for size in (None, 0, 1, 2):
            o = self._fits(c, size)
            if o != obs:
                return 'result depends on the compile-cache size: %s with default, %s with maxsize=%r' % (obs, o, size)
        v = specs.py(c['what'])
        if not isinstance(v, str):
            return None
        st, en = c['policy']['tags']
        els = [e[1] for e in c['policy'][c['field']]]
        try:
            want = spec_fits(els, st, en, v)
        except re.error:
            # a segment that is not a regular expression on its own matches nothing: an error or "no", never "yes"
            if obs == 'T' and not any(e == v for e in els if st not in e and en not in e):
                return 'an element with a segment that is not a regular expression on its own was matched'
            return None
        if obs != s_bool(want):
            return 'whole-string split semantics says %s, checker answered %s' % (want, obs)
        return None

    def nontrivial(self, c, obs):
        st, en = c['policy']['tags']
        return any(st in e[1] and en in e[1] for e in c['policy'][c['field']])

    def classify(self, c, io, mo):
        return None

    def shrink(self, c):
        p = c['policy']
        els = p[c['field']]
        for i in range(len(els)):
            if len(els) > 1:
                q = dict(p)
                q[c['field']] = els[:i] + els[i + 1:]
                yield dict(c, policy=q)
        v = c['what']
        if isinstance(v, str):
            for i in range(len(v)):
                yield dict(c, what=v[:i] + v[i + 1:])

    def describe(self, c):
        return ('import vakt.checker as ck; from harness import specs; import json; c = json.loads(%r); '
                'print(ck.RegexChecker().fits(specs.mk_policy(c["policy"]), c["field"], c["what"]))'
                % __import__('json').dumps(c))


class CheckerHistoryStream(Stream):
    name = 'regex_checker_history'
    imports = guardlib.GUARD_IMPORTS
    case_type = 'list fcase'
    run_fn = 'run_fits_seq'
    rule = ('ONE RegexChecker instance (compile-cache capacity None/0/1/2/1024) answers a sequence of 3-8 fits calls '
            'for policies with different delimiter pairs that share element texts: the same text is well formed under '
            'one pair and unbalanced, or differently segmented, under another; each answer is compared with the model '
            '(which has no state) and (oracle) with a fresh checker asked only that call. non-trivial = sequence in '
            'which one element text occurs under two delimiter pairs')

    PAIRS = [('<', '>'), ('{', '}'), ('[', ']'), ('(', ')')]

    def corpus(self):
        def call(tags, el, v):
            return {'checker': 'CRegex', 'policy': {'uid': 1, 'effect': 'allow', 'subjects': [], 'resources': [],
                                                    'actions': [['s', el]], 'context': [], 'description': None,
                                                    'tags': list(tags)},
                    'field': 'actions', 'what': v, 'rxtable': [['a', ['chr', 97]], ['b', ['chr', 98]]]}
        return [{'cache': 1024, 'calls': [call(('<', '>'), '{a}<', 'a<'), call(('{', '}'), '{a}<', 'a<'),
                                          call(('<', '>'), '{a}<', '{a}<')]}]

    def generate(self, rng, tier):
        n = 500 if tier == 'quick' else 5000
        segs = [('a', ['chr', 97]), ('b', ['chr', 98]), ('[a-c]', ['cls', False, [[97, 99]]]), ('.', ['dot']),
                ('a+', ['plus', ['chr', 97]])]
        for _ in range(n):
            pairs = rng.sample(self.PAIRS, rng.choice([2, 2, 3]))
            texts = []
            for _k in range(rng.randint(1, 3)):
                t = ''
                for _j in range(rng.randint(1, 4)):
                    r = rng.random()
                    if r < 0.45:
                        st, en = rng.choice(pairs)
                        src = rng.choice(segs)[0]
                        if '[' in src and (st, en) == ('[', ']'):
                            src = 'a'
                        t += st + src + en
                    elif r < 0.7:
                        t += rng.choice([p[0] for p in pairs] + [p[1] for p in pairs])
                    else:
                        t += rng.choice('abx ')
                texts.append(t)
            table = [[src, ast] for src, ast in segs]
            calls = []
            for _k in range(rng.randint(3, 8)):
                tags = rng.choice(pairs)
                el = rng.choice(texts)
                # a value: the text with one pair's delimiters removed, or the text itself, mutated sometimes
                v = el
                for ch in tags:
                    v = v.replace(ch, '')
                v = rng.choice([v, el, gen.mutate_str(rng, v, 'ab')])
                calls.append({'checker': 'CRegex',
                              'policy': {'uid': 1, 'effect': 'allow', 'subjects': [], 'resources': [],
                                         'actions': [['s', e] for e in rng.sample(texts, rng.randint(1, len(texts)))
                                                     if e != el] + [['s', el]],
                                         'context': [], 'description': None, 'tags': list(tags)},
                              'field': 'actions', 'what': v, 'rxtable': table})
            yield {'cache': rng.choice([None, 0, 1, 2, 1024]), 'calls': calls}

    def emit(self, c):
        return e_list([e_fcase(x) for x in c['calls']], 'fcase')

    # a sequence of answers: the calls whose segment text the table does not cover (UNMODELLED) or that Python's re
    # rejects (SKIP) are left out of the comparison, the others are compared position by position
    def same(self, io, mo):
        a, b = io.split(','), mo.split(',')
        return len(a) == len(b) and all(x == y or 'UNMODELLED' in y or x == 'SKIP' for x, y in zip(a, b))

    def unmodelled(self, io, mo):
        if mo is None:
            return False
        a, b = io.split(','), mo.split(',')
        return len(a) == len(b) and all('UNMODELLED' in y or x == 'SKIP' for x, y in zip(a, b))

    def _run(self, c, fresh=False):
        ck = specs.mk_checker('CRegex', c['cache'])
        out = []
        for x in c['calls']:
            if fresh:
                ck = specs.mk_checker('CRegex', c['cache'])
            p = specs.mk_policy(x['policy'])
            try:
                r = ck.fits(p, x['field'], specs.py(x['what']))
                out.append(s_bool(r) if isinstance(r, bool) else '<%r>' % (r,))
            except re.error:
                out.append('SKIP')
            except Exception as e:  # noqa
                out.append(s_exc(e))
        return out

    def impl(self, c):
        return ','.join(self._run(c))

    def oracle(self, c, obs):
        fresh = ','.join(self._run(c, fresh=True))
        if fresh != obs:
            return 'answers depend on what the checker was asked before: %s, fresh checkers answer %s' % (obs, fresh)
        return None

    def nontrivial(self, c, obs):
        seen = {}
        for x in c['calls']:
            for e in x['policy']['actions']:
                seen.setdefault(e[1], set()).add(tuple(x['policy']['tags']))
        return any(len(v) > 1 for v in seen.values())

    def shrink(self, c):
        calls = c['calls']
        for i in range(len(calls)):
            if len(calls) > 1:
                yield dict(c, calls=calls[:i] + calls[i + 1:])


TRUSTED = [
    'Coq 8.16.1 kernel + vm_compute (no native_compute)',
    'Model/Parser.v (get_tag_indices, compile_regex as pieces + pattern text), Model/Checkers.v fits_regex, '
    'Model/Regex.v: hand-written, tied to vakt/parser.py and vakt/checker.py by the two streams',
    'Python re == In_lang on patterns printed by show_py (C05 regex_semantics stream); the segment-source -> AST '
    'table is supplied by the generator (no regex parser in the model)',
    'spec oracle: independent Python scanner + brute-force split with re.fullmatch',
]
ASSUME = ['segments with back-references, look-around, inline flags or unbalanced parentheses are outside the '
          'theorem (cases whose segment does not compile are skipped and counted)',
          'functools.lru_cache transparency is checked by the oracle (cache sizes None/0/1/2), modelled in Lru.v']


def main(argv):
    return run_check('C03', [CompileStream(), FitsStream(), CheckerHistoryStream()], argv, trusted_base=TRUSTED, assumptions=ASSUME,
                     translated=('checker', 'parser', 'policy'))


if __name__ == '__main__':
    sys.exit(main(sys.argv[1:]))
