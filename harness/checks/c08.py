"""C08 - Every storage is a uid-keyed map; failed mutations change nothing."""
import itertools
import sys

from .. import storelib
from ..check import Stream, run_check
from ..core import e_list


def keys_for(rng, backend):
    ks = ['sa', 'sb', 'sab', 'sB'][:rng.choice([2, 3, 3, 4])]
    if backend in storelib.INT_UIDS and rng.random() < 0.3:
        ks = ['i1', 'i2', 'i10'][:len(ks)]
    return ks


class StoreStream(Stream):
    name = 'storage_histories'
    imports = 'From Vakt Require Import Model.Store Harness.RunC08.'
    case_type = 'scase'
    run_fn = 'run_scase'
    rule = ('operation sequences (<= 12 quick / 40 thorough) of add / update / delete / get / get_all(limit, '
            'offset in -1..n+1) / retrieve_all(batch in {-1,0,1,2,3,n,50}) over 2-4 uids with freshly tagged '
            'policies, including ones the backend rejects (unhashable uid for Memory, unbindable description for '
            'SQL, unpicklable member for Redis/pickle); backends Memory, SQL on SQLite, Redis (fake client) with '
            'both serializers, Mongo (fake client); after every step the result and the full listing are compared. '
            'thorough adds all sequences of length <= 4 over 2 uids x 5 op kinds for Memory and SQLite. '
            'non-trivial = history with a failing mutation followed by a successful one, or a delete followed by '
            're-adding the same uid')

    def corpus(self):
        return [
            {'backend': 'sqlite', 'ops': [['add', 'sa', 1, False], ['delete', 'sa'], ['add', 'sa', 2, False],
                                          ['get', 'sa']]},
            {'backend': 'sqlite', 'ops': [['add', 'sa', 1, True], ['add', 'sa', 2, False], ['get', 'sa']]},
            {'backend': 'memory', 'ops': [['add', 'sa', 1, False], ['add', 'sa', 2, False], ['update', 'sb', 3, False],
                                          ['delete', 'sb'], ['get_all', 0, 0], ['get_all', 1, -1]]},
        ]

    def generate(self, rng, tier):
        n = 700 if tier == 'quick' else 6000
        maxlen = 12 if tier == 'quick' else 40
        names = list(storelib.BACKENDS)
        for i in range(n):
            b = names[i % len(names)]
            yield {'backend': b, 'ops': storelib.gen_ops(rng, b, rng.randint(2, maxlen), keys_for(rng, b))}
        if tier == 'thorough':
            tag = itertools.count(1)
            alpha = []
            for k in ('sa', 'sb'):
                alpha += [('add', k), ('update', k), ('delete', k), ('get', k)]
            alpha.append(('retrieve_all', 1))
            for b in ('memory', 'sqlite'):
                for L in range(1, 5):
                    for seq in itertools.product(alpha, repeat=L):
                        ops = []
                        t = 0
                        for kind, k in seq:
                            t += 1
                            if kind in ('add', 'update'):
                                ops.append([kind, k, t, False])
                            elif kind == 'retrieve_all':
                                ops.append(['retrieve_all', k])
                            else:
                                ops.append([kind, k])
                        yield {'backend': b, 'ops': ops}

    def emit(self, c):
        return '{| s_order := %s; s_ops := %s |}' % (
            storelib.BACKENDS[c['backend']], e_list([storelib.e_op(o) for o in c['ops']], 'kop'))

    def impl(self, c):
        h = storelib.make_backend(c['backend'])
        try:
            out = []
            for o in c['ops']:
                r = storelib.do_op(h.storage, c['backend'], o)
                out.append(r + ' ' + storelib.dump(h.storage))
            return ' | '.join(out)
        finally:
            h.close()

    def oracle(self, c, obs):
        """abstract python dict replay of the property statement (order-insensitive)"""
        m = {}
        for o, seg in zip(c['ops'], obs.split(' | ')):
            res, _, listing = seg.partition(' ')
            kind = o[0]
            before = dict(m)
            if kind in ('add', 'readd'):
                if kind == 'add' and o[3]:
                    want = 'rejected'
                elif o[1] in m:
                    want = 'exists'
                else:
                    want = 'ok'
                    m[o[1]] = o[2]
            elif kind == 'update':
                want = 'ok'
                if o[1] in m:
                    if o[3]:
                        want = 'rejected'
                    else:
                        m[o[1]] = o[2]
            elif kind == 'delete':
                want = 'ok'
                m.pop(o[1], None)
            elif kind in ('get', 'poke'):
                want = 'get:%s' % (m[o[1]] if o[1] in m else '-')
            else:
                want = None
            if want is not None and res != want:
                return '%r answered %s, a uid-keyed map answers %s' % (o, res, want)
            if want in ('rejected', 'exists') and m != before:
                return 'a failed mutation changed the store'
            from ..core import s_pstr
            got = sorted(x for x in listing.strip('[]').split(',') if x)
            exp = sorted('%s=%d' % (s_pstr(k), v) for k, v in m.items())
            if got != exp:
                return 'after %r the store lists %s, expected %s' % (o, got, exp)
            if kind == 'get_all':
                if o[1] < 0 or o[2] < 0:
                    if res != 'valueerror':
                        return 'negative limit/offset not rejected: %s' % res
                elif o[1] == 0 and res != 'list:[]':
                    return 'limit 0 is not empty: %s' % res
            if kind == 'retrieve_all' and o[1] > 0:
                items = sorted(x for x in res[len('list:'):].strip('[]').split(',') if x)
                if items != exp:
                    return 'retrieve_all(%d) yielded %s, stored %s' % (o[1], items, exp)
        return None

    def nontrivial(self, c, obs):
        segs = [s.split(' ')[0] for s in obs.split(' | ')]
        failed_then_ok = any(s in ('rejected', 'exists') and 'ok' in segs[i + 1:] for i, s in enumerate(segs))
        seen_del = set()
        readd = False
        for o in c['ops']:
            if o[0] == 'delete':
                seen_del.add(o[1])
            if o[0] == 'add' and o[1] in seen_del:
                readd = True
        return failed_then_ok or readd

    def shrink(self, c):
        ops = c['ops']
        for i in range(len(ops)):
            if len(ops) > 1:
                yield dict(c, ops=ops[:i] + ops[i + 1:])

    def describe(self, c):
        return ('import json; from harness.checks.c08 import StoreStream; '
                'print(StoreStream().impl(json.loads(%r)))' % __import__('json').dumps(c))


class ObservableStream(Stream):
    name = 'observable_wrapper'
    imports = 'From Vakt Require Import Model.Store Harness.RunC08.'
    case_type = 'scase'
    run_fn = 'run_ocase'
    rule = ('the same histories issued through ObservableMutationStorage over Memory and SQLite with a counting '
            'listener: result, number of notifications of each call, listing. non-trivial = history containing a '
            'raising mutation')

    def generate(self, rng, tier):
        n = 200 if tier == 'quick' else 2000
        for i in range(n):
            b = ['memory', 'sqlite'][i % 2]
            yield {'backend': b, 'ops': storelib.gen_ops(rng, b, rng.randint(2, 12), keys_for(rng, b))}

    def emit(self, c):
        return StoreStream().emit(c)

    def impl(self, c):
        from vakt.storage.observable import ObservableMutationStorage
        h = storelib.make_backend(c['backend'])

        class L:
            n = 0

            def update(self):
                L.n += 1
        try:
            st = ObservableMutationStorage(h.storage)
            st.add_listener(L())
            out = []
            for o in c['ops']:
                L.n = 0
                r = storelib.do_op(st, c['backend'], o)
                out.append('%s n=%d %s' % (r, L.n, storelib.dump(st)))
            return ' | '.join(out)
        finally:
            h.close()

    def oracle(self, c, obs):
        for o, seg in zip(c['ops'], obs.split(' | ')):
            res, n, _ = seg.split(' ', 2)
            mut = o[0] in ('add', 'readd', 'update', 'delete')
            want = 1 if (mut and res == 'ok') else 0
            if n != 'n=%d' % want:
                return '%r (%s) notified %s times, expected %d' % (o, res, n[2:], want)
        return None

    def nontrivial(self, c, obs):
        return any(s.split(' ')[0] in ('rejected', 'exists') for s in obs.split(' | '))


TRUSTED = [
    'Coq 8.16.1 kernel + vm_compute (no native_compute)',
    'Model/Store.v: one model for all backends, parameterised by listing order, hand-written from '
    'vakt/storage/{abc,memory,observable}.py, sql/__init__.py, redis.py, mongo.py; tied by the histories',
    'SQLite is real (SQLAlchemy 2.0 + sqlite3, in-memory); Redis and Mongo are hand-written client doubles '
    '(harness/fakes) - their servers cannot be exhibited in this sandbox',
    'which policies a backend rejects is harness knowledge (unhashable uid / dict description / unpicklable member)',
]
ASSUME = ['uids are strings (all backends) or ints (Memory, Redis); an int and its decimal string never occur in '
          'one history (SQL stores uids as strings by design)',
          'batch size 0 yields nothing (limit 0 is the empty page); the full-retrieval clause is for batch >= 1']


def main(argv):
    return run_check('C08', [StoreStream(), ObservableStream()], argv, trusted_base=TRUSTED, assumptions=ASSUME,
                     translated=('memory', 'storage_abc', 'sql', 'sqlmodel', 'redis', 'mongo', 'observable', 'enfold', 'stores_on_generated', 'pin_sql', 'pin_redis', 'pin_mongo', 'pin_util'))


if __name__ == '__main__':
    sys.exit(main(sys.argv[1:]))
