"""C12 - The enfolding storage cache stays coherent with its backend."""
import sys

from .. import storelib
from ..check import Stream, run_check
from ..core import e_list, e_pstr, e_N, e_Z, e_bool, e_option
from .c08 import keys_for


class InjectedFault(Exception):
    pass


class BackendProxy:
    """forwards to the real backend; counts reads; raises on the next mutation when armed"""

    def __init__(self, inner):
        self.inner = inner
        self.armed = False
        self.reads = 0

    def _mut(self, name, *a):
        if self.armed:
            self.armed = False
            raise InjectedFault('injected backend failure')
        return getattr(self.inner, name)(*a)

    def add(self, policy):
        return self._mut('add', policy)

    def update(self, policy):
        return self._mut('update', policy)

    def delete(self, uid):
        return self._mut('delete', uid)

    def get(self, uid):
        self.reads += 1
        return self.inner.get(uid)

    def get_all(self, limit, offset):
        self.reads += 1
        return self.inner.get_all(limit, offset)

    def retrieve_all(self, *a, **kw):
        self.reads += 1
        return self.inner.retrieve_all(*a, **kw)

    def find_for_inquiry(self, inquiry, checker=None):
        self.reads += 1
        return self.inner.find_for_inquiry(inquiry, checker)


def decisions_differ(ec, backend, found):
    """for every tag a candidate search showed (and one that is stored nowhere): the decision of a guard over the cache
    must be the decision of a guard directly over the backend"""
    import re
    from vakt.guard import Guard, Inquiry
    from vakt.checker import StringExactChecker
    tags = sorted(set(int(t) for t in re.findall(r'=(\d+)', found)))
    tags = tags[:2] + tags[-1:] + [999999]        # a few stored tags and one that is stored nowhere
    bad = []
    for t in tags:
        inq = dict(subject='s', resource='r', action='a%d' % t, context={'k': t})
        a = Guard(ec, StringExactChecker()).is_allowed(Inquiry(**inq))
        b = Guard(backend, StringExactChecker()).is_allowed(Inquiry(**inq))
        if a is not b:
            bad.append('%d:%s/%s' % (t, a, b))
    return '+DECISIONS-DIFFER(%s)' % ','.join(bad) if bad else ''


def run_enfold(c):
    from vakt.cache import EnfoldCache
    from vakt.storage.memory import MemoryStorage
    h = storelib.make_backend(c['backend'])
    try:
        for k, t in c['init']:
            h.storage.add(storelib.tagged_policy(k, t))
        proxy = BackendProxy(h.storage)
        cache = MemoryStorage()
        if c['populate'] == 'ctor':
            ec = EnfoldCache(proxy, cache)
        else:
            ec = EnfoldCache(proxy, cache, populate=False)
            if c['populate'] is not None:
                ec.populate_step_size = c['populate']
                ec.populate()
        out = ['init b=%s c=%s' % (storelib.dump(h.storage), storelib.dump(cache))]
        for op, fault in c['ops']:
            proxy.armed = bool(fault) and op[0] in ('add', 'update', 'delete')
            proxy.reads = 0
            try:
                r = storelib.do_op(ec, c['backend'], op)
            except InjectedFault:
                r = 'rejected'
            if r == 'E:InjectedFault':
                r = 'rejected'
            proxy.armed = False
            touched = proxy.reads > 0
            if op[0] == 'find' and r.startswith('find:'):
                r += decisions_differ(ec, h.storage, r)
            out.append('%s r=%s b=%s c=%s' % (r, 'T' if touched else 'F', storelib.dump(h.storage),
                                              storelib.dump(cache)))
        return ' | '.join(out)
    finally:
        h.close()


class EnfoldStream(Stream):
    name = 'enfold_cache_histories'
    imports = 'From Vakt Require Import Model.Store Harness.RunC08.'
    case_type = 'ecase'
    run_fn = 'run_ecase'
    rule = ('a backend (Memory, SQLite, fake Redis x2, fake Mongo) pre-loaded with 0-4 policies, an in-memory cache '
            'store, population at construction / by a later populate() with batch size 1..n / never; then '
            'operation sequences through EnfoldCache with a backend failure injected at mutation positions '
            '(every position is covered across the variants of a history), with candidate searches (find_for_inquiry) '
            'through the cache in between, each followed by decisions through the cache and directly over the backend '
            'for every tag found; compared after every step: result, '
            'whether the backend was read, both stores. non-trivial = populated case with an injected failure '
            'followed by a successful mutation')

    def corpus(self):
        return [{'backend': 'sqlite', 'init': [['sb', 1], ['sa', 2]], 'populate': 1,
                 'ops': [[['get', 'sa'], False], [['delete', 'sa'], True], [['delete', 'sa'], False],
                         [['add', 'sa', 3, False], False], [['retrieve_all', 1], False], [['get', 'sz'], False]]},
                # a backend larger than any paging window a storage might cap (populate asks for pages of 1000)
                {'backend': 'memory', 'init': [['s%04d' % i, i + 1] for i in range(1040)], 'populate': 'ctor',
                 'ops': [[['get', 's0700'], False], [['get', 's1039'], False], [['delete', 's0600'], False]]}]

    def generate(self, rng, tier):
        n = 260 if tier == 'quick' else 2500
        names = list(storelib.BACKENDS)
        for i in range(n):
            b = names[i % len(names)]
            keys = keys_for(rng, b)
            init = [[k, 100 + j] for j, k in enumerate(rng.sample(keys, rng.randint(0, len(keys))))]
            ops = storelib.gen_ops(rng, b, rng.randint(2, 10), keys, allow_bad=False, mut_share=0.65, readd=False)
            # no in-place modification of returned objects here: the cache store is a MemoryStorage, which hands out
            # the stored object itself (aliasing is C09's subject, not coherence)
            ops = [['get', o[1]] if o[0] == 'poke' else o for o in ops]
            # candidate searches (and, with them, decisions) through the cache, interleaved with the mutations
            k = 0
            while k <= len(ops):
                if rng.random() < 0.3:
                    ops.insert(k, ['find'])
                    k += 1
                k += 1
            for o in ops:
                if o[0] in ('add', 'update'):
                    o[2] += 1000
            populate = rng.choice(['ctor', 'ctor', 1, 2, 3, len(keys) + 1, None]) if rng.random() < 0.92 else None
            mut_pos = [j for j, o in enumerate(ops) if o[0] in ('add', 'update', 'delete')]
            yield {'backend': b, 'init': init, 'populate': populate, 'ops': [[o, False] for o in ops]}
            # a failure at every mutation position (one variant per position for short histories)
            for j in mut_pos[:4]:
                yield {'backend': b, 'init': init, 'populate': populate,
                       'ops': [[o, k == j] for k, o in enumerate(ops)]}

    def emit(self, c):
        pop = c['populate']
        pop_z = None if pop is None else (1000 if pop == 'ctor' else pop)
        return '{| e_ob := %s; e_init := %s; e_populate := %s; e_ops := %s |}' % (
            storelib.BACKENDS[c['backend']],
            e_list(['(%s, %s)' % (e_pstr(k), e_N(t)) for k, t in c['init']], '(pstr * N)'),
            e_option(pop_z, e_Z, 'Z'),
            e_list(['(%s, %s, %s)' % (storelib.e_op(o), e_bool(f), e_bool(o[0] == 'find')) for o, f in c['ops']],
                   '(kop * bool * bool)'))

    def impl(self, c):
        return run_enfold(c)

    def oracle(self, c, obs):
        """for populated cases: both stores hold the same policies after every step; a failed/refused mutation
        changes neither; lookups of stored uids and full retrieval do not read the backend"""
        if c['populate'] is None:
            return None
        prev = None
        segs = obs.split(' | ')
        for (op, fault), seg in zip([(None, False)] + [tuple(x) for x in c['ops']], segs):
            parts = dict(x.split('=', 1) for x in seg.split(' ')[1:] if '=' in x and x[0] in 'rbc' and x[1] == '=')
            b = sorted(x for x in parts['b'].strip('[]').split(',') if x)
            cc = sorted(x for x in parts['c'].strip('[]').split(',') if x)
            if b != cc:
                return 'after %r backend %s and cache %s differ' % (op, b, cc)
            res = seg.split(' ')[0]
            if op is not None and res in ('rejected', 'exists') and prev is not None and (b, cc) != prev:
                return 'a failed mutation %r changed a store' % (op,)
            if op is not None and op[0] == 'get' and res != 'get:-' and parts.get('r') == 'T':
                return 'lookup of a stored uid read the backend'
            if op is not None and op[0] == 'retrieve_all' and op[1] > 0 and b and parts.get('r') == 'T':
                return 'full retrieval of a populated cache read the backend'
            prev = (b, cc)
        return None

    def nontrivial(self, c, obs):
        if c['populate'] is None:
            return False
        segs = [s.split(' ')[0] for s in obs.split(' | ')[1:]]
        fl = [f for _, f in c['ops']]
        return any(f and 'ok' in segs[i + 1:] for i, f in enumerate(fl))

    def shrink(self, c):
        ops = c['ops']
        for i in range(len(ops)):
            if len(ops) > 1:
                yield dict(c, ops=ops[:i] + ops[i + 1:])

    def describe(self, c):
        return ('import json; from harness.checks.c12 import run_enfold; print(run_enfold(json.loads(%r)))'
                % __import__('json').dumps(c))


TRUSTED = [
    'Coq 8.16.1 kernel + vm_compute (no native_compute)',
    'Model/Store.v enfold_step / populate / enfold_reads_backend, hand-written from vakt/cache.py EnfoldCache, tied '
    'by the enfold_cache_histories stream',
    'SQLite is real; Redis and Mongo are client doubles (harness/fakes); backend failures are injected by a proxy '
    'object in front of the backend storage',
]
ASSUME = ['paged listing (get_all) through the cache follows the cache order, which differs from an ordered backend by '
          'design; the property covers lookup, full retrieval and candidate search',
          'decisions through the enfolding cache vs the backend are compared by the C07 check']


def main(argv):
    return run_check('C12', [EnfoldStream()], argv, trusted_base=TRUSTED, assumptions=ASSUME,
                     translated=('enfold', 'memory', 'storage_abc', 'sql', 'redis', 'mongo', 'pin_util'))


if __name__ == '__main__':
    sys.exit(main(sys.argv[1:]))
