"""C09 - Persisted policies keep their meaning."""
import json
import pickle
import sys

from .. import gen, specs, guardlib, storelib
from ..check import Stream, run_check
from ..core import e_list, e_pstr, s_bool, s_exc, s_pstr, s_val
from .c10 import e_aval, mk_aval, s_state

PATHS = ['json', 'pickle', 'sqlite', 'mongo', 'redis_json', 'redis_pickle', 'json_stored', 'sqlite_updated',
         'mongo_updated', 'redis_json_updated']


def mk_policy_shared(p):
    """like specs.mk_policy, but one Python object per distinct rule spec (the same rule instance used in
    several places)"""
    cache = {}

    def rule(r):
        k = json.dumps(r, sort_keys=True)
        if k not in cache:
            cache[k] = specs.mk_rule(r)
        return cache[k]

    def elem(e):
        if e[0] == 's':
            return e[1]
        if e[0] == 'r':
            return rule(e[1])
        return {k: rule(r) for k, r in e[1]}
    cls = specs.policy_class(*p.get('tags', ['<', '>']))
    return cls(specs.py(p['uid']), subjects=[elem(e) for e in p['subjects']], effect=specs.py(p['effect']),
               resources=[elem(e) for e in p['resources']], actions=[elem(e) for e in p['actions']],
               context={k: rule(r) for k, r in p['context']}, description=specs.py(p.get('description')))


def stored_state(obj, spec):
    """a rule as a store holds it: an operator rule's state is the argument it was created with (a tuple stays a tuple:
    documents written by any version carry {"py/tuple": [...]}); reading such a document does not run __init__"""
    k = spec[0]
    if k in specs.OPERATOR:
        obj.__dict__['val'] = specs.py(spec[1])
    elif k in ('And', 'Or'):
        for o, sp in zip(obj.rules, spec[1]):
            stored_state(o, sp)
    elif k == 'Not':
        stored_state(obj.rule, spec[1])


def stored_policy_state(pol, p):
    for f in ('subjects', 'resources', 'actions'):
        for e, sp in zip(getattr(pol, f), p[f]):
            if sp[0] == 'r':
                stored_state(e, sp[1])
            elif sp[0] == 'd':
                for (k, rs) in sp[1]:
                    stored_state(e[k], rs)
    for k, rs in p['context']:
        stored_state(pol.context[k], rs)


def through(path, pol, spec=None):
    from vakt.policy import Policy
    if path == 'json':
        return Policy.from_json(pol.to_json())
    if path == 'json_stored':
        stored_policy_state(pol, spec)
        return Policy.from_json(pol.to_json())
    if path == 'pickle':
        return pickle.loads(pickle.dumps(pol))
    updated = path.endswith('_updated')
    h = storelib.make_backend(path[:-len('_updated')] if updated else path)
    try:
        if updated:
            # the uid first holds an unrelated policy of the OTHER kind, then the policy is written with update():
            # what is read back must be the policy that was written - nothing of its predecessor
            old = storelib.predecessor(pol)
            h.storage.add(old)
            h.storage.update(pol)
        else:
            h.storage.add(pol)
        # a sibling with the same content under another uid is stored, read and modified IN PLACE (context keys,
        # attribute dictionaries): what is read for `pol` afterwards must not be affected by that
        import copy
        from vakt.rules.logic import Neither
        sib = copy.deepcopy(pol)
        object.__setattr__(sib, 'uid', 'sibling-of-%s' % pol.uid)
        try:
            h.storage.add(sib)
            for got in (h.storage.get(sib.uid), h.storage.get(pol.uid)):
                if got is not None:
                    got.context['poked'] = Neither()
                    for f in ('subjects', 'resources', 'actions'):
                        for e in getattr(got, f):
                            if isinstance(e, dict):
                                e['poked'] = Neither()
        except Exception:  # noqa
            pass
        return h.storage.get(pol.uid)
    finally:
        h.close()


def probe(pol, probes):
    """the observation: identity attributes and the match verdict of every probe under each checker"""
    from vakt.guard import Guard
    head = 'uid=%s allow=%s desc=%s type=%s ctx=%s' % (
        s_val(pol.uid), s_bool(pol.allow_access()), s_val(pol.description), pol.type,
        ','.join(s_pstr(k) for k in pol.context))
    rows = []
    for ckn in ('CRegex', 'CExact', 'CFuzzy', 'CRules'):
        ck = specs.mk_checker(ckn)
        row = []
        for q in probes:
            inq = specs.mk_inquiry(q)
            try:
                m = (ck.fits(pol, 'actions', inq.action, inq) and ck.fits(pol, 'subjects', inq.subject, inq) and
                     ck.fits(pol, 'resources', inq.resource, inq) and Guard.check_context_restriction(pol, inq))
                row.append(s_bool(bool(m)))
            except BaseException as e:  # noqa
                row.append(s_exc(e))
        rows.append(','.join(row))
    return head + ' | ' + ' | '.join(rows)


class RoundTripStream(Stream):
    name = 'persistence_round_trip'
    imports = guardlib.GUARD_IMPORTS.replace('Harness.RunGuard.', 'Harness.RunGuard Harness.RunC09.')
    case_type = 'pcase'
    run_fn = 'run_pcase'
    shard = 120
    rule = ('policies with nested compositions, tuples, sets of hashables, regex rules, Unicode text and the same '
            'rule instance used in several places, written and read back through JSON text, pickle, SQL rows '
            '(SQLite), Mongo documents and Redis values (client doubles, both serializers), element collections given '
            'as lists or as tuples, and JSON text holding the rules '
            'with the state of their arguments as given (what stored documents carry); the reloaded policy is '
            'probed with 3-5 inquiries derived from it (one matching, one-point mutations) under all four '
            'checkers and compared with the model\'s verdicts for the original policy, together with uid, effect, '
            'description, type and context keys. non-trivial = policy with a composition, a shared instance or a '
            'tuple/set argument and at least one matching probe')

    def corpus(self):
        shared = ['Or', [['Eq', 1], ['In', [1, 2]]]]
        p = {'uid': 'a', 'effect': 'allow', 'subjects': [['r', shared]], 'resources': [['r', shared]],
             'actions': [['d', [['k', shared]]]], 'context': [['c', shared]], 'description': 'd', 'tags': ['<', '>']}
        probes = [{'resource': 1, 'action': {'D': [['k', 2]]}, 'subject': 1, 'context': {'D': [['c', 1]]}}]
        out = [{'path': 'sqlite', 'policy': p, 'probes': probes, 'rxtable': [], 'shared': True},
               {'path': 'json', 'policy': p, 'probes': probes, 'rxtable': [], 'shared': True}]
        # a compiled pattern is stored by its source text: whatever else the compiled object carries (flags) must not be
        # what its meaning hangs on - 'a.b' asked with a line break in the middle, through every path
        rxm = ['RegexMatch', ['cat', ['chr', 97], ['cat', ['dot'], ['chr', 98]]]]
        pr = {'uid': 'rx', 'effect': 'allow', 'subjects': [['r', rxm]], 'resources': [['r', ['Any']]],
              'actions': [['r', ['Not', rxm]]], 'context': [['c', rxm]], 'description': None, 'tags': ['<', '>']}
        qs = [{'resource': 1, 'action': 'zz', 'subject': s, 'context': {'D': [['c', c]]}}
              for s, c in (('a\nb', 'axb'), ('axb', 'a\nb'), ('axb', 'axb'))]
        for path in PATHS:
            out.append({'path': path, 'policy': pr, 'probes': qs, 'rxtable': [], 'shared': False})
        return out

    def deep(self):
        """deeply nested rules and rule arguments (a serializer with a depth bound or a recursion limit shows here)"""
        def chain(kind, d, leaf):
            r = leaf
            for _ in range(d):
                r = ['Not', r] if kind == 'Not' else [kind, [r]]
            return r

        def nest(d):
            v = [7]
            for _ in range(d):
                v = [v, 'x']
            return v
        for path in PATHS:
            for d in (6, 17, 36):
                base = {'uid': 'deep', 'effect': 'allow', 'subjects': [['s', 'Max']], 'resources': [['s', 'r']],
                        'actions': [['s', 'a']], 'context': [], 'description': None, 'tags': ['<', '>']}
                inq = {'resource': 'r', 'action': 'a', 'subject': 'Max', 'context': None}
                for kind in ('Not', 'And', 'Or'):
                    leaf = ['Eq', 1]
                    p = dict(base, subjects=[['r', chain(kind, d, leaf)]], resources=[['r', ['Any']]],
                             actions=[['d', [['k', chain(kind, d // 2, ['Eq', 'a'])]]]])
                    probes = [dict(inq, subject=1, action={'D': [['k', 'a']]}), dict(inq, subject=2, action={'D': [['k', 'a']]}),
                              dict(inq, subject=1, action={'D': [['k', 'b']]})]
                    yield {'path': path, 'policy': p, 'probes': probes, 'rxtable': [], 'shared': False}
                deepv = nest(d)
                p = dict(base, subjects=[['r', ['Any']]], actions=[['r', ['Any']]],
                         resources=[['r', ['NotEq', specs.jv(deepv)]]], context=[['c', ['Eq', specs.jv(deepv)]]])
                probes = [dict(inq, resource=specs.jv(deepv), context={'D': [['c', specs.jv(deepv)]]}),
                          dict(inq, resource=specs.jv(nest(d - 1)), context={'D': [['c', specs.jv(deepv)]]}),
                          dict(inq, resource='z', context={'D': [['c', specs.jv(nest(d - 1))]]})]
                yield {'path': path, 'policy': p, 'probes': probes, 'rxtable': [], 'shared': False}

    def generate(self, rng, tier):
        for c in self.deep():
            yield c
        n = 900 if tier == 'quick' else 9000
        for i in range(n):
            path = PATHS[i % len(PATHS)]
            ck = rng.choice(['CRules', 'CRules', 'CRegex', 'CExact'])
            sc = gen.scenario(rng, ck, n_policies=1, illtyped=0, raising=False, unbalanced=False, easy=True)
            if not sc['policies']:
                continue
            p = dict(sc['policies'][0])
            p['uid'] = rng.choice(['u1', 'p', 'é7']) if path.startswith('sqlite') or rng.random() < 0.6 else rng.choice([1, 42])
            p['description'] = rng.choice([None, 'text', 'é ж'])
            p['effect'] = rng.choice(['allow', 'allow', 'deny', 'ALLOW', None])
            probes = [sc['inquiry']]
            for _ in range(rng.randint(2, 4)):
                q = dict(sc['inquiry'])
                f = rng.choice(['resource', 'action', 'subject', 'context'])
                if f == 'context':
                    q[f] = rng.choice([None, q[f]])
                else:
                    v = specs.py(q[f])
                    q[f] = specs.jv(gen.related(rng, v)) if rng.random() < 0.7 else specs.jv(gen.word(rng))
                probes.append(q)
            tuples = [f for f in ('subjects', 'resources', 'actions') if rng.random() < 0.35]
            yield {'path': path, 'policy': p, 'probes': probes, 'rxtable': sc['rxtable'], 'shared': rng.random() < 0.5,
                   'tuples': tuples}

    def emit(self, c):
        return '{| pc_table := %s; pc_pol := %s; pc_probes := %s |}' % (
            guardlib.e_table(c['rxtable']), specs.e_policy(c['policy']),
            e_list([specs.e_inquiry(q) for q in c['probes']], 'inquiry'))

    def _orig(self, c):
        pol = mk_policy_shared(c['policy']) if c.get('shared') else specs.mk_policy(c['policy'])
        for f in c.get('tuples', ()):
            setattr(pol, f, tuple(getattr(pol, f)))       # element collections given as tuples (the default is `()`)
        return pol

    def impl(self, c):
        pol = self._orig(c)
        try:
            back = through(c['path'], pol, c['policy'])
        except Exception as e:  # noqa
            return 'LOAD-FAILED %s: %s' % (type(e).__name__, str(e)[:120])
        if back is None:
            return 'LOAD-FAILED none'
        return probe(back, c['probes'])

    def oracle(self, c, obs):
        """the statement on the implementation alone: the reloaded policy answers like the original object"""
        if obs.startswith('LOAD-FAILED'):
            return 'a stored policy could not be read back: %s' % obs
        want = probe(self._orig(c), c['probes'])
        if c['path'].startswith('sqlite'):
            # documented representation change of the SQL backend: uid is stored as a string
            want = want.replace('uid=' + s_val(specs.py(c['policy']['uid'])), 'uid=' + s_val(str(specs.py(c['policy']['uid']))), 1)
            obs_cmp = obs
        else:
            obs_cmp = obs
        if obs_cmp != want:
            return 'reloaded policy differs from the original: %s  vs original %s' % (obs_cmp[:300], want[:300])
        return None

    def nontrivial(self, c, obs):
        txt = json.dumps(c['policy'])
        rich = c.get('shared') or any(k in txt for k in ('"And"', '"Or"', '"Not"', '"T"', '"In"', '"AnyIn"'))
        return bool(rich) and ('T' in obs.split(' | ', 1)[-1])

    def shrink(self, c):
        for i in range(len(c['probes'])):
            if len(c['probes']) > 1:
                yield dict(c, probes=c['probes'][:i] + c['probes'][i + 1:])
        p = c['policy']
        if p['context']:
            yield dict(c, policy=dict(p, context=[]))

    def describe(self, c):
        return ('import json; from harness.checks.c09 import RoundTripStream; '
                'print(RoundTripStream().impl(json.loads(%r)))' % json.dumps(c))


class DocStream(Stream):
    name = 'from_json_documents'
    imports = 'From Vakt Require Import Model.Rules Model.Policy Model.Regex Harness.RunC09.'
    case_type = 'list (pstr * aval)'
    run_fn = 'run_doc'
    rule = ('JSON documents with missing / extra / legacy fields given to Policy.from_json: with or without uid, '
            'with a stored type that lies, missing / empty / null effect, context and/or legacy rules, unknown '
            'keys, ill-typed element lists; compared: exception class or vars(policy). non-trivial = document '
            'lacking uid, carrying type, or carrying rules')

    def generate(self, rng, tier):
        from .c10 import gen_field, gen_ctx, gen_scalar_aval, EFFECTS
        n = 500 if tier == 'quick' else 5000
        for _ in range(n):
            doc = []
            if rng.random() < 0.85:
                doc.append(['uid', gen_scalar_aval(rng)])
            for f in ('subjects', 'resources', 'actions'):
                if rng.random() < 0.7:
                    v = gen_field(rng)
                    if v[0] == 'seq':
                        v = ['seq', False, [e for e in v[2] if e[0] in ('s', 'r', 'd', 'b')]]     # JSON arrays are lists
                    doc.append([f, v])
            if rng.random() < 0.7:
                doc.append(['effect', ['v', rng.choice(EFFECTS)]])
            if rng.random() < 0.5:
                doc.append(['context', ['ctx', gen_ctx(rng)]])
            if rng.random() < 0.35:
                doc.append(['rules', ['ctx', gen_ctx(rng)]])
            if rng.random() < 0.5:
                doc.append(['type', ['v', rng.choice([1, 2, 3, None, 'x'])]])
            if rng.random() < 0.5:
                doc.append(['description', gen_scalar_aval(rng)])
            if rng.random() < 0.08:
                doc.append(['surprise', ['v', 1]])
            rng.shuffle(doc)
            yield {'doc': doc}

    def emit(self, c):
        return e_list(['(%s, %s)' % (e_pstr(k), e_aval(v)) for k, v in c['doc']], '(pstr * aval)')

    def impl(self, c):
        import warnings
        import jsonpickle
        from vakt.policy import Policy
        props = {k: mk_aval(v) for k, v in c['doc']}
        text = jsonpickle.encode(props)
        try:
            with warnings.catch_warnings():
                warnings.simplefilter('ignore')
                p = Policy.from_json(text)
        except Exception as e:  # noqa
            return s_exc(e)
        return 'ok ' + s_state(p)

    def oracle(self, c, obs):
        keys = [k for k, _ in c['doc']]
        if 'uid' not in keys and obs != 'E:PolicyCreationError':
            return 'a document without uid was not refused with PolicyCreationError: %s' % obs
        if obs.startswith('ok '):
            attrs = dict(x.split('=', 1) for x in obs[3:].split(';'))
            eff = dict(c['doc']).get('effect')
            if (eff is None or not specs.py(eff[1])) and attrs.get("'effect") != "'deny":
                return 'missing / empty effect did not become deny: %s' % attrs.get("'effect")
            from .c10 import C10Stream
            r = C10Stream().oracle({}, obs)
            if r:
                return 'stored data overrode the computed type: ' + r
        return None

    def nontrivial(self, c, obs):
        keys = [k for k, _ in c['doc']]
        return 'uid' not in keys or 'type' in keys or 'rules' in keys


# ---------------------------------------------------------------------------------------------------------------
# the stored structure of a rule: Model.RuleJson against Rule.to_json / Rule.from_json (jsonpickle)
# ---------------------------------------------------------------------------------------------------------------
CODEC_KINDS = set(specs.OPERATOR) | set(specs.LISTR) | set(specs.STRR) | set(specs.MATCH) | {
    'Truthy', 'Falsy', 'Any', 'Neither', 'And', 'Or', 'Not', 'PairsEqual', 'CIDR', 'SubjectEqual', 'ActionEqual',
    'ResourceIn'}


def codec_spec_ok(r):
    """inside the codec's domain, and the arguments of a list rule pairwise distinct as Python set members"""
    k = r[0]
    if k not in CODEC_KINDS or k in specs.ALIASES:
        return False
    if k in ('And', 'Or'):
        return all(codec_spec_ok(x) for x in r[1])
    if k == 'Not':
        return codec_spec_ok(r[1])
    if k in specs.LISTR:
        args = [specs.py(x) for x in r[1]]
        try:
            return len(set(args)) == len(args) and len({s_val(a) for a in args}) == len(args)
        except TypeError:
            return False
    return True


def _set_order(spec_args, items, render):
    """the members of a set in the order of the spec's argument list (a set has no order of its own)"""
    want = [s_val(specs.py(a)) for a in spec_args]
    keyed = sorted(items, key=lambda x: want.index(render(x)) if render(x) in want else len(want))
    return keyed


def canon_doc(doc, spec):
    """json.loads(rule.to_json()) with every py/set member list put in the spec's order"""
    k = spec[0]
    if k in specs.LISTR and isinstance(doc.get('data'), dict) and 'py/set' in doc['data']:
        from jsonpickle import unpickler
        items = _set_order(spec[1], doc['data']['py/set'], lambda x: s_val(_plain_decode(x)))
        return dict(doc, data={'py/set': items})
    if k in ('And', 'Or') and isinstance(doc.get('rules'), dict) and 'py/tuple' in doc['rules']:
        ms = doc['rules']['py/tuple']
        if len(ms) == len(spec[1]):
            return dict(doc, rules={'py/tuple': [canon_doc(m, sp) if isinstance(m, dict) else m
                                                 for m, sp in zip(ms, spec[1])]})
    if k == 'Not' and isinstance(doc.get('rule'), dict):
        return dict(doc, rule=canon_doc(doc['rule'], spec[1]))
    return doc


def _plain_decode(x):
    if isinstance(x, dict) and list(x) == ['py/tuple']:
        return tuple(_plain_decode(y) for y in x['py/tuple'])
    if isinstance(x, list):
        return [_plain_decode(y) for y in x]
    if isinstance(x, dict):
        return {k: _plain_decode(y) for k, y in x.items()}
    return x


def show_decoded(o, spec=None):
    """mirror of RunC09.show_rule_full for a real rule object; spec (when known) orders set members"""
    from vakt.rules.base import Rule
    if not isinstance(o, Rule):
        return '<%s>' % type(o).__name__
    name = type(o).__name__
    d = vars(o)
    parts = []
    for k in sorted(d):
        v = d[k]
        if k == 'rules' and isinstance(v, (tuple, list)):
            sub = spec[1] if spec and spec[0] in ('And', 'Or') and len(spec[1]) == len(v) else [None] * len(v)
            parts.append('rules=' + ';'.join(show_decoded(m, sp) for m, sp in zip(v, sub)) +
                         ('' if isinstance(v, tuple) else '!list'))
        elif k == 'rule':
            parts.append('rule=' + show_decoded(v, spec[1] if spec and spec[0] == 'Not' else None))
        elif k == 'data' and isinstance(v, (set, frozenset)):
            items = list(v)
            if spec and spec[0] in specs.LISTR:
                items = _set_order(spec[1], items, s_val)
            else:
                items = sorted(items, key=s_val)
            parts.append('data=[' + ','.join(s_val(x) for x in items) + ']')
        else:
            try:
                parts.append('%s=%s' % (k, s_val(v)))
            except TypeError:
                parts.append('%s=<%s>' % (k, type(v).__name__))
    return '%s(%s)' % (name, ';'.join(parts))


def doc_spec(doc):
    """just enough of a spec to order the set members of a decoded structure like the structure lists them"""
    if not isinstance(doc, dict):
        return ['?']
    cls = str(doc.get('py/object', '')).rsplit('.', 1)[-1]
    try:
        if cls in specs.LISTR:
            return [cls, [specs.jv(_plain_decode(x)) for x in doc['data']['py/set']]]
        if cls in ('And', 'Or'):
            return [cls, [doc_spec(m) for m in doc['rules']['py/tuple']]]
        if cls == 'Not':
            return ['Not', doc_spec(doc['rule'])]
    except (KeyError, TypeError):
        pass
    return ['?']


def e_doc(v):
    """parsed JSON -> Gallina val literal (JSON objects keep their key order)"""
    from ..core import e_val
    return e_val(v)


class RuleCodecStream(Stream):
    name = 'rule_codec'
    imports = ('From Vakt Require Import Base.PyVal Model.Regex Model.Rules Model.Policy Model.RuleJson '
               'Harness.RunC09.')
    case_type = 'ccase'
    run_fn = 'run_codec'
    shard = 250
    rule = ('rules of every built-in kind but RegexMatch (nested compositions up to depth 4, tuples / lists / '
            'dictionaries as arguments, sets of hashables, Unicode text) written with Rule.to_json: the parsed JSON '
            'structure is compared with Model.RuleJson.rule_val, and the object Rule.from_json rebuilds from the text '
            '(class, attribute names, attribute values with their types) with rule_of_val of that structure; a second '
            'kind of case decodes structures not produced by the encoder (attributes in another order, members '
            'regrouped). non-trivial = a composition, a tuple or a set argument is involved')

    def corpus(self):
        return [{'k': 'enc', 'rule': ['And', [['Not', ['Or', [['Eq', {'T': [1, 'a']}], ['In', [1, {'T': [2]}]]]]],
                                             ['StartsWith', 'a', True], ['SubjectMatch', 'id']]]},
                {'k': 'enc', 'rule': ['Eq', [{'T': []}, [[]], {'D': [['a', {'T': [None]}]]}]]},
                {'k': 'enc', 'rule': ['CIDR', '10.0.0.0/8']},
                {'k': 'dec', 'doc': {'py/object': 'vakt.rules.string.Equal', 'ci': True, 'val': 'x'}, 'fuel': 1}]

    def generate(self, rng, tier):
        n = 700 if tier == 'quick' else 7000
        made = 0
        while made < n:
            r = gen.rule(rng, rng.choice([0, 1, 2, 2, 3]), inquiry_rules=True, raising=False)
            if not codec_spec_ok(r):
                continue
            made += 1
            if rng.random() < 0.75:
                yield {'k': 'enc', 'rule': r}
                continue
            # a structure the encoder did not write: attributes of every object put in another order
            try:
                doc = json.loads(specs.mk_rule(r).to_json())
            except Exception:  # noqa
                continue
            yield {'k': 'dec', 'doc': self._reorder(rng, doc), 'fuel': rng.choice([1, 2, 3, 5, 8])}

    def _reorder(self, rng, doc):
        if isinstance(doc, list):
            return [self._reorder(rng, x) for x in doc]
        if not isinstance(doc, dict):
            return doc
        items = [(k, self._reorder(rng, v)) for k, v in doc.items()]
        if 'py/object' in doc:
            head = [kv for kv in items if kv[0] == 'py/object']
            rest = [kv for kv in items if kv[0] != 'py/object']
            rng.shuffle(rest)
            items = head + rest
        return dict(items)

    def emit(self, c):
        if c['k'] == 'enc':
            return '(CEnc %s)' % specs.e_rule(c['rule'])
        return '(CDec %d%%nat %s)' % (c['fuel'], e_doc(c['doc']))

    def impl(self, c):
        from vakt.rules.base import Rule
        if c['k'] == 'enc':
            r = specs.mk_rule(c['rule'])
            text = r.to_json()
            doc = canon_doc(json.loads(text), c['rule'])
            back = Rule.from_json(text)
            return s_val(doc) + ' => ' + show_decoded(back, c['rule'])
        try:
            back = Rule.from_json(json.dumps(c['doc']))
        except Exception as e:  # noqa
            return s_exc(e)
        return show_decoded(back, doc_spec(c['doc']))

    def oracle(self, c, obs):
        """the statement on the implementation alone: what is read back is the rule that was written"""
        if c['k'] != 'enc':
            return None
        want = show_decoded(specs.mk_rule(c['rule']), c['rule'])
        got = obs.split(' => ', 1)[-1]
        if got != want:
            return 'the rule read back differs from the rule written: %s  vs  %s' % (got[:300], want[:300])
        return None

    def nontrivial(self, c, obs):
        txt = json.dumps(c.get('rule', c.get('doc')))
        return any(k in txt for k in ('"And"', '"Or"', '"Not"', '"T"', 'py/tuple', 'py/set', '"In"', '"AnyIn"'))

    def shrink(self, c):
        if c['k'] == 'enc':
            r = c['rule']
            if r[0] in ('And', 'Or'):
                for x in r[1]:
                    yield dict(c, rule=x)
                for i in range(len(r[1])):
                    yield dict(c, rule=[r[0], r[1][:i] + r[1][i + 1:]])
            elif r[0] == 'Not':
                yield dict(c, rule=r[1])
            elif r[0] in specs.LISTR:
                for i in range(len(r[1])):
                    yield dict(c, rule=[r[0], r[1][:i] + r[1][i + 1:]])

    def describe(self, c):
        return ('import json; from harness.checks.c09 import RuleCodecStream; '
                'print(RuleCodecStream().impl(json.loads(%r)))' % json.dumps(c))


# ---------------------------------------------------------------------------------------------------------------
# a whole policy written with to_json (Policy._data) and read with Policy.from_json: Model.Policy data_of/from_props
# ---------------------------------------------------------------------------------------------------------------
class PolicyJsonStream(Stream):
    name = 'policy_written_then_read'
    imports = 'From Vakt Require Import Model.Rules Model.Policy Model.Regex Harness.RunC10 Harness.RunC09.'
    case_type = 'RunC10.case'
    run_fn = 'run_pjson'
    quota = (400, 4000)
    rule = ('policies built by the constructor (lists or tuples of str / rule / dict elements, plain values, context / '
            'legacy rules) and changed by 0-6 attribute assignments (rejected ones included), then written with '
            'to_json and read with Policy.from_json: vars(policy) after writing (tuples became lists, in place) and '
            'vars() of the policy read back (or the exception) are compared with data_of / from_props (data_of s) of '
            'the model. non-trivial = a tuple-valued attribute was written and the policy could be read back')

    def generate(self, rng, tier):
        from .c10 import C10Stream, gen_op
        n = self.quota[0] if tier == 'quick' else self.quota[1]
        src = C10Stream().generate(rng, 'thorough')      # a lazy source: as many cases as the quota asks for
        keep = getattr(self, 'keep', lambda c: True)
        made = 0
        for case in src:
            if made >= n:
                break
            ops = [o for o in case['ops'] if o[0] not in ('custom_attr', '@json')][:6]
            if rng.random() < 0.5:
                ops = []
            c = {'ctor': case['ctor'], 'ops': ops}
            if not keep(c):
                continue
            if self.impl(c).startswith(('E:', 'B:')) and rng.random() < 0.9:
                continue                      # the constructor refused: that is C10's subject, keep a few
            made += 1
            yield c

    def emit(self, c):
        from .c10 import C10Stream
        return C10Stream().emit(c)

    def impl(self, c):
        import warnings
        from vakt.policy import Policy
        from .c10 import s_state
        a = c['ctor']
        with warnings.catch_warnings():
            warnings.simplefilter('ignore')
            try:
                p = Policy(mk_aval(a['uid']), subjects=mk_aval(a['subjects']), effect=mk_aval(a['effect']),
                           resources=mk_aval(a['resources']), actions=mk_aval(a['actions']),
                           context=mk_aval(a['context']), rules=mk_aval(a['rules']),
                           description=mk_aval(a['description']))
            except Exception as e:  # noqa
                return s_exc(e)
            for n, v in c['ops']:
                try:
                    setattr(p, n, mk_aval(v))
                except Exception:  # noqa
                    pass
            text = p.to_json()
            written = s_state(p)
            try:
                back = s_state(Policy.from_json(text))
            except Exception as e:  # noqa
                back = s_exc(e)
        return written + ' / ' + back

    def oracle(self, c, obs):
        """the statement on the implementation alone: a policy that was only constructed reads back as written"""
        if ' / ' not in obs or c['ops']:
            return None
        written, back = obs.split(' / ', 1)
        if written != back:
            return 'a constructed policy read back differs from what was written: %s  vs  %s' % (back[:300], written[:300])
        return None

    def nontrivial(self, c, obs):
        txt = json.dumps([c['ctor'], c['ops']])
        return '["seq", true' in txt and ' / ' in obs and not obs.split(' / ', 1)[1].startswith(('E:', 'B:'))

    def shrink(self, c):
        for i in range(len(c['ops'])):
            yield dict(c, ops=c['ops'][:i] + c['ops'][i + 1:])

    def describe(self, c):
        return ('import json; from harness.checks.c09 import PolicyJsonStream; '
                'print(PolicyJsonStream().impl(json.loads(%r)))' % json.dumps(c))


class PolicyDocStream(PolicyJsonStream):
    """the JSON document itself: json.loads(policy.to_json()) against Model.PolicyDoc.policy_doc of the written state, and
    the policy rebuilt from it against read_doc (props_of_doc, then from_props)"""
    name = 'policy_document'
    imports = ('From Vakt Require Import Model.Rules Model.Policy Model.Regex Model.RuleJson Model.PolicyDoc '
               'Harness.RunC10 Harness.RunC09.')
    run_fn = 'run_pdoc'
    rule = ('the cases of policy_written_then_read whose rules are within the rule codec (no RegexMatch, no user-defined '
            'rule, list rules with at most one argument - a set of two has no order to compare) and whose values have one '
            'representation in the model: the parsed JSON text of to_json is compared with policy_doc (data_of s), and '
            'vars() of the policy rebuilt by Policy.from_json (or the exception) with read_doc of that document. '
            'non-trivial = the document holds a rule object inside a list or dictionary')

    @staticmethod
    def _multi_set(x):
        if isinstance(x, list):
            if len(x) == 2 and x[0] in specs.LISTR and isinstance(x[1], list) and len(x[1]) >= 2:
                return True
            return any(PolicyDocStream._multi_set(y) for y in x)
        if isinstance(x, dict):
            return any(PolicyDocStream._multi_set(y) for y in x.values())
        return False

    quota = (350, 3500)

    def keep(self, c):
        t = json.dumps([c['ctor'], c['ops']])
        return not self._multi_set([c['ctor'], c['ops']]) and not any(
            k in t for k in ('"Junk"', '"Const"', '"Broken"', '"RegexMatch', '"k"'))

    def impl(self, c):
        import warnings
        from vakt.policy import Policy
        from .c10 import s_state
        a = c['ctor']
        with warnings.catch_warnings():
            warnings.simplefilter('ignore')
            try:
                p = Policy(mk_aval(a['uid']), subjects=mk_aval(a['subjects']), effect=mk_aval(a['effect']),
                           resources=mk_aval(a['resources']), actions=mk_aval(a['actions']),
                           context=mk_aval(a['context']), rules=mk_aval(a['rules']),
                           description=mk_aval(a['description']))
            except Exception as e:  # noqa
                return s_exc(e)
            for n, v in c['ops']:
                try:
                    setattr(p, n, mk_aval(v))
                except Exception:  # noqa
                    pass
            text = p.to_json()
            try:
                doc = s_val(json.loads(text))
            except TypeError:
                return 'SKIP value outside the universe'
            try:
                back = s_state(Policy.from_json(text))
            except Exception as e:  # noqa
                back = s_exc(e)
        return doc + ' => ' + back

    def oracle(self, c, obs):
        return None

    def nontrivial(self, c, obs):
        return 'py/object' in obs.replace('112.121.47.111.98.106.101.99.116', 'py/object')

    def describe(self, c):
        return ('import json; from harness.checks.c09 import PolicyDocStream; '
                'print(PolicyDocStream().impl(json.loads(%r)))' % json.dumps(c))


TRUSTED = [
    'Coq 8.16.1 kernel + vm_compute (no native_compute)',
    'Model/Policy.v from_props + ctor + data_of (Policy.from_json / __init__ / _data), tied by the from_json_documents '
    'and policy_written_then_read streams; the '
    'checkers / rules models give the verdicts the reloaded policy must reproduce (persistence_round_trip stream)',
    'Model/RuleJson.v rule_val / rule_of_val (the JSON object jsonpickle writes for a rule and the object it rebuilds), '
    'tied to Rule.to_json / Rule.from_json by the rule_codec stream; the members of a py/set are compared as a set',
    'Model/PolicyDoc.v policy_doc / props_of_doc (the JSON document of a policy and what jsonpickle.decode rebuilds), tied '
    'to Policy.to_json / Policy.from_json by the policy_document stream',
    'jsonpickle, pickle, SQLAlchemy JSON columns and bson are exercised, not modelled; SQLite is real, Mongo and '
    'Redis are client doubles',
]
ASSUME = ['rule arguments are JSON-representable values of the modelled universe (no non-string dictionary keys, no '
          'user classes beyond the two importable test rules)',
          'round-trip equivalence through each path is shown by the correspondence run, not by a theorem (C09 partial)']


def main(argv):
    return run_check('C09', [RoundTripStream(), DocStream(), RuleCodecStream(), PolicyJsonStream(), PolicyDocStream()], argv, trusted_base=TRUSTED, assumptions=ASSUME,
                     translated=('policy', 'sqlmodel', 'pin_inquiry', 'pin_sql', 'pin_mongo', 'pin_redis', 'pin_rules', 'pin_util'))


if __name__ == '__main__':
    sys.exit(main(sys.argv[1:]))
