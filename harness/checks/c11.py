"""C11 - The cached guard answers exactly like an uncached one."""
import sys

from .. import gen, specs, guardlib, storelib
from ..check import Stream, run_check
from ..core import e_list, e_pstr, e_N, e_nat, e_bool, e_option, s_bool

CAPS = [None, 0, 1, 2, 256]
BACKENDS = ['memory', 'memory', 'sqlite', 'redis_pickle']


class ReadCounter:
    """proxy in front of the real storage counting find_for_inquiry calls"""

    def __init__(self, inner):
        self.inner = inner
        self.finds = 0

    def find_for_inquiry(self, inquiry, checker=None):
        self.finds += 1
        return self.inner.find_for_inquiry(inquiry, checker)

    def __getattr__(self, name):
        return getattr(self.inner, name)


def custom_backend(sized=False):
    from vakt.cache import AllowanceCacheBackend

    class DictBackend(AllowanceCacheBackend):
        def __init__(self):
            self.store = {}

        if sized:
            # a container-like back-end: empty (and therefore falsy) when it is handed over
            def __len__(self):
                return len(self.store)

        def wrap(self, func):
            def cached(inquiry):
                if inquiry in self.store:
                    return self.store[inquiry]
                r = func(inquiry)
                self.store[inquiry] = r
                return r
            return cached

        def invalidate(self):
            self.store.clear()

        def info(self):
            return None
    return DictBackend()


def key_of_policy(p):
    return 's' + str(specs.py(p['uid']))


def run_cached(c):
    from vakt.cache import create_cached_guard
    from vakt.guard import Guard
    h = storelib.make_backend(c['backend'])
    try:
        counter = ReadCounter(h.storage)
        ck = specs.mk_checker(c['checker'])
        backend = custom_backend(sized=c.get('custom') == 'sized') if c.get('custom') else None
        if c.get('custom'):
            guard, st, cache = create_cached_guard(counter, ck, cache=backend)
        else:
            guard, st, cache = create_cached_guard(counter, ck, maxsize=c['cap'])
        if c.get('drop_handle'):
            # the caller keeps only (guard, storage): the third returned value is dropped and collected
            import gc
            del cache
            gc.collect()
            cache = None

        class L:
            n = 0

            def update(self):
                L.n += 1
        listener = L()              # kept alive by this frame
        st.add_listener(listener)
        out, fresh = [], []
        shared = None
        for o in c['ops']:
            if o[0] == 'ask':
                counter.finds = 0
                inq = specs.mk_inquiry(c['inquiries'][o[1]])           # a fresh, content-equal object
                if c.get('reuse'):
                    # one long-lived Inquiry object whose fields are overwritten before every question
                    if shared is None:
                        shared = inq
                    else:
                        shared.resource, shared.action = inq.resource, inq.action
                        shared.subject, shared.context = inq.subject, inq.context
                    inq = shared
                a = guard.is_allowed(inq)
                hit = counter.finds == 0
                if c.get('custom'):
                    size = len(backend.store)
                else:
                    size = guard.is_allowed_check.cache_info().currsize
                out.append('ask %s hit=%s size=%d' % (s_bool(a) if isinstance(a, bool) else repr(a), s_bool(hit), size))
                fresh.append(Guard(h.storage, specs.mk_checker(c['checker'])).is_allowed(specs.mk_inquiry(c['inquiries'][o[1]])))
            else:
                L.n = 0
                raised = False
                try:
                    if o[0] == 'add':
                        st.add(specs.mk_policy(o[1]))
                    elif o[0] == 'update':
                        st.update(specs.mk_policy(o[1]))
                    else:
                        st.delete(specs.py(o[1]))
                except Exception:  # noqa
                    raised = True
                out.append('mut raised=%s n=%d' % (s_bool(raised), L.n))
                fresh.append(None)
        return ' | '.join(out), fresh
    finally:
        h.close()


class CachedGuardStream(Stream):
    name = 'cached_guard_histories'
    imports = guardlib.GUARD_IMPORTS.replace('Harness.RunGuard.', 'Model.Store Model.Lru Model.AllowCache Harness.RunGuard Harness.RunC11.')
    case_type = 'ccase'
    run_fn = 'run_ccase'
    rule = ('histories (<= 30 ops) of add / update / delete of generated policies (including adds of an existing '
            'uid, which raise) interleaved with asks over a pool of 3-6 inquiries, each ask made with a fresh '
            'content-equal Inquiry object; capacities None, 0, 1, 2, 256; default LRU back-end and a user-supplied '
            'dict back-end; underlying Memory, SQLite and Redis (fake client) stores; compared per op: raised?, '
            'number of notifications, answer, whether the storage was consulted, cache size; oracle: every answer '
            'equals a fresh uncached Guard on the same storage at that moment. non-trivial = history with a '
            'mutation between two asks of the same inquiry whose answer changes')

    def corpus(self):
        # a list-valued and a tuple-valued action: two different inquiries that a rule-based policy separates
        pol = {'uid': 'u0', 'effect': 'allow', 'subjects': [['r', ['Any']]], 'resources': [['r', ['Any']]],
               'actions': [['r', ['AnyIn', ['read', 'write']]]], 'context': [], 'description': None, 'tags': ['<', '>']}
        qa = {'resource': 'r', 'action': ['read'], 'subject': 's', 'context': None}
        qb = dict(qa, action={'T': ['read']})
        out = []
        for cap in (None, 1, 2, 256):
            for order in ([0, 1], [1, 0], [0, 1, 0, 1]):
                out.append({'checker': 'CRules', 'backend': 'memory', 'rxtable': [], 'inquiries': [qa, qb],
                            'classes': [0, 1], 'cap': cap, 'custom': False, 'ops': [['add', pol]] + [['ask', k] for k in order],
                            'drop_handle': False, 'reuse': False})
        # two inquiries of different content whose __hash__ values are EQUAL (all 64 bits; the hash is taken over a tuple
        # of code points, so it does not depend on PYTHONHASHSEED): in the cache's dictionary they meet in one bucket and
        # only __eq__ keeps them apart.  (The pair was found for a seeded change by a 2^32 distinguished-point search.)
        ca = {'resource': 'report', 'action': 'get', 'subject': 'tok_rFnNeZUF3lD', 'context': None}
        cb = dict(ca, subject='tok_a55a2U8BNZN')
        for allowed in ('tok_rFnNeZUF3lD', 'tok_a55a2U8BNZN'):
            cpol = {'uid': 'u0', 'effect': 'allow', 'subjects': [['s', allowed]], 'resources': [['s', 'report']],
                    'actions': [['s', 'get']], 'context': [], 'description': None, 'tags': ['<', '>']}
            for cap in (None, 2, 256):
                for order in ([0, 1], [1, 0], [0, 1, 0, 1], [1, 0, 1, 0]):
                    out.append({'checker': 'CExact', 'backend': 'memory', 'rxtable': [], 'inquiries': [ca, cb],
                                'classes': [0, 1], 'cap': cap, 'custom': False,
                                'ops': [['add', cpol]] + [['ask', k] for k in order], 'drop_handle': False, 'reuse': False})
        return out

    def generate(self, rng, tier):
        n = 320 if tier == 'quick' else 3000
        for i in range(n):
            backend = BACKENDS[i % len(BACKENDS)]
            ck = rng.choice(['CExact', 'CExact', 'CRegex', 'CFuzzy', 'CRules'])
            if backend == 'sqlite':
                # the SQL prefilters of the string checkers are the subject of C07 (known finding there)
                ck = rng.choice(['CRegex', 'CRules'])
            sc = gen.scenario(rng, ck, n_policies=rng.choice([2, 3, 4]), illtyped=0, raising=False, easy=True,
                              max_segs=1, unbalanced=False)
            pols = []
            for j, p in enumerate(sc['policies']):
                p = dict(p, uid='u%d' % (j % 3), effect=rng.choice(['allow', 'allow', 'deny']), description=None)
                pols.append(p)
            inqs = [sc['inquiry']]
            for _ in range(rng.randint(2, 5)):
                q = dict(sc['inquiry'])
                f = rng.choice(['resource', 'action', 'subject'])
                q[f] = specs.jv(gen.word(rng)) if rng.random() < 0.5 else q[f]
                if not isinstance(specs.py(q['context']), (dict, type(None))):
                    q['context'] = None
                inqs.append(q)
            # twins that differ only in list versus tuple for one attribute: different content, so different cache
            # entries (rules such as AnyIn / Eq tell them apart)
            for q in list(inqs):
                for f in ('resource', 'action', 'subject'):
                    v = q[f]
                    if isinstance(v, list) and rng.random() < 0.6:
                        inqs.append(dict(q, **{f: {'T': v}}))
                    elif isinstance(v, dict) and set(v) == {'T'} and rng.random() < 0.6:
                        inqs.append(dict(q, **{f: v['T']}))
            # content classes: equal specs share a class id
            classes = []
            seen = {}
            for q in inqs:
                # Inquiry.__init__ replaces falsy attributes by '' and a falsy context by {}: content is what is left
                k = repr([specs.jv(specs.py(q[f]) or '') for f in ('resource', 'action', 'subject')] +
                         [specs.jv(specs.py(q['context']) or {})])
                if k not in seen:
                    seen[k] = len(seen)
                classes.append(seen[k])
            ops = []
            for _ in range(rng.randint(4, 30)):
                r = rng.random()
                if r < 0.55:
                    ops.append(['ask', rng.randrange(len(inqs))])
                elif r < 0.75:
                    ops.append(['add', rng.choice(pols)])
                elif r < 0.88:
                    p = dict(rng.choice(pols))
                    p['effect'] = rng.choice(['allow', 'deny'])
                    ops.append(['update', p])
                else:
                    ops.append(['delete', rng.choice(['u0', 'u1', 'u2'])])
            custom = (i % 5 == 4) and ('sized' if i % 10 == 9 else True)
            yield {'checker': ck, 'backend': backend, 'rxtable': sc['rxtable'], 'inquiries': inqs, 'classes': classes,
                   'cap': None if custom else rng.choice(CAPS), 'custom': custom, 'ops': ops,
                   'drop_handle': rng.random() < 0.5,
                   # (not with the harness' dict back-end: a dict finds a mutated key object by identity when the
                   #  probe happens to land on its slot - that is the user back-end's affair, not vakt's)
                   'reuse': (not custom) and rng.random() < 0.35}

    def emit(self, c):
        qs = []
        done = set()
        for q, cl in zip(c['inquiries'], c['classes']):
            if cl not in done:
                done.add(cl)
                qs.append('(%s, %s)' % (e_N(cl), specs.e_inquiry(q)))
        ops = []
        for o in c['ops']:
            if o[0] == 'ask':
                ops.append('(Ask %s)' % e_N(c['classes'][o[1]]))
            elif o[0] in ('add', 'update'):
                ops.append('(Mut (%s %s %s false))' % ('Add' if o[0] == 'add' else 'Update',
                                                      e_pstr(key_of_policy(o[1])), specs.e_policy(o[1])))
            else:
                ops.append('(Mut (Delete %s))' % e_pstr('s' + o[1]))
        return ('{| cc_ck := %s; cc_table := %s; cc_order := %s; cc_qs := %s; cc_cap := %s; cc_ops := %s |}' % (
            c['checker'], guardlib.e_table(c['rxtable']), storelib.BACKENDS[c['backend']],
            e_list(qs, '(N * inquiry)'), e_option(c['cap'], e_nat, 'nat'), e_list(ops, '(cop pmut N)')))

    def impl(self, c):
        return run_cached(c)[0]

    def oracle(self, c, obs):
        o2, fresh = run_cached(c)
        for (op, seg, fr) in zip(c['ops'], o2.split(' | '), fresh):
            if op[0] == 'ask':
                a = seg.split(' ')[1]
                if a != s_bool(fr):
                    return 'cached guard answered %s where an uncached guard answers %s (op %r)' % (a, s_bool(fr), op[:2])
            else:
                raised = 'raised=T' in seg
                n = int(seg.rsplit('n=', 1)[1])
                if n != (0 if raised else 1):
                    return 'mutation %s (raised=%s) notified the cache %d times' % (op[0], raised, n)
        return None

    def nontrivial(self, c, obs):
        last = {}
        mutated_since = {}
        segs = obs.split(' | ')
        for op, seg in zip(c['ops'], segs):
            if op[0] == 'ask':
                cl = c['classes'][op[1]]
                a = seg.split(' ')[1]
                if cl in last and mutated_since.get(cl) and last[cl] != a:
                    return True
                last[cl] = a
                mutated_since[cl] = False
            else:
                for k in mutated_since:
                    mutated_since[k] = True
        return False

    def shrink(self, c):
        ops = c['ops']
        for i in range(len(ops)):
            if len(ops) > 1:
                yield dict(c, ops=ops[:i] + ops[i + 1:])

    def describe(self, c):
        return ('import json; from harness.checks.c11 import run_cached; print(run_cached(json.loads(%r))[0])'
                % __import__('json').dumps(c))


class ExtendedInquiryStream(Stream):
    """inquiries that carry more than the four standard elements (an Inquiry subclass with a `tenant` attribute, which a
    caller-defined rule reads): outside the model's inquiry type, so only the statement's own clause judges - a guard
    with the decision cache answers exactly as an uncached guard over the same storage does at that moment"""
    name = 'inquiries_with_extra_state'
    oracle_only = True
    oracle_complete = True
    rule = ('an Inquiry subclass with an extra attribute and a caller-defined rule that reads it; two policies that '
            'separate the tenants; histories of asks (equal standard elements, different tenants, repeats) and '
            'mutations through the cached guard\'s storage; capacities None/1/2/256 and a user-supplied back-end. '
            'No model evaluation: every answer of the cached guard must equal the answer of an uncached Guard over '
            'the same storage asked at that moment')

    def generate(self, rng, tier):
        n = 120 if tier == 'quick' else 1500
        for i in range(n):
            tenants = rng.sample(['acme', 'evil', 'corp', '', None], rng.choice([2, 3]))
            ops = []
            for _ in range(rng.randint(3, 14)):
                r = rng.random()
                if r < 0.7:
                    ops.append(['ask', rng.choice(tenants)])
                elif r < 0.85:
                    ops.append(['add', rng.choice(tenants), rng.choice(['allow', 'deny'])])
                else:
                    ops.append(['delete', rng.choice(tenants)])
            yield {'tenants': tenants, 'ops': ops, 'cap': rng.choice([None, 1, 2, 256]), 'custom': i % 4 == 3}

    def emit(self, c):
        return ''

    def impl(self, c):
        import vakt
        from vakt.cache import create_cached_guard
        from vakt.guard import Guard, Inquiry
        from vakt.rules.logic import Any
        from vakt.checker import RulesChecker
        from vakt.storage.memory import MemoryStorage
        from ..customrules import TenantIs

        class TenantInquiry(Inquiry):
            def __init__(self, tenant=None, **kw):
                super().__init__(**kw)
                self.tenant = tenant

        st0 = MemoryStorage()
        st0.add(vakt.Policy('p-' + str(c['tenants'][0]), effect='allow', subjects=[Any()], resources=[Any()],
                            actions=[Any()], context={'t': TenantIs(c['tenants'][0])}))
        if c.get('custom'):
            guard, st, cache = create_cached_guard(st0, RulesChecker(), cache=custom_backend())
        else:
            guard, st, cache = create_cached_guard(st0, RulesChecker(), maxsize=c['cap'])
        out = []
        for op in c['ops']:
            if op[0] == 'ask':
                def q():
                    return TenantInquiry(tenant=op[1], subject='s', action='a', resource='r', context={'t': 1})
                try:
                    a = guard.is_allowed(q())
                except Exception as e:  # noqa
                    a = 'RAISED:' + type(e).__name__
                b = Guard(st0, RulesChecker()).is_allowed(q())
                out.append('%s/%s' % (a, b))
            elif op[0] == 'add':
                try:
                    st.add(vakt.Policy('p-' + str(op[1]), effect=op[2], subjects=[Any()], resources=[Any()],
                                       actions=[Any()], context={'t': TenantIs(op[1])}))
                    out.append('added')
                except Exception as e:  # noqa
                    out.append('add:' + type(e).__name__)
            else:
                st.delete('p-' + str(op[1]))
                out.append('deleted')
        return ' '.join(out)

    def oracle(self, c, obs):
        for k, part in enumerate(obs.split(' ')):
            if '/' in part:
                a, b = part.split('/')
                if a != b:
                    return ('op %d: the cached guard answered %s, an uncached guard over the same storage answers %s '
                            '(inquiries that differ only in the extra attribute)' % (k, a, b))
        return None

    def nontrivial(self, c, obs):
        return 'True/True' in obs and 'False/False' in obs

    def describe(self, c):
        return ('import json; from harness.checks.c11 import ExtendedInquiryStream; '
                'print(ExtendedInquiryStream().impl(json.loads(%r)))' % __import__('json').dumps(c))


TRUSTED = [
    'Coq 8.16.1 kernel + vm_compute (no native_compute)',
    'Model/AllowCache.v (create_cached_guard = observable storage + guard + cache back-end, invalidation on '
    'notify) over Model/Lru.v (functools.lru_cache as a state machine) and Model/Store.v, hand-written from '
    'vakt/cache.py and vakt/storage/observable.py, tied by the cached_guard_histories stream (answers, '
    'storage reads, cache_info().currsize)',
    'the storage assumption of the theorems (a raising mutation changes nothing) is C08_failed_mutation_unchanged',
    'SQLite is real; Redis is a client double',
]
ASSUME = ['inquiries of the pool are hashable through their canonical content (C13); content-equal objects are one key',
          'storage faults during an ask are outside the property (a deny caused by a transient storage error would '
          'be cached)', 'concurrency is the subject of C14']


def main(argv):
    return run_check('C11', [CachedGuardStream(), ExtendedInquiryStream()], argv, trusted_base=TRUSTED, assumptions=ASSUME,
                     translated=('observable', 'subject', 'guard', 'memory', 'pin_inquiry', 'pin_util'))


if __name__ == '__main__':
    sys.exit(main(sys.argv[1:]))
