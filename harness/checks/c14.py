"""C14 - Concurrent decisions and in-memory mutations are linearizable."""
import json
import random
import sys

from .. import core, gen, specs, guardlib, storelib
from ..check import Stream, run_check
from ..core import e_list, e_pstr, e_N, e_nat, e_option, s_pstr, s_bool
from ..sched import Sched, explore, Deadlock


def pol(uid, effect, action='get', subject='Max', resource='r'):
    return {'uid': uid, 'effect': effect, 'subjects': [['s', subject]], 'resources': [['s', resource]],
            'actions': [['s', action]], 'context': [], 'description': None, 'tags': ['<', '>']}


INQ = {'resource': 'r', 'action': 'get', 'subject': 'Max', 'context': None}
INQ2 = {'resource': 'r', 'action': 'put', 'subject': 'Max', 'context': None}


def execute(c, choices):
    """run the scenario on real objects under the given schedule"""
    from vakt.storage.memory import MemoryStorage
    from vakt.guard import Guard
    from vakt.exceptions import PolicyExistsError
    s = Sched()
    storage = MemoryStorage()
    storage.lock = s.lock()
    pols = {}

    def build(p, idx):
        o = specs.mk_policy(p)
        object.__setattr__(o, '_vidx', idx)
        return o
    n = 0
    for p in c['init']:
        storage.add(build(p, n))
        pols[n] = p
        n += 1
    ck = specs.mk_checker(c['checker'])
    if c.get('cached'):
        from vakt.cache import create_cached_guard
        if c.get('atomic'):
            guard, st, cache = create_cached_guard(storage, ck, cache=atomic_backend(s.lock()))
        else:
            guard, st, cache = create_cached_guard(storage, ck, maxsize=c.get('cap', 16))
        if c.get('drop_handle'):
            # the caller keeps only (guard, storage); invalidation must not depend on the third value staying alive
            import gc
            del cache
            gc.collect()
    else:
        guard, st = Guard(storage, ck), storage
    progs = []
    spans = []
    for ti, ops in enumerate(c['threads']):
        items = []
        for op in ops:
            if op[0] == 'decide':
                items.append(('decide', specs.mk_inquiry(c['inquiries'][op[1]])))
            elif op[0] in ('add', 'update'):
                items.append((op[0], build(op[1], n)))
                pols[n] = op[1]
                n += 1
            else:
                items.append(('delete', op[1]))
        progs.append(items)
    results = [[] for _ in progs]
    state = {'k': 0}

    def body(ti):
        def run():
            for oi, (kind, arg) in enumerate(progs[ti]):
                start = state['k']
                try:
                    if kind == 'decide':
                        a = guard.is_allowed(arg)
                        r = s_bool(a) if isinstance(a, bool) else repr(a)
                    elif kind == 'add':
                        st.add(arg)
                        r = 'ok'
                    elif kind == 'update':
                        st.update(arg)
                        r = 'ok'
                    else:
                        st.delete(arg)
                        r = 'ok'
                except PolicyExistsError:
                    r = 'raised'
                except Exception as e:  # noqa
                    r = 'ERR:' + type(e).__name__
                results[ti].append(r)
                spans.append((ti, oi, start, state['k']))
        return run

    def observe():
        state['k'] += 1
        return tuple(getattr(p, '_vidx', -1) for p in list(storage.policies.values()))
    initial = tuple(getattr(p, '_vidx', -1) for p in storage.policies.values())
    trace, workers = s.run([body(i) for i in range(len(progs))], choices, observe=observe)
    final = '[' + ','.join(s_pstr('s' + str(p.uid)) for p in storage.policies.values()) + ']'
    outcome = ';'.join(','.join(r) for r in results) + ' ' + final
    return trace, {'outcome': outcome, 'results': results, 'spans': spans, 'initial': initial, 'pols': pols}


def _explore_one(arg):
    c, tier = arg
    st = ConcStream()
    st._tier = tier
    return st._explore(c)


def atomic_backend(lock):
    """a user-supplied AllowanceCache back-end: look-up, computation and insertion of an ask happen under one lock,
    invalidate() takes the same lock"""
    from vakt.cache import AllowanceCacheBackend

    class LockedDictBackend(AllowanceCacheBackend):
        def __init__(self):
            self.store = {}
            self.lock = lock              # the scheduler's lock: a thread that would block is reported "not enabled"

        def wrap(self, func):
            def cached(inquiry):
                with self.lock:
                    if inquiry in self.store:
                        return self.store[inquiry]
                    r = func(inquiry)
                    self.store[inquiry] = r
                    return r
            return cached

        def invalidate(self):
            with self.lock:
                self.store.clear()

        def info(self):
            return None
    return LockedDictBackend()


class ConcStream(Stream):
    name = 'thread_interleavings'
    imports = guardlib.GUARD_IMPORTS.replace(
        'Harness.RunGuard.', 'Model.Store Model.Lru Model.AllowCache Model.Conc Harness.RunGuard Harness.RunC11 Harness.RunC14.')
    case_type = 'ncase'
    run_fn = 'run_ncase'
    shard = 4
    rule = ('two or three real threads (one decision each against one or two in-memory mutations; two decisions '
            'against one mutation; concurrent adds of one uid; a cached guard asked twice against a mutation) run '
            'under a deterministic scheduler: every interleaving at source-line granularity in vakt and bytecode '
            'granularity inside the in-memory storage up to 2 (quick) / 3 (thorough) preemptions, plus seeded random '
            'deeper schedules. The set of outcomes observed on the real objects must be contained in the set of '
            'outcomes of ALL interleavings of the model (computed in Coq); the oracle checks every schedule for '
            'exceptions caused by the interleaving, add-once and linearizability against the store snapshots '
            'recorded at every step. non-trivial = scenario whose explored schedules show at least two outcomes')

    def __init__(self):
        self._runs = {}
        self._viol = {}

    def corpus(self):
        a, d, b = pol('a', 'allow'), pol('d', 'deny'), pol('b', 'allow', action='zzz')
        return [
            # 1 decision || add of an unrelated policy: both stores allow
            {'checker': 'CExact', 'rxtable': [], 'init': [a], 'inquiries': [INQ], 'threads': [[['decide', 0]], [['add', b]]]},
            # 1 decision || add of a vetoing policy
            {'checker': 'CExact', 'rxtable': [], 'init': [a], 'inquiries': [INQ], 'threads': [[['decide', 0]], [['add', d]]]},
            # 1 decision || delete of the only allow policy
            {'checker': 'CExact', 'rxtable': [], 'init': [a, b], 'inquiries': [INQ], 'threads': [[['decide', 0]], [['delete', 'a']]]},
            # 1 decision || update allow -> deny
            {'checker': 'CExact', 'rxtable': [], 'init': [a], 'inquiries': [INQ],
             'threads': [[['decide', 0]], [['update', pol('a', 'deny')]]]},
            # concurrent adds of one uid
            {'checker': 'CExact', 'rxtable': [], 'init': [], 'inquiries': [INQ],
             'threads': [[['add', pol('x', 'allow')]], [['add', pol('x', 'deny')]]]},
            # two deletes of one uid
            {'checker': 'CExact', 'rxtable': [], 'init': [a], 'inquiries': [INQ], 'threads': [[['delete', 'a']], [['delete', 'a']]]},
            # update || delete of one uid: the policy must be gone in both orders
            {'checker': 'CExact', 'rxtable': [], 'init': [a, b], 'inquiries': [INQ],
             'threads': [[['update', pol('a', 'deny')]], [['delete', 'a']]]},
            # add || update of one uid (absent at the start), add || delete of one uid (present at the start)
            {'checker': 'CExact', 'rxtable': [], 'init': [b], 'inquiries': [INQ],
             'threads': [[['add', pol('x', 'allow')]], [['update', pol('x', 'deny')]]]},
            {'checker': 'CExact', 'rxtable': [], 'init': [a], 'inquiries': [INQ],
             'threads': [[['add', pol('a', 'deny')]], [['delete', 'a']]]},
            # update || delete || decision
            {'checker': 'CExact', 'rxtable': [], 'init': [a], 'inquiries': [INQ],
             'threads': [[['update', pol('a', 'allow', subject='Max')]], [['delete', 'a']], [['decide', 0]]], 'bound': 1},
            # cached guard, two mutations and two questions: every mutation that returned must have invalidated
            {'checker': 'CExact', 'rxtable': [], 'init': [a], 'inquiries': [INQ], 'cached': True, 'cap': 16,
             'threads': [[['add', b]], [['add', d]], [['decide', 0], ['decide', 0]]], 'bound': 1},
            {'checker': 'CExact', 'rxtable': [], 'init': [a], 'inquiries': [INQ], 'cached': True, 'cap': 16,
             'threads': [[['add', b]], [['decide', 0], ['add', d], ['decide', 0]]], 'bound': 1},
            # a store larger than the default paging batch (50): a decision must see one snapshot of all of it; the
            # decisive (vetoing) policy is the 51st, a policy of the first page is deleted meanwhile
            {'checker': 'CExact', 'rxtable': [],
             'init': [pol('f0', 'allow', action='zzz'), a] + [pol('f%d' % i, 'allow', action='zzz') for i in range(1, 49)] + [d],
             'inquiries': [INQ], 'threads': [[['decide', 0]], [['delete', 'f0']]], 'bound': 1},
            # 2 decisions || 1 mutation
            {'checker': 'CExact', 'rxtable': [], 'init': [a], 'inquiries': [INQ, INQ2],
             'threads': [[['decide', 0]], [['decide', 1]], [['add', pol('p', 'allow', action='put')]]], 'bound': 1},
            # 1 decision || 2 mutations
            {'checker': 'CExact', 'rxtable': [], 'init': [a], 'inquiries': [INQ],
             'threads': [[['decide', 0]], [['add', d]], [['delete', 'a']]], 'bound': 1},
            # cached guard: asked twice against the add of a vetoing policy through the observable storage
            {'checker': 'CExact', 'rxtable': [], 'init': [a], 'inquiries': [INQ], 'cached': True, 'cap': 16,
             'threads': [[['decide', 0], ['decide', 0]], [['add', d]]]},
            # cached guard asked twice against the delete of the only allowing policy: whatever a decision computed from
            # the store as it was before delete() returned must not be served after it returned
            {'checker': 'CExact', 'rxtable': [], 'init': [a], 'inquiries': [INQ], 'cached': True, 'cap': 16,
             'threads': [[['decide', 0], ['decide', 0]], [['delete', 'a']]]},
            {'checker': 'CExact', 'rxtable': [], 'init': [a, d], 'inquiries': [INQ], 'cached': True, 'cap': 16,
             'threads': [[['decide', 0], ['decide', 0]], [['delete', 'd']]]},
            # a user-supplied cache back-end whose ask is atomic (look-up, computation, insertion under one lock): the
            # lru_cache race is impossible there, so NOTHING stale may survive the return of a mutation
            # (C14_atomic_backend_fresh) - what is left to go wrong is the order apply / notify inside the mutation
            {'checker': 'CExact', 'rxtable': [], 'init': [a], 'inquiries': [INQ], 'cached': True, 'atomic': True,
             'threads': [[['decide', 0], ['decide', 0]], [['delete', 'a']]]},
            {'checker': 'CExact', 'rxtable': [], 'init': [a], 'inquiries': [INQ], 'cached': True, 'atomic': True,
             'threads': [[['decide', 0], ['decide', 0]], [['add', d]]]},
            {'checker': 'CExact', 'rxtable': [], 'init': [a, d], 'inquiries': [INQ], 'cached': True, 'atomic': True,
             'threads': [[['decide', 0], ['decide', 0]], [['update', pol('d', 'allow')]]]},
            # the mutating thread asks right after its own mutation returned: with an atomic back-end that answer is always
            # the decision for the store it has just changed (one preemption inside the mutation is enough to tell)
            {'checker': 'CExact', 'rxtable': [], 'init': [a], 'inquiries': [INQ], 'cached': True, 'atomic': True,
             'threads': [[['decide', 0]], [['delete', 'a'], ['decide', 0]]]},
            {'checker': 'CExact', 'rxtable': [], 'init': [a], 'inquiries': [INQ], 'cached': True, 'atomic': True,
             'threads': [[['decide', 0]], [['add', d], ['decide', 0]]]},
            {'checker': 'CExact', 'rxtable': [], 'init': [a, d], 'inquiries': [INQ], 'cached': True, 'atomic': True,
             'threads': [[['decide', 0]], [['update', pol('d', 'allow')], ['decide', 0]]]},
            # the same with the returned cache handle dropped by the caller (only guard and storage are kept)
            {'checker': 'CExact', 'rxtable': [], 'init': [a], 'inquiries': [INQ], 'cached': True, 'cap': 16,
             'drop_handle': True, 'threads': [[['decide', 0], ['add', d], ['decide', 0]]]},
            {'checker': 'CExact', 'rxtable': [], 'init': [a], 'inquiries': [INQ], 'cached': True, 'cap': 16,
             'drop_handle': True, 'threads': [[['decide', 0], ['decide', 0]], [['delete', 'a']]], 'bound': 1},
        ]

    def generate(self, rng, tier):
        n = 5 if tier == 'quick' else 14
        for _ in range(n):
            a = pol('a', rng.choice(['allow', 'deny']))
            other = pol(rng.choice(['a', 'n']), rng.choice(['allow', 'deny']), action=rng.choice(['get', 'put']))
            mut = rng.choice([['add', other], ['update', other], ['delete', rng.choice(['a', 'n'])]])
            yield {'checker': rng.choice(['CExact', 'CRegex', 'CFuzzy']), 'rxtable': [], 'init': [a],
                   'inquiries': [INQ, INQ2], 'threads': [[['decide', rng.choice([0, 1])]], [mut]]}
        for _ in range(n):
            # two mutators on one uid
            def mutation():
                k = rng.choice(['add', 'update', 'delete', 'delete'])
                return ['delete', 'a'] if k == 'delete' else [k, pol('a', rng.choice(['allow', 'deny']))]
            init = [pol('a', 'allow')] if rng.random() < 0.7 else []
            yield {'checker': 'CExact', 'rxtable': [], 'init': init + [pol('b', 'allow', action='zzz')],
                   'inquiries': [INQ], 'threads': [[mutation()], [mutation()] + ([mutation()] if rng.random() < 0.4 else [])]}

    def key(self, c):
        return core.digest(c)

    # ---- model side
    def emit(self, c):
        qs = ['(%s, %s)' % (e_N(i), specs.e_inquiry(q)) for i, q in enumerate(c['inquiries'])]

        def mut(op):
            if op[0] == 'add':
                return '(Add %s %s false)' % (e_pstr('s' + op[1]['uid']), specs.e_policy(op[1]))
            if op[0] == 'update':
                return '(Update %s %s false)' % (e_pstr('s' + op[1]['uid']), specs.e_policy(op[1]))
            return '(Delete %s)' % e_pstr('s' + op[1])
        progs = []
        for ops in c['threads']:
            acts = []
            for op in ops:
                if op[0] == 'decide':
                    if c.get('cached') and c.get('atomic'):
                        acts.append('(AAsk pmut N %s)' % e_N(op[1]))
                    elif c.get('cached'):
                        acts += ['(ALookup pmut N %s)' % e_N(op[1]), '(ASnap pmut N %s)' % e_N(op[1]),
                                 '(AInsert pmut N %s)' % e_N(op[1])]
                    else:
                        acts.append('(ADecide pmut N %s)' % e_N(op[1]))
                else:
                    acts.append('(AMut pmut N %s)' % mut(op))
                    if c.get('cached'):
                        acts.append('(AInval pmut N)')
            progs.append(e_list(acts, '(act pmut N)'))
        inits = ['(Add %s %s false)' % (e_pstr('s' + p['uid']), specs.e_policy(p)) for p in c['init']]
        return ('{| n_ck := %s; n_table := %s; n_qs := %s; n_cap := %s; n_init := %s; n_progs := %s |}' % (
            c['checker'], guardlib.e_table(c['rxtable']), e_list(qs, '(N * inquiry)'),
            e_option(c.get('cap', 16) if c.get('cached') and not c.get('atomic') else None, e_nat, 'nat'),
            e_list(inits, '(op pstr (option policy))'), e_list(progs, '(list (act pmut N))')))

    # ---- implementation side
    def _explore(self, c):
        k = self.key(c)
        if k in self._runs:
            return self._runs[k]
        tier = getattr(self, '_tier', 'quick')
        bound = c.get('bound', 2 if tier == 'quick' else 3)
        max_runs = 1000 if tier == 'quick' else 8000
        runs = []

        def make_run(choices):
            trace, info = execute(c, choices)
            return trace, info
        try:
            for prefix, trace, info in explore(make_run, bound, max_runs):
                runs.append((prefix, trace, info))
            # seeded random deeper schedules
            rng = random.Random(k)
            nthreads = len(c['threads'])
            for _ in range(25 if tier == 'quick' else 400):
                choices = [rng.randrange(nthreads) for _ in range(200)]
                trace, info = execute(c, choices)
                runs.append((choices[:len(trace)], trace, info))
        except Deadlock as e:
            runs.append(([], [], {'outcome': 'DEADLOCK %s' % e, 'results': [], 'spans': [], 'initial': (), 'pols': {}}))
        self._runs[k] = runs
        return runs

    def prepare(self, cases):
        """explore the schedules of all scenarios in parallel processes (each exploration is deterministic and
        independent); results land in the same cache _explore() fills"""
        import multiprocessing as mp
        todo = [c for c in cases if self.key(c) not in self._runs]
        if len(todo) < 2:
            return
        tier = getattr(self, '_tier', 'quick')
        with mp.get_context('fork').Pool(min(14, len(todo))) as pool:
            for c, runs in zip(todo, pool.map(_explore_one, [(c, tier) for c in todo], chunksize=1)):
                self._runs[self.key(c)] = runs

    def generate_wrapper(self, rng, tier):
        self._tier = tier
        return self.generate(rng, tier)

    def impl(self, c):
        runs = self._explore(c)
        return ' ## '.join(sorted(set(info['outcome'] for _, _, info in runs)))

    def same(self, impl_obs, model_obs):
        return set(impl_obs.split(' ## ')) <= set(model_obs.split(' ## '))

    def _decision(self, c, snapshot, pols, qi, memo):
        key = (snapshot, qi)
        if key not in memo:
            from vakt.storage.memory import MemoryStorage
            from vakt.guard import Guard
            st = MemoryStorage()
            for idx in snapshot:
                st.add(specs.mk_policy(dict(pols[idx], uid='%s#%d' % (pols[idx]['uid'], idx))))
            memo[key] = Guard(st, specs.mk_checker(c['checker'])).is_allowed(specs.mk_inquiry(c['inquiries'][qi]))
        return memo[key]

    def violations(self, c):
        """per explored schedule: what the property statement forbids"""
        k = self.key(c)
        if k in self._viol:
            return self._viol[k]
        out = []
        memo = {}
        self._viol[k] = out
        for prefix, trace, info in self._explore(c):
            oc = info['outcome']
            if oc.startswith('DEADLOCK'):
                out.append((prefix, 'deadlock', oc))
                continue
            if 'ERR:' in oc:
                out.append((prefix, 'a storage operation or decision raised because of the interleaving', oc))
                continue
            # add-once
            adds = {}
            for ti, ops in enumerate(c['threads']):
                for oi, op in enumerate(ops):
                    if op[0] == 'add':
                        adds.setdefault(op[1]['uid'], []).append(info['results'][ti][oi])
            pre = set(p['uid'] for p in c['init'])
            bad = False
            for uid, rs in adds.items():
                if any(op == ['delete', uid] for ops in c['threads'] for op in ops):
                    continue        # a delete of that uid in between makes a second successful add legitimate
                want_ok = 0 if uid in pre else 1
                if len(rs) > 1 and rs.count('ok') != want_ok:
                    out.append((prefix, 'concurrent adds of uid %r succeeded %d times' % (uid, rs.count('ok')), oc))
                    bad = True
            if bad:
                continue
            # linearizability of every decision
            snaps = [info['initial']] + [t['obs'] for t in trace]          # snaps[i] = store before step i
            for ti, oi, start, end in info['spans']:
                op = c['threads'][ti][oi]
                if op[0] != 'decide':
                    continue
                ans = info['results'][ti][oi]
                window = snaps[start:end + 1] or [snaps[min(start, len(snaps) - 1)]]
                allowed = set(s_bool(self._decision(c, s, info['pols'], op[1], memo)) for s in set(window))
                if ans not in allowed:
                    # is the answer explained by a mutation that was in flight (applied or about to be, not yet returned)
                    # when the decision started or while it ran?  Then it is the decision for the store as it stood when
                    # that mutation began; otherwise it survived the return of every mutation that could explain it.
                    kind = 'after-return'
                    for tj, oj, ms, me in info['spans']:
                        if c['threads'][tj][oj][0] == 'decide' or me < start or ms > end:
                            continue
                        back = snaps[min(ms, start):end + 1]
                        if ans in set(s_bool(self._decision(c, s, info['pols'], op[1], memo)) for s in set(back)):
                            kind = 'in-flight'
                            break
                    out.append((prefix, 'decision %s is not the decision for any policy set between its start and end '
                                        '(those give %s) [%s]' % (ans, sorted(allowed), kind), oc))
                    break
        return out

    def oracle(self, c, obs):
        v = self.violations(c)
        if v:
            prefix, what, oc = v[0]
            return '%s; schedule %s; outcome %s; %d of %d explored schedules' % (
                what, prefix[:60], oc, len(v), len(self._explore(c)))
        return None

    def classify(self, c, io, mo):
        # the known race (a decision that missed the cache before a mutation stores its old answer after the
        # mutation's invalidate()) is part of the model: its outcomes are among the model's interleavings.  Only a
        # failure whose every outcome the model also produces is that finding; anything the model cannot produce
        # (e.g. a mutation that did not invalidate at all) is reported.
        if c.get('cached') and mo is not None and self.same(io, mo):
            v = self.violations(c)
            if v and all('is not the decision for any policy set' in what for _, what, _ in v):
                if all(what.endswith('[in-flight]') for _, what, _ in v):
                    # answered from the cache between the moment a mutation is applied and its notify(): inherent in
                    # "apply, then notify"; the mutation has not returned yet
                    return 'cached-hit-in-flight'
                if not c.get('atomic'):
                    return 'lru-stale-insert'
                # an atomic back-end cannot store a result computed before an invalidation after it
                # (C14_atomic_backend_fresh): a stale answer that survives the return of the mutation is new
        return None

    def nontrivial(self, c, obs):
        return len(set(obs.split(' ## '))) >= 2

    def describe(self, c):
        return ('import json; from harness.checks.c14 import ConcStream; s = ConcStream(); c = json.loads(%r); '
                'print(s.impl(c)); print(s.violations(c)[:3])' % json.dumps(c))


TRUSTED = [
    'Coq 8.16.1 kernel + vm_compute (no native_compute)',
    'Model/Conc.v (threads as lists of atomic actions, arbitrary schedules), over Model/Store.v, Model/Lru.v and the '
    'guard model; tied by outcome-set containment: every outcome the real threads produce under the explored '
    'schedules is an outcome of some interleaving of the model',
    'deterministic scheduler harness/sched.py: sys.settrace line events in vakt/{guard,cache,util}.py and '
    'storage/{observable,memory}.py, opcode events inside storage/memory.py; MemoryStorage.lock replaced from '
    'outside by a scheduler-aware lock',
]
ASSUME = ['pre-emption inside C code (dict internals, functools.lru_cache\'s C wrapper between its Python callbacks), '
          'the GIL switch interval and free-threaded builds are not exhibited (C14 partial)',
          'schedules are enumerated up to a preemption bound; the theorems have no such bound']


def main(argv):
    st = ConcStream()
    tier = 'quick'
    if '--tier' in argv:
        tier = argv[argv.index('--tier') + 1]
    st._tier = tier if tier in ('quick', 'thorough') else 'quick'
    return run_check('C14', [st], argv, trusted_base=TRUSTED, assumptions=ASSUME,
                     translated=('memory', 'storage_abc', 'guard', 'checker', 'subject', 'observable', 'pin_inquiry'))


if __name__ == '__main__':
    sys.exit(main(sys.argv[1:]))
