"""C04 - Rules checker: OR over elements, AND over attributes, errors never match."""
import sys

from .. import gen, specs, guardlib
from ..check import Stream, run_check
from ..core import s_bool, s_exc
from .c03 import e_fcase
from .c06 import fits_impl, pol


def elem_spec_matches(e, what, inq):
    """the property statement for one element, evaluated with the real rule objects"""
    def sat(rule_obj, v):
        f = getattr(rule_obj, 'satisfied', None)
        if not callable(f):
            return False
        try:
            return bool(f(v, inq))
        except Exception:  # noqa
            return False
    if e[0] == 'r':
        return sat(specs.mk_rule(e[1]), what)
    if e[0] == 'd':
        if not e[1] or not isinstance(what, dict):
            return False
        return all(k in what and sat(specs.mk_rule(r), what[k]) for k, r in e[1])
    return False


class RulesFitsStream(Stream):
    name = 'rules_checker_fits'
    imports = guardlib.GUARD_IMPORTS
    case_type = 'fcase'
    run_fn = 'run_fits'
    rule = ('fields of 0-4 elements mixing rule trees (depth <= 3), attribute dictionaries (0-3 keys, inquiry-'
            'dependent and raising rules, non-rule entries) and string entries; values scalars / lists / '
            'dictionaries with missing or extra attributes; the field is also rotated so that the matching element '
            'occupies every position (spec oracle). non-trivial = field with >= 2 elements of which exactly one '
            'matches, or an element that raises / is not a rule')

    def corpus(self):
        def one(rule, what):
            return {'checker': 'CRules', 'policy': pol([['r', rule]], field='subjects'), 'field': 'subjects',
                    'what': what, 'rxtable': [], 'inq': None}
        nested = [
            # an empty composition is never satisfied, also when it sits inside another composition
            one(['And', [['And', []], ['Any']]], 1), one(['And', [['Any'], ['And', []]]], 1),
            one(['Or', [['Or', []], ['Any']]], 1), one(['Or', [['Or', []]]], 1), one(['And', [['Or', []], ['Any']]], 1),
            one(['Or', [['And', []], ['Neither']]], 1), one(['Not', ['And', [['And', []], ['Any']]]], 1),
            {'checker': 'CRules', 'policy': pol([['d', [['name', ['And', [['And', []], ['Eq', 'Max']]]]]]], field='subjects'),
             'field': 'subjects', 'what': {'D': [['name', 'Max']]}, 'rxtable': [], 'inq': None},
        ]
        return nested + [
            # a defaultdict lacking the attribute: Falsy would accept the default 0
            {'checker': 'CRules', 'policy': pol([['d', [['a', ['Falsy']]]]], field='subjects'), 'field': 'subjects',
             'what': {'D': [['b', 1]]}, 'dict_default': [0], 'rxtable': [], 'inq': None},
            {'checker': 'CRules', 'policy': pol([['d', [['b', ['Eq', 1]], ['a', ['Any']]]]], field='subjects'),
             'field': 'subjects', 'what': {'D': [['b', 1]]}, 'dict_default': [None], 'rxtable': [], 'inq': None},
            {'checker': 'CRules', 'policy': pol([['d', []]], field='subjects'), 'field': 'subjects',
             'what': {'D': []}, 'rxtable': [], 'inq': None},
            {'checker': 'CRules', 'policy': pol([['d', [['a', ['Eq', 1]], ['b', ['Broken', 'ValueError']]]]],
                                                field='subjects'),
             'field': 'subjects', 'what': {'D': [['a', 1], ['b', 2]]}, 'rxtable': [], 'inq': None},
            {'checker': 'CRules', 'policy': pol([['d', [['a', ['Junk', 5]]]]], field='subjects'),
             'field': 'subjects', 'what': {'D': [['a', 1]]}, 'rxtable': [], 'inq': None},
            {'checker': 'CRules', 'policy': pol([], field='subjects'), 'field': 'subjects', 'what': 1,
             'rxtable': [], 'inq': None},
        ]

    def generate(self, rng, tier):
        n = 2500 if tier == 'quick' else 25000
        for _ in range(n):
            p, _, smp, _ = gen.rule_policy(rng, 1)
            f = rng.choice(['subjects', 'resources', 'actions'])
            els = list(p[f])
            # extra elements: unsatisfiable / raising / junk, at random positions
            for _k in range(rng.choice([0, 0, 1, 2])):
                extra = rng.choice([['r', ['Neither']], ['r', ['Broken', 'KeyError']], ['d', []],
                                    ['d', [['zz', ['Any']]]], ['r', ['Or', []]],
                                    ['d', [['a', ['Junk', 1]]]], ['r', ['Greater', 'x']]])
                els.insert(rng.randint(0, len(els)), extra)
            p = dict(p)
            p[f] = els
            v = rng.choice(smp[f]) if smp[f] and rng.random() < 0.8 else gen.value(rng, 2)
            inq = None
            if rng.random() < 0.6:
                inq = {'resource': specs.jv(v), 'action': specs.jv(v), 'subject': specs.jv(v), 'context': None}
                if rng.random() < 0.5:
                    inq[rng.choice(['resource', 'action', 'subject'])] = specs.jv(gen.value(rng, 1))
            case = {'checker': 'CRules', 'policy': p, 'field': f, 'what': specs.jv(v), 'rxtable': [], 'inq': inq}
            if isinstance(v, dict) and rng.random() < 0.3:
                # the same content offered as a defaultdict, with an attribute missing: a default value that the
                # attribute's rule would accept must not make the attribute count as present
                w = dict(v)
                if w and rng.random() < 0.8:
                    w.pop(rng.choice(sorted(w)))
                case['what'] = specs.jv(w)
                case['dict_default'] = [specs.jv(rng.choice([0, '', None, 1, 'a', [], False]))]
            yield case

    def emit(self, c):
        base = e_fcase(c)
        if c.get('inq') is not None:
            base = base.replace('f_inq := (@None inquiry)', 'f_inq := (Some %s)' % specs.e_inquiry(c['inq']))
        return base

    def impl(self, c):
        return fits_impl(c)

    def oracle(self, c, obs):
        if obs.startswith('B:'):
            return None
        if obs not in ('T', 'F'):
            return 'rules checker did not answer a boolean: %s' % obs
        what = specs.py(c['what'])
        inq = None if c.get('inq') is None else specs.mk_inquiry(c['inq'])
        els = c['policy'][c['field']]
        want = any(elem_spec_matches(e, what, inq) for e in els)
        if want != (obs == 'T'):
            return 'OR over elements / AND over attributes gives %s, checker answered %s' % (want, obs)
        # position independence
        for k in range(1, len(els)):
            rot = els[k:] + els[:k]
            q = dict(c['policy'])
            q[c['field']] = rot
            o2 = fits_impl(dict(c, policy=q))
            if o2 != obs:
                return 'answer depends on the position of elements: %s vs %s after rotation by %d' % (obs, o2, k)
        return None

    def nontrivial(self, c, obs):
        what = specs.py(c['what'])
        inq = None if c.get('inq') is None else specs.mk_inquiry(c['inq'])
        els = c['policy'][c['field']]
        ms = [elem_spec_matches(e, what, inq) for e in els]
        return (len(els) >= 2 and sum(ms) == 1) or any(
            e[0] == 'r' and e[1][0] in ('Broken', 'Greater', 'Less') for e in els) or any(
            e[0] == 'd' and any(r[0] in ('Junk', 'Broken') for _, r in e[1]) for e in els)

    def shrink(self, c):
        els = c['policy'][c['field']]
        for i in range(len(els)):
            q = dict(c['policy'])
            q[c['field']] = els[:i] + els[i + 1:]
            yield dict(c, policy=q)
        for i, e in enumerate(els):
            if e[0] == 'd' and len(e[1]) > 1:
                for j in range(len(e[1])):
                    q = dict(c['policy'])
                    q[c['field']] = els[:i] + [['d', e[1][:j] + e[1][j + 1:]]] + els[i + 1:]
                    yield dict(c, policy=q)
        if c.get('inq') is not None:
            yield dict(c, inq=None)

    def describe(self, c):
        return ('import json; from harness.checks.c06 import fits_impl; print(fits_impl(json.loads(%r)))'
                % __import__('json').dumps(c))


TRUSTED = [
    'Coq 8.16.1 kernel + vm_compute (no native_compute)',
    'Model/Checkers.v fits_rules / check_satisfied / dict_item and Model/Rules.v sat, hand-written from '
    'vakt/checker.py and vakt/rules/*.py, tied by the rules_checker_fits stream',
    'spec oracle: per-element recomputation with the real rule objects under try/except',
]
ASSUME = ['rules that raise a non-Exception BaseException propagate (stated in the model, outside the property)']


def main(argv):
    return run_check('C04', [RulesFitsStream()], argv, trusted_base=TRUSTED, assumptions=ASSUME,
                     translated=('checker', 'policy', 'rules', 'rules_on_generated', 'pin_rules'))


if __name__ == '__main__':
    sys.exit(main(sys.argv[1:]))
