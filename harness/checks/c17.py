"""C17 - Audit and decision logs tell the truth about each decision."""
import sys

from .. import gen, specs, guardlib
from ..check import Stream, run_check
from ..core import s_bool, s_exc, s_pstr

MSG = {'MsgNop': 'PoliciesNopMsg', 'MsgUid': 'PoliciesUidMsg', 'MsgDescription': 'PoliciesDescriptionMsg',
       'MsgCount': 'PoliciesCountMsg'}


def run_logged(sc, msg):
    import vakt.audit as va
    cls = getattr(va, MSG[msg])
    g, st, ck, pols, inq = guardlib.build(sc, audit_cls=cls)
    with guardlib.capture_logs() as cap:
        try:
            ans = g.is_allowed(inq)
        except BaseException as e:  # noqa
            return s_exc(e), cap, pols
    return ans, cap, pols


class AuditStream(Stream):
    name = 'audit_records'
    imports = guardlib.GUARD_IMPORTS
    case_type = 'msgcls * gcase'
    run_fn = 'run_audit'
    rule = ('generated stores and inquiries (as for C01) x 4 checkers x 4 audit message classes, log handlers on '
            'vakt.audit and vakt.guard; compared: answer, decision-log kind, number of audit records, effect, '
            'str(candidates), str(deciders). non-trivial = at least one stored policy matches')

    def generate(self, rng, tier):
        n = 1600 if tier == 'quick' else 16000
        for k in range(n):
            sc = gen.scenario(rng, specs.CHECKERS[k % 4], illtyped=0.02)
            sc['msg'] = list(MSG)[(k // 4) % 4]
            yield sc

    def emit(self, c):
        return '(%s, %s)' % (c['msg'], guardlib.e_gcase(c))

    def impl(self, c):
        ans, cap, pols = run_logged(c, c['msg'])
        if isinstance(ans, str):
            return ans
        logs = cap.decision_logs()
        audits = []
        for r in cap.audit.records:
            audits.append('%s c=%s d=%s' % (getattr(r, 'effect', '?'), s_pstr(str(getattr(r, 'candidates', '?'))),
                                            s_pstr(str(getattr(r, 'deciders', '?')))))
            # a record goes to every handler (console, file, ...): each rendering must say the same
            again = 'c=%s d=%s' % (s_pstr(str(getattr(r, 'candidates', '?'))), s_pstr(str(getattr(r, 'deciders', '?'))))
            if not audits[-1].endswith(again):
                audits[-1] += ' SECOND-RENDERING ' + again
        return '%s log=%s audits=%s' % (s_bool(ans), '+'.join(logs) if logs else '-', '|'.join(audits))

    def oracle(self, c, obs):
        """the statement, recomputed from the per-policy match vector with the real checker"""
        if obs.startswith(('E:', 'B:')):
            return 'decision raised: %s' % obs
        ans, cap, pols = run_logged(c, 'MsgUid')
        logs = cap.decision_logs()
        if logs != ['allowed' if ans else 'rejected']:
            return 'decision log records %r do not say %s exactly once' % (logs, 'allowed' if ans else 'rejected')
        mv, pols2 = guardlib.match_vector(c)
        recs = cap.audit.records
        if any(m not in ('T', 'F') for m in mv):
            if recs:
                return 'audit record emitted although evaluation did not complete'
            return None
        if len(recs) != 1:
            return 'expected exactly one audit record, got %d' % len(recs)
        r = recs[0]
        if r.effect != ('allow' if ans else 'deny'):
            return 'audit effect %r disagrees with the answer %r' % (r.effect, ans)
        matching = [p.uid for p, m in zip(pols2, mv) if m == 'T']
        cand = [p.uid for p in r.candidates.policies]
        if cand != matching:
            return 'candidates %r are not exactly the matching policies %r' % (cand, matching)
        dec = [p.uid for p in r.deciders.policies]
        if ans:
            want = matching
        else:
            bad = [p.uid for p, m in zip(pols2, mv) if m == 'T' and p.effect != 'allow']
            want = bad[:1]
            if dec and dec[0] in bad:
                want = dec[:1] if len(dec) == 1 else want
        if dec != want:
            return 'deciders %r, expected %r' % (dec, want)
        return None

    def nontrivial(self, c, obs):
        mv, _ = guardlib.match_vector(c)
        return 'T' in mv

    def shrink(self, c):
        ps = c['policies']
        for i in range(len(ps)):
            yield dict(c, policies=ps[:i] + ps[i + 1:])

    def describe(self, c):
        return ('import json; from harness.checks.c17 import AuditStream; '
                'print(AuditStream().impl(json.loads(%r)))' % __import__('json').dumps(c))


class CachedLogStream(AuditStream):
    """the same cases asked three times through a cached guard: the first call is compared with the model, the
    two repeats (served from the decision cache) must still emit exactly one agreeing decision-log record each"""
    name = 'cached_guard_decision_log'
    rule = ('the C01-style cases asked three times (the second and third time as content-equal fresh Inquiry '
            'objects) through create_cached_guard over MemoryStorage; per call: answer, decision-log records on '
            'vakt.guard, audit records on vakt.audit. non-trivial = at least one stored policy matches')

    def generate(self, rng, tier):
        n = 300 if tier == 'quick' else 3000
        for k in range(n):
            sc = gen.scenario(rng, specs.CHECKERS[k % 4], illtyped=0.0, raising=False)
            sc['msg'] = 'MsgUid'
            yield sc

    def _calls(self, c):
        import vakt.audit as va
        from vakt.cache import create_cached_guard
        from vakt.storage.memory import MemoryStorage
        st0 = MemoryStorage()
        for p in c['policies']:
            st0.add(specs.mk_policy(p))
        guard, st, cache = create_cached_guard(st0, specs.mk_checker(c['checker']), maxsize=16)
        guard.apm = getattr(va, MSG['MsgUid'])
        out = []
        for _ in range(3):
            inq = specs.mk_inquiry(c['inquiry'])
            with guardlib.capture_logs() as cap:
                try:
                    ans = guard.is_allowed(inq)
                except BaseException as e:  # noqa
                    out.append((s_exc(e), [], []))
                    continue
            out.append((ans, cap.decision_logs(), list(cap.audit.records)))
        return out

    def impl(self, c):
        calls = self._calls(c)
        parts = []
        for i, (ans, logs, recs) in enumerate(calls):
            if isinstance(ans, str):
                parts.append(ans)
                continue
            if i == 0:
                audits = ['%s c=%s d=%s' % (getattr(r, 'effect', '?'), s_pstr(str(getattr(r, 'candidates', '?'))),
                                            s_pstr(str(getattr(r, 'deciders', '?')))) for r in recs]
                parts.append('%s log=%s audits=%s' % (s_bool(ans), '+'.join(logs) if logs else '-', '|'.join(audits)))
            else:
                parts.append('hit %s log=%s audits=%d' % (s_bool(ans), '+'.join(logs) if logs else '-', len(recs)))
        return ' | '.join(parts)

    def same(self, io, mo):
        return io.split(' | ')[0] == mo

    def oracle(self, c, obs):
        if obs.startswith(('E:', 'B:')):
            return 'decision raised: %s' % obs
        parts = obs.split(' | ')
        first = parts[0].split(' ')[0]
        for i, p in enumerate(parts[1:], 1):
            f = p.split(' ')
            if f[0] != 'hit':
                return 'call %d raised: %s' % (i, p)
            if f[1] != first:
                return 'repeated inquiry answered %s, first answer %s' % (f[1], first)
            want = 'log=' + ('allowed' if f[1] == 'T' else 'rejected')
            if f[2] != want:
                return 'call %d (served from the decision cache) emitted decision-log records %r, expected exactly %r' % (
                    i, f[2], want)
        return None

    def describe(self, c):
        return ('import json; from harness.checks.c17 import CachedLogStream; '
                'print(CachedLogStream().impl(json.loads(%r)))' % __import__('json').dumps(c))


TRUSTED = [
    'Coq 8.16.1 kernel + vm_compute (no native_compute)',
    'Model/Guard.v (audit events of check_policies_allow / is_allowed_check / is_allowed) and Model/Audit.v '
    '(message classes), hand-written from vakt/guard.py and vakt/audit.py, tied by the audit_records stream',
    'python logging delivers one record per call to handlers attached to vakt.audit / vakt.guard',
]
ASSUME = ['uids and descriptions rendered with str() are None / bool / int / str (others are skipped as unmodelled)',
          'a cache hit emits the decision-log record but no audit record (the audit record belongs to the evaluation)']


def main(argv):
    return run_check('C17', [AuditStream(), CachedLogStream()], argv, trusted_base=TRUSTED, assumptions=ASSUME,
                     translated=('guard', 'checker', 'parser', 'subject', 'observable', 'pin_audit', 'rules', 'pin_rules', 'pin_util'))


if __name__ == '__main__':
    sys.exit(main(sys.argv[1:]))
