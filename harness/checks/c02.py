"""C02 - Fail-closed totality of decisions."""
import sys

from .. import core, gen, specs, guardlib
from ..check import Stream, run_check
from ..core import s_bool, s_exc, e_list

EXCS = ['Exception', 'ValueError', 'KeyError', 'RuntimeError', 'Custom1', 'TypeError',
        # classes the interpreter itself gives a meaning to (iteration / generator protocols, lookups, arithmetic)
        'StopIteration', 'StopAsyncIteration', 'StopIteration', 'LookupError', 'ArithmeticError', 'AssertionError',
        'NotImplementedError', 'OSError', 'RecursionError']


class FaultyStorage:
    """find_for_inquiry raises at once / returns None / yields lazily and raises at the n-th next"""

    def __init__(self, pols, fault):
        self.pols = pols
        self.fault = fault
        self.fired = False

    def find_for_inquiry(self, inquiry, checker=None):
        f = self.fault
        if f and f[0] == 'storage_raise':
            self.fired = True
            raise specs.exc_class(f[1])('injected')
        if f and f[0] == 'storage_none':
            self.fired = True
            return None
        if f and f[0] == 'iter_raise':
            return self._lazy(f[1], f[2])
        return list(self.pols)

    def _lazy(self, n, exc):
        for k, p in enumerate(self.pols):
            if k == n:
                self.fired = True
                raise specs.exc_class(exc)('injected')
            yield p
        if n >= len(self.pols):
            self.fired = True
            raise specs.exc_class(exc)('injected')


class FaultyChecker:
    """wraps a checker; the k-th fits call raises"""

    def __init__(self, inner, k, exc):
        self.inner = inner
        self.k = k
        self.exc = exc
        self.calls = []          # policy object per call
        self.fired_at = None

    def fits(self, policy, field, what, inquiry=None):
        idx = len(self.calls)
        self.calls.append(policy)
        if self.k is not None and idx == self.k:
            self.fired_at = policy
            raise specs.exc_class(self.exc)('injected')
        return self.inner.fits(policy, field, what, inquiry)


def run_case(c):
    """-> (observation, equivalent fault for the model)"""
    from vakt.guard import Guard
    pols = [specs.mk_policy(p) for p in c['policies']]
    fault = c.get('fault')
    st = FaultyStorage(pols, fault if fault and fault[0] in ('storage_raise', 'storage_none', 'iter_raise') else None)
    ck = specs.mk_checker(c['checker'])
    fck = FaultyChecker(ck, fault[1] if fault and fault[0] == 'fits_raise' else None,
                        fault[2] if fault and fault[0] == 'fits_raise' else None)
    g = Guard(st, fck)
    inq = specs.mk_inquiry(c['inquiry'])
    with guardlib.capture_logs() as cap:
        try:
            r = g.is_allowed(inq)
            obs = s_bool(r) if (r is True or r is False) else '<%r>' % (r,)
        except BaseException as e:  # noqa
            obs = s_exc(e)
    n_audit = len(cap.audit.records)
    if not obs.startswith(('E:', 'B:')):
        obs += ' audits=%d' % n_audit
    # the equivalent model-level fault
    eq = None
    if fault:
        if fault[0] == 'fits_raise' and fck.fired_at is not None:
            j = [id(p) for p in pols].index(id(fck.fired_at))
            eq = ['iter_raise', j, fault[2]]
        elif fault[0] in ('storage_raise', 'storage_none', 'iter_raise'):
            eq = fault
    return obs, eq, len(fck.calls)


class FaultStream(Stream):
    name = 'decisions_under_faults'
    imports = guardlib.GUARD_IMPORTS
    case_type = 'xcase'
    run_fn = 'run_faulty'
    rule = ('for generated (store, inquiry, checker) cases - ill-typed values, raising rules and malformed patterns '
            'included - the fault-free run is recorded, then re-run once per crossing with an exception injected: '
            'storage raises at once, storage returns None, the n-th next() of the lazily iterated result raises '
            '(every n), the k-th checker.fits call raises (every k); exception classes Exception, ValueError, '
            'KeyError, RuntimeError, TypeError, a user subclass, and one non-Exception BaseException. '
            'exhaustive over positions per sampled case. non-trivial = the fault-free answer is allow')

    def generate(self, rng, tier):
        n = 260 if tier == 'quick' else 2500
        for k in range(n):
            sc = gen.scenario(rng, specs.CHECKERS[k % 4], n_policies=rng.choice([0, 1, 2, 2, 3, 4]), illtyped=0.12)
            base = dict(sc, fault=None)
            yield base
            _, _, ncalls = run_case(base)
            npol = len(sc['policies'])
            exc = rng.choice(EXCS)
            yield dict(sc, fault=['storage_raise', exc])
            yield dict(sc, fault=['storage_none'])
            for j in range(npol + 1):
                yield dict(sc, fault=['iter_raise', j, rng.choice(EXCS)])
            for j in range(ncalls):
                yield dict(sc, fault=['fits_raise', j, rng.choice(EXCS)])
            if rng.random() < 0.3:
                yield dict(sc, fault=['iter_raise', rng.randint(0, npol), rng.choice(['Base1', 'GeneratorExit'])])
            # an extra allow policy whose pattern has a segment that is no regular expression on its own (evaluating it
            # is an error): it can never turn a deny into an allow
            if sc['checker'] == 'CRegex' and k % 3 == 0:
                seg = rng.choice(['x<a)|(.*>', '<a)|(.*>', '<a(>x<b)>'])
                extra = {'uid': 'badrx', 'effect': 'allow', 'subjects': [['s', seg]], 'resources': [['s', seg]],
                         'actions': [['s', seg]], 'context': [], 'description': None, 'tags': ['<', '>']}
                yield dict(sc, policies=sc['policies'] + [extra], fault=None, bad_extra=True)
            # a context rule of the j-th policy raises, under a key the inquiry context does hold (every j; the
            # classes a handler around the context lookup could mistake for "key absent" first)
            ctx = specs.py(sc['inquiry']['context'])
            if ctx is None or isinstance(ctx, dict):
                inq = dict(sc['inquiry'], context=specs.jv(dict(ctx or {}, fk=1)))
                for j in range(npol):
                    for exc in ('KeyError', rng.choice(['LookupError', 'IndexError', 'AttributeError', 'TypeError',
                                                        'ValueError', 'Custom1'])):
                        pj = dict(sc['policies'][j])
                        pj['context'] = list(pj['context']) + [['fk', ['Broken', exc]]]
                        yield dict(sc, policies=sc['policies'][:j] + [pj] + sc['policies'][j + 1:], inquiry=inq,
                                   fault=None)
            # the same fault position with every class that has a protocol meaning
            for j in range(ncalls):
                yield dict(sc, fault=['fits_raise', j, 'StopIteration'])
            for j in range(npol + 1):
                yield dict(sc, fault=['iter_raise', j, 'StopIteration'])

    def emit(self, c):
        obs, eq, _ = run_case(c)
        table = guardlib.e_table(c['rxtable'])
        pols = [specs.e_policy(p) for p in c['policies']]
        if eq is None:
            find = '(XIter %s)' % e_list(['(SPol %s)' % p for p in pols], 'sitem')
        elif eq[0] == 'storage_raise':
            find = '(XRaise %s)' % specs.e_exn(eq[1])
        elif eq[0] == 'storage_none':
            find = 'XNone'
        else:
            items = ['(SPol %s)' % p for p in pols]
            items = items[:eq[1]] + ['(SExc %s)' % specs.e_exn(eq[2])] + items[eq[1]:]
            find = '(XIter %s)' % e_list(items, 'sitem')
        return '{| x_ck := %s; x_table := %s; x_find := %s; x_inq := %s |}' % (
            c['checker'], table, find, specs.e_inquiry(c['inquiry']))

    def impl(self, c):
        return run_case(c)[0]

    def oracle(self, c, obs):
        fault = c.get('fault')
        is_base = bool(fault) and any(isinstance(x, str) and (x.startswith('Base') or x == 'GeneratorExit') for x in fault)
        if obs.startswith('E:'):
            return 'a decision request raised %s' % obs
        if obs.startswith('B:'):
            return None if is_base else 'a BaseException escaped without being injected: %s' % obs
        ans = obs.split(' ')[0]
        if ans not in ('T', 'F'):
            return 'answer is not a strict boolean: %s' % obs
        if c.get('bad_extra') and ans == 'T':
            without = run_case(dict(c, policies=c['policies'][:-1], bad_extra=False))[0]
            if without.split(' ')[0] == 'F':
                return ('an allow policy whose pattern cannot be evaluated (a segment that is no regular expression on '
                        'its own) turned the answer from deny into allow')
        _, eq, _ = run_case(c)
        if eq is not None and ans == 'T':
            return 'allow answered although a fault was injected and reached (%r)' % (eq,)
        if ans == 'T':
            want = guardlib.deny_overrides(c)
            if want is not True:
                return 'allow answered but no stored allow policy matched without error (recomputed: %r)' % (want,)
        return None

    def nontrivial(self, c, obs):
        return c.get('fault') is not None and guardlib.deny_overrides(c) is True

    def key(self, c):
        from ..core import digest
        return digest(c)

    def shrink(self, c):
        return []

    def describe(self, c):
        return ('import json; from harness.checks.c02 import run_case; print(run_case(json.loads(%r))[0])'
                % __import__('json').dumps(c))



# ---- values outside the model's domain --------------------------------------------------------------------------
# The model's values are JSON-like (None, bool, int, float, str, list, tuple, dict).  The statement says "never raises,
# always a strict boolean" for every inquiry; this stream offers the rest of what a caller may put into an inquiry.

class _Opaque:
    """a caller-defined object"""
    def __init__(self, n):
        self.n = n


class _Unprintable:
    """a caller-defined object that cannot be printed (a detached ORM instance, a closed resource): whatever logging the
    guard does with the inquiry must not turn a decision into an exception"""
    def __repr__(self):
        raise RuntimeError('this object cannot be printed')
    __str__ = __repr__


def exotic_value(rng, depth=2):
    k = rng.randrange(16)
    if k == 0:
        return set(rng.sample(['admin', 'dev', 7, None, 2.5, ('a', 1), b'x', True], rng.randint(0, 4)))
    if k == 1:
        return frozenset(rng.sample(['a', 1, None, ('t',)], rng.randint(0, 3)))
    if k == 2:
        return rng.choice([b'', b'get', bytearray(b'ab')])
    if k == 3:
        return rng.choice([float('nan'), float('inf'), -0.0, 1e308, complex(1, 2)])
    if k == 4:
        return _Opaque(rng.randint(0, 3)) if rng.random() < 0.5 else _Unprintable()
    if k == 5:
        return {rng.choice([1, None, ('a',), 2.5, True, 'k']): rng.choice([1, 'v', None]) for _ in range(rng.randint(1, 3))}
    if k == 6:
        return range(rng.randint(0, 3))
    if k == 7:
        return rng.choice([len, _Opaque, Ellipsis, NotImplemented, type(None)])
    if k == 8:
        return 10 ** rng.choice([20, 40, 400]) * rng.choice([1, -1])
    if k == 9:
        return rng.choice(['', '\x00', '\ud800', 'a' * 300, '\U0010ffff'])
    if depth > 0:
        if k == 10:
            return [exotic_value(rng, depth - 1) for _ in range(rng.randint(0, 3))]
        if k == 11:
            return tuple(exotic_value(rng, depth - 1) for _ in range(rng.randint(0, 3)))
        if k == 12:
            return {rng.choice(['a', 'role', 'py/set', 'k']): exotic_value(rng, depth - 1) for _ in range(rng.randint(1, 3))}
    return rng.choice(['get', 'Max', 5, None, True, ['a']])


def run_exotic(c):
    """decisions through a plain guard and through a cached guard (default LRU back-end and capacity 0)"""
    import random
    from vakt.guard import Guard, Inquiry
    from vakt.cache import create_cached_guard
    from vakt.storage.memory import MemoryStorage
    rng = random.Random(c['vseed'])
    vals = {f: exotic_value(rng) for f in ('resource', 'action', 'subject')}
    ctx = rng.choice([None, {}, {'ip': exotic_value(rng)}, {'a': exotic_value(rng), 'b': exotic_value(rng)},
                      exotic_value(rng)])
    out = []
    for mode in ('plain', 'cached', 'cached0'):
        st = MemoryStorage()
        for p in c['policies']:
            st.add(specs.mk_policy(p))
        ck = specs.mk_checker(c['checker'])
        if mode == 'plain':
            g = Guard(st, ck)
        else:
            g = create_cached_guard(st, ck, maxsize=16 if mode == 'cached' else 0)[0]
        for rep in range(2):
            try:
                inq = Inquiry(context=ctx, **vals)
                r = g.is_allowed(inq)
                out.append('T' if r is True else 'F' if r is False else '<%s>' % type(r).__name__)
            except BaseException as e:  # noqa
                if core.fatal(e):
                    raise
                out.append('RAISED:%s:%s' % (mode, type(e).__name__))
    return ' '.join(out)


class ExoticInquiryStream(Stream):
    name = 'inquiries_outside_the_model'
    oracle_only = True
    oracle_complete = True
    rule = ('generated stores x 4 checkers; inquiry fields and context hold values OUTSIDE the model (sets and frozensets '
            'with members that cannot be ordered, bytes, NaN/inf/complex, caller-defined objects, dictionaries with '
            'non-string keys, ranges, functions and classes, huge ints, lone surrogates, nested up to depth 2); asked twice '
            'through a plain guard, a cached guard and a cached guard of capacity 0. No model evaluation: only the '
            'clause "never raises, strict boolean" and agreement of the six answers are judged')

    def generate(self, rng, tier):
        n = 400 if tier == 'quick' else 4000
        for k in range(n):
            sc = gen.scenario(rng, specs.CHECKERS[k % 4], n_policies=rng.choice([0, 1, 2, 3]), illtyped=0.0)
            yield {'checker': sc['checker'], 'policies': sc['policies'], 'vseed': rng.randrange(10 ** 9)}

    def emit(self, c):
        return ''

    def impl(self, c):
        return run_exotic(c)

    def oracle(self, c, obs):
        parts = obs.split(' ')
        bad = [p for p in parts if p not in ('T', 'F')]
        if bad:
            return 'a decision request raised or returned a non-boolean: %s' % bad[0]
        if len(set(parts)) != 1:
            return 'plain / cached guards disagree on one inquiry: %s' % obs
        return None

    def shrink(self, c):
        ps = c['policies']
        for i in range(len(ps)):
            yield dict(c, policies=ps[:i] + ps[i + 1:])

    def describe(self, c):
        return ('import json; from harness.checks.c02 import run_exotic; '
                'print(run_exotic(json.loads(%r)))' % __import__('json').dumps(c))


TRUSTED = [
    'Coq 8.16.1 kernel + vm_compute (no native_compute)',
    'Model/Guard.v is_allowed_check over find_result (FRaise / FNone / lazily raising FIter), hand-written from '
    'vakt/guard.py, tied by the decisions_under_faults stream; a fault in the k-th checker call is mapped to a '
    'raising item at the index of the policy being evaluated (recorded from the real run)',
    'fault injectors: wrapper storage and wrapper checker in harness/checks/c02.py',
]
ASSUME = ['non-Exception BaseExceptions propagate (stated: C02_total); exceptions raised by user logging filters and '
          'interpreter failures (MemoryError, RecursionError inside re) are outside the model']


def main(argv):
    return run_check('C02', [FaultStream(), ExoticInquiryStream()], argv, trusted_base=TRUSTED, assumptions=ASSUME,
                     translated=('guard', 'checker', 'parser', 'policy', 'on_generated', 'rules', 'pin_rules', 'pin_util'))


if __name__ == '__main__':
    sys.exit(main(sys.argv[1:]))
