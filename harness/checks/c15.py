"""C15 - SQL mutations are committed when they return and atomic when they fail."""
import json
import os
import shutil
import signal
import subprocess
import sys

from .. import core, storelib
from ..check import Stream, run_check
from ..core import e_list, e_nat
from ..sql_child import other_view, run_ops


def run_case(c):
    work = core.workdir('C15-db')
    url = 'sqlite:///' + os.path.join(work, 'vakt.db')
    try:
        k = c['crash_after']
        if c['kind'] == 'kill':
            env = dict(os.environ, PYTHONPATH=core.REPO + ':' + core.VERIF, PYTHONWARNINGS='ignore')
            p = subprocess.Popen(['/venv/bin/python', '-m', 'harness.sql_child', url, json.dumps(c['ops']), str(k)],
                                 stdout=subprocess.PIPE, stderr=subprocess.PIPE, text=True, env=env, cwd=core.VERIF)
            line = p.stdout.readline()
            os.kill(p.pid, signal.SIGKILL)
            p.wait()
            if not line:
                return 'CHILD-FAILED ' + p.stderr.read()[-300:]
            lines = json.loads(line)
        else:
            h, lines = run_ops(url, c['ops'], k)
            # crash: the session is discarded without commit (remove() rolls back whatever is pending) ...
            h.extra['session'].remove()
            if c['kind'] == 'dispose':
                h.extra['engine'].dispose()         # ... and the engine with its connections is thrown away
        lines[-1] += ' crashed=' + other_view(url)
        return ' | '.join(lines)
    finally:
        shutil.rmtree(work, ignore_errors=True)


class SqlCrashStream(Stream):
    name = 'sql_crash_points'
    imports = 'From Vakt Require Import Model.Store Model.SqlSession Harness.RunC08 Harness.RunC15.'
    case_type = 'qcase'
    run_fn = 'run_qcase'
    rule = ('operation sequences (<= 10) on a file-backed SQLite database, failing mutations (duplicate uid, '
            'unbindable description) interleaved; after every operation a second independent engine reads the '
            'whole store; a crash is placed after EVERY operation of every sequence (one run per position): session '
            'discarded without commit, engine disposed, or the writing process SIGKILLed right after the call '
            'returned, and a fresh engine reads again. non-trivial = crash placed after a delete, or after a failed '
            'mutation that follows a delete')

    def corpus(self):
        ops = [['add', 'sa', 1, False], ['delete', 'sa'], ['add', 'sb', 2, True], ['get', 'sa']]
        # a mutation that fails halfway through building the row, then one that succeeds and commits
        half = [['add', 'sa', 1, False], ['update', 'sa', 2, True], ['add', 'sb', 3, False], ['get', 'sa']]
        half2 = [['add', 'sa', 1, False], ['add', 'sb', 2, True], ['delete', 'sa'], ['add', 'sb', 4, False]]
        return [{'ops': ops, 'crash_after': 1, 'kind': 'discard'}, {'ops': ops, 'crash_after': 2, 'kind': 'dispose'},
                {'ops': ops, 'crash_after': 1, 'kind': 'kill'},
                {'ops': half, 'crash_after': 1, 'kind': 'discard'}, {'ops': half, 'crash_after': 2, 'kind': 'dispose'},
                {'ops': half, 'crash_after': 2, 'kind': 'kill'},
                {'ops': half2, 'crash_after': 1, 'kind': 'discard'}, {'ops': half2, 'crash_after': 2, 'kind': 'kill'},
                {'ops': half2, 'crash_after': 3, 'kind': 'dispose'}]

    def generate(self, rng, tier):
        n = 40 if tier == 'quick' else 300
        kills = 0
        for i in range(n):
            keys = ['sa', 'sb', 'sc'][:rng.choice([2, 3])]
            ops = storelib.gen_ops(rng, 'sqlite', rng.randint(2, 10), keys, mut_share=0.85)
            if i % 3 == 0:
                # planted: a mutation that fails (either kind: unbindable value at flush, or an exception while the
                # row is being built) directly followed by a mutation of another key that succeeds
                present = set()
                for o in ops:
                    if (o[0] == 'add' and not o[3]) or o[0] == 'readd':
                        present.add(o[1])
                    elif o[0] == 'delete':
                        present.discard(o[1])
                k1 = rng.choice(keys)
                k2 = rng.choice([k for k in keys if k != k1])
                t = 100 + 2 * i + rng.choice([0, 1])
                first = ['update', k1, t, True] if k1 in present else ['add', k1, t, True]
                second = ['delete', k2] if k2 in present and rng.random() < 0.5 else \
                    (['update', k2, 301 + 2 * i, False] if k2 in present else ['add', k2, 301 + 2 * i, False])
                ops = ops + [first, second, ['get', k1]]
            for k in range(len(ops)):
                kind = rng.choice(['discard', 'dispose'])
                yield {'ops': ops, 'crash_after': k, 'kind': kind}
            if i % 4 == 0:
                for k in range(len(ops)):
                    if ops[k][0] in ('add', 'readd', 'update', 'delete') and kills < (24 if tier == 'quick' else 300):
                        kills += 1
                        yield {'ops': ops, 'crash_after': k, 'kind': 'kill'}

    def emit(self, c):
        return '{| q_ops := %s; q_crash_after := %s |}' % (
            e_list([storelib.e_op(o) for o in c['ops']], 'kop'), e_nat(c['crash_after']))

    def impl(self, c):
        return run_case(c)

    def oracle(self, c, obs):
        from ..core import s_pstr
        m = {}
        segs = obs.split(' | ')
        for o, seg in zip(c['ops'], segs):
            res = seg.split(' ')[0]
            before = dict(m)
            if res == 'ok':
                if o[0] in ('add', 'readd'):
                    m[o[1]] = o[2]
                elif o[0] == 'update' and o[1] in m:
                    m[o[1]] = o[2]
                elif o[0] == 'delete':
                    m.pop(o[1], None)
            want = '[' + ','.join('%s=%d' % (s_pstr(k), v) for k, v in sorted(m.items())) + ']'
            other = seg.split('other=', 1)[1].split(' crashed=')[0]
            if other != want:
                return 'after %r returned (%s) a second session reads %s, expected %s' % (o, res, other, want)
            if ' crashed=' in seg:
                crashed = seg.split(' crashed=', 1)[1]
                if crashed != want:
                    return 'after the crash (%s) following %r the database holds %s, expected %s' % (
                        c['kind'], o, crashed, want)
        return None

    def nontrivial(self, c, obs):
        k = c['crash_after']
        ops = c['ops']
        if k >= len(ops):
            return False
        if ops[k][0] == 'delete':
            return True
        segs = obs.split(' | ')
        return len(segs) > k and segs[k].split(' ')[0] in ('rejected', 'exists') and any(o[0] == 'delete' for o in ops[:k])

    def shrink(self, c):
        ops = c['ops']
        k = c['crash_after']
        for i in range(len(ops)):
            if len(ops) > 1 and i != k:
                yield dict(c, ops=ops[:i] + ops[i + 1:], crash_after=k - (1 if i < k else 0))

    def describe(self, c):
        return ('import json; from harness.checks.c15 import run_case; print(run_case(json.loads(%r)))' % json.dumps(c))


TRUSTED = [
    'Coq 8.16.1 kernel + vm_compute (no native_compute)',
    'Model/SqlSession.v: SQLStorage.add/update/delete as sequences of session calls (add, get, query-delete, commit, '
    'rollback under their except clauses) over a hand-written model of a SQLAlchemy session\'s unit of work; tied by '
    'the sql_crash_points stream on a real file-backed SQLite database (second engine, three crash kinds)',
    'SQLAlchemy 2.0 session semantics and SQLite are external; the session model is written from their documented '
    'behaviour and validated by this stream only',
]
ASSUME = ['fsync / power-loss durability belongs to SQLite and the OS; MySQL/Postgres isolation levels are not '
          'exhibited (C15 partial)']


def main(argv):
    return run_check('C15', [SqlCrashStream()], argv, trusted_base=TRUSTED, assumptions=ASSUME,
                     translated=('sql', 'sqlmodel', 'pin_sql', 'pin_util'))


if __name__ == '__main__':
    sys.exit(main(sys.argv[1:]))
