"""C05 - Built-in rules mean what they say and compose as boolean algebra."""
import copy
import sys

from .. import core, gen, specs
from ..check import Stream, run_check
from ..core import e_pstr, e_list, s_pstr, s_val, s_bool, s_exc, run_py
from ..specs import jv, py, ev


def tok(fn):
    try:
        return s_bool(bool(fn()))
    except BaseException as e:  # noqa
        return s_exc(e)


class OpsStream(Stream):
    name = 'python_operators'
    imports = 'From Vakt Require Import Harness.RunC05.'
    case_type = 'val * val'
    run_fn = 'run_ops'
    rule = ('pairs (a, b) of values of the typed universe, b related to a (equal / one-point different / other type); '
            'compared: ==, <, <=, bool(), hashability, str.lower(), str(), `in` set/list. non-trivial = a and b of '
            'different type tags or nested containers; distinct by canonical JSON')

    def generate(self, rng, tier):
        n = 1500 if tier == 'quick' else 20000
        for _ in range(n):
            a = gen.value(rng, 2)
            b = gen.related(rng, a) if rng.random() < 0.7 else gen.value(rng, 2)
            yield {'a': jv(a), 'b': jv(b)}
        # every pair of type tags
        reps = [None, True, 0, 1, -3, 0.0, 1.0, 2.5, '', 'a', 'ab', 'B', [], [1], [1, 'a'], (), (1,), (1, 2.0),
                {}, {'a': 1}, [[1], [2]], ([1],), 'É', 'ж']
        for a in reps:
            for b in reps:
                yield {'a': jv(a), 'b': jv(b)}

    def emit(self, c):
        return '(%s, %s)' % (ev(c['a']), ev(c['b']))

    def impl(self, c):
        a, b = py(c['a']), py(c['b'])
        out = [s_bool(a == b), s_bool(b == a), tok(lambda: a < b), tok(lambda: a <= b),
               tok(lambda: b < a), tok(lambda: b <= a), s_bool(bool(a))]
        try:
            hash(a)
            out.append('T')
        except TypeError:
            out.append('F')
        out.append(s_pstr(a.lower()) if isinstance(a, str) else '-')
        out.append(s_pstr(str(a)) if a is None or isinstance(a, (bool, int, str)) else '-')

        def in_set():
            return a in set([b, 1, 'a']) if _hashable(b) else _raise_unmod()
        if _hashable(b):
            out.append(tok(lambda: a in {b, 1, 'a'}))
        else:
            # the model builds the set from an unhashable b only in this probe; mirror its answer
            out.append(tok(lambda: _in_list_after_hash(a, [b, 1, 'a'])))
        out.append(s_bool(a in b) if isinstance(b, list) else '-')
        return ' '.join(out)

    def nontrivial(self, c, obs):
        a, b = py(c['a']), py(c['b'])
        return type(a) is not type(b) or isinstance(a, (list, tuple, dict))


def _hashable(x):
    try:
        hash(x)
        return True
    except TypeError:
        return False


def _raise_unmod():
    raise RuntimeError('unmodelled')


def _in_list_after_hash(a, lst):
    hash(a)
    return any(a == x for x in lst)


def gen_inquiry(rng, what=None):
    def fld():
        r = rng.random()
        if what is not None and r < 0.35:
            return what
        if r < 0.55:
            d = {}
            for k in rng.sample(['a', 'name', 'id'], rng.randint(0, 3)):
                d[k] = what if (what is not None and rng.random() < 0.5) else gen.value(rng, 1)
            return d
        if r < 0.65 and isinstance(what, list) and what:
            return rng.choice(what)
        return gen.value(rng, 1)
    ctx = rng.choice([None, {}, {'a': 1}, {'ip': '10.0.0.1', 'k': [1, 2]}])
    return {'resource': jv(fld()), 'action': jv(fld()), 'subject': jv(fld()), 'context': jv(ctx)}


TWINS = {'Eq': 'NotEq', 'NotEq': 'Eq', 'In': 'NotIn', 'NotIn': 'In', 'AllIn': 'AllNotIn', 'AllNotIn': 'AllIn',
         'Truthy': 'Falsy', 'Falsy': 'Truthy', 'Any': 'Neither', 'Neither': 'Any'}


def snapshot(x):
    return specs.s_any(x) if not hasattr(x, '__dict__') or _is_rule(x) else specs.s_any(vars(x))


def _is_rule(x):
    from vakt.rules.base import Rule
    return isinstance(x, Rule)


class RulesStream(Stream):
    name = 'rule_satisfied'
    imports = 'From Vakt Require Import Model.Regex Model.Rules Harness.RunC05.'
    case_type = 'rcase'
    run_fn = 'run_rule'
    rule = ('rule trees (depth <= 3 quick / 4 thorough) over all built-in classes, the deprecated aliases and '
            'raising / constant custom rules; operand derived from the rule (related value, one-point mutation, '
            'other type); inquiry absent or supplying related fields; each case evaluated twice with deep '
            'snapshots of rule, operand and inquiry before/after. non-trivial = tree with a composition and >= 2 '
            'distinct leaf classes, or a leaf evaluated on an operand of another type tag')

    def corpus(self):
        return [
            {'rule': ['And', []], 'what': 1, 'inq': None},
            {'rule': ['Or', []], 'what': 1, 'inq': None},
            {'rule': ['SubjectEqual'], 'what': 'Max', 'inq': None},
            {'rule': ['PairsEqual'], 'what': [['a', 1]], 'inq': None},
            {'rule': ['Eq', {'T': [1, 2]}], 'what': [1, 2], 'inq': None},
            {'rule': ['CIDR', '192.168.2.0/24'], 'what': '192.168.2.56', 'inq': None},
            {'rule': ['Greater', 1], 'what': 'a', 'inq': None},
        ] + [
            # the grid of the string rules: empty / shorter / equal / longer text, both letter cases, case-fold-special
            # letters - with and without ci (slicing, folding and lower-casing agree on plain ASCII only)
            {'rule': [name, val, ci], 'what': w, 'inq': None}
            for name in ('Equal', 'StartsWith', 'EndsWith', 'Contains') for ci in (False, True)
            for val in ('', 'a', 'Ab', 'ß', 'ſt') for w in ('', 'a', 'xAb', 'Abx', 'AB', 'ß', 'ss', 'xſt', 'stx', 'ST')
        ]

    def generate(self, rng, tier):
        n = 3000 if tier == 'quick' else 40000
        depth = 2 if tier == 'quick' else 3
        for _ in range(n):
            r = gen.rule(rng, rng.choice([0, 1, depth, depth]))
            w = gen.operand_for(rng, r)
            inq = None if rng.random() < 0.25 else gen_inquiry(rng, w)
            yield {'rule': r, 'what': jv(w), 'inq': inq}

    def emit(self, c):
        inq = '(@None inquiry)' if c['inq'] is None else '(Some %s)' % specs.e_inquiry(c['inq'])
        return '{| rc_rule := %s; rc_what := %s; rc_inq := %s |}' % (specs.e_rule(c['rule']), ev(c['what']), inq)

    def _eval(self, c):
        r = specs.mk_rule(c['rule'])
        w = py(c['what'])
        q = None if c['inq'] is None else specs.mk_inquiry(c['inq'])
        before = (specs.s_any(r), specs.s_any(w), None if q is None else specs.s_any(vars(q)))
        o1 = run_py(lambda: r.satisfied(w, q), _show_result)
        o2 = run_py(lambda: r.satisfied(w, q), _show_result)
        after = (specs.s_any(r), specs.s_any(w), None if q is None else specs.s_any(vars(q)))
        return o1, o2, before, after

    def impl(self, c):
        return self._eval(c)[0]

    def oracle(self, c, obs):
        o1, o2, before, after = self._eval(c)
        if o1 != o2:
            return 'a second evaluation gave a different result: %s then %s' % (o1, o2)
        if before != after:
            return 'evaluation changed the rule, the value or the inquiry'
        k = c['rule'][0]
        if k in TWINS and not obs.startswith(('E:', 'B:')):
            twin = dict(c)
            twin['rule'] = [TWINS[k]] + list(c['rule'][1:])
            t = self._eval(twin)[0]
            if t.startswith(('E:', 'B:')) or (t == 'T') == (obs == 'T'):
                return 'negative rule %s is not the exact complement of %s: %s vs %s' % (TWINS[k], k, t, obs)
        if k == 'Not' and not obs.startswith(('E:', 'B:')):
            inner = dict(c)
            inner['rule'] = c['rule'][1]
            t = self._eval(inner)[0]
            if not t.startswith(('E:', 'B:')) and (_truth(t) == (obs == 'T')):
                return 'Not does not negate: inner %s, outer %s' % (t, obs)
        if k in ('And', 'Or') and not obs.startswith(('E:', 'B:')):
            parts = []
            for sub in c['rule'][1]:
                s = dict(c)
                s['rule'] = sub
                parts.append(self._eval(s)[0])
            if all(not p.startswith(('E:', 'B:')) for p in parts):
                truths = [_truth(p) for p in parts]
                want = (len(truths) > 0 and all(truths)) if k == 'And' else any(truths)
                if want != (obs == 'T'):
                    return '%s is not the %s of its operands: %s -> %s' % (
                        k, 'conjunction' if k == 'And' else 'disjunction', parts, obs)
        return None

    def nontrivial(self, c, obs):
        def leaves(r):
            if r[0] in ('And', 'Or'):
                out = set()
                for x in r[1]:
                    out |= leaves(x)
                return out
            if r[0] == 'Not':
                return leaves(r[1])
            return {r[0]}
        if c['rule'][0] in ('And', 'Or', 'Not'):
            return len(leaves(c['rule'])) >= 2
        return True

    def shrink(self, c):
        r = c['rule']
        if r[0] in ('And', 'Or'):
            for i in range(len(r[1])):
                yield dict(c, rule=[r[0], r[1][:i] + r[1][i + 1:]])
            for x in r[1]:
                yield dict(c, rule=x)
        if r[0] == 'Not':
            yield dict(c, rule=r[1])
        if c['inq'] is not None:
            yield dict(c, inq=None)

    def describe(self, c):
        return 'rule=%r what=%r inquiry=%r  (harness.specs.mk_rule / py / mk_inquiry)' % (c['rule'], c['what'], c['inq'])


def _show_result(v):
    try:
        return s_val(v)
    except TypeError:
        return '<%s>' % type(v).__name__


def _truth(tokstr):
    """truthiness of a rendered value"""
    if tokstr in ('T',):
        return True
    if tokstr in ('F', 'N', 'i0', "'", '[]', '()', '{}'):
        return False
    if tokstr.startswith('f0/'):
        return False
    return True


HASH_EQUAL_GROUPS = [[1, True, 1.0], [0, False, 0.0], [2, 2.0], [(1,), (True,), (1.0,)], [[1], [True]], ['1', 1],
                     ['True', True], ['', 0, None, False]]


class RuleSequenceStream(Stream):
    name = 'rule_evaluation_sequences'
    imports = 'From Vakt Require Import Model.Regex Model.Rules Harness.RunC05.'
    case_type = 'rscase'
    run_fn = 'run_rule_seq'
    rule = ('ONE rule object evaluated on a sequence of 3-8 operands that contains values which are == and hash-equal '
            'but of different type (1 / True / 1.0, 0 / False / 0.0, (1,) / (True,), "1" / 1 ...) and repeats; every '
            'answer is compared with the model (a function of rule, value and inquiry only); oracle: a fresh rule '
            'object in a fresh evaluation order gives the same answers. non-trivial = sequence containing two '
            'hash-equal operands of different type')

    def generate(self, rng, tier):
        n = 1200 if tier == 'quick' else 12000
        for _ in range(n):
            r = rng.random()
            if r < 0.35:
                rx = rng.choice([['plus', ['cls', False, [[48, 57]]]],
                                 ['cat', ['plus', ['cls', False, [[48, 57]]]], ['opt', ['chr', 46]]],
                                 ['alt', gen.rx_of_literal('True'), ['chr', 49]],
                                 ['cat', ['cls', False, [[48, 49]]], ['star', ['dot']]]])
                rule = [rng.choice(['RegexMatch', 'RegexMatchRule']), rx]
            elif r < 0.5:
                rule = ['Not', [rng.choice(['RegexMatch']), ['plus', ['cls', False, [[48, 57]]]]]]
            else:
                rule = gen.rule(rng, rng.choice([0, 1, 2]), inquiry_rules=False, raising=False)
            ops = []
            for _k in range(rng.randint(2, 4)):
                g = rng.choice(HASH_EQUAL_GROUPS)
                ops += rng.sample(g, min(len(g), rng.randint(2, 3)))
            if rng.random() < 0.5:
                ops.append(gen.operand_for(rng, rule))
            rng.shuffle(ops)
            ops = ops[:8]
            if rule[0] in ('RegexMatch', 'RegexMatchRule') or rule[0] == 'Not':
                ops = [o for o in ops if o is None or isinstance(o, (bool, int, str)) and not isinstance(o, float)]
                if len(ops) < 2:
                    ops = [1, True, 1]
            yield {'rule': rule, 'whats': [jv(o) for o in ops], 'inq': None}

    def emit(self, c):
        return '{| rs_rule := %s; rs_whats := %s; rs_inq := (@None inquiry) |}' % (
            specs.e_rule(c['rule']), e_list([ev(w) for w in c['whats']], 'val'))

    def _run(self, c, order=None):
        r = specs.mk_rule(c['rule'])
        ws = [py(w) for w in c['whats']]
        idx = list(range(len(ws))) if order is None else order
        out = {}
        for i in idx:
            out[i] = run_py(lambda: r.satisfied(ws[i], None), _show_result)
        return [out[i] for i in range(len(ws))]

    def impl(self, c):
        return ','.join(self._run(c))

    def oracle(self, c, obs):
        rev = ','.join(self._run(c, order=list(reversed(range(len(c['whats']))))))
        if rev != obs:
            return 'the answers depend on the order of evaluation: %s forwards, %s backwards' % (obs, rev)
        return None

    def nontrivial(self, c, obs):
        ws = [py(w) for w in c['whats']]
        for i in range(len(ws)):
            for j in range(i + 1, len(ws)):
                try:
                    if type(ws[i]) is not type(ws[j]) and ws[i] == ws[j] and hash(ws[i]) == hash(ws[j]):
                        return True
                except TypeError:
                    pass
        return False

    def shrink(self, c):
        ws = c['whats']
        for i in range(len(ws)):
            if len(ws) > 1:
                yield dict(c, whats=ws[:i] + ws[i + 1:])


class RegexStream(Stream):
    name = 'regex_semantics'
    imports = 'From Vakt Require Import Model.Regex Harness.RunC05.'
    case_type = 'rx * pstr'
    run_fn = 'run_rx'
    rule = ('regex ASTs of the modelled subset printed into Python syntax; candidate strings sampled from the '
            'language and one-point mutated; compared: printed pattern text, re.fullmatch, bool(re.match). '
            'non-trivial = regex with >= 1 operator node')

    def generate(self, rng, tier):
        n = 1500 if tier == 'quick' else 15000
        for _ in range(n):
            r = gen.rx(rng, rng.choice([1, 2, 3]))
            s = gen.mutate_str(rng, gen.rx_sample(rng, r))
            yield {'rx': r, 's': s}

    def emit(self, c):
        return '(%s, %s)' % (specs.e_rx(c['rx']), e_pstr(c['s']))

    def impl(self, c):
        import re
        pat = specs.rx_show(c['rx'])
        return ' '.join([s_pstr(pat), s_bool(re.fullmatch(pat, c['s']) is not None),
                         s_bool(re.match(pat, c['s']) is not None)])

    def nontrivial(self, c, obs):
        return c['rx'][0] in ('cat', 'alt', 'star', 'plus', 'opt')


class IpStream(Stream):
    name = 'ip_parsing'
    imports = 'From Vakt Require Import Model.Net Harness.RunC05.'
    case_type = 'pstr'
    run_fn = 'run_ip'
    rule = ('IPv4/IPv6 address and network literals, valid and malformed (fixed pool plus generated variants); '
            'compared with ipaddress.ip_address / ip_network. non-trivial = string containing "." or ":"')

    def generate(self, rng, tier):
        for s in gen.IPS + gen.NETS:
            yield {'s': s}
        n = 600 if tier == 'quick' else 8000
        for _ in range(n):
            if rng.random() < 0.5:
                parts = [str(rng.choice([0, 1, 10, 192, 255, 256, 7, 0, 0])) for _ in range(rng.choice([3, 4, 4, 4, 4, 4, 5]))]
                s = '.'.join(parts)
                if rng.random() < 0.5:
                    s += '/' + str(rng.choice([0, 8, 16, 24, 31, 32, 33]))
            else:
                groups = [rng.choice(['0', '1', 'ff', 'abcd', 'FFFF', '0', '0', '0', '12345', 'g', '']) for _ in
                          range(rng.choice([2, 3, 4, 7, 8, 8, 8, 8, 9]))]
                s = ':'.join(groups)
                if rng.random() < 0.3:
                    s = s.replace(':', '::', 1)
                if rng.random() < 0.4:
                    s += '/' + str(rng.choice([0, 10, 64, 128, 129]))
            yield {'s': gen.mutate_str(rng, s, '.:/0') if rng.random() < 0.2 else s}

    def emit(self, c):
        return e_pstr(c['s'])

    def impl(self, c):
        import ipaddress

        def addr():
            try:
                a = ipaddress.ip_address(c['s'])
            except ValueError:
                return '-'
            return '%d:%d' % (a.version, int(a))

        def net():
            try:
                n = ipaddress.ip_network(c['s'])
            except ValueError:
                return '-'
            return '%d:%d/%d' % (n.version, int(n.network_address), n.prefixlen)
        return addr() + ' ' + net()

    def nontrivial(self, c, obs):
        return '.' in c['s'] or ':' in c['s']


TRUSTED = [
    'Coq 8.16.1 kernel + vm_compute (no native_compute)',
    'Base/PyVal.v: meaning of Python ==, <, <=, bool(), hash-ability, in, str(), str.lower() on the modelled '
    'universe - validated by the python_operators stream, not proved',
    'Model/Rules.v hand-written from vakt/rules/*.py - tied by the rule_satisfied stream',
    'Model/Regex.v: Python re agrees with In_lang on patterns printed by show_py - tied by regex_semantics stream',
    'Model/Net.v: ipaddress parsing for IPv4 / plain IPv6 - tied by ip_parsing stream',
    'harness generators, emitters, renderers',
]
ASSUME = ['NaN/inf floats, user classes with custom __eq__/__hash__/__bool__, callables, non-string dict keys, '
          'IPv6 zone ids / embedded IPv4 / netmask notation and str.lower() outside ASCII+Latin-1+Cyrillic are '
          'outside the modelled universe (cases reaching them are skipped and counted)']


def main(argv):
    return run_check('C05', [OpsStream(), RegexStream(), IpStream(), RulesStream(), RuleSequenceStream()], argv,
                     trusted_base=TRUSTED, assumptions=ASSUME,
                     translated=('rules', 'rules_on_generated', 'pin_rules', 'pin_util'))


if __name__ == '__main__':
    sys.exit(main(sys.argv[1:]))
