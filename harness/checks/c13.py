"""C13 - Inquiry equality and hash are content-based and process-stable."""
import json
import os
import subprocess
import sys

from .. import core, gen, specs
from ..check import Stream, run_check
from ..core import s_bool
from ..specs import jv, py

STR_POOL = ['', 'a', 'Max', 'é', 'ж', '中', '\U0001f600', 'a"b', 'a\\b', 'a\nb', '\t', '\x01', '\x7f', 'py', 'a b',
            '/', '<tag>', 'null', '0', ' ', '\x1f', '퟿', '￿']
KEYS = ['a', 'b', 'name', 'role', 'id', 'ж', 'Z', 'aa', 'a b', '']
# jsonpickle.tags.RESERVED (4.1.2): string keys like any other as far as the property goes
RESERVED = ['py/bytes', 'py/function', 'py/id', 'py/initargs', 'py/iterator', 'py/mod', 'py/newargs', 'py/newargsex',
            'py/newobj', 'py/object', 'py/property', 'py/reduce', 'py/ref', 'py/repr', 'py/seq', 'py/set', 'py/state',
            'py/tuple', 'py/type']
NEAR_RESERVED = ['py/', 'py', 'py/x', 'py/ids', 'Py/id', 'json://x']


def jvalue(rng, depth):
    r = rng.random()
    if depth <= 0 or r < 0.45:
        k = rng.random()
        if k < 0.08:
            return None
        if k < 0.2:
            return rng.choice([True, False])
        if k < 0.45:
            return rng.choice([0, 1, -1, 7, 10, 255, 2 ** 40, -2 ** 70, 10 ** 20])
        if k < 0.6:
            return rng.choice([0.0, 1.0, -1.0, 0.5, 1.5, 2.25, -0.75, 100.0, 0.015625, 1234.5, 3.0, -0.0 + 2.0])
        return rng.choice(STR_POOL) if rng.random() < 0.8 else gen.string(rng, 5)
    if r < 0.62:
        return [jvalue(rng, depth - 1) for _ in range(rng.randint(0, 3))]
    if r < 0.7:
        return tuple(jvalue(rng, depth - 1) for _ in range(rng.randint(0, 3)))
    d = {}
    for k in rng.sample(KEYS, rng.randint(0, 4)):
        d[k] = jvalue(rng, depth - 1)
    if rng.random() < 0.06:
        d[rng.choice(RESERVED + NEAR_RESERVED)] = jvalue(rng, min(depth - 1, 1))
    return d


def permute(rng, v):
    """the same content with dictionary keys re-ordered at every depth"""
    if isinstance(v, dict):
        items = [(k, permute(rng, x)) for k, x in v.items()]
        rng.shuffle(items)
        return dict(items)
    if isinstance(v, list):
        return [permute(rng, x) for x in v]
    if isinstance(v, tuple):
        return tuple(permute(rng, x) for x in v)
    return v


def mutate(rng, v):
    """a one-point different content"""
    if isinstance(v, dict) and v and rng.random() < 0.7:
        k = rng.choice(list(v))
        w = dict(v)
        if rng.random() < 0.2:
            del w[k]
        else:
            w[k] = mutate(rng, v[k])
        return w
    if isinstance(v, (list, tuple)) and v and rng.random() < 0.7:
        i = rng.randrange(len(v))
        w = list(v)
        w[i] = mutate(rng, v[i])
        return type(v)(w)
    if isinstance(v, list):
        return rng.choice([v + [None], tuple(v), v + ['']])
    if isinstance(v, tuple):
        return rng.choice([v + (None,), list(v)])
    if isinstance(v, dict):
        return {'a': 1}
    if isinstance(v, bool):
        return rng.choice([int(v), not v, None])
    if isinstance(v, int):
        return rng.choice([v + 1, float(v) if abs(v) < 2 ** 50 else -v, str(v)])
    if isinstance(v, float):
        return rng.choice([v + 0.5, int(v) if v == int(v) else v + 1.0])
    if isinstance(v, str):
        return rng.choice([v + 'a', v.upper() if gen.model_safe(v.upper()) and v.upper() != v else v + ' ', v + '\n'])
    return rng.choice([0, '', False, [], {}])


def gen_inquiry(rng):
    def fld():
        return jvalue(rng, rng.choice([0, 1, 2, 3]))
    ctx = {}
    for k in rng.sample(KEYS, rng.randint(0, 3)):
        ctx[k] = jvalue(rng, 2)
    q = {'resource': fld(), 'action': fld(), 'subject': fld(), 'context': ctx if rng.random() < 0.85 else None}
    if rng.random() < 0.2:
        q[rng.choice(['resource', 'action', 'subject'])] = rng.choice([None, '', 0, [], (), False])
    return q


def build(q, alias):
    """Inquiry from a spec; with alias=True equal sub-values are one shared object"""
    from vakt.guard import Inquiry
    vals = {k: py(q[k]) for k in ('resource', 'action', 'subject', 'context')}
    if alias:
        pool = []

        def share(v):
            if isinstance(v, (list, dict)):
                for w in pool:
                    if type(w) is type(v) and w == v and json.dumps(jv(w), sort_keys=True) == json.dumps(jv(v), sort_keys=True):
                        return w
                if isinstance(v, list):
                    v[:] = [share(x) for x in v]
                else:
                    for k in list(v):
                        v[k] = share(v[k])
                pool.append(v)
            return v
        for k in vals:
            vals[k] = share(vals[k])
    return Inquiry(resource=vals['resource'], action=vals['action'], subject=vals['subject'], context=vals['context'])


def _interfere(kind):
    """serialise some other vakt object: the JSON encoder options are process-global, so what another object asked
    for must not leak into the next Inquiry comparison"""
    import vakt
    from vakt.rules.operator import Eq
    from vakt.guard import Inquiry
    if kind == 'policy':
        vakt.Policy(1, subjects=['a'], context={'k': Eq(1)}).to_json()
    elif kind == 'rule':
        Eq({'b': 1, 'a': 2}).to_json()
    elif kind == 'inquiry_unsorted':
        Inquiry(subject={'b': 1, 'a': 2}).to_json()
    elif kind == 'policy_sorted':
        vakt.Policy(1, subjects=['a']).to_json(sort=True)


def observe(c):
    a = build(c['a'], c.get('alias_a', False))
    b = build(c['b'], c.get('alias_b', False))
    if c.get('between'):
        hash(a)
        _interfere(c['between'])
    return '%s %d %d %s ## %s' % (s_bool(a == b), hash(a), hash(b), a.to_json_sorted(), b.to_json_sorted())


HELPER = r'''
import json, sys
sys.path.insert(0, %r)
from harness.checks.c13 import observe
cases = json.load(open(sys.argv[1]))
out = [observe(c) for c in cases]
json.dump(out, open(sys.argv[2], 'w'))
'''


class PairStream(Stream):
    name = 'inquiry_pairs'
    imports = 'From Vakt Require Import Model.Rules Model.Inquiry Harness.RunC13.'
    case_type = 'inquiry * inquiry'
    run_fn = 'run_pair'
    shard = 40
    rule = ('pairs of inquiries over JSON-like values (strings incl. control characters, quotes, non-ASCII and astral '
            'code points; ints incl. big ones; dyadic floats; bools; None; lists; tuples; string-keyed dictionaries '
            'nested to depth 3): the second is a key-order permutation at every depth, a one-point mutation, or '
            'unrelated; each pair is built with fresh sub-objects and again with aliased sub-objects (one shared '
            'list/dict object in several places); compared: ==, both hashes (exact values), both to_json_sorted() '
            'texts; in 30% of the cases another vakt object (Policy, Rule, Inquiry) is serialised - sorted or unsorted - '
            'between two uses of the pair; the whole batch is re-evaluated in three interpreter processes with different PYTHONHASHSEED. '
            'non-trivial = pair with nesting depth >= 2 and a dictionary with >= 2 keys')

    def corpus(self):
        d = {'D': [['a', [1]]]}

        def q(subject):
            return {'resource': 'r', 'action': 'x', 'subject': jv(subject), 'context': None}
        reserved = [
            # entries under a key jsonpickle reserves: content differs, vakt compares (known finding)
            {'a': q({'py/id': 1, 'z': 2}), 'b': q({'py/id': 2, 'z': 2})},
            {'a': q({'py/tuple': [1, 2]}), 'b': q({})},
            {'a': q({'role': {'py/object': 'x'}}), 'b': q({'role': {}})},
            # near misses are ordinary keys
            {'a': q({'py/ids': 1}), 'b': q({'py/ids': 2})},
            {'a': q({'py/': 1}), 'b': q({'py/': 1})},
        ]
        return reserved + [
            {'a': {'resource': d, 'action': 'x', 'subject': d, 'context': None},
             'b': {'resource': d, 'action': 'x', 'subject': d, 'context': None}, 'alias_a': True, 'alias_b': False},
            {'a': {'resource': {'D': [['a', 1], ['b', {'D': [['x', 1], ['y', 2]]}]]}, 'action': '', 'subject': None,
                   'context': None},
             'b': {'resource': {'D': [['b', {'D': [['y', 2], ['x', 1]]}], ['a', 1]]}, 'action': None, 'subject': '',
                   'context': {'D': []}}},
        ]

    def generate(self, rng, tier):
        n = 600 if tier == 'quick' else 9000
        out = list(self.corpus())
        for _ in range(n):
            qa = gen_inquiry(rng)
            r = rng.random()
            if r < 0.4:
                qb = {k: permute(rng, v) for k, v in qa.items()}
            elif r < 0.8:
                qb = dict(qa)
                f = rng.choice(list(qb))
                qb[f] = mutate(rng, qb[f]) if f != 'context' or isinstance(qb[f], dict) else {'a': 1}
                if f == 'context' and not isinstance(qb[f], (dict, type(None))):
                    qb[f] = {'zz': 1}
            else:
                qb = gen_inquiry(rng)
            a = {k: jv(v) for k, v in qa.items()}
            b = {k: jv(v) for k, v in qb.items()}
            al = rng.random() < 0.4
            case = {'a': a, 'b': b, 'alias_a': al, 'alias_b': al and rng.random() < 0.5}
            if rng.random() < 0.3:
                # another JsonSerializer object is dumped between two uses of the inquiries
                case['between'] = rng.choice(['policy', 'rule', 'inquiry_unsorted', 'policy_sorted'])
            out.append(case)
        self._cases = out
        self._multi = None
        return out[len(self.corpus()):]

    def emit(self, c):
        return '(%s, %s)' % (specs.e_inquiry(c['a']), specs.e_inquiry(c['b']))

    def impl(self, c):
        return observe(c)

    def _other_processes(self):
        if self._multi is None:
            work = core.workdir('C13-proc')
            inp = os.path.join(work, 'cases.json')
            json.dump(self._cases, open(inp, 'w'))
            open(os.path.join(work, 'helper.py'), 'w').write(HELPER % core.VERIF)
            res = []
            for seed in ('1', '4242', 'random'):
                outp = os.path.join(work, 'out_%s.json' % seed)
                env = dict(os.environ, PYTHONHASHSEED=seed, PYTHONPATH=core.REPO + ':' + core.VERIF)
                p = subprocess.run(['/venv/bin/python', os.path.join(work, 'helper.py'), inp, outp], env=env,
                                   stdout=subprocess.PIPE, stderr=subprocess.PIPE, text=True, timeout=600)
                if p.returncode != 0:
                    raise RuntimeError('helper process failed: ' + p.stderr[-500:])
                res.append(json.load(open(outp)))
            import shutil
            shutil.rmtree(work, ignore_errors=True)
            self._multi = {core.digest(c): [r[i] for r in res] for i, c in enumerate(self._cases)}
        return self._multi

    def oracle(self, c, obs):
        eq, ha, hb, rest = obs.split(' ', 3)
        same = canonical_content(c['a']) == canonical_content(c['b'])
        if (eq == 'T') != same:
            return 'inquiries with %s content compare %s' % ('the same' if same else 'different',
                                                             'equal' if eq == 'T' else 'unequal')
        if eq == 'T' and ha != hb:
            return 'equal inquiries have different hashes'
        # a JSON round trip gives back an equal inquiry
        from vakt.guard import Inquiry
        for side in ('a', 'b'):
            x = build(c[side], False)
            try:
                y = Inquiry.from_json(x.to_json())
                ok = (y == x) and canonical_content_of(y) == canonical_content(c[side])
            except Exception as e:  # noqa
                return 'JSON round trip of inquiry %s raised %s' % (side, type(e).__name__)
            if not ok:
                return 'inquiry %s does not survive a JSON round trip as an equal inquiry with the same content' % side
        if getattr(self, '_cases', None):
            others = self._other_processes().get(core.digest(c))
            if others:
                for o in others:
                    if o.split(' ', 3)[:3] != [eq, ha, hb]:
                        return 'hash / equality differ between interpreter processes: %s vs %s' % (
                            o.split(' ', 3)[:3], [eq, ha, hb])
        return None

    def nontrivial(self, c, obs):
        def depth(v):
            if isinstance(v, list):
                return 1 + max([depth(x) for x in v] + [0])
            if isinstance(v, dict):
                inner = v.get('D') if 'D' in v else v.get('T')
                if 'D' in v:
                    return 1 + max([depth(x[1]) for x in inner] + [0])
                return 1 + max([depth(x) for x in inner] + [0]) if inner is not None else 0
            return 0

        def big_dict(v):
            if isinstance(v, list):
                return any(big_dict(x) for x in v)
            if isinstance(v, dict):
                if 'D' in v:
                    return len(v['D']) >= 2 or any(big_dict(x[1]) for x in v['D'])
                if 'T' in v:
                    return any(big_dict(x) for x in v['T'])
            return False
        return any(depth(c['a'][k]) >= 2 for k in c['a']) and any(big_dict(c['a'][k]) for k in c['a'])

    def shrink(self, c):
        for f in ('resource', 'action', 'subject', 'context'):
            for side in ('a', 'b'):
                if c[side][f] not in (None, ''):
                    d = dict(c)
                    d['a'] = dict(c['a'], **{f: None})
                    d['b'] = dict(c['b'], **{f: None})
                    yield d
                    break

    def classify(self, c, io, mo):
        def has_reserved(v):
            if isinstance(v, list):
                return any(has_reserved(x) for x in v)
            if isinstance(v, dict):
                if 'D' in v:
                    return any(k in RESERVED or has_reserved(x) for k, x in v['D'])
                return any(has_reserved(x) for x in v.values())
            return False
        if any(has_reserved(c[s][f]) for s in ('a', 'b') for f in ('resource', 'action', 'subject', 'context')):
            return 'jsonpickle-reserved-keys'
        return None

    def describe(self, c):
        return ('import json; from harness.checks.c13 import observe; print(observe(json.loads(%r)))' % json.dumps(c))


def canonical_content(q):
    """content of an inquiry spec after the constructor's normalisation; dict key order irrelevant at any depth"""
    def canon(v):
        if isinstance(v, dict):
            return ('dict', tuple(sorted((k, canon(x)) for k, x in v.items())))
        if isinstance(v, list):
            return ('list', tuple(canon(x) for x in v))
        if isinstance(v, tuple):
            return ('tuple', tuple(canon(x) for x in v))
        if isinstance(v, bool):
            return ('bool', v)
        if isinstance(v, int):
            return ('int', v)
        if isinstance(v, float):
            return ('float', v.hex())
        return (type(v).__name__, v)
    out = []
    for f, default in (('resource', ''), ('action', ''), ('subject', ''), ('context', {})):
        v = py(q[f])
        out.append(canon(v if v else default))
    return tuple(out)


def canonical_content_of(inq):
    """canonical_content of a real Inquiry object"""
    return canonical_content({f: jv(getattr(inq, f)) for f in ('resource', 'action', 'subject', 'context')})


TRUSTED = [
    'Coq 8.16.1 kernel + vm_compute (no native_compute)',
    'Model/Inquiry.v: the canonical JSON text (sorted keys, json.dumps escaping with ensure_ascii, py/tuple '
    'tagging, exact-decimal float repr) and CPython 3.12\'s tuple hash (xxHash variant, 64 bit) - hand-written, '
    'tied by comparing the exact text and the exact hash value on every generated pair',
    'jsonpickle / json are exercised, not modelled; three further interpreter processes with different '
    'PYTHONHASHSEED recompute every pair',
]
ASSUME = ['values are JSON-like (string-keyed dictionaries, no callables); '
          'floats are dyadic rationals whose repr is their exact decimal expansion',
          'injectivity of the canonical text (different content => different text) is validated by the generated '
          'one-point mutations, not proved (C13 partial)']


def main(argv):
    return run_check('C13', [PairStream()], argv, trusted_base=TRUSTED, assumptions=ASSUME,
                     translated=('pin_inquiry', 'pin_util'))


if __name__ == '__main__':
    sys.exit(main(sys.argv[1:]))
