"""C10 - Policy type always reflects its elements; invalid definitions are rejected."""
import sys

from .. import core, gen, specs
from ..check import Stream, run_check
from ..core import e_pstr, e_list, e_bool, s_pstr, s_val, s_exc

NAME_OF_CLASS = {'StringEqualRule': 'Equal', 'RegexMatchRule': 'RegexMatch', 'StringPairsEqualRule': 'PairsEqual',
                 'CIDRRule': 'CIDR', 'BrokenRule': 'Broken', 'ConstRule': 'Const'}


def rule_name(obj):
    from vakt.rules.base import Rule
    if not isinstance(obj, Rule):
        return 'J'
    n = type(obj).__name__
    return NAME_OF_CLASS.get(n, n)


def s_kvs_names(d):
    return '{' + ','.join(s_pstr(k) + ':' + rule_name(v) for k, v in d.items()) + '}'


def s_attr(v):
    from vakt.rules.base import Rule
    if isinstance(v, (list, tuple)):
        o, c = ('[', ']') if isinstance(v, list) else ('(', ')')
        out = []
        for e in v:
            if isinstance(e, str):
                out.append(s_pstr(e))
            elif isinstance(e, Rule):
                out.append('R:' + rule_name(e))
            elif isinstance(e, dict):
                out.append('D' + s_kvs_names(e))
            elif type(e).__module__.endswith('customrules'):
                out.append('B:<%s>' % type(e).__name__)
            else:
                out.append('B:' + s_val(e))
        return o + ','.join(out) + c
    if isinstance(v, dict):
        return 'C' + s_kvs_names(v)
    return s_val(v)


def s_state(p):
    return ';'.join(s_pstr(k) + '=' + s_attr(v) for k, v in vars(p).items())


# aval spec: ["v", scalar jval] | ["seq", tup?, [elemv..]] | ["ctx", [[k, rulespec]..]]
# elemv spec: ["s", str] | ["r", rulespec] | ["d", [[k, rulespec]..]] | ["b", jval]

def mk_aval(a):
    if a[0] == 'v':
        return specs.py(a[1])
    if a[0] == 'seq':
        items = []
        for e in a[2]:
            if e[0] == 's':
                items.append(e[1])
            elif e[0] == 'r':
                items.append(specs.mk_rule(e[1]))
            elif e[0] == 'd':
                items.append({k: specs.mk_rule(r) for k, r in e[1]})
            elif e[0] == 'k':
                from .. import customrules
                items.append(getattr(customrules, e[1])())
            else:
                items.append(specs.py(e[1]))
        return tuple(items) if a[1] else items
    if a[0] == 'ctx':
        return {k: specs.mk_rule(r) for k, r in a[1]}
    raise ValueError(a)


def e_aval(a):
    if a[0] == 'v':
        return '(AV %s)' % specs.ev(a[1])
    if a[0] == 'seq':
        items = []
        for e in a[2]:
            if e[0] == 's':
                items.append('(XStr %s)' % e_pstr(e[1]))
            elif e[0] == 'r':
                items.append('(XRule %s)' % specs.e_rule(e[1]))
            elif e[0] == 'd':
                items.append('(XDict %s)' % specs.e_ctx(e[1]))
            elif e[0] == 'k':
                items.append('(XBad VNone)')       # an object that is neither str, Rule nor dict
            else:
                items.append('(XBad %s)' % specs.ev(e[1]))
        return '(ASeq %s %s)' % (e_bool(a[1]), e_list(items, 'elemv'))
    if a[0] == 'ctx':
        return '(ACtx %s)' % specs.e_ctx(a[1])
    raise ValueError(a)


def small_rule(rng):
    return rng.choice([['Eq', 1], ['Any'], ['Truthy'], ['In', [1, 2]], ['Not', ['Neither']], ['Equal', 'a', False],
                       ['SubjectEqual'], ['And', [['Any'], ['Eq', 'x']]], ['CIDR', '10.0.0.0/8'],
                       ['Broken', 'ValueError'], ['Const', 1]])


def gen_ctx(rng):
    return [[k, small_rule(rng) if rng.random() < 0.85 else ['Junk', rng.choice([1, 'x', None])]]
            for k in rng.sample(['a', 'ip', 'name', 'ж'], rng.randint(0, 3))]


def gen_elem(rng, kind):
    if kind == 's':
        return ['s', rng.choice(['', 'a', '<a>', 'get', '<[a-z]+>', 'x<y', 'Ж'])]
    if kind == 'r':
        return ['r', small_rule(rng)]
    if kind == 'd':
        return ['d', gen_ctx(rng)]
    if rng.random() < 0.3:
        # duck-typed look-alikes: a `satisfied` method does not make an object a Rule
        return ['k', rng.choice(['Duck', 'DuckChild'])]
    return ['b', rng.choice([1, None, 2.5, True, ['x'], {'T': ['a']}])]


def gen_field(rng):
    r = rng.random()
    tup = rng.random() < 0.4
    n = rng.choice([0, 1, 1, 2, 3])
    if r < 0.4:
        return ['seq', tup, [gen_elem(rng, 's') for _ in range(n)]]
    if r < 0.7:
        return ['seq', tup, [gen_elem(rng, rng.choice('rd')) for _ in range(n)]]
    if r < 0.82:
        return ['seq', tup, [gen_elem(rng, rng.choice('srd')) for _ in range(max(n, 2))]]
    if r < 0.92:
        return ['seq', tup, [gen_elem(rng, rng.choice('srdb')) for _ in range(max(n, 1))]]
    return ['v', rng.choice([None, 5, 'abc', '', 2.5, True])]


def gen_ctx_aval(rng, allow_none=False):
    r = rng.random()
    if allow_none and r < 0.35:
        return ['v', None]
    if r < 0.8:
        return ['ctx', gen_ctx(rng)]
    if r < 0.9:
        return ['seq', rng.random() < 0.5, []]
    return ['v', rng.choice([5, 'ctx', 0, '', False])]


def gen_scalar_aval(rng):
    return ['v', rng.choice([None, 1, 'x', 'allow', 'deny', '', 0, 2.5, True])]


EFFECTS = ['allow', 'deny', 'ALLOW', None, '', 0, 'Allow ', 1, 'all', 'w']


def gen_op(rng):
    if rng.random() < 0.1:
        return ['@json', ['v', None]]       # the policy is serialised here (Policy._data works on the live object)
    name = rng.choice(['subjects', 'resources', 'actions', 'subjects', 'actions', 'context', 'effect', 'type',
                       'description', 'uid', 'custom_attr'])
    if name in ('subjects', 'resources', 'actions'):
        return [name, gen_field(rng)]
    if name == 'context':
        return [name, gen_ctx_aval(rng)]
    if name == 'type':
        return [name, ['v', rng.choice([1, 2, None, 'x', 3])]]
    if name == 'effect':
        return [name, ['v', rng.choice(EFFECTS)]]
    return [name, gen_scalar_aval(rng)]


class C10Stream(Stream):
    name = 'policy_state_machine'
    imports = 'From Vakt Require Import Model.Rules Model.Policy Model.Regex Harness.RunC10.'
    case_type = 'case'
    run_fn = 'run'
    rule = ('constructor arguments over str / rule / dict / ill-typed elements in lists or tuples (or plain '
            'values), then 0-8 attribute assignments incl. invalid ones, direct type assignments and serialisations (to_json); after every '
            'step vars(policy) is compared with the model state. non-trivial = construction succeeds and at '
            'least one later assignment is rejected and one accepted; distinct by canonical JSON of the case')

    def corpus(self):
        return [
            {'ctor': {'uid': ['v', 1], 'subjects': ['seq', False, [['s', 'a']]], 'effect': ['v', 'allow'],
                      'resources': ['seq', True, []], 'actions': ['seq', False, [['s', '<b>']]],
                      'context': ['v', None], 'rules': ['v', None], 'description': ['v', None]},
             'ops': [['subjects', ['seq', False, [['r', ['Any']]]]], ['type', ['v', 2]],
                     ['context', ['seq', False, []]]]},
        ]

    def generate(self, rng, tier):
        n = 600 if tier == 'quick' else 6000
        for _ in range(n):
            base_kind = rng.random()
            ctor = {'uid': gen_scalar_aval(rng), 'subjects': gen_field(rng),
                    'effect': ['v', rng.choice(EFFECTS)],
                    'resources': gen_field(rng), 'actions': gen_field(rng),
                    'context': gen_ctx_aval(rng, allow_none=True),
                    'rules': rng.choice([['v', None], ['v', None], ['ctx', gen_ctx(rng)], ['ctx', []]]),
                    'description': gen_scalar_aval(rng)}
            if base_kind < 0.6:
                # make construction likely to succeed: homogeneous fields
                kind = rng.choice(['s', 'rd'])
                for f in ('subjects', 'resources', 'actions'):
                    ctor[f] = ['seq', rng.random() < 0.4,
                               [gen_elem(rng, rng.choice(kind)) for _ in range(rng.choice([0, 1, 2]))]]
                if ctor['context'][0] != 'ctx' and ctor['context'] != ['v', None]:
                    ctor['context'] = ['ctx', gen_ctx(rng)]
            ops = [gen_op(rng) for _ in range(rng.choice([0, 1, 2, 3, 4, 6, 8]))]
            case = {'ctor': ctor, 'ops': ops}
            if rng.random() < 0.25:
                # the convenience subclasses: the same constructor with the effect fixed and no `rules` argument
                case['cls'] = rng.choice(['PolicyAllow', 'PolicyDeny'])
                ctor['effect'] = ['v', 'allow' if case['cls'] == 'PolicyAllow' else 'deny']
                ctor['rules'] = ['v', None]
                if rng.random() < 0.5:
                    ctor['context'] = rng.choice([['v', None], ['seq', False, []], ['seq', True, []], ['v', ''],
                                                  ['v', 0], ['v', False], ['ctx', []], ['v', 5]])
            yield case
        if tier == 'thorough':
            # exhaustive: all assignment sequences of length <= 3 over a 10-assignment alphabet
            alpha = [['subjects', ['seq', False, [['s', 'a']]]], ['subjects', ['seq', True, [['r', ['Any']]]]],
                     ['actions', ['seq', False, [['d', [['k', ['Eq', 1]]]]]]], ['actions', ['seq', False, []]],
                     ['resources', ['seq', False, [['s', 'x'], ['r', ['Any']]]]], ['resources', ['v', 5]],
                     ['context', ['v', 5]], ['context', ['ctx', []]], ['type', ['v', 2]],
                     ['subjects', ['seq', False, [['b', 1]]]]]
            base = self.corpus()[0]['ctor']
            import itertools
            for L in range(0, 4):
                for seq in itertools.product(alpha, repeat=L):
                    yield {'ctor': base, 'ops': [list(x) for x in seq]}

    def emit(self, c):
        a = c['ctor']
        args = ('{| c_uid := %s; c_subjects := %s; c_effect := %s; c_resources := %s; c_actions := %s; '
                'c_context := %s; c_rules := %s; c_description := %s |}' % tuple(
                    e_aval(a[k]) for k in ('uid', 'subjects', 'effect', 'resources', 'actions', 'context', 'rules',
                                           'description')))
        ops = e_list(['(%s, %s)' % (e_pstr(n), e_aval(v)) for n, v in c['ops']], '(pstr * aval)')
        return '{| cargs := %s; ops := %s |}' % (args, ops)

    def impl(self, c):
        import warnings
        from vakt.policy import Policy, PolicyAllow, PolicyDeny
        a = c['ctor']
        try:
            with warnings.catch_warnings():
                warnings.simplefilter('ignore')
                if c.get('cls') in ('PolicyAllow', 'PolicyDeny'):
                    klass = PolicyAllow if c['cls'] == 'PolicyAllow' else PolicyDeny
                    p = klass(mk_aval(a['uid']), subjects=mk_aval(a['subjects']), resources=mk_aval(a['resources']),
                              actions=mk_aval(a['actions']), context=mk_aval(a['context']),
                              description=mk_aval(a['description']))
                else:
                        p = Policy(mk_aval(a['uid']), subjects=mk_aval(a['subjects']), effect=mk_aval(a['effect']),
                               resources=mk_aval(a['resources']), actions=mk_aval(a['actions']),
                               context=mk_aval(a['context']), rules=mk_aval(a['rules']),
                               description=mk_aval(a['description']))
        except Exception as e:  # noqa
            return s_exc(e)
        out = ['ok ' + s_state(p)]
        for n, v in c['ops']:
            try:
                if n == '@json':
                    p.to_json()
                else:
                    setattr(p, n, mk_aval(v))
                out.append('ok ' + s_state(p))
            except Exception as e:  # noqa
                out.append(s_exc(e) + ' ' + s_state(p))
        return ' | '.join(out)

    def oracle(self, c, obs):
        """spec oracle on the observation alone: after every step the reported type equals the type implied
        by the current elements; a rejected step leaves the state text unchanged; type never settable."""
        if obs.startswith(('E:', 'B:')):
            return None
        steps = obs.split(' | ')
        prev = None
        for k, s in enumerate(steps):
            status, _, state = s.partition(' ')
            attrs = dict(x.split('=', 1) for x in state.split(';')) if state else {}
            if status != 'ok' and prev is not None and state != prev:
                return 'rejected assignment changed the policy (step %d)' % k
            # implied type
            n_all = n_str = n_rule = 0
            for f in ('subjects', 'resources', 'actions'):
                v = attrs.get(s_pstr(f))
                if v is None:
                    continue
                if v[:1] in '[(':
                    inner = v[1:-1]
                    items = split_top(inner)
                elif v.startswith("'"):
                    items = ['s'] * (len(v) - 1)
                elif v.startswith('s'):
                    items = ['s'] * (0 if v == 's' else len(v[1:].split('.')))
                else:
                    items = []
                for it in items:
                    n_all += 1
                    if it.startswith(('s', "'")):
                        n_str += 1
                    elif it.startswith(('R:', 'D')):
                        n_rule += 1
            t = attrs.get(s_pstr('type'))
            want = 'i1' if (n_all == n_str or n_all == 0) else ('i2' if n_all == n_rule else None)
            if want is None:
                return 'policy holds mixed or ill-typed elements (step %d)' % k
            if t != want:
                return 'reported type %s differs from implied type %s (step %d)' % (t, want, k)
            ctx = attrs.get(s_pstr('context'))
            if ctx is not None and not ctx.startswith('C'):
                return 'non-dictionary context accepted (step %d)' % k
            prev = state
        return None

    def nontrivial(self, c, obs):
        if obs.startswith(('E:', 'B:')):
            return False
        steps = obs.split(' | ')[1:]
        return any(s.startswith('ok') for s in steps) and any(not s.startswith('ok') for s in steps)

    def shrink(self, c):
        for i in range(len(c['ops'])):
            yield {'ctor': c['ctor'], 'ops': c['ops'][:i] + c['ops'][i + 1:]}

    def describe(self, c):
        return ('from harness.checks.c10 import C10Stream; import json; '
                'print(C10Stream().impl(json.loads(%r)))' % __import__('json').dumps(c))


def split_top(s):
    out, depth, cur = [], 0, ''
    for ch in s:
        if ch in '[({':
            depth += 1
        elif ch in '])}':
            depth -= 1
        if ch == ',' and depth == 0:
            out.append(cur)
            cur = ''
        else:
            cur += ch
    if cur:
        out.append(cur)
    return out


TRUSTED = [
    'Coq 8.16.1 kernel + vm_compute (no native_compute)',
    'coq/Model/Policy.v hand-written model of Policy.__init__/__setattr__/_check_field_type/_calculate_type, '
    'tied to /repo/vakt/policy.py by this correspondence run (vars(policy) after every step)',
    'harness emitters/renderers (harness/specs.py, harness/checks/c10.py) and Base/Show.v',
]
ASSUME = ['in-place mutation of a field list bypasses __setattr__ and is outside the property',
          'attribute values are restricted to the modelled universe (no user classes with custom __iter__)']


def main(argv):
    return run_check('C10', [C10Stream()], argv, trusted_base=TRUSTED, assumptions=ASSUME,
                     translated=('policy', 'on_generated', 'pin_rules', 'pin_util'))


if __name__ == '__main__':
    sys.exit(main(sys.argv[1:]))
