"""C16 - A decision is a pure function of the policy set and the inquiry."""
import sys

from .. import gen, specs, guardlib
from ..check import Stream, run_check
from ..core import s_bool, s_exc, e_list

CAPS = [1024, None, 0, 1, 2]


def ask_sequence(c, cache_size=1024, storage='memory'):
    """-> (answers, policy snapshots before/after equal?, inquiry snapshots equal?)"""
    from vakt.guard import Guard
    from vakt.storage.memory import MemoryStorage
    pols = [specs.mk_policy(p) for p in c['policies']]
    for i, f in c.get('tuples', ()):
        if i < len(pols):
            setattr(pols[i], f, tuple(getattr(pols[i], f)))      # element collections given as tuples
    st = MemoryStorage()
    for p in pols:
        st.add(p)
    if c.get('mode') == 'cached_reuse':
        return ask_reusing_one_inquiry(c, st, pols, cache_size)
    g = Guard(st, specs.mk_checker(c['checker'], cache_size))
    inqs = [specs.mk_inquiry(q) for q in c['inquiries']]
    before_p = [guardlib.snapshot_policy(p) for p in pols]
    before_q = [guardlib.snapshot_inquiry(q) for q in inqs]
    answers = []
    exported = False
    for k in c['order']:
        if k < 0:
            # a read-only use of the policy set between two asks: every stored policy is serialised (an export, an audit
            # dump, a copy to another store).  The policy set is unchanged, so the answers must be.
            for p in st.policies.values():
                p.to_json()
            exported = True
            continue
        try:
            r = g.is_allowed(inqs[k])
            answers.append(s_bool(r) if (r is True or r is False) else '<%r>' % (r,))
        except BaseException as e:  # noqa
            answers.append(s_exc(e))
    after_p = [guardlib.snapshot_policy(p) for p in st.policies.values()]
    after_q = [guardlib.snapshot_inquiry(q) for q in inqs]
    # to_json turns a tuple-valued field of the live object into a list (by design): snapshots carry types, so after an
    # export only the answers and the inquiries are compared
    return answers, exported or before_p == after_p, before_q == after_q


FIELDS = (('subjects', 'subject'), ('resources', 'resource'), ('actions', 'action'))


def mixed_tags(rng, pols, inqs):
    """one policy set, two delimiter pairs: a string policy gets a twin of another Policy class (other tags) holding the
    very same phrases; one phrase ends in the twin's closing tag, so it is balanced for one class and malformed for
    the other.  What one class makes of a phrase must not leak into what the other makes of it."""
    import copy
    alt = rng.choice([['{', '}'], ['{', '}'], ['«', '»']])
    cands = [i for i, p in enumerate(pols) if p.get('tags', ['<', '>']) == ['<', '>'] and
             all(e[0] == 's' for f, _ in FIELDS for e in p[f]) and any(p[f] for f, _ in FIELDS)]
    if not cands:
        return
    i = rng.choice(cands)
    p = pols[i]
    f, name = rng.choice([(f, n) for f, n in FIELDS if p[f]])
    j = rng.randrange(len(p[f]))
    p[f] = list(p[f])
    p[f][j] = ['s', p[f][j][1] + alt[1]]
    twin = copy.deepcopy(p)
    twin['uid'] = 'twin%d' % i
    twin['tags'] = alt
    twin['effect'] = rng.choice(['allow', 'deny'])
    pols.insert(i + rng.choice([0, 1]), twin)
    for q in inqs:
        if isinstance(q.get(name), str) and rng.random() < 0.7:
            q[name] = q[name] + alt[1]


def ask_reusing_one_inquiry(c, st, pols, cache_size):
    """a guard with the decision cache; ONE long-lived Inquiry object whose fields are overwritten before every question
    (a request object that is recycled): asking must leave nothing on the inquiry that a later answer depends on"""
    from vakt.cache import create_cached_guard
    g = create_cached_guard(st, specs.mk_checker(c['checker'], cache_size), maxsize=16)[0]
    before_p = [guardlib.snapshot_policy(p) for p in pols]
    shared = None
    answers, same_q = [], True
    for k in c['order']:
        inq = specs.mk_inquiry(c['inquiries'][k])
        if shared is None:
            shared = inq
        else:
            shared.resource, shared.action = inq.resource, inq.action
            shared.subject, shared.context = inq.subject, inq.context
        want = guardlib.snapshot_inquiry(inq)
        try:
            r = g.is_allowed(shared)
            answers.append(s_bool(r) if (r is True or r is False) else '<%r>' % (r,))
        except BaseException as e:  # noqa
            answers.append(s_exc(e))
        same_q = same_q and guardlib.snapshot_inquiry(shared) == want
    after_p = [guardlib.snapshot_policy(p) for p in st.policies.values()]
    return answers, before_p == after_p, same_q


class HistoryStream(Stream):
    name = 'inquiry_histories'
    imports = guardlib.GUARD_IMPORTS
    case_type = 'hcase'
    run_fn = 'run_history'
    rule = ('a fixed generated policy set, a pool of 2-5 inquiries, and a sequence (<= 12 quick / 25 thorough) of '
            'asks with repeats, per checker (every fifth history through a cached guard with one recycled Inquiry object; every fifth with tuple-valued policy fields and the stored policies serialised with to_json between two asks); every answer is compared with the model and (oracle) with a fresh '
            'guard asked only that inquiry, for regex compile-cache capacities 1024/None/0/1/2; deep snapshots '
            '(types included) of stored policies and inquiries before/after. non-trivial = sequence with a '
            'repeated inquiry and both answers occurring')

    def corpus(self):
        def pol(uid, eff, actions, tags=('<', '>')):
            return {'uid': uid, 'effect': eff, 'subjects': [['s', 'Max']], 'resources': [['s', 'r']],
                    'actions': [['s', a] for a in actions], 'context': [], 'description': None, 'tags': list(tags)}
        out = []
        # a malformed element followed by one that fits: whatever the first evaluation makes of the malformed one, the
        # later evaluations must make the same of it
        q = {'resource': 'r', 'action': 'a', 'subject': 'Max', 'context': None}
        alt = ['alt', ['chr', 97], ['chr', 98]]
        for eff in ('allow', 'deny'):
            out.append({'checker': 'CRegex', 'policies': [pol('m1', eff, ['<a', '<a|b>'])], 'rxtable': [['a|b', alt]],
                        'inquiries': [q, dict(q, action='b')], 'order': [0, 0, 1, 0]})
        # one phrase under two delimiter pairs: balanced for '<' '>' (a group and a literal '}'), malformed for '{' '}'
        phrase = 'tpl:<[a-c]>}'
        cls_ = ['cls', False, [[97, 99]]]
        q2 = dict(q, action='tpl:a}')
        for first, second in ((('<', '>'), ('{', '}')), (('{', '}'), ('<', '>'))):
            out.append({'checker': 'CRegex', 'rxtable': [['[a-c]', cls_]], 'inquiries': [q2, dict(q2, action='tpl:z}')],
                        'policies': [pol('t1', 'allow', [phrase], first), pol('t2', 'allow', [phrase], second)],
                        'order': [0, 0, 1, 0]})
        return out

    def generate(self, rng, tier):
        n = 500 if tier == 'quick' else 5000
        maxlen = 12 if tier == 'quick' else 25
        for k in range(n):
            ck = specs.CHECKERS[k % 4]
            sc = gen.scenario(rng, ck, illtyped=0.03)
            inqs = [sc['inquiry']]
            table = list(sc['rxtable'])
            for _ in range(rng.randint(1, 4)):
                sc2 = gen.scenario(rng, ck, n_policies=0)
                q = dict(sc['inquiry'])
                # vary one or two fields, keep the others (so that answers differ along the sequence)
                for f in rng.sample(['resource', 'action', 'subject', 'context'], rng.choice([1, 1, 2])):
                    q[f] = sc2['inquiry'][f] if rng.random() < 0.5 else specs.jv(gen.word(rng))
                if not isinstance(specs.py(q['context']), (dict, type(None))):
                    q['context'] = None
                inqs.append(q)
            order = [rng.randrange(len(inqs)) for _ in range(rng.randint(2, maxlen))]
            if ck == 'CRegex' and rng.random() < 0.3:
                mixed_tags(rng, sc['policies'], inqs)
            case = {'checker': ck, 'policies': sc['policies'], 'rxtable': table, 'inquiries': inqs, 'order': order}
            if k % 5 == 4:
                case['mode'] = 'cached_reuse'
            elif k % 5 == 2 and sc['policies']:
                # tuple-valued fields, and the stored policies serialised somewhere along the history
                case['tuples'] = [[i, f] for i in range(len(sc['policies'])) for f in ('subjects', 'resources', 'actions')
                                  if rng.random() < 0.5]
                for _ in range(rng.choice([1, 1, 2])):
                    order.insert(rng.randrange(1, len(order) + 1), -1)
            yield case

    def emit(self, c):
        qs = [specs.e_inquiry(c['inquiries'][k]) for k in c['order'] if k >= 0]
        return '{| h_ck := %s; h_table := %s; h_pols := %s; h_inqs := %s |}' % (
            c['checker'], guardlib.e_table(c['rxtable']),
            e_list([specs.e_policy(p) for p in c['policies']], '(option policy)'), e_list(qs, 'inquiry'))

    def impl(self, c):
        return ','.join(ask_sequence(c)[0])

    def oracle(self, c, obs):
        ans, same_p, same_q = ask_sequence(c)
        if not same_p:
            return 'asking for decisions modified a stored policy'
        if not same_q:
            return 'asking for decisions modified an inquiry'
        fresh = {}
        asks = [k for k in c['order'] if k >= 0]
        for k in set(asks):
            fresh[k] = ask_sequence(dict(c, order=[k], mode=None))[0][0]
        for pos, k in enumerate(asks):
            if ans[pos] != fresh[k]:
                return ('answer %d (inquiry #%d) is %s after this history but %s on a fresh guard'
                        % (pos, k, ans[pos], fresh[k]))
        for cap in CAPS[1:]:
            a2 = ask_sequence(c, cap)[0]
            if a2 != ans:
                return 'answers depend on the regex compile-cache capacity %r: %s vs %s' % (cap, a2, ans)
        return None

    def nontrivial(self, c, obs):
        a = obs.split(',')
        asks = [k for k in c['order'] if k >= 0]
        return len(set(asks)) < len(asks) and 'T' in a and 'F' in a

    def shrink(self, c):
        o = c['order']
        for i in range(len(o)):
            if len([k for k in o[:i] + o[i + 1:] if k >= 0]) >= 1:
                yield dict(c, order=o[:i] + o[i + 1:])
        ps = c['policies']
        for i in range(len(ps)):
            yield dict(c, policies=ps[:i] + ps[i + 1:])

    def describe(self, c):
        return ('import json; from harness.checks.c16 import ask_sequence; '
                'print(ask_sequence(json.loads(%r)))' % __import__('json').dumps(c))


TRUSTED = [
    'Coq 8.16.1 kernel + vm_compute (no native_compute)',
    'Model/Guard.v decide (stateless by construction) and Model/Lru.v (functools.lru_cache as a state machine), '
    'tied by the inquiry_histories stream: the model answers each inquiry independently, the real guard is '
    'asked the whole sequence',
    'deep snapshots by harness/specs.s_any (types included)',
]
ASSUME = ['custom checkers / rules that keep state of their own are outside the universe',
          'SQL-backed stores are exercised by the storage checks (C07/C08)']


def main(argv):
    return run_check('C16', [HistoryStream()], argv, trusted_base=TRUSTED, assumptions=ASSUME,
                     translated=('checker', 'parser', 'guard', 'policy', 'rules', 'pin_inquiry', 'pin_rules', 'pin_util'))


if __name__ == '__main__':
    sys.exit(main(sys.argv[1:]))
